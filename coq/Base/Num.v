(* Decimal integers as Go's strconv prints and parses them (base 10, int64). *)
From Coq Require Import List NArith ZArith Lia Bool.
From RareV Require Import Base.Hex.
Import ListNotations.
Local Open Scope N_scope.

Definition is_digit (b : N) : bool := (48 <=? b) && (b <=? 57).

(* most significant digit first; fuel = number of bits + 1 >= number of decimal digits *)
Fixpoint digits_fuel (fuel : nat) (n : N) (acc : bytes) : bytes :=
  match fuel with
  | O => acc
  | S f => let acc' := (48 + n mod 10) :: acc in
           if n <? 10 then acc' else digits_fuel f (n / 10) acc'
  end.
Definition utoa (n : N) : bytes := digits_fuel (S (N.size_nat n)) n [].

(* strconv.FormatInt(z, 10) / strconv.Itoa *)
Definition itoa (z : Z) : bytes :=
  match z with
  | Z0 => [48]
  | Zpos p => utoa (Npos p)
  | Zneg p => 45 :: utoa (Npos p)
  end.

Fixpoint udec (acc : N) (l : bytes) : option N :=
  match l with
  | [] => Some acc
  | b :: r => if is_digit b then udec (acc * 10 + (b - 48)) r else None
  end.

Definition min_int64 : Z := (- 2 ^ 63)%Z.
Definition max_int64 : Z := (2 ^ 63 - 1)%Z.
Definition in_int64 (z : Z) : bool := (min_int64 <=? z)%Z && (z <=? max_int64)%Z.
Definition max_uint64 : N := 2 ^ 64 - 1.

(* strconv.ParseInt(s, 10, 64) / strconv.Atoi on a 64-bit platform: [+-]?[0-9]+ within range *)
Definition atoi (s : bytes) : option Z :=
  let '(neg, ds) := match s with
                    | 45 :: r => (true, r)
                    | 43 :: r => (false, r)
                    | _ => (false, s)
                    end in
  match ds with
  | [] => None
  | _ => match udec 0 ds with
         | None => None
         | Some n => let z := if neg then (- Z.of_N n)%Z else Z.of_N n in
                     if in_int64 z then Some z else None
         end
  end.

(* strconv.ParseUint(s, 10, 64): [0-9]+ within range, no sign *)
Definition atou (s : bytes) : option N :=
  match s with
  | [] => None
  | _ => match udec 0 s with
         | Some n => if n <=? max_uint64 then Some n else None
         | None => None
         end
  end.

(* 64-bit two's complement wrap-around, used only where the Go code can overflow *)
Definition wrap64 (z : Z) : Z := ((z + 2 ^ 63) mod 2 ^ 64 - 2 ^ 63)%Z.
