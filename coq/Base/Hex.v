(* Byte strings as [list N]; case files carry them hex-encoded (lower case) in Coq string literals. *)
From Coq Require Import List NArith String Ascii Bool.
Import ListNotations.
Local Open Scope N_scope.

Definition byte := N.
Definition bytes := list N.

Definition hexval (a : ascii) : N :=
  let n := N_of_ascii a in if n <? 58 then n - 48 else n - 87.

Fixpoint unhex (s : string) : bytes :=
  match s with
  | String a (String b r) => (16 * hexval a + hexval b) :: unhex r
  | _ => []
  end.

Definition hexdigit (n : N) : ascii :=
  ascii_of_N (if n <? 10 then n + 48 else n + 87).

Fixpoint tohex (l : bytes) : string :=
  match l with
  | [] => EmptyString
  | b :: r => String (hexdigit (b / 16)) (String (hexdigit (b mod 16)) (tohex r))
  end.

Fixpoint bytes_eqb (a b : bytes) : bool :=
  match a, b with
  | [], [] => true
  | x :: a', y :: b' => (x =? y) && bytes_eqb a' b'
  | _, _ => false
  end.

Lemma bytes_eqb_eq a : forall b, bytes_eqb a b = true <-> a = b.
Proof.
  induction a as [|x a IH]; intros [|y b]; cbn; split; intros H; try reflexivity; try discriminate.
  - apply andb_true_iff in H as [H1 H2]. apply N.eqb_eq in H1. apply IH in H2. congruence.
  - inversion H; subst. rewrite N.eqb_refl. cbn. apply IH. reflexivity.
Qed.

Fixpoint list_eqb {A} (eqb : A -> A -> bool) (a b : list A) : bool :=
  match a, b with
  | [], [] => true
  | x :: a', y :: b' => eqb x y && list_eqb eqb a' b'
  | _, _ => false
  end.

Lemma list_eqb_eq {A} (eqb : A -> A -> bool) :
  (forall x y, eqb x y = true <-> x = y) ->
  forall a b, list_eqb eqb a b = true <-> a = b.
Proof.
  intros He. induction a as [|x a IH]; intros [|y b]; cbn; split; intros H; try reflexivity; try discriminate.
  - apply andb_true_iff in H as [H1 H2]. apply He in H1. apply IH in H2. congruence.
  - inversion H; subst. apply andb_true_iff. split; [apply He | apply IH]; reflexivity.
Qed.

Definition of_str (s : string) : bytes := map N_of_ascii (list_ascii_of_string s).
