(* Go partiality: functions that model code which can panic return [result]. *)
Inductive result (A : Type) := Ok (a : A) | Panic.
Arguments Ok {A} a.
Arguments Panic {A}.

Definition rbind {A B} (r : result A) (f : A -> result B) : result B :=
  match r with Ok a => f a | Panic => Panic end.
Definition rmap {A B} (f : A -> B) (r : result A) : result B :=
  match r with Ok a => Ok (f a) | Panic => Panic end.
Definition is_ok {A} (r : result A) : bool := match r with Ok _ => true | Panic => false end.
Notation "x <- r ;; k" := (rbind r (fun x => k)) (at level 61, r at next level, right associativity).
