(* Glue for C05 cases: the real RunAggregationLoop with a monitoring aggregator and render probe. *)
From Coq Require Import List NArith ZArith Bool Arith String.
From RareV Require Import Base.Hex Base.Res Model.Lines Model.Batch Model.Pipeline Model.Ctx Model.Extract Corr.Run Corr.PipeCase.
Import ListNotations.

(* events in the order of one global atomic sequence counter *)
Inductive mev :=
| SIn | SOut                                        (* Aggregator.Sample entered / left *)
| RIn                                               (* writeOutput entered *)
| ROut (snap : list (bytes * N)) (matched : N).     (* writeOutput left; what it saw: per-key counts, MatchedLines() *)

Record mout := { m_completed : bool; m_events : list mev; m_races : N (* data-race reports of the -race stress run *) }.

Definition snp (kvs : list (string * N)) : list (bytes * N) := map (fun p => (unhex (fst p), snd p)) kvs.

(* no render while a sample is in progress and vice versa: every entry is immediately followed by its exit *)
Fixpoint bracketed (es : list mev) : bool :=
  match es with
  | [] => true
  | SIn :: SOut :: r => bracketed r
  | RIn :: ROut _ _ :: r => bracketed r
  | _ => false
  end.
Fixpoint last_render (es : list mev) (acc : option (list (bytes * N) * N)) : option (list (bytes * N) * N) :=
  match es with
  | [] => acc
  | ROut s m :: r => last_render r (Some (s, m))
  | _ :: r => last_render r acc
  end.
(* nothing is sampled after the final render started: the event list ends with RIn, ROut *)
Definition ends_with_render (es : list mev) : bool :=
  match rev es with ROut _ _ :: RIn :: _ => true | _ => false end.

Definition count_key (k : bytes) (ks : list bytes) : N := N.of_nat (List.length (filter (bytes_eqb k) ks)).
Definition lookup_snap (k : bytes) (s : list (bytes * N)) : N :=
  match find (fun p => bytes_eqb (fst p) k) s with Some (_, c) => c | None => 0%N end.
Definition snap_total (s : list (bytes * N)) : N := fold_right (fun p a => (snd p + a)%N) 0%N s.

(* the final render shows exactly the reference counts *)
Definition final_exact (keys : list bytes) (s : list (bytes * N)) : bool :=
  forallb (fun p => (snd p =? count_key (fst p) keys)%N && (0 <? snd p)%N) s &&
  (snap_total s =? N.of_nat (List.length keys))%N &&
  forallb (fun k => (0 <? lookup_snap k s)%N) keys.
(* an intermediate render: every count at most the final one, matched total at least the sum shown *)
Definition snap_ok (final : list (bytes * N)) (s : list (bytes * N)) (matched : N) : bool :=
  forallb (fun p => (snd p <=? lookup_snap (fst p) final)%N) s && (snap_total s <=? matched)%N.
Fixpoint all_snaps_ok (final : list (bytes * N)) (es : list mev) : bool :=
  match es with
  | [] => true
  | ROut s m :: r => snap_ok final s m && all_snaps_ok final r
  | _ :: r => all_snaps_ok final r
  end.
Definition samples (es : list mev) : N := N.of_nat (List.length (filter (fun e => match e with SIn => true | _ => false end) es)).

Definition C05_check (i : pin) (o : mout) : bool :=
  let r := ref_of i in
  let keys := map e_key (s_matches r) in
  cfg_pos i && negb (s_panic r) && m_completed o &&
  (m_races o =? 0)%N &&
  bracketed (m_events o) && ends_with_render (m_events o) &&
  (samples (m_events o) =? s_matched r)%N &&
  match last_render (m_events o) None with
  | Some (fin, matched) =>
      final_exact keys fin && (matched =? s_matched r)%N && all_snaps_ok fin (m_events o)
  | None => false
  end.
Definition mm := mismatches_check C05_check.
