(* Glue between generated C08 case files and the models (Model/NoCrash.v). *)
From Coq Require Import List NArith ZArith Bool String.
From RareV Require Import Base.Hex Base.Res Base.Num Model.Funcs Model.NoCrash Corr.Run.
Import ListNotations.

(* arguments of a flat call: k = constant of the template, g = match group (hex of the value) *)
Definition k (v : string) : arg := A true (unhex v) None.
Definition g (v : string) : arg := A false (unhex v) None.

(* observed outcomes *)
Definition oO (s : string) : outcome := RetOk (unhex s).   (* returned this string *)
Definition oR : outcome := RetOk [].                       (* returned (string not shipped) *)
Definition oP : outcome := RetPanic.                       (* recovered panic / fatal error *)
Definition oH : outcome := RetHang.                        (* watchdog: no answer in time *)

(* cf name args color.Enabled UnicodeEnabled blocks observed: one call of a helper with an output model *)
Definition cf (n : string) (args : list arg) (col uni : bool) (blocks : Z) (o : outcome) : ccase * outcome :=
  (CFlat n args (mkOrc [] col uni blocks), o).
(* ca observed: any other template -- the models only predict that it returns *)
Definition ca (o : outcome) : ccase * outcome := (CAny, o).

(* cr values observed: {@range ..} on these values (hex); ci observed: an @for that never ends by its condition *)
Definition cr (vs : list string) (o : outcome) : ccase * outcome := (CRange (map unhex vs), o).
(* cacc sample idx observed: {idx} evaluated as accumulator / group expression on one sample *)
Definition cacc (m : string) (idx : Z) (o : outcome) : ccase * outcome := (CAcc (unhex m) idx, o).
Definition ci (o : outcome) : ccase * outcome := (CInf, o).

Definition model (i : ccase) : outcome := predict i.
Definition oeqb : outcome -> outcome -> bool := outcome_eqb.
Definition check (i : ccase) (o : outcome) : bool := C08_check i o.
Definition mm := mismatches model oeqb check.
