(* Glue between generated C14 case files and the models (Model/Scale.v, Model/Render.v). *)
From Coq Require Import List NArith ZArith QArith Qround Bool.
From RareV Require Import Base.Hex Base.Num Base.Res Gen.GenPalette Model.Scale Model.Render Model.Humanize Corr.Run Proofs.RenderHisto.
Import ListNotations.
Local Open Scope Z_scope.

(* a float64 value m * 2^e as the rational it denotes *)
Definition dy (mt e : Z) : Q :=
  if 0 <=? e then inject_Z (mt * 2 ^ e) else Qred (Qmake mt (Z.to_pos (2 ^ (- e)))).

(* the scaler: linear is computed; the logarithmic ones enter pre-evaluated (math.Log2/Log10 and
   math.Pow trusted): mapVal(float64(x)) for every x the case needs, ScaleKeys(6,mn,mx) for every
   (mn,mx) the case renders a legend for *)
Inductive mapper := MLin | MTab (t : list (Z * Q)) (kt : list (Z * Z * list Z)).
Definition m_of (mp : mapper) : Z -> Q :=
  match mp with MLin => fun x => round53 (inject_Z x) | MTab t _ => fun x => zlookup x t end.
Fixpoint klookup (mn mx : Z) (kt : list (Z * Z * list Z)) : list Z :=
  match kt with
  | [] => []
  | (a, b, ks) :: r => if (a =? mn) && (b =? mx) then ks else klookup mn mx r
  end.
Definition keys_of (mp : mapper) : Z -> Z -> list Z :=
  match mp with
  | MLin => fun mn mx => scale_keys (m_of MLin) round53 (fun q => q) 6 mn mx
  | MTab _ kt => fun mn mx => klookup mn mx kt
  end.
(* the formatter: Passthru, Default (humanize), or a --format expression of literal text and the
   references {0}/{val}, {1}/{min}, {2}/{max} (termformat.FromExpression; the expression compiler
   itself belongs to C09/C10) *)
Inductive piece := PLit (s : str) | PRef (k : N).
Inductive fspec := FPass | FHuman | FTmpl (ps : list piece).
Definition fmt_of (f : fspec) (v mn mx : Z) : str :=
  match f with
  | FPass => itoa v
  | FHuman => humanize_int v
  | FTmpl ps => concat (map (fun p => match p with
                                      | PLit s => s
                                      | PRef 0%N => itoa v
                                      | PRef 1%N => itoa mn
                                      | PRef _ => itoa mx
                                      end) ps)
  end.

Record cfg := mkCfg { c_col : bool; c_uni : bool; c_mp : mapper; c_fk : fspec }.

(* one Heatmap driven as cmd/heatmap.go drives it: UpdateMinMax and WriteTable calls, each with the
   Scaler and Formatter assigned to the public fields AT THAT MOMENT *)
Inductive heat_op :=
| HoUpd (mp : mapper) (f : fspec) (mn mx : Z)
| HoTab (mp : mapper) (f : fspec) (a : agg).

Inductive cin :=
| IScale (mp : mapper) (mn mx : Z) (vs : list Z)       (* Scaler.Scale on ascending vs *)
| IKeys (mn mx : Z)                                     (* ScalerLinear.ScaleKeys(6, mn, mx) *)
| IBucket (n : Z) (us : list Q)                         (* termscaler.Bucket *)
| ILength (n : Z) (us : list Q)                         (* termscaler.LengthVal, ascending us *)
| IBarW (uni : bool) (len : Z) (us : list Q)            (* termunicode.BarWrite, ascending us *)
| IStack (col uni : bool) (maxVal maxLen : Z) (vals : list Z)
| IHeatC (col uni : bool) (us : list Q)
| ISparkC (uni : bool) (us : list Q)
| ITable (col : bool) (maxc maxr : nat) (ops : list tw_op)
| IHisto (c : cfg) (maxLines : nat) (showbar : bool) (ops : list h_op)
| IBarG (c : cfg) (size : Z) (stacked : bool) (ks : list str) (ops : list b_op)
| IHeat (c : cfg) (rlim clim : nat) (aggs : list agg)
| ISpark (c : cfg) (rlim clim : nat) (aggs : list agg)
| IData (c : cfg) (ncols nrows : nat) (rowtot coltot : bool) (aggs : list agg)
| IFmt (f : fspec) (calls : list (Z * Z * Z))          (* one compiled formatter, a sequence of calls *)
| IHeatSeq (col uni : bool) (rlim clim : nat) (fixmin fixmax : bool) (ops : list heat_op)
| ICliSame (auto : list str)
| IBarF (c : cfg) (size : Z) (stacked : bool) (ops : list b_op).  (* frames fed like cmd/bargraph.go *)                          (* CLI: fixed range = automatic range *)

(* OFail: the implementation panicked or did not return within the watchdog's limit *)
Inductive obs := OQ (l : list Q) | OZ (l : list Z) | OS (l : list str) | OFail.

Definition Ql_eqb (a b : list Q) : bool := list_eqb Qeq_bool a b.
Definition Sl_eqb (a b : list str) : bool := list_eqb str_eqb a b.
Definition oeqb (a b : obs) : bool :=
  match a, b with
  | OQ x, OQ y => Ql_eqb x y
  | OZ x, OZ y => Zl_eqb x y
  | OS x, OS y => Sl_eqb x y
  | OFail, OFail => true
  | _, _ => false
  end.

Fixpoint rmapl {A B} (f : A -> result B) (l : list A) : result (list B) :=
  match l with
  | [] => Ok []
  | x :: r => a <- f x ;; b <- rmapl f r ;; Ok (a :: b)
  end.
Definition of_strs (r : result (list str)) : obs := match r with Ok l => OS l | Panic => OFail end.

(* the lines as compared: visible runes when colour is on *)
Definition vlines (col : bool) (tm : list str) : list str := map (vis col) tm.

Section WithCfg.
  Variable c : cfg.
  Let col := c_col c.
  Let uni := c_uni c.
  Let mm := m_of (c_mp c).
  Let ks := keys_of (c_mp c).
  Let fm := fmt_of (c_fk c).

  Fixpoint heat_tables (rlim clim : nat) (st : hm * list str) (aggs : list agg) : option (result (hm * list str)) :=
    match aggs with
    | [] => Some (Ok st)
    | a :: r =>
        match heat_write_table col uni mm round53 ks fm rlim clim (fst st) (snd st) a with
        | Some (Ok st') => heat_tables rlim clim st' r
        | x => x
        end
    end.
  Fixpoint spark_tables (rlim clim : nat) (st : tw * list str) (aggs : list agg) : result (tw * list str) :=
    match aggs with
    | [] => Ok st
    | a :: r => x <- spark_write_table col uni mm round53 fm rlim clim st a ;;
                spark_tables rlim clim (fst (fst x), snd (fst x)) r
    end.
  Definition data_tables (ncols nrows : nat) (rt ct : bool) (st : tw * list str) (aggs : list agg) : tw * list str :=
    fold_left (fun s a => dt_write_table col fm ncols nrows rt ct s a) aggs st.
End WithCfg.

(* state: renderer state, terminal, s.minVal, s.maxVal *)
Definition hs_state := (hm * list str * Z * Z)%type.
Definition eff_range (fixmin fixmax : bool) (curmn curmx : Z) (a : agg) : Z * Z :=
  ((if fixmin then curmn else a_min a), (if fixmax then curmx else a_max a)).
Definition heat_seq_step (col uni : bool) (rlim clim : nat) (fixmin fixmax : bool) (st : hs_state) (o : heat_op)
  : option (result hs_state) :=
  let '(h, tm, cmn, cmx) := st in
  match o with
  | HoUpd mp f mn mx =>
      match heat_update_minmax col uni (m_of mp) round53 (keys_of mp) (fmt_of f) h tm mn mx with
      | Ok tm' => Some (Ok (h, tm', mn, mx))
      | Panic => Some Panic
      end
  | HoTab mp f a =>
      let '(mn, mx) := eff_range fixmin fixmax cmn cmx a in
      match heat_write_table_rng col uni (m_of mp) round53 (keys_of mp) (fmt_of f) mn mx rlim clim h tm a with
      | Some (Ok (h', tm')) => Some (Ok (h', tm', mn, mx))
      | Some Panic => Some Panic
      | None => None
      end
  end.
Fixpoint heat_seq_run (col uni : bool) (rlim clim : nat) (fixmin fixmax : bool) (st : hs_state) (ops : list heat_op)
  : option (result hs_state) :=
  match ops with
  | [] => Some (Ok st)
  | o :: r => match heat_seq_step col uni rlim clim fixmin fixmax st o with
              | Some (Ok st') => heat_seq_run col uni rlim clim fixmin fixmax st' r
              | x => x
              end
  end.
Definition hs_init : hs_state := (hm_new, [], 0, 1).
(* the ranges alone (no rendering): s.minVal / s.maxVal before the last operation *)
Fixpoint ranges_before_last (fixmin fixmax : bool) (cmn cmx : Z) (ops : list heat_op) : option (heat_op * Z * Z) :=
  match ops with
  | [] => None
  | [o] => Some (o, cmn, cmx)
  | o :: r =>
      match o with
      | HoUpd _ _ mn mx => ranges_before_last fixmin fixmax mn mx r
      | HoTab _ _ a => let '(mn, mx) := eff_range fixmin fixmax cmn cmx a in ranges_before_last fixmin fixmax mn mx r
      end
  end.

Definition idq : Q -> Q := fun q => q.

Definition model (i : cin) : obs :=
  match i with
  | IScale mp mn mx vs => OQ (map (fun v => scale (m_of mp) round53 v mn mx) vs)
  | IKeys mn mx => OZ (keys_of MLin mn mx)
  | IBucket n us => OZ (map (bucket round53 n) us)
  | ILength n us => OZ (map (length_val round53 n) us)
  | IBarW uni len us => of_strs (rmapl (fun u => bar_write uni round53 u len) us)
  | IStack col uni maxVal maxLen vals => of_strs (rmapl (fun x => x) [bar_stacked col uni maxVal maxLen vals])
  | IHeatC col uni us => of_strs (rmapl (heat_write col uni round53) us)
  | ISparkC uni us => of_strs (rmapl (spark_write uni round53) us)
  | ITable col maxc maxr ops => OS (snd (tw_run col maxc maxr ops))
  | IHisto c n sb ops =>
      match histo_run (c_col c) (c_uni c) (m_of (c_mp c)) round53 (fmt_of (c_fk c)) sb (histo_new n, []) ops with
      | Ok st => OS (vlines (c_col c) (snd st))
      | Panic => OFail
      end
  | IBarG c size stacked kk ops =>
      match (st0 <- bg_set_keys (c_col c) (c_uni c) bg_new [] kk ;;
             bg_run (c_col c) (c_uni c) (m_of (c_mp c)) round53 (fmt_of (c_fk c)) size stacked st0 ops) with
      | Ok st => OS (vlines (c_col c) (snd st))
      | Panic => OFail
      end
  | IHeat c rlim clim aggs =>
      match heat_tables c rlim clim (hm_new, []) aggs with
      | Some (Ok st) => OS (vlines (c_col c) (snd st))
      | _ => OFail
      end
  | ISpark c rlim clim aggs =>
      match spark_tables c rlim clim (spark_new rlim) aggs with
      | Ok st => OS (vlines (c_col c) (snd st))
      | Panic => OFail
      end
  | IData c ncols nrows rt ct aggs =>
      OS (vlines (c_col c) (snd (data_tables c ncols nrows rt ct (dt_new ncols nrows) aggs)))
  | IFmt f calls => OS (map (fun x => fmt_of f (fst (fst x)) (snd (fst x)) (snd x)) calls)
  | IHeatSeq col uni rlim clim fmn fmx ops =>
      match heat_seq_run col uni rlim clim fmn fmx hs_init ops with
      | Some (Ok (_, tm, _, _)) => OS (vlines col tm)
      | _ => OFail
      end
  | ICliSame auto => OS auto
  | IBarF c size stacked ops =>
      match bg_run (c_col c) (c_uni c) (m_of (c_mp c)) round53 (fmt_of (c_fk c)) size stacked (bg_new, []) ops with
      | Ok st => OS (vlines (c_col c) (snd st))
      | Panic => OFail
      end
  end.

(* ---------- the property's boolean form on an observed output ---------- *)
Definition q01 (q : Q) : bool := Qle_bool 0 q && Qle_bool q 1.
Fixpoint asc {A} (le : A -> A -> bool) (l : list A) : bool :=
  match l with a :: ((b :: _) as r) => le a b && asc le r | _ => true end.
Definition all_z (lo hi : Z) (l : list Z) : bool := forallb (fun z => (lo <=? z) && (z <=? hi)) l.
Fixpoint zip_all {A B} (f : A -> B -> bool) (a : list A) (b : list B) : bool :=
  match a, b with
  | [], [] => true
  | x :: r, y :: s => f x y && zip_all f r s
  | _, _ => false
  end.

(* table: the declarative layout — every column as wide as the widest cell ever written to it,
   every stored row laid out with those widths *)
Definition spec_widths (col : bool) (maxc maxr : nat) (ops : list tw_op) : list Z :=
  fold_left (fun w o => match o with
                        | TRow n cells => if (maxr <=? n)%nat then w else upd_w col w cells
                        | TFoot _ _ => w end) ops (repeat 0 maxc).
Definition spec_rows (maxr : nat) (ops : list tw_op) : list (option (list str)) :=
  fold_left (fun rows o => match o with
                           | TRow n cells => set_row n (Some cells) rows
                           | TFoot _ _ => rows end) ops (repeat None maxr).
Fixpoint rows_ok (col : bool) (w : list Z) (i : nat) (rows : list (option (list str))) (lines : list str) : bool :=
  match rows with
  | [] => true
  | None :: r => rows_ok col w (S i) r lines
  | Some cells :: r => str_eqb (nth i lines []) (render_row col w cells) && rows_ok col w (S i) r lines
  end.

Definition drop_sp (s : str) : str :=
  (fix go (s : str) := match s with x :: t => if (x =? SP)%N then go t else s | [] => [] end) s.
Fixpoint prefix_drop (p s : str) : option str :=
  match p, s with
  | [], _ => Some s
  | a :: p', b :: s' => if (a =? b)%N then prefix_drop p' s' else None
  | _ :: _, [] => None
  end.
Definition ends_with (s suf : str) : bool :=
  (length suf <=? length s)%nat && str_eqb (skipn (length s - length suf) s) suf.
Definition more_txt (n : Z) : str := [40%N] ++ itoa n ++ [32; 109; 111; 114; 101; 41]%N.
Definition last_agg (aggs : list agg) : option agg := match rev aggs with a :: _ => Some a | [] => None end.

Definition mem_n (x : N) (l : list N) : bool := existsb (N.eqb x) l.
Definition count_in (al : list N) (s : str) : nat := length (filter (fun x => mem_n x al) s).
Fixpoint words (cur : str) (s : str) : list str :=
  match s with
  | [] => match cur with [] => [] | _ => [rev cur] end
  | x :: t => if (x =? SP)%N then match cur with [] => words [] t | _ => rev cur :: words [] t end
              else words (x :: cur) t
  end.
Definition join_sp (l : list str) : str := concat (map (fun s => s ++ [SP]) l).

(* f (k + j) x for the j-th element x *)
Fixpoint all_idx {A} (f : nat -> A -> bool) (k : nat) (l : list A) : bool :=
  match l with [] => true | x :: r => f k x && all_idx f (S k) r end.

Definition name_cell (c : cfg) (r : str * list Z * Z) : str := vis (c_col c) (wrap (c_col c) col_Yellow (r_name r)).

(* heatmap: one cell per displayed column in every displayed row (key, at least one blank, then
   exactly cc non-blank-led runes); the notes count what is not shown *)
Definition heat_row_chk (c : cfg) (cc : nat) (lines : list str) (k : nat) (r : str * list Z * Z) : bool :=
  match prefix_drop (name_cell c r) (nth (2 + k) lines []) with
  | Some rest_line =>
      match rest_line with
      | x :: _ => (x =? SP)%N && Nat.eqb (length (drop_sp rest_line)) cc
      | [] => false
      end
  | None => false
  end.
Definition heat_chk (c : cfg) (rlim clim : nat) (a : agg) (lines : list str) : bool :=
  let cc := Nat.min (length (a_cols a)) clim in
  let rc := Nat.min (length (a_rows a)) rlim in
  all_idx (heat_row_chk c cc lines) 0 (firstn rc (a_rows a)) &&
  (if (rc <? length (a_rows a))%nat
   then str_eqb (nth (2 + rc) lines []) (more_txt (lenZ (a_rows a) - Z.of_nat rc)) else true) &&
  (if (cc <? length (a_cols a))%nat
   then ends_with (nth 1 lines []) (SP :: more_txt (lenZ (a_cols a) - Z.of_nat cc)) else true).

(* sparkline: the number of sparkline runes on a row is what the key and the First/Last numbers
   contribute plus one per displayed column *)
Definition spark_alpha (c : cfg) : list N := if c_uni c then sparkBlocks else sparkAscii.
Definition spark_row_chk (c : cfg) (mn mx : Z) (k : nat) (lines : list str) (j : nat) (r : str * list Z * Z) : bool :=
  let vals := last_cols k (r_vals r) in
  let vf := match vals with [] => [] | v :: _ => fmt_of (c_fk c) v mn mx end in
  let vl := match vals with [] => [] | _ => fmt_of (c_fk c) (last vals 0) mn mx end in
  Nat.eqb (count_in (spark_alpha c) (nth (S j) lines []))
          (count_in (spark_alpha c) (name_cell c r) + count_in (spark_alpha c) vf + count_in (spark_alpha c) vl + k).
Definition spark_chk (c : cfg) (rlim clim : nat) (a : agg) (lines : list str) : bool :=
  let k := Nat.min clim (length (a_cols a)) in
  let rc := Nat.min (length (a_rows a)) rlim in
  all_idx (spark_row_chk c (a_min a) (a_max a) k lines) 0 (firstn rc (a_rows a)) &&
  (if (rc <? length (a_rows a))%nat
   then existsb (fun l => str_eqb l (more_txt (lenZ (a_rows a) - Z.of_nat rc))) lines else true).

(* data table: the displayed numbers are the aggregated numbers under the formatter, in column order *)
Definition data_row_words (c : cfg) (mn mx : Z) (k : nat) (rt : bool) (r : str * list Z * Z) : list str :=
  let f := fun v => fmt_of (c_fk c) v mn mx in
  words [] (name_cell c r ++ [SP] ++ join_sp (map f (firstn k (r_vals r))) ++ (if rt then f (r_sum r) else [])).
Definition data_row_chk (c : cfg) (mn mx : Z) (k : nat) (rt : bool) (lines : list str) (j : nat) (r : str * list Z * Z) : bool :=
  Sl_eqb (words [] (nth (S j) lines [])) (data_row_words c mn mx k rt r).
Definition data_chk (c : cfg) (ncols nrows : nat) (rt : bool) (a : agg) (lines : list str) : bool :=
  all_idx (data_row_chk c (a_min a) (a_max a) (Nat.min ncols (length (a_cols a))) rt lines) 0 (firstn nrows (a_rows a)).

(* heatmap driven as the command drives it: after the last WriteTable every displayed cell is the
   block of its value under the scaler IN FORCE AT THAT RENDER and the range in force (fixed
   bounds or the data's), and the legend blocks likewise *)
Definition heat_seq_row_chk (col uni : bool) (mp : mapper) (mn mx : Z) (cc : nat) (lines : list str)
  (k : nat) (r : str * list Z * Z) : bool :=
  match prefix_drop (vis col (wrap col col_Yellow (r_name r))) (nth (2 + k) lines []) with
  | Some (x :: rest) =>
      (x =? SP)%N &&
      match rconcat (fun v => heat_write col uni round53 (scale (m_of mp) round53 v mn mx)) (firstn cc (r_vals r)) with
      | Ok cells => str_eqb (drop_sp (x :: rest)) (vis col cells)
      | Panic => false
      end
  | _ => false
  end.
Definition heat_seq_chk (col uni : bool) (rlim clim : nat) (fmn fmx : bool) (ops : list heat_op) (lines : list str) : bool :=
  match ranges_before_last fmn fmx 0 1 ops with
  | Some (HoTab mp f a, cmn, cmx) =>
      let '(mn, mx) := eff_range fmn fmx cmn cmx a in
      let cc := Nat.min (length (a_cols a)) clim in
      let rc := Nat.min (length (a_rows a)) rlim in
      all_idx (heat_seq_row_chk col uni mp mn mx cc lines) 0 (firstn rc (a_rows a)) &&
      match legend_items col uni (m_of mp) round53 (fmt_of f) true (keys_of mp mn mx) mn mx with
      | Ok leg => str_eqb (drop_sp (nth 0 lines [])) (drop_sp (vis col leg))
      | Panic => false
      end
  | _ => true
  end.

(* bar graph fed frame by frame (SetKeys, then one WriteBar per row): on the final screen every
   row of the LAST frame ends with the bar(s) and number(s) of its last values under the final
   maximum — whatever was drawn for that row in earlier frames *)
Definition ops_after_last_keys (ops : list b_op) : list str * list b_op :=
  fold_left (fun acc o => match o with BKeys ks => (ks, []) | _ => (fst acc, snd acc ++ [o]) end) ops ([], []).
Definition bg_final_max (stacked : bool) (ops : list b_op) : Z :=
  fold_left (fun mx o => match o with BBar _ _ vs => Z.max mx (if stacked then zsum vs else zmax0 vs) | _ => mx end) ops 0.
Definition keys_shown (ks : list str) : bool := match ks with [] => false | [[]] => false | _ => true end.
Definition bg_prefix (ops : list b_op) : nat :=
  if existsb (fun o => match o with BKeys ks => keys_shown ks | _ => false end) ops then 1%nat else 0%nat.
(* is this the last WriteBar for its index? *)
Fixpoint last_for_idx (idx : nat) (rest : list b_op) : bool :=
  match rest with
  | [] => true
  | BBar i _ _ :: r => negb (Nat.eqb i idx) && last_for_idx idx r
  | _ :: r => last_for_idx idx r
  end.
Fixpoint grouped_tails_ok (c : cfg) (size mx : Z) (lines : list str) (line : nat) (i : nat) (vals : list Z) : bool :=
  match vals with
  | [] => true
  | v :: r =>
      match group_color i, bar_write (c_uni c) round53 (scale (m_of (c_mp c)) round53 v 0 mx) size with
      | Ok gc, Ok bar =>
          ends_with (nth (line + i) lines []) (SP :: vis (c_col c) (cwrite (c_col c) gc bar ++ [SP] ++ fmt_of (c_fk c) v 0 mx))
      | _, _ => false
      end && grouped_tails_ok c size mx lines line (S i) r
  end.
Fixpoint bg_rows_ok (c : cfg) (size : Z) (stacked : bool) (mx : Z) (nk prefix : nat) (lines : list str) (ops : list b_op) : bool :=
  match ops with
  | [] => true
  | BBar idx key vals :: r =>
      (if last_for_idx idx r then
         if stacked then
           match bar_stacked (c_col c) (c_uni c) mx size vals with
           | Ok bar => ends_with (nth (idx + prefix) lines [])
                         (SP :: SP :: vis (c_col c) (bar ++ [SP; SP] ++ fmt_of (c_fk c) (zsum vals) 0 mx))
           | Panic => false
           end
         else grouped_tails_ok c size mx lines (prefix + idx * nk) 0 vals
       else true) && bg_rows_ok c size stacked mx nk prefix lines r
  | _ :: r => bg_rows_ok c size stacked mx nk prefix lines r
  end.
Definition bg_final_chk (c : cfg) (size : Z) (stacked : bool) (ops : list b_op) (lines : list str) : bool :=
  let '(ks, tail) := ops_after_last_keys ops in
  bg_rows_ok c size stacked (bg_final_max stacked ops) (length ks) (bg_prefix ops) lines tail.

(* histogram, the final screen: every displayed line (value > 0) is the line of its key and value
   under the final running maximum and key width — its bar is the bar of its value against the
   CURRENT maximum, in whatever order the lines were written *)
Definition histo_chk (c : cfg) (n : nat) (sb : bool) (ops : list h_op) (lines : list str) : bool :=
  let h := hstate (c_col c) n ops in
  all_idx (fun i kv =>
             if 0 <? snd kv then
               match histo_line (c_col c) (c_uni c) (m_of (c_mp c)) round53 (fmt_of (c_fk c)) sb h (fst kv) (snd kv) with
               | Ok l => str_eqb (nth i lines []) (vis (c_col c) l)
               | Panic => false
               end
             else true) 0 (h_items h).

Definition check (i : cin) (o : obs) : bool :=
  match i, o with
  | IScale _ mn mx vs, OQ l => forallb q01 l && asc Qle_bool l && Nat.eqb (length l) (length vs)
  | IKeys _ _, OZ l => (1 <=? length l)%nat && (length l <=? 6)%nat && asc (fun a b => negb (a =? b)) l
  | IBucket n us, OZ l => zip_all (fun u z => negb (q01 u) || ((0 <=? z) && (z <=? n - 1))) us l
  | ILength n us, OZ l =>
      zip_all (fun u z => negb (q01 u) || ((0 <=? z) && (z <=? n))) us l &&
      (negb (forallb q01 us) || asc Z.leb l)
  | IBarW _ len us, OS l =>
      zip_all (fun u s => negb (q01 u) || (lenZ s <=? len)) us l &&
      (negb (forallb q01 us) || asc (fun a b => (length a <=? length b)%nat) l)
  | IStack col _ maxVal maxLen vals, OS [s] =>
      (* never wider than the bar, whatever the values and the maximum *)
      (maxLen <? 0) || (str_len col s <=? maxLen)
  | IHeatC col _ us, OS l => Nat.eqb (length l) (length us) && forallb (fun s => str_len col s =? 1) l
  | ISparkC _ us, OS l => Nat.eqb (length l) (length us) && forallb (fun s => lenZ s =? 1) l
  | ITable col maxc maxr ops, OS lines =>
      rows_ok col (spec_widths col maxc maxr ops) 0 (spec_rows maxr ops) lines
  | IHisto c n sb ops, OS lines => histo_chk c n sb ops lines
  | IHeatSeq col uni rlim clim fmn fmx ops, OS lines => heat_seq_chk col uni rlim clim fmn fmx ops lines
  | ICliSame auto, OS fixed => Sl_eqb auto fixed
  | IBarF c size stacked ops, OS lines => bg_final_chk c size stacked ops lines
  | IFmt f calls, OS l =>
      (* the output is a function of (value, min, max) alone: the template instantiated *)
      zip_all (fun x out => str_eqb out (fmt_of f (fst (fst x)) (snd (fst x)) (snd x))) calls l
  | IBarG _ _ _ _ _, OS _ => true
  | IHeat c rlim clim aggs, OS lines =>
      match last_agg aggs with None => true | Some a => heat_chk c rlim clim a lines end
  | ISpark c rlim clim aggs, OS lines =>
      match last_agg aggs with None => true | Some a => spark_chk c rlim clim a lines end
  | IData c ncols nrows rt ct aggs, OS lines =>
      match last_agg aggs with None => true | Some a => data_chk c ncols nrows rt a lines end
  | _, _ => false
  end.

Definition mm := mismatches model oeqb check.

(* ---------- constructors used by the generated case files ---------- *)
Definition mkagg (cols : list str) (rows : list (str * list Z * Z)) (mn mx : Z) (tot : list Z) (sum : Z) : agg :=
  mkAgg cols rows mn mx tot sum.
Definition zn (z : Z) : nat := Z.to_nat z.
Definition tR (n : Z) (cells : list str) : tw_op := TRow (zn n) cells.
Definition tF (n : Z) (s : str) : tw_op := TFoot (zn n) s.
Definition hL (n : Z) (k : str) (v : Z) : h_op := HLine (zn n) k v.
Definition hT (t : Z) : h_op := HTotal t.
Definition hF (n : Z) (s : str) : h_op := HFoot (zn n) s.
Definition bB (n : Z) (k : str) (vs : list Z) : b_op := BBar (zn n) k vs.
Definition bF (n : Z) (s : str) : b_op := BFoot (zn n) s.
Definition cf (col uni : bool) (mp : mapper) (fk : fspec) : cfg := mkCfg col uni mp fk.
Definition pL (s : str) : piece := PLit s.
Definition pR (k : Z) : piece := PRef (Z.to_N k).
Definition iTable (col : bool) (maxc maxr : Z) ops := ITable col (zn maxc) (zn maxr) ops.
Definition iHisto c (n : Z) sb ops := IHisto c (zn n) sb ops.
Definition iHeat c (r k : Z) aggs := IHeat c (zn r) (zn k) aggs.
Definition iSpark c (r k : Z) aggs := ISpark c (zn r) (zn k) aggs.
Definition iData c (k r : Z) rt ct aggs := IData c (zn k) (zn r) rt ct aggs.
Definition iHeatSeq (col uni : bool) (r k : Z) (fmn fmx : bool) ops := IHeatSeq col uni (zn r) (zn k) fmn fmx ops.
Definition bK (ks : list str) : b_op := BKeys ks.
