(* Glue for C03 cases: the `rare` binary built from the working tree, run with `--csv -` under
   several tuning variants; the CSV text is read back with the strict RFC 4180 reader and compared
   with the aggregate the C07 models compute from the sequential reference keys. *)
From Coq Require Import List NArith ZArith Bool Arith String.
From RareV Require Import Base.Hex Base.Res Base.Num Model.Lines Model.Batch Model.Pipeline Model.Ctx Model.Extract
  Model.Agg Model.CsvFile Model.Exit Proofs.ReduceOrder Corr.Run Corr.PipeCase.
Import ListNotations.

(* aggregator behind the command: 0 histogram (MatchCounter), 1 table/heatmap/spark (TableAggregator),
   2 bargraph (SubKeyCounter), 3 analyze (determinism of the snapshot text without its status line, exit status),
   4 reduce (AccumulatingGroup) *)
Record c03out := {
  k_kind : N;
  k_n : N;                      (* kind 5: the --cols limit *)
  k_runs : list (Z * bytes)     (* per tuning variant: exit status, stdout *)
}.
Definition run (code : Z) (out : string) : Z * bytes := (code, unhex out).

Definition bl_eq := list_eqb bytes_eqb.
Definition rows_eq := list_eqb bl_eq.
Definition zs (z : Z) : bytes := itoa z.

(* WriteCounter: header, then one row per key with its count (row order is the value sort: C13) *)
Definition counter_rows_ok (c : counter) (rows : list (list bytes)) : bool :=
  match rows with
  | hd :: body =>
      bl_eq hd [of_str "group"; of_str "value"] &&
      (List.length body =? List.length (c_items c))%nat &&
      forallb (fun r => match r with
                        | [k; v] => match afind k (c_items c) with Some z => bytes_eqb v (zs z) | None => false end
                        | _ => false end) body &&
      forallb (fun kv => existsb (fun r => match r with k :: _ => bytes_eqb k (fst kv) | _ => false end) body) (c_items c)
  | [] => false
  end.
(* WriteTable: "" :: columns by name; one row per row key by name; absent cells are 0 *)
Definition table_rows (t : table) : list (list bytes) :=
  let cols := map fst (t_cols t) in
  ([] :: cols) :: map (fun r => fst r :: map (fun c => zs (t_value (snd r) c)) cols) (t_rows t).
(* WriteSubCounter: "group" :: sub-keys; one row per key by name with its vector *)
Definition subkey_rows (s : subkey) : list (list bytes) :=
  (of_str "group" :: s_keys s) :: map (fun r => fst r :: map zs (snd (snd r))) (Agg.s_matches s).

Definition all_same (rs : list (Z * bytes)) : bool :=
  match rs with
  | [] => false
  | (c0, o0) :: r => forallb (fun p => (fst p =? c0)%Z && bytes_eqb (snd p) o0) r
  end.

(* reduce -g {1} -g {2} -a total={sumi {.} {3}} -a n={sumi {.} 1} over keys g1 NUL g2 NUL inc: the C07 model of
   AccumulatingGroup (Agg.a_run) with the expression evaluator of Model/Agg.v; WriteAccumulator prints the
   group expressions and accumulator names as header and one row per group: its key fields, then its
   accumulators. Row order is the group-key sort (C13), so rows are compared as a set of equal size. *)
Definition bad_type : bytes := of_str "<BAD-TYPE>".
Definition reduce_def : adef expr := ReduceOrder.reduce_def.   (* the definition of C03_reduce_schedule_independent *)
Fixpoint split0 (fuel : nat) (st : option bytes) : list bytes :=
  match fuel, st with
  | Datatypes.O, _ => []
  | _, None => []
  | Datatypes.S f, Some s => let '(a, st') := Agg.cut 0%N s in a :: split0 f st'
  end.
Definition reduce_rows (keys : list bytes) : list (list bytes) :=
  map (fun gr : bytes * list bytes => split0 (Datatypes.S (List.length (fst gr))) (Some (fst gr)) ++ snd gr)
      (a_run expr (eval_expr bad_type) reduce_def keys).
Definition reduce_rows_ok (keys : list bytes) (rows : list (list bytes)) : bool :=
  match rows with
  | hd :: body =>
      bl_eq hd [of_str "{1}"; of_str "{2}"; of_str "total"; of_str "n"] &&
      (List.length body =? List.length (reduce_rows keys))%nat &&
      forallb (fun r => existsb (bl_eq r) body) (reduce_rows keys) &&
      forallb (fun r => existsb (bl_eq r) (reduce_rows keys)) body
  | [] => false
  end.
(* analyze: a key is a parse error iff it is not a number; the generator's increments are signed
   decimals (always numbers, whatever their size) or contain a letter *)
Definition is_decimal (s : bytes) : bool :=
  let ds := match s with 45%N :: r => r | 43%N :: r => r | _ => s end in
  negb (Nat.eqb (List.length ds) 0) && forallb (fun c => (48 <=? c)%N && (c <=? 57)%N) ds.
Fixpoint starts_with (p s : bytes) : bool :=
  match p, s with
  | [], _ => true
  | a :: p', b :: s' => N.eqb a b && starts_with p' s'
  | _ :: _, [] => false
  end.

(* spark --cols n: every periodic render trims the table to the LAST n columns in --sort-cols order. For an
   order that is a function of the names the set of existing columns only grows, so a column among the final
   n was never trimmed: the exported cells must be the reference cells of the exported columns, whatever
   the refresh timing. Which n columns are kept is the sorter's business (C13): the check takes the header
   as given and requires exactly min(n, all) distinct reference columns, every exported row to carry the
   reference values of those columns, and a row to be exported iff it has a cell in one of them. *)
Fixpoint nodupb (l : list bytes) : bool :=
  match l with [] => true | x :: r => negb (existsb (bytes_eqb x) r) && nodupb r end.
Definition spark_trim_ok (n : nat) (t : table) (rows : list (list bytes)) : bool :=
  match rows with
  | ([] :: cols) :: body =>
      let refcols := map fst (t_cols t) in
      (List.length cols =? Nat.min n (List.length refcols))%nat &&
      forallb (fun c => existsb (bytes_eqb c) refcols) cols && nodupb cols &&
      forallb (fun r => match r with
                        | name :: vals => match afind name (t_rows t) with
                                          | Some rw => bl_eq vals (map (fun c => zs (t_value rw c)) cols)
                                          | None => false
                                          end
                        | [] => false
                        end) body &&
      nodupb (map (fun r => match r with name :: _ => name | [] => [] end) body) &&
      forallb (fun rw : bytes * trow =>
                 Bool.eqb (existsb (fun c => match afind c (fst (snd rw)) with Some _ => true | None => false end) cols)
                          (existsb (fun r => match r with name :: _ => bytes_eqb name (fst rw) | [] => false end) body))
              (t_rows t)
  | _ => false
  end.

Definition C03_check (i : pin) (o : c03out) : bool :=
  let r := ref_of i in
  let keys := map e_key (Extract.s_matches r) in
  negb (s_panic r) && all_same (k_runs o) &&
  match k_runs o with
  | (code, out) :: _ =>
      let nread := N.to_nat (errs_of (i_srcs i)) in
      let matched := N.to_nat (s_matched r) in
      match k_kind o with
      | 0%N => let c := c_run keys in
               (code =? exit_code nread (N.to_nat (c_errors c)) matched)%Z &&
               match csv_read out with Some rows => counter_rows_ok c rows | None => false end
      | 1%N => let t := t_run 0%N keys in
               (code =? exit_code nread (N.to_nat (t_errors t)) matched)%Z &&
               match csv_read out with Some rows => rows_eq rows (table_rows t) | None => false end
      | 2%N => let s := s_run keys in
               (code =? exit_code nread (N.to_nat (Agg.s_errors s)) matched)%Z &&
               match csv_read out with Some rows => rows_eq rows (subkey_rows s) | None => false end
      | 5%N => let t := t_run 0%N keys in
               (code =? exit_code nread (N.to_nat (t_errors t)) matched)%Z &&
               match csv_read out with Some rows => spark_trim_ok (N.to_nat (k_n o)) t rows | None => false end
      | 4%N => (code =? exit_code nread 0 matched)%Z &&
               match csv_read out with Some rows => reduce_rows_ok keys rows | None => false end
      | _ => (* analyze: same text under every variant (above), not a usage error, exit status *)
               starts_with (of_str "Samples:") out &&
               (code =? exit_code nread (List.length (filter (fun k => negb (is_decimal k)) keys)) matched)%Z
      end
  | [] => false
  end.
Definition mm := mismatches_check C03_check.
