(* Glue for C03 cases: the `rare` binary built from the working tree, run with `--csv -` under
   several tuning variants; the CSV text is read back with the strict RFC 4180 reader and compared
   with the aggregate the C07 models compute from the sequential reference keys. *)
From Coq Require Import List NArith ZArith Bool Arith String.
From RareV Require Import Base.Hex Base.Res Base.Num Model.Lines Model.Batch Model.Pipeline Model.Ctx Model.Extract
  Model.Agg Model.CsvFile Model.Exit Proofs.ReduceOrder Corr.Run Corr.PipeCase.
Import ListNotations.

(* aggregator behind the command: 0 histogram (MatchCounter), 1 table/heatmap/spark (TableAggregator),
   2 bargraph (SubKeyCounter), 3 analyze (determinism of the snapshot text without its status line, exit status),
   4 reduce (AccumulatingGroup, sum / count), 5 spark --cols n, 6 reduce with an order-sensitive accumulator
   (one reader, one worker) *)
Record c03out := {
  k_kind : N;
  k_n : N;                      (* kind 5: the --cols limit *)
  k_runs : list (Z * bytes);    (* per tuning variant: exit status, stdout *)
  k_strict : bool;              (* a case that ONLY compares the snapshot texts byte for byte (see snaps_same) *)
  k_snaps : list bytes          (* per tuning variant: the snapshot text of the same command without --csv (standard
                                   output when piped), without its last line (reader status: bytes, rate, file counters) *)
}.
Definition run (code : Z) (out : string) : Z * bytes := (code, unhex out).

Definition bl_eq := list_eqb bytes_eqb.
Definition rows_eq := list_eqb bl_eq.
Definition zs (z : Z) : bytes := itoa z.

(* WriteCounter: header, then one row per key with its count (row order is the value sort: C13) *)
Definition counter_rows_ok (c : counter) (rows : list (list bytes)) : bool :=
  match rows with
  | hd :: body =>
      bl_eq hd [of_str "group"; of_str "value"] &&
      (List.length body =? List.length (c_items c))%nat &&
      forallb (fun r => match r with
                        | [k; v] => match afind k (c_items c) with Some z => bytes_eqb v (zs z) | None => false end
                        | _ => false end) body &&
      forallb (fun kv => existsb (fun r => match r with k :: _ => bytes_eqb k (fst kv) | _ => false end) body) (c_items c)
  | [] => false
  end.
(* WriteTable: "" :: columns by name; one row per row key by name; absent cells are 0 *)
Definition table_rows (t : table) : list (list bytes) :=
  let cols := map fst (t_cols t) in
  ([] :: cols) :: map (fun r => fst r :: map (fun c => zs (t_value (snd r) c)) cols) (t_rows t).
(* WriteSubCounter: "group" :: sub-keys; one row per key by name with its vector *)
Definition subkey_rows (s : subkey) : list (list bytes) :=
  (of_str "group" :: s_keys s) :: map (fun r => fst r :: map zs (snd (snd r))) (Agg.s_matches s).

Definition all_same (rs : list (Z * bytes)) : bool :=
  match rs with
  | [] => false
  | (c0, o0) :: r => forallb (fun p => (fst p =? c0)%Z && bytes_eqb (snd p) o0) r
  end.

(* reduce -g {1} -g {2} -a total={sumi {.} {3}} -a n={sumi {.} 1} over keys g1 NUL g2 NUL inc: the C07 model of
   AccumulatingGroup (Agg.a_run) with the expression evaluator of Model/Agg.v; WriteAccumulator prints the
   group expressions and accumulator names as header and one row per group: its key fields, then its
   accumulators. Row order is the group-key sort (C13), so rows are compared as a set of equal size. *)
Definition bad_type : bytes := of_str "<BAD-TYPE>".
Definition reduce_def : adef expr := ReduceOrder.reduce_def.   (* the definition of C03_reduce_schedule_independent *)
Fixpoint split0 (fuel : nat) (st : option bytes) : list bytes :=
  match fuel, st with
  | Datatypes.O, _ => []
  | _, None => []
  | Datatypes.S f, Some s => let '(a, st') := Agg.cut 0%N s in a :: split0 f st'
  end.
Definition reduce_rows (keys : list bytes) : list (list bytes) :=
  map (fun gr : bytes * list bytes => split0 (Datatypes.S (List.length (fst gr))) (Some (fst gr)) ++ snd gr)
      (a_run expr (eval_expr bad_type) reduce_def keys).
Definition reduce_rows_ok (keys : list bytes) (rows : list (list bytes)) : bool :=
  match rows with
  | hd :: body =>
      bl_eq hd [of_str "{1}"; of_str "{2}"; of_str "total"; of_str "n"] &&
      (List.length body =? List.length (reduce_rows keys))%nat &&
      forallb (fun r => existsb (bl_eq r) body) (reduce_rows keys) &&
      forallb (fun r => existsb (bl_eq r) (reduce_rows keys)) body
  | [] => false
  end.
(* reduce -g {1} -a seq={.}{3}; : an ORDER-SENSITIVE accumulator (the increments of a group in arrival order). With one
   reader at a time and one worker the arrival order is the input order (C03_any_accumulator_1x1), whatever the
   batch size, buffer depth, GOMAXPROCS and the number of files *)
Definition reduce_seq_def : adef expr :=
  mkAD [EMatch 1] [(of_str "seq", ECat ECur (ECat (EMatch 3) (ELit (of_str ";"))), of_str "0")].
Definition reduce_seq_rows (keys : list bytes) : list (list bytes) :=
  map (fun gr : bytes * list bytes => fst gr :: snd gr) (a_run expr (eval_expr bad_type) reduce_seq_def keys).
Definition reduce_seq_rows_ok (keys : list bytes) (rows : list (list bytes)) : bool :=
  match rows with
  | hd :: body =>
      bl_eq hd [of_str "{1}"; of_str "seq"] &&
      (List.length body =? List.length (reduce_seq_rows keys))%nat &&
      forallb (fun r => existsb (bl_eq r) body) (reduce_seq_rows keys) &&
      forallb (fun r => existsb (bl_eq r) (reduce_seq_rows keys)) body
  | [] => false
  end.
(* analyze: a key is a parse error iff it is not a number; the generator's increments are signed
   decimals (always numbers, whatever their size) or contain a letter *)
Definition is_decimal (s : bytes) : bool :=
  let ds := match s with 45%N :: r => r | 43%N :: r => r | _ => s end in
  negb (Nat.eqb (List.length ds) 0) && forallb (fun c => (48 <=? c)%N && (c <=? 57)%N) ds.
Fixpoint starts_with (p s : bytes) : bool :=
  match p, s with
  | [], _ => true
  | a :: p', b :: s' => N.eqb a b && starts_with p' s'
  | _ :: _, [] => false
  end.

(* spark --cols n: every periodic render trims the table to the LAST n columns in --sort-cols order. For an
   order that is a function of the names the set of existing columns only grows, so a column among the final
   n was never trimmed: the exported cells must be the reference cells of the exported columns, whatever
   the refresh timing. Which n columns are kept is the sorter's business (C13): the check takes the header
   as given and requires exactly min(n, all) distinct reference columns, every exported row to carry the
   reference values of those columns, and a row to be exported iff it has a cell in one of them. *)
Fixpoint nodupb (l : list bytes) : bool :=
  match l with [] => true | x :: r => negb (existsb (bytes_eqb x) r) && nodupb r end.
Definition spark_trim_ok (n : nat) (t : table) (rows : list (list bytes)) : bool :=
  match rows with
  | ([] :: cols) :: body =>
      let refcols := map fst (t_cols t) in
      (List.length cols =? Nat.min n (List.length refcols))%nat &&
      forallb (fun c => existsb (bytes_eqb c) refcols) cols && nodupb cols &&
      forallb (fun r => match r with
                        | name :: vals => match afind name (t_rows t) with
                                          | Some rw => bl_eq vals (map (fun c => zs (t_value rw c)) cols)
                                          | None => false
                                          end
                        | [] => false
                        end) body &&
      nodupb (map (fun r => match r with name :: _ => name | [] => [] end) body) &&
      forallb (fun rw : bytes * trow =>
                 Bool.eqb (existsb (fun c => match afind c (fst (snd rw)) with Some _ => true | None => false end) cols)
                          (existsb (fun r => match r with name :: _ => bytes_eqb name (fst rw) | [] => false end) body))
              (t_rows t)
  | _ => false
  end.

(* ---- snapshot output (what the command prints when its output is piped) ---- *)
Fixpoint split_nl (cur : bytes) (s : bytes) : list bytes :=
  match s with
  | [] => [rev cur]
  | b :: r => if N.eqb b 10 then rev cur :: split_nl [] r else split_nl (b :: cur) r
  end.
Fixpoint ltrim_sp (s : bytes) : bytes := match s with 32%N :: r => ltrim_sp r | _ => s end.
Definition rtrim_sp (s : bytes) : bytes := rev (ltrim_sp (rev s)).
(* the text after the last space of a (right-trimmed) line, and what precedes it, right-trimmed *)
Fixpoint take_token (racc : bytes) (rs : bytes) : bytes * bytes :=
  match rs with
  | [] => (racc, [])
  | b :: r => if N.eqb b 32 then (racc, rtrim_sp (rev rs)) else take_token (b :: racc) r
  end.
Definition key_count (line : bytes) : bytes * bytes :=
  let '(tok, key) := take_token [] (rev (rtrim_sp line)) in (key, tok).
(* The renderers' layout widths (histogram key column, table column widths, bar-graph key column) only grow from
   frame to frame, so the padding of the final snapshot depends on what an intermediate refresh displayed
   (recorded finding C03-snapshot-padding-history: a refresh that showed a longer key / header leaves wider
   columns). The snapshot texts of the variants are therefore compared with every run of spaces read as one
   space and trailing spaces dropped; cases with k_strict = true compare them byte for byte and nothing else -
   they exist only for variants with intermediate refreshes and carry the finding's tag. *)
Fixpoint squash (prev_sp : bool) (s : bytes) : bytes :=
  match s with
  | [] => []
  | b :: r => if N.eqb b 32 then (if prev_sp then squash true r else 32%N :: squash true r)
              else b :: squash false r
  end.
Definition norm_snap (s : bytes) : list bytes := map (fun l => rtrim_sp (squash false l)) (split_nl [] s).
Definition snaps_same (strict : bool) (l : list bytes) : bool :=
  match l with
  | [] => true
  | s0 :: r => if strict then forallb (bytes_eqb s0) r
               else forallb (fun s1 => list_eqb bytes_eqb (norm_snap s0) (norm_snap s1)) r
  end.
Definition no_commas (s : bytes) : bytes := filter (fun b => negb (N.eqb b 44)) s.
Fixpoint before_matched (ls : list bytes) : list bytes :=
  match ls with
  | [] => []
  | l :: r => if starts_with (of_str "Matched:") l then [] else l :: before_matched r
  end.
(* histo: the rows above the summary line are `key  count`, one per displayed group: each displayed count is
   the aggregated count of that key (thousands separators removed), keys are distinct, and the expected
   number of rows is displayed.  Which rows, and their order, is the sorter's business (C13); layout is C14's. *)
Definition histo_snap_ok (c : counter) (n : nat) (snap : bytes) : bool :=
  let rows := filter (fun l => negb (Nat.eqb (List.length (rtrim_sp l)) 0)) (before_matched (split_nl [] snap)) in
  let kcs := map key_count rows in
  (* default --atleast 0: a group whose total is negative is not displayed; with the default value sort the
     non-negative totals come first, so min(n, number of non-negative totals) rows are displayed *)
  (List.length kcs =? Nat.min n (List.length (filter (fun kv => (0 <=? snd kv)%Z) (c_items c))))%nat &&
  nodupb (map fst kcs) &&
  forallb (fun kc => match afind (fst kc) (c_items c) with
                     | Some z => bytes_eqb (no_commas (snd kc)) (zs z)
                     | None => false
                     end) kcs.

(* analyze prints `Samples:  n`, `Min:  x.0000`, `Max:  x.0000` (thousands separators) among its lines *)
Definition line_value (label : bytes) (ls : list bytes) : option bytes :=
  match filter (starts_with label) ls with
  | l :: _ => Some (no_commas (ltrim_sp (skipn (List.length label) l)))
  | [] => None
  end.
Definition zmax_list (l : list Z) : Z := fold_left Z.max l (hd 0%Z l).
Definition zmin_list (l : list Z) : Z := fold_left Z.min l (hd 0%Z l).
(* a printed `x.dddd` (sign, digits, point, four digits) as the integer x.dddd * 10^4 *)
Fixpoint split_at_dot (acc s : bytes) : bytes * bytes :=
  match s with
  | [] => (rev acc, [])
  | 46%N :: r => (rev acc, r)
  | b :: r => split_at_dot (b :: acc) r
  end.
Definition dec4 (s : bytes) : option Z :=
  let '(neg, u) := match s with 45%N :: r => (true, r) | _ => (false, s) end in
  let '(ip, fp) := split_at_dot [] u in
  match udec 0 ip, udec 0 fp with
  | Some a, Some b => if (List.length fp =? 4)%nat && negb (List.length ip =? 0)%nat
                      then Some ((if neg then -1 else 1) * (Z.of_N a * 10000 + Z.of_N b))%Z else None
  | _, _ => None
  end.
(* Mean and StdDev of integer samples, checked in exact integer arithmetic against what is printed with four
   decimals: |mean4 * n - S * 10^4| within rounding, and (sd4 -/+ d)^2 * n(n-1) around (n*Q - S^2) * 10^8
   (sample standard deviation), S the sum and Q the sum of squares. The slack d covers the last printed digit,
   a relative 2^-20 and the float64 resolution at the samples' magnitude (|S|/n * 2^-44) - far below what a
   cancelling formula loses on samples that are large compared with their spread. *)
Definition mean_sd_ok (nums : list Z) (mean sd : bytes) : bool :=
  let n := Z.of_nat (List.length nums) in
  let S := fold_left Z.add nums 0%Z in
  let Q := fold_left (fun a x => a + x * x)%Z nums 0%Z in
  match dec4 mean, dec4 sd with
  | Some m4, Some s4 =>
      let res := (Z.abs S * 10000 / (n * 2 ^ 44))%Z in
      (Z.abs (m4 * n - S * 10000) <=? n * (2 + res))%Z &&
      (if (n <? 2)%Z then (s4 =? 0)%Z else
       let d := (2 + s4 / 2 ^ 20 + res)%Z in
       let lo := Z.max 0 (s4 - d) in let hi := (s4 + d)%Z in
       let V := ((n * Q - S * S) * 100000000)%Z in
       (lo * lo * (n * (n - 1)) <=? V)%Z && (V <=? hi * hi * (n * (n - 1)))%Z)
  | _, _ => false
  end.
Definition analyze_lines_ok (keys : list bytes) (out : bytes) : bool :=
  let nums := flat_map (fun k => if is_decimal k then match atoi k with Some z => [z] | None => [] end else []) keys in
  let all_small := forallb (fun k => implb (is_decimal k) (match atoi k with Some z => (Z.abs z <? 2 ^ 53)%Z | None => false end)) keys in
  let ls := map rtrim_sp (split_nl [] out) in
  if negb all_small then true else
  match line_value (of_str "Samples:") ls with
  | Some n => bytes_eqb n (zs (Z.of_nat (List.length nums)))
  | None => false
  end &&
  match nums with
  | [] => true
  | _ => match line_value (of_str "Min:") ls, line_value (of_str "Max:") ls with
         | Some mn, Some mx => bytes_eqb mn (zs (zmin_list nums) ++ of_str ".0000") && bytes_eqb mx (zs (zmax_list nums) ++ of_str ".0000")
         | _, _ => false
         end &&
         match line_value (of_str "Mean:") ls, line_value (of_str "StdDev:") ls with
         | Some mean, Some sd => mean_sd_ok nums mean sd
         | _, _ => false
         end
  end.

Definition C03_check (i : pin) (o : c03out) : bool :=
  let r := ref_of i in
  let keys := map e_key (Extract.s_matches r) in
  if k_strict o then snaps_same true (k_snaps o) else
  negb (s_panic r) && all_same (k_runs o) && snaps_same false (k_snaps o) &&
  match k_runs o with
  | (code, out) :: _ =>
      let nread := N.to_nat (errs_of (i_srcs i)) in
      let matched := N.to_nat (s_matched r) in
      match k_kind o with
      | 0%N => let c := c_run keys in
               (code =? exit_code nread (N.to_nat (c_errors c)) matched)%Z &&
               match csv_read out with Some rows => counter_rows_ok c rows | None => false end &&
               match k_snaps o with snap :: _ => histo_snap_ok c (N.to_nat (k_n o)) snap | [] => true end
      | 1%N => let t := t_run [0%N] keys in
               (code =? exit_code nread (N.to_nat (t_errors t)) matched)%Z &&
               match csv_read out with Some rows => rows_eq rows (table_rows t) | None => false end
      | 2%N => let s := s_run keys in
               (code =? exit_code nread (N.to_nat (Agg.s_errors s)) matched)%Z &&
               match csv_read out with Some rows => rows_eq rows (subkey_rows s) | None => false end
      | 5%N => let t := t_run [0%N] keys in
               (code =? exit_code nread (N.to_nat (t_errors t)) matched)%Z &&
               match csv_read out with Some rows => spark_trim_ok (N.to_nat (k_n o)) t rows | None => false end
      | 6%N => (code =? exit_code nread 0 matched)%Z &&
               match csv_read out with Some rows => reduce_seq_rows_ok keys rows | None => false end
      | 4%N => (code =? exit_code nread 0 matched)%Z &&
               match csv_read out with Some rows => reduce_rows_ok keys rows | None => false end
      | _ => (* analyze: same text under every variant (above), not a usage error, exit status, and the sample
                 count, minimum and maximum of the numeric keys (exact for integers below 2^53) *)
               starts_with (of_str "Samples:") out && analyze_lines_ok keys out &&
               (code =? exit_code nread (List.length (filter (fun k => negb (is_decimal k)) keys)) matched)%Z
      end
  | [] => false
  end.
Definition mm := mismatches_check C03_check.
