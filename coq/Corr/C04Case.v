(* Glue between generated C04 case files and the model. *)
From Coq Require Import List NArith Bool Arith String.
From RareV Require Import Base.Hex Model.Lines Model.LinesBuf Corr.Run.
Import ListNotations.

(* buffered? (BufferedReadAhead instead of ImmediateReadAhead), buffer size, script, stream *)
Definition inp := (bool * nat * script * list byte)%type.
Definition sk (k : N) : rerr := match k with 0%N => RNil | 1%N => REof | _ => RErr end.

(* c bufSize script stream | observed: tokens at return, tokens at end, nerr, reads-after-error, delivered *)
Definition c (bs : N) (scr : list (N * N)) (str : string)
             (ret end_ : list string) (nerr rae : N) (del : string) : inp * option obs :=
  ((false, N.to_nat bs, map (fun p => (N.to_nat (fst p), sk (snd p))) scr, unhex str),
   Some (mkobs (map unhex ret) (map unhex end_) (N.to_nat nerr) (N.to_nat rae) (unhex del))).
(* the same for BufferedReadAhead (bs = maxBufLen) *)
Definition cb (bs : N) (scr : list (N * N)) (str : string)
              (ret end_ : list string) (nerr rae : N) (del : string) : inp * option obs :=
  ((true, N.to_nat bs, map (fun p => (N.to_nat (fst p), sk (snd p))) scr, unhex str),
   Some (mkobs (map unhex ret) (map unhex end_) (N.to_nat nerr) (N.to_nat rae) (unhex del))).
Definition cbN (bs : N) (scr : list (N * N)) (str : string) : inp * option obs :=
  ((true, N.to_nat bs, map (fun p => (N.to_nat (fst p), sk (snd p))) scr, unhex str), None).

(* the same runs with NO OnError callback registered: the number of callbacks is not observable (the model's
   value is filled in); tokens, held contents, reads after the error and the delivered bytes are compared *)
Definition cq (bs : N) (scr : list (N * N)) (str : string)
              (ret end_ : list string) (rae : N) (del : string) : inp * option obs :=
  let scr' := map (fun p => (N.to_nat (fst p), sk (snd p))) scr in
  ((false, N.to_nat bs, scr', unhex str),
   Some (mkobs (map unhex ret) (map unhex end_) (expected_nerr scr') (N.to_nat rae) (unhex del))).
Definition cbq (bs : N) (scr : list (N * N)) (str : string)
               (ret end_ : list string) (rae : N) (del : string) : inp * option obs :=
  let scr' := map (fun p => (N.to_nat (fst p), sk (snd p))) scr in
  ((true, N.to_nat bs, scr', unhex str),
   Some (mkobs (map unhex ret) (map unhex end_) (expected_nerr scr') (N.to_nat rae) (unhex del))).

(* the implementation did not complete (panic or runaway loop) *)
Definition cN (bs : N) (scr : list (N * N)) (str : string) : inp * option obs :=
  ((false, N.to_nat bs, map (fun p => (N.to_nat (fst p), sk (snd p))) scr, unhex str), None).

Definition model (i : inp) : option obs :=
  let '(buffered, bs, scr, str) := i in if buffered then brun bs scr str else run bs scr str.
Definition oeqb (a b : option obs) : bool :=
  match a, b with Some a, Some b => obs_eqb a b | None, None => true | _, _ => false end.
Definition check (i : inp) (o : option obs) : bool :=
  let '(_, bs, scr, _) := i in match o with Some o => C04_check bs scr o | None => false end.
Definition mm := mismatches model oeqb check.
