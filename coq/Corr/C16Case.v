(* Glue between generated C16 case files and the model (Model/Json.v). *)
From Coq Require Import List NArith ZArith Bool String Ascii.
From RareV Require Import Base.Hex Base.Res Model.Json Corr.Run.
Import ListNotations.

(* input: a match (name table in any order, line, match indices), or the arguments of
   `rare expression` (-d data, -k key=value pairs) *)
Inductive inp :=
| IMatch (tbl : list entry) (line : bytes) (ix : list Z)
| ICli (data : list bytes) (keys : list (bytes * bytes)).

(* observed: for each of {.} {#} {.#} the distinct texts that 50 evaluations of the same match
   produced, and the verdict of the Go-side oracle (encoding/json with UseNumber accepts the
   text(s) and every member agrees with the captured text) *)
Record obs := mkobs { o_dot : list bytes; o_hash : list bytes; o_both : list bytes;
                      g_dot : bool; g_hash : bool; g_both : bool }.

Definition c (tbl : list (string * Z)) (line : string) (ix : list Z)
             (t1 t2 t3 : list string) (g1 g2 g3 : bool) : inp * obs :=
  (IMatch (map (fun p => (unhex (fst p), snd p)) tbl) (unhex line) ix,
   mkobs (map unhex t1) (map unhex t2) (map unhex t3) g1 g2 g3).

(* wide matches: the index vector as text "0,21,-1,-1,..." (a list literal of thousands of numerals
   overflows the stack of the term parser) *)
Fixpoint parse_ix_go (s : string) (neg : bool) (acc : option Z) : list Z :=
  let fin := match acc with Some z => [if neg then (- z)%Z else z] | None => [] end in
  match s with
  | EmptyString => fin
  | String a r =>
      let n := N_of_ascii a in
      if (n =? 44)%N then fin ++ parse_ix_go r false None
      else if (n =? 45)%N then parse_ix_go r true acc
      else parse_ix_go r neg (Some (match acc with Some z => z * 10 | None => 0 end + Z.of_N (n - 48))%Z)
  end.
Definition parse_ix (s : string) : list Z := parse_ix_go s false None.

(* long byte strings come in chunks (a string literal is a term as deep as it is long) *)
Definition unhexc (chunks : list string) : bytes := List.concat (map unhex chunks).

Definition cw (tbl : list (string * Z)) (line : list string) (ix : list string)
              (t1 t2 t3 : list (list string)) (g1 g2 g3 : bool) : inp * obs :=
  (IMatch (map (fun p => (unhex (fst p), snd p)) tbl) (unhexc line) (List.concat (map parse_ix ix)),
   mkobs (map unhexc t1) (map unhexc t2) (map unhexc t3) g1 g2 g3).

Definition e (data : list string) (keys : list (string * string))
             (t1 t2 t3 : list string) (g1 g2 g3 : bool) : inp * obs :=
  (ICli (map unhex data) (map (fun p => (unhex (fst p), unhex (snd p))) keys),
   mkobs (map unhex t1) (map unhex t2) (map unhex t3) g1 g2 g3).

Definition view_texts (named numbered : bool) (i : inp) : list bytes :=
  match i with
  | IMatch tbl line ix => match json_view named numbered tbl line ix with Ok t => [t] | Panic => [] end
  | ICli data keys => [cli_view numbered named data keys]
  end.

Definition expected_of (named numbered : bool) (i : inp) : result (list (bytes * bytes)) :=
  match i with
  | IMatch tbl line ix => expected_members named numbered tbl line ix
  | ICli data keys => Ok (cli_expected numbered named data keys)
  end.

Definition model (i : inp) : obs :=
  mkobs (view_texts true false i) (view_texts false true i) (view_texts true true i) true true true.

(* texts are compared through the reader (decoded members, in order): a different but equivalent
   escaping or spacing is not a disagreement *)
Definition parsed_eqb (a b : list bytes) : bool :=
  match a, b with
  | [x], [y] => match json_parse x, json_parse y with
                | Some p, Some q => list_eqb member_eqb p q
                | _, _ => false
                end
  | _, _ => false
  end.

Definition oeqb (a b : obs) : bool :=
  parsed_eqb (o_dot a) (o_dot b) && parsed_eqb (o_hash a) (o_hash b) && parsed_eqb (o_both a) (o_both b)
  && Bool.eqb (g_dot a) (g_dot b) && Bool.eqb (g_hash a) (g_hash b) && Bool.eqb (g_both a) (g_both b).

Definition check (i : inp) (o : obs) : bool :=
  C16_check_view (expected_of true false i) (o_dot o)
  && C16_check_view (expected_of false true i) (o_hash o)
  && C16_check_view (expected_of true true i) (o_both o)
  && g_dot o && g_hash o && g_both o.

Definition mm := mismatches model oeqb check.
