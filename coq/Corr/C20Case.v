(* Glue between generated C20 case files and the model (Model/Term.v, Model/Trim.v). *)
From Coq Require Import List NArith ZArith Bool Arith String.
From RareV Require Import Base.Hex Base.Res Model.Trim Model.Term Corr.Run.
Import ListNotations.

(* ---- UTF-8 decoding as Go's []rune(string) does it (invalid byte -> U+FFFD, advance by one) ----
   Both the update texts and the captured output go through this function; the model and the
   theorems work on the decoded runes. *)
Local Open Scope N_scope.
Definition cont (b : N) : bool := (128 <=? b) && (b <=? 191).
Fixpoint utf8_decode (l : list N) : list N :=
  match l with
  | [] => []
  | b0 :: r =>
      if b0 <? 128 then b0 :: utf8_decode r else
      let bad := 65533 :: utf8_decode r in
      if (194 <=? b0) && (b0 <=? 223) then
        match r with
        | b1 :: r1 => if cont b1 then ((b0 - 192) * 64 + (b1 - 128)) :: utf8_decode r1 else bad
        | _ => bad
        end
      else if (224 <=? b0) && (b0 <=? 239) then
        match r with
        | b1 :: b2 :: r2 =>
            let lo := if b0 =? 224 then 160 else 128 in
            let hi := if b0 =? 237 then 159 else 191 in
            if (lo <=? b1) && (b1 <=? hi) && cont b2
            then ((b0 - 224) * 4096 + (b1 - 128) * 64 + (b2 - 128)) :: utf8_decode r2 else bad
        | _ => bad
        end
      else if (240 <=? b0) && (b0 <=? 244) then
        match r with
        | b1 :: b2 :: b3 :: r3 =>
            let lo := if b0 =? 240 then 144 else 128 in
            let hi := if b0 =? 244 then 143 else 191 in
            if (lo <=? b1) && (b1 <=? hi) && cont b2 && cont b3
            then ((b0 - 240) * 262144 + (b1 - 128) * 4096 + (b2 - 128) * 64 + (b3 - 128)) :: utf8_decode r3
            else bad
        | _ => bad
        end
      else bad
  end.
Local Close Scope N_scope.

Definition dec (s : string) : text := utf8_decode (unhex s).

(* ---- cases ---- *)
(* KTermDec: histories aimed at the right margin (an emitted text exactly as wide as the terminal;
   finding C20-dec-margin, repaired); judged exactly as KTerm *)
(* KSelect: the writer a command gets for a given kind of standard output (a child process of
   the harness whose real stdout is a pty / /dev/null / pipe / regular file), then a history *)
Inductive kind := KTerm | KTermDec | KBuffered | KVirtual (size : nat)
                | KSelect (k : outkind) (snapshot noout : bool).

Record inp := mkinp { i_kind : kind; i_cfg : cfg; i_ups : list (nat * text) }.

(* observed: the output of every call (one segment per WriteForLine, then Close / WriteToOutput);
   for VirtualTerm also Get(-1), Get(0) .. Get(LineCount) and LineCount; None = the run panicked *)
Record obs := mkobs' { o_segs : list text; o_lines : list text; o_count : nat;
                       (* KSelect: writer handed out (0 live, 1 buffered, 2 null), IsPipedOutput and
                          color.Enabled as the child process sees them *)
                       o_writer : nat; o_piped : bool; o_color : bool;
                       (* KSelect: multiterm.AutoTrim and TermCols() in the child *)
                       o_trim : bool; o_cols : Z }.
Definition mkobs (segs lines : list text) (count : nat) : obs := mkobs' segs lines count 0 false false false 0%Z.

Definition mk (k : kind) (tr : bool) (cols : Z) (ups : list (N * string)) : inp :=
  mkinp k (mkcfg tr cols) (map (fun u => (N.to_nat (fst u), dec (snd u))) ups).

Definition cT (tr : bool) (cols : Z) (ups : list (N * string)) (segs : list string) : inp * option obs :=
  (mk KTerm tr cols ups, Some (mkobs (map dec segs) [] 0)).
Definition cD (tr : bool) (cols : Z) (ups : list (N * string)) (segs : list string) : inp * option obs :=
  (mk KTermDec tr cols ups, Some (mkobs (map dec segs) [] 0)).
Definition cB (tr : bool) (cols : Z) (ups : list (N * string)) (segs : list string) : inp * option obs :=
  (mk KBuffered tr cols ups, Some (mkobs (map dec segs) [] 0)).
Definition cV (size : N) (tr : bool) (cols : Z) (ups : list (N * string)) (out : string)
              (lines : list string) (count : N) : inp * option obs :=
  (mk (KVirtual (N.to_nat size)) tr cols ups, Some (mkobs [dec out] (map dec lines) (N.to_nat count))).
Definition cP (k : N) (size : N) (tr : bool) (cols : Z) (ups : list (N * string)) : inp * option obs :=
  (mk (match k with 0%N => KTerm | 1%N => KBuffered | 3%N => KTermDec | _ => KVirtual (N.to_nat size) end) tr cols ups, None).

Definition okind (n : N) : outkind :=
  match n with 0%N => OTerminal | 1%N => OCharDev | 2%N => OPipe | 3%N => OSocket | 4%N => ORegular | _ => OOther end.
(* cS kind snapshot noout | window width of the pty (ignored otherwise), COLUMNS and LINES in the
   child's environment (None = unset) | history | bytes that arrived on the child's stdout |
   writer, IsPipedOutput, color.Enabled, AutoTrim, TermCols() as the child reports them.
   The configuration the model works with comes from the INPUT (kind of stdout, window size,
   environment), never from the report. *)
Definition oenv (ec el : option string) : env := mkenv (option_map dec ec) (option_map dec el).
Definition mkS (k : N) (snap noout : bool) (win : Z) (ec el : option string) (ups : list (N * string)) : inp :=
  let c := default_cfg (okind k) win (oenv ec el) in
  mk (KSelect (okind k) snap noout) (autotrim c) (cols c) ups.
Definition cS (k : N) (snap noout : bool) (win : Z) (ec el : option string) (ups : list (N * string)) (out : string)
              (w : N) (piped color tr : bool) (cols : Z) : inp * option obs :=
  (mkS k snap noout win ec el ups, Some (mkobs' [dec out] [] 0 (N.to_nat w) piped color tr cols)).
Definition cSP (k : N) (snap noout : bool) (win : Z) (ec el : option string) (ups : list (N * string)) : inp * option obs :=
  (mkS k snap noout win ec el ups, None).

Definition writer_code (w : writer) : nat := match w with WLive => 0 | WBuffered => 1 | WNull => 2 end.

Definition model (i : inp) : option obs :=
  let c := i_cfg i in
  match i_kind i with
  | KTerm | KTermDec => Some (mkobs (map render (tw_session c (i_ups i))) [] 0)
  | KBuffered =>
      match bt_session (autotrim c) (cols c) (i_ups i) with
      | Ok (out, _) => Some (mkobs (map (fun _ => []) (i_ups i) ++ [out]) [] 0)
      | Panic => None
      end
  | KVirtual size =>
      match vt_run (vt_new size) (i_ups i) with
      | Ok v => Some (mkobs [vt_output (autotrim c) (cols c) v]
                            (vt_get v (-1) :: map (fun l => vt_get v (Z.of_nat l)) (seq 0 (S (vt_count v))))
                            (vt_count v))
      | Panic => None
      end
  | KSelect k snap noout =>
      let w := select_from_args noout false snap k in
      let out := match session_output c w (i_ups i) with Ok o => Some o | Panic => None end in
      match out with
      | Some out => Some (mkobs' [out] [] 0 (writer_code w) (is_piped_output k) (color_default k) (autotrim c) (cols c))
      | None => None
      end
  end.

(* the width of the reference terminal used by the comparison and by the check *)
Definition tc_of (c : cfg) (nl dc : bool) : tcfg := mktc (Z.to_nat (cols c)) nl dc.

(* TermWriter: the implementation's bytes may differ from the model's as long as the reference
   terminal shows the same screen (cells, cursor position, cursor visibility) after every call *)
Fixpoint screens_eq (tc : tcfg) (ea eb : scr * pst) (a b : list text) : bool :=
  match a, b with
  | [], [] => true
  | x :: a', y :: b' =>
      let ea' := run tc ea x in
      let eb' := run tc eb y in
      (scr_eqb (fst ea') (fst eb') && Bool.eqb (is_ground (snd ea')) (is_ground (snd eb'))
       && screens_eq tc ea' eb' a' b')%bool
  | _, _ => false
  end.

Definition obs_eqb (i : inp) (a b : obs) : bool :=
  match i_kind i with
  | KTerm | KTermDec =>
      (screens_eq (tc_of (i_cfg i) false false) (scr0, Ground) (scr0, Ground) (o_segs a) (o_segs b)
       && screens_eq (tc_of (i_cfg i) true false) (scr0, Ground) (scr0, Ground) (o_segs a) (o_segs b)
       && screens_eq (tc_of (i_cfg i) false true) (scr0, Ground) (scr0, Ground) (o_segs a) (o_segs b)
       && screens_eq (tc_of (i_cfg i) true true) (scr0, Ground) (scr0, Ground) (o_segs a) (o_segs b))%bool
  | KSelect k snap noout =>
      Bool.eqb (o_trim a) (o_trim b) && Z.eqb (o_cols a) (o_cols b) &&
      match k with
      | OCharDev =>
          (* a character device that is not a terminal (/dev/null): the bytes are discarded and the
             property does not say which writer it gets; only consistency of what the commands see *)
          (Bool.eqb (Nat.eqb (o_writer b) 1) (snap || o_piped b) || Nat.eqb (o_writer b) 2)%bool
          && Bool.eqb (o_color b) (negb (o_piped b))
      | OTerminal =>
          (* the tty has translated "\n" to "\r\n": the model's bytes under ONLCR and the bytes that
             arrived, read literally, must show the same screen *)
          (Nat.eqb (o_writer a) (o_writer b) && Bool.eqb (o_piped a) (o_piped b) && Bool.eqb (o_color a) (o_color b)
           && scr_eqb (fst (run (tc_of (i_cfg i) true true) (scr0, Ground) (List.concat (o_segs a))))
                      (fst (run (tc_of (i_cfg i) false true) (scr0, Ground) (List.concat (o_segs b)))))%bool
      | _ =>
          (Nat.eqb (o_writer a) (o_writer b) && Bool.eqb (o_piped a) (o_piped b) && Bool.eqb (o_color a) (o_color b)
           && list_eqb text_eqb (o_segs a) (o_segs b))%bool
      end
  | _ => (list_eqb text_eqb (o_segs a) (o_segs b) && list_eqb text_eqb (o_lines a) (o_lines b)
          && Nat.eqb (o_count a) (o_count b))%bool
  end.

Definition oeqb (i : inp) (m o : option obs) : bool :=
  match m, o with
  | Some a, Some b => obs_eqb i a b
  | None, None => true
  | _, _ => false
  end.

(* the property's boolean form on the implementation's own output *)
Definition vt_lines_spec (size : nat) (ups : list (nat * text)) : list text :=
  map (fun l => last_write l ups)
      (seq 0 (match ups with [] => size | _ => Nat.max size (S (max_line ups)) end)).

(* the observed output cut at the line feeds: one piece per stored line (when no text contains one) *)
Fixpoint split_nl (l : text) (cur : text) : list text :=
  match l with
  | [] => match cur with [] => [] | _ => [rev cur] end
  | x :: r => if N.eqb x 10 then rev cur :: split_nl r [] else split_nl r (x :: cur)
  end.
Fixpoint trims_ok (cols : Z) (ls cuts : list text) : bool :=
  match ls, cuts with
  | [], [] => true
  | l :: ls', c :: cuts' => (C20_check_trim cols l c && trims_ok cols ls' cuts')%bool
  | _, _ => false
  end.

Definition check (i : inp) (o : option obs) : bool :=
  let c := i_cfg i in
  match o with
  | None => false
  | Some o =>
      match i_kind i with
      | KTerm | KTermDec =>
          (* idealised margin and DEC last-column flag, with and without ONLCR *)
          (C20_check_live (tc_of c false false) c (i_ups i) (o_segs o)
           && C20_check_live (tc_of c true false) c (i_ups i) (o_segs o)
           && C20_check_live (tc_of c false true) c (i_ups i) (o_segs o)
           && C20_check_live (tc_of c true true) c (i_ups i) (o_segs o))%bool
      | KBuffered =>
          (C20_check_buffered c (i_ups i) (List.concat (o_segs o))
           && forallb (fun s => match s with [] => true | _ => false end) (removelast (o_segs o)))%bool
      | KSelect k snap noout =>
          (* the property: anything that is not a character device (pipe, regular file, ...) gets
             the buffered writer, and what arrives are the final lines top to bottom; a terminal
             gets the live writer unless --snapshot; --noout prints nothing *)
          if noout then (Nat.eqb (o_writer o) 2 && text_eqb (List.concat (o_segs o)) [])%bool else
          match k with
          | OCharDev => true
          | OTerminal =>
              let e := run (tc_of c false true) (scr0, Ground) (List.concat (o_segs o)) in
              let n := match i_ups i with [] => 0 | _ => S (max_line (i_ups i)) end in
              (Nat.eqb (o_writer o) (if snap then 1 else 0)
               && (negb (fits (tc_of c false true) c (i_ups i))
                   || (is_ground (snd e) && rows_show c (i_ups i) (rows (fst e)) (S (max_line (i_ups i)))
                       && (List.length (rows (fst e)) <=? S (max_line (i_ups i)))
                       && Nat.eqb (crow (fst e)) (if snap then n else S (max_line (i_ups i)))
                       && Nat.eqb (ccol (fst e)) 0 && cvis (fst e))))%bool
          | _ => (Nat.eqb (o_writer o) 1 && C20_check_buffered c (i_ups i) (List.concat (o_segs o)))%bool
          end
      | KVirtual size =>
          let ls := vt_lines_spec size (i_ups i) in
          (text_eqb (List.concat (o_segs o))
                    (flat_map (fun l => write_line_no_wrap (autotrim c) (cols c) l ++ [10%N]) ls)
           && Nat.eqb (o_count o) (List.length ls)
           && list_eqb text_eqb (o_lines o) ([] :: ls ++ [[]])
           && (negb (autotrim c) || existsb (existsb (N.eqb 10)) ls
               || trims_ok (cols c) ls (split_nl (List.concat (o_segs o)) [])))%bool
      end
  end.

(* as Corr/Run.v mismatches, with an equality that sees the input (the width of the reference terminal) *)
Fixpoint mism (n : nat) (cs : list (inp * option obs)) : list (nat * nat) :=
  match cs with
  | [] => []
  | (x, o) :: r =>
      (if oeqb x (model x) o then [] else [(n, 0)]) ++
      (if check x o then [] else [(n, 1)]) ++ mism (S n) r
  end.
Definition mm := mism 0.
