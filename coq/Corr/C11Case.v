(* Glue between generated C11 case files and the model (Model/Funcs.v). *)
From Coq Require Import List NArith ZArith Bool String.
From RareV Require Import Base.Hex Base.Res Base.Num Model.Humanize Model.CsvItem Model.Funcs Corr.Run.
Import ListNotations.

(* arguments: k = constant of the template, g = match group; the f-variants carry the exact
   float64 value strconv.ParseFloat produced (fN: ParseFloat failed) *)
Definition k (v : string) : arg := A true (unhex v) None.
Definition g (v : string) : arg := A false (unhex v) None.
Definition kf (v : string) (f : option fval) : arg := A true (unhex v) f.
Definition gf (v : string) (f : option fval) : arg := A false (unhex v) f.
Definition fN : option fval := None.
Definition fNaN : option fval := Some FNaN.
Definition fPInf : option fval := Some FPosInf.
Definition fMInf : option fval := Some FNegInf.
Definition fF (m e : Z) : option fval := Some (FFin m e).

Definition oO (s : string) : result bytes := Ok (unhex s).
Definition oP : result bytes := Panic.
(* the call did not return within the harness's time limit: like a panic, no output was produced;
   the model never predicts it, so it is both a disagreement and a failure of the boolean form *)
Definition oH : result bytes := Panic.

(* c function arguments oracle-text observed *)
Definition c (f : fn) (args : list arg) (orc : string) (o : result bytes) : case * result bytes :=
  ((f, args, unhex orc), o).

Definition model (i : case) : result bytes := eval i.
Definition oeqb : result bytes -> result bytes -> bool := res_eqb.
Definition check (i : case) (o : result bytes) : bool := C11_check i o.
Definition mm := mismatches model oeqb check.
