(* Glue between generated C07 case files and the models (Model/Agg.v, Model/Welford.v). *)
From Coq Require Import List NArith ZArith QArith Qabs Qround Bool String.
From RareV Require Import Base.Hex Base.Num Base.Res Model.Agg Model.Welford Corr.Run.
Import ListNotations.
Local Open Scope Z_scope.

Inductive cin :=
| ICounter (h : list bytes)
| ISubkey (h : list bytes)
| ITable (d : bytes) (h : list bytes)
| ITrim (d : bytes) (h : list bytes) (p : tpred) (h2 : list bytes) (p2 : option tpred)
| IAccum (bad : bytes) (d : adef expr) (h : list bytes)
| INum (keep rev : bool) (ps : list Q) (h : list (option Q))
| IPerm (kind : N) (h1 h2 : list bytes).

Inductive obs :=
| OC (items : list (bytes * Z)) (err : N) (total : Z) (groups : N)
| OS (keys : list bytes) (items : list (bytes * (Z * list Z))) (err : N)
| OT (t : tobs)
| OA (groups : list (bytes * list bytes)) (n : N)
| ONm (o : nobs).

(* ---------- observable equality (first argument: model / specification side) ---------- *)
Definition obs_eqb (a b : obs) : bool :=
  match a, b with
  | OC i e t g, OC i' e' t' g' =>
      list_eqb (fun x y : bytes * Z => bytes_eqb (fst x) (fst y) && Z.eqb (snd x) (snd y)) i i'
      && N.eqb e e' && Z.eqb t t' && N.eqb g g'
  | OS k i e, OS k' i' e' =>
      bl_eqb k k' &&
      list_eqb (fun x y : bytes * (Z * list Z) => bytes_eqb (fst x) (fst y) && Z.eqb (fst (snd x)) (fst (snd y)) && Zl_eqb (snd (snd x)) (snd (snd y))) i i'
      && N.eqb e e'
  | OT t, OT t' => tobs_eqb t t'
  | OA g n, OA g' n' =>
      list_eqb (fun x y : bytes * list bytes => bytes_eqb (fst x) (fst y) && bl_eqb (snd x) (snd y)) g g' && N.eqb n n'
  | ONm o, ONm o' => nobs_eqb o o'
  | _, _ => false
  end.
Definition oeqb (a b : list obs) : bool := list_eqb obs_eqb a b.

(* ---------- model: the observables after every prefix of the history ---------- *)
Fixpoint prefixes {X} (h : list X) : list (list X) :=
  [] :: match h with [] => [] | x :: r => map (cons x) (prefixes r) end.

Definition oC (c : counter) : obs := let '(i, e, t, g) := c_obs c in OC i e t g.
Definition oS (s : subkey) : obs := OS (s_keys s) (s_matches s) (s_errors s).
Definition oT (t : table) : obs := OT (t_obs (map fst (t_cols t)) t).
Definition oA (st : amap (list bytes)) : obs := OA st (N.of_nat (List.length st)).

(* Sample/Trim histories: samples h, Trim p, samples h2, optionally Trim p2; observed from the state
   before the first Trim on, with Value/ColTotal probed at every column any sample mentions *)
Definition trim_ops (h : list bytes) (p : tpred) (h2 : list bytes) (p2 : option tpred) : list top :=
  map TSample h ++ [TTrim (tpred_eval p) []] ++ map TSample h2 ++
  match p2 with Some q => [TTrim (tpred_eval q) []] | None => [] end.
Definition trim_probe (d : bytes) (h h2 : list bytes) : list bytes :=
  usort (map (fun x : bytes * bytes * Z => fst (fst x)) (valid3 d (h ++ h2))).
Definition model (i : cin) : list obs :=
  match i with
  | ICounter h => map oC (scan c_sample h c0)
  | ISubkey h => map oS (scan s_sample h s0)
  | ITable d h => map oT (scan (t_sample d) h t0)
  | ITrim d h p h2 p2 =>
      map (fun t => OT (t_obs (trim_probe d h h2) t)) (skipn (List.length h) (scan (t_opm d) (trim_ops h p h2 p2) t0))
  | IAccum bad d h => map oA (scan (a_sample expr (eval_expr bad) d) h [])
  | INum keep rev ps h =>
      map (fun s => ONm (n_obs rev ps (oks h) s)) (scan (n_sample keep) h num0)
  | IPerm k h1 h2 =>
      match k with
      | 0%N => [oC (c_run h1); oC (c_run h2)]
      | 1%N => [oS (s_run h1); oS (s_run h2)]
      | _ => [oT (t_run [0%N] h1); oT (t_run [0%N] h2)]
      end
  end.

(* ---------- the property's boolean form on an observed output ---------- *)
(* numerical: what the property says of the observed statistics, from the sample list alone *)
Definition num_check (keep rev : bool) (ps : list Q) (all : list Q) (xs : list Q) (nerr : N) (o : nobs) : bool :=
  let n := List.length xs in
  let tol := Qred ((1 # 1000000000) * (1 + qmaxabs all)) in
  let mean := match n with O => 0%Q | _ => Qred (qsum xs / qn n) end in
  let var := match n with O | S O => 0%Q | S m => Qred (qsqdev mean xs / qn m) end in
  let kept := if keep then xs else [] in
  let srt := if rev then List.rev (qsort kept) else qsort kept in
  let k := List.length kept in
  N.eqb (no_count o) (N.of_nat n) && N.eqb (no_err o) nerr &&
  close tol mean (no_mean o) &&
  close2 (var_tol2 n mean (qsqdev mean xs)) var (no_var o) &&
  close2 (var_tol2 n mean (qsqdev mean xs)) var (no_sd o * no_sd o) &&
  Qeq_bool (match qmin_list xs with Some m => m | None => maxfloat end) (no_min o) &&
  Qeq_bool (match qmax_list xs with Some m => m | None => - maxfloat end) (no_max o) &&
  Qeq_bool (nth (k / 2) srt 0%Q) (no_median o) &&
  (* mode: a kept value of maximal multiplicity (0 when nothing is kept) *)
  (match kept with
   | [] => Qeq_bool 0 (no_mode o)
   | _ => existsb (Qeq_bool (no_mode o)) kept &&
          forallb (fun y => Nat.leb (qcount y kept) (qcount (no_mode o) kept)) kept
   end) &&
  (* quantile p: the floor(k*p)-th order statistic, the last one for p >= 1; 0 when nothing is kept;
     p < 0 is outside the property *)
  rql_eqb (map (fun p => match kept with
                         | [] => Ok 0%Q
                         | _ => if Qltb p 0 then quantile srt p
                                else Ok (nth (Nat.min (Z.to_nat (Qfloor (qn k * p))) (k - 1)) srt 0%Q)
                         end) ps)
          (no_quant o).

Fixpoint num_checks (keep rev : bool) (ps : list Q) (all : list Q) (pre : list (list (option Q))) (os : list obs) : bool :=
  match pre, os with
  | [], [] => true
  | h :: pre', ONm o :: os' =>
      num_check keep rev ps all (oks h) (N.of_nat (List.length h - List.length (oks h))) o && num_checks keep rev ps all pre' os'
  | _, _ => false
  end.

Definition check (i : cin) (o : list obs) : bool :=
  match i with
  | ICounter h => oeqb (map (fun p => oC (spec_counter p)) (prefixes h)) o
  | ISubkey h => oeqb (map (fun p => oS (spec_subkey p)) (prefixes h)) o
  | ITable d h => oeqb (map (fun p => oT (spec_table d p)) (prefixes h)) o
  | ITrim d h p h2 p2 =>
      (* the table determined by the cells alone, the cells following Sample (add) / Trim (filter) *)
      oeqb (map (fun st : cellmap * N => OT (t_obs (trim_probe d h h2) (rebuild (fst st) (snd st))))
                (skipn (List.length h) (scan (cs_op d) (trim_ops h p h2 p2) ([], 0%N))))
           o
  | IAccum bad d h => oeqb (map (fun p => oA (spec_accum expr (eval_expr bad) d p)) (prefixes h)) o
  | INum keep rev ps h => num_checks keep rev ps (oks h) (prefixes h) o
  | IPerm _ _ _ => match o with [a; b] => obs_eqb a b | _ => false end
  end.

Definition mm := mismatches model oeqb check.

(* ---------- constructors used by the generated case files (Z and hex-string literals) ---------- *)
Definition hx := unhex.
Definition hxs (l : list string) : list bytes := map unhex l.
Definition zn (z : Z) : N := Z.to_N z.
(* exact value of a float64: m * 2^e *)
Definition fq (m e : Z) : Q :=
  Qred (if e <? 0 then Qmake m (Z.to_pos (2 ^ (- e))) else inject_Z (m * 2 ^ e)).
Definition fo (ok : bool) (m e : Z) : option Q := if ok then Some (fq m e) else None.

Definition oc (items : list (string * Z)) (err total groups : Z) : obs :=
  OC (map (fun p => (unhex (fst p), snd p)) items) (zn err) total (zn groups).
Definition os (keys : list string) (items : list (string * Z * list Z)) (err : Z) : obs :=
  OS (hxs keys) (map (fun p => (unhex (fst (fst p)), (snd (fst p), snd p))) items) (zn err).
Definition mkt (cols : list string) (rows : list (string * Z * list Z)) (tot : list Z) (sum mn mx err nr nc : Z) : tobs :=
  mkTO (hxs cols) (map (fun p => (unhex (fst (fst p)), (snd (fst p), snd p))) rows) tot sum mn mx (zn err) (zn nr) (zn nc).
Definition ot cols rows tot sum mn mx err nr nc : obs := OT (mkt cols rows tot sum mn mx err nr nc).
Definition oa (groups : list (string * list string)) (n : Z) : obs :=
  OA (map (fun p => (unhex (fst p), hxs (snd p))) groups) (zn n).
(* quantile results: (true, m, e) = value, (false, _, _) = panic *)
Definition rq (p : bool * Z * Z) : result Q := let '(ok, m, e) := p in if ok then Ok (fq m e) else Panic.
Definition f2 (p : Z * Z) : Q := fq (fst p) (snd p).
Definition on (count err : Z) (mean var sd mn mx med mode : Z * Z) (qs : list (bool * Z * Z)) : obs :=
  ONm (mkNO (zn count) (zn err) (f2 mean) (f2 var) (f2 sd) (f2 mn) (f2 mx) (f2 med) (f2 mode) (map rq qs) 0 0).

Definition pcols (cs : list string) := PCols (hxs cs).
Definition prows (rs : list string) := PRows (hxs rs).
Definition pcolval (cs : list string) (z : Z) := PColVal (hxs cs) z.

Definition eL (s : string) := ELit (unhex s).
Definition eM (n : Z) := EMatch (Z.to_nat n).
Definition eK (s : string) := EKey (unhex s).
Definition adf (groups : list expr) (cols : list (string * expr * string)) : adef expr :=
  mkAD groups (map (fun c => (unhex (fst (fst c)), snd (fst c), unhex (snd c))) cols).

Definition kCounter (h : list string) (o : list obs) : cin * list obs := (ICounter (hxs h), o).
Definition kSubkey (h : list string) (o : list obs) : cin * list obs := (ISubkey (hxs h), o).
Definition kTable (d : string) (h : list string) (o : list obs) : cin * list obs := (ITable (unhex d) (hxs h), o).
Definition kTrim (d : string) (h : list string) (p : tpred) (h2 : list string) (p2 : option tpred) (o : list obs) : cin * list obs :=
  (ITrim (unhex d) (hxs h) p (hxs h2) p2, o).
Definition kAccum (bad : string) (d : adef expr) (h : list string) (o : list obs) : cin * list obs :=
  (IAccum (unhex bad) d (hxs h), o).
Definition kNum (keep rev : bool) (ps : list (Z * Z)) (h : list (bool * Z * Z)) (o : list obs) : cin * list obs :=
  (INum keep rev (map f2 ps) (map (fun p => let '(ok, m, e) := p in fo ok m e) h), o).
Definition kPerm (kind : Z) (h1 h2 : list string) (o : list obs) : cin * list obs :=
  (IPerm (zn kind) (hxs h1) (hxs h2), o).
