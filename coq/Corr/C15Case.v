(* Glue between generated C15 case files and the model (Model/Follow.v). *)
From Coq Require Import List NArith Bool String.
From RareV Require Import Base.Hex Model.Follow Corr.Run.
Import ListNotations.

(* log entries: (0, hex) append | (1, _) remove | (2, _) create | (3, hex) Read returned data | (4, _) Read returned EOF | (5, _) another entry of the directory was touched *)
Definition lab (p : N * string) : label :=
  match fst p with
  | 0%N => LAppend (unhex (snd p)) | 1%N => LRemove | 2%N => LCreate | 3%N => LData (unhex (snd p)) | 5%N => LSibling | _ => LEof
  end.

(* c poll reopen tail file-exists-at-start initial-content history | observed: delivered, termination, merged log *)
Definition c (poll reopen tail has0 : bool) (c0 : string) (hist : list (N * string))
             (del : string) (term : N) (log : list (N * string)) : cin * obs :=
  (mkcin poll reopen tail (if has0 then Some (unhex c0) else None) (map lab hist),
   (unhex del, term, map lab log)).

(* the same with the delivered stream given in pieces (Coq cannot parse literals of hundreds of kilobytes; long log
   entries are likewise split by the harness into consecutive entries of the same kind) *)
Definition cL (poll reopen tail has0 : bool) (c0 : string) (hist : list (N * string))
              (del : list string) (term : N) (log : list (N * string)) : cin * obs :=
  (mkcin poll reopen tail (if has0 then Some (unhex c0) else None) (map lab hist),
   (List.concat (map unhex del), term, map lab log)).

Definition model := Follow.model.
Definition oeqb := obs_eqb.
Definition check := C15_check.
Definition mm := mismatches model oeqb check.
