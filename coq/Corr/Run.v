(* Generic machinery for generated case files (correspondence model <-> implementation). *)
From Coq Require Import List NArith Bool.
Import ListNotations.

Section Run.
  Context {I O : Type}.
  Variable model : I -> O.          (* executable model: observable predicted for an input *)
  Variable oeqb : O -> O -> bool.   (* equality on observables *)
  Variable check : I -> O -> bool.  (* the property's boolean form on an observed output *)

  (* kind 0: model and implementation disagree; kind 1: the property fails on the implementation's output *)
  Fixpoint mism (i : nat) (cs : list (I * O)) : list (nat * nat) :=
    match cs with
    | [] => []
    | (x, o) :: r =>
        (if oeqb (model x) o then [] else [(i, 0)]) ++
        (if check x o then [] else [(i, 1)]) ++ mism (S i) r
    end.
  Definition mismatches := mism 0.
End Run.

(* variant for properties whose reference is not a function of the input alone (e.g. the order in
   which a concurrent pipeline emits results): only the property's boolean form is evaluated *)
Section RunCheck.
  Context {I O : Type}.
  Variable check : I -> O -> bool.
  Fixpoint mismc (i : nat) (cs : list (I * O)) : list (nat * nat) :=
    match cs with
    | [] => []
    | (x, o) :: r => (if check x o then [] else [(i, 1)]) ++ mismc (S i) r
    end.
  Definition mismatches_check := mismc 0.
End RunCheck.
