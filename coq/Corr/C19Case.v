(* Glue between generated C19 case files and the model.
   A case = a formula (hex bytes) + what stdmath.Compile did with it: the compiled tree as printed
   by the hook stdmath.VerifDump (constants as exact dyadic values), a compile error, or a panic;
   plus [vals]: the harness's verdict that Eval of the formula, Eval of the formula with every
   numeric constant replaced by a variable bound to the same value, and the reference
   evaluation of the dumped constant-free tree agree bit for bit at every binding tried.

   The model is run with the value type [option const]: [Some c] = the literal c itself,
   [None] = the result of an operation (a folded constant).  This computes exactly the SHAPE of
   the simplified tree: which subtrees are folded into one constant. *)
From Coq Require Import List NArith ZArith Bool String.
From RareV Require Import Base.Hex Base.Num Base.Res Gen.GenMathOps Model.MathParse Model.MathTok Model.MathEval Corr.Run.
Import ListNotations.

(* float64 values, exactly *)
Inductive fval := FNaN | FInf (neg : bool) | FFin (neg : bool) (m : N) (e : Z).   (* (-1)^neg * m * 2^e *)

Inductive itree :=
| IVal (f : fval) | INamed (n : bytes) | IIdx (i : Z) | IUn (m : bytes) (t : itree) | IBin (o : bytes) (l r : itree).

Inductive obs :=
| OImpl (r : option (option itree)) (vals : bool)   (* Some (Some t): compiled; Some None: compile error; None: panic *)
| OModel (r : out (expr (option const))).

(* constructors used by the generated files *)
Definition Vf (neg : bool) (m : N) (e : Z) : itree := IVal (FFin neg m e).
Definition Vnan : itree := IVal FNaN.
Definition Vinf (neg : bool) : itree := IVal (FInf neg).
Definition Nm (h : string) : itree := INamed (unhex h).
Definition Ix (i : Z) : itree := IIdx i.
Definition U (h : string) (t : itree) : itree := IUn (unhex h) t.
Definition B (h : string) (l r : itree) : itree := IBin (unhex h) l r.

Definition cOk (h : string) (t : itree) (vals : bool) : bytes * obs := (unhex h, OImpl (Some (Some t)) vals).
Definition cErr (h : string) (vals : bool) : bytes * obs := (unhex h, OImpl (Some None) vals).
Definition cPanic (h : string) : bytes * obs := (unhex h, OImpl None false).

(* ---- the model, at the shape instance ---- *)
Definition shp := option const.
Definition sh2 : shp -> shp -> shp := fun _ _ => None.
Definition shb : shp -> shp -> bool := fun _ _ => false.
Definition shape_compile (s : bytes) : out (expr shp) :=
  compile shp sh2 sh2 sh2 sh2 sh2 shb shb shb shb shb (fun _ => false) None None None
          (fun _ => 1%Z) (fun _ => None) (fun _ _ => None) (fun c => Some c) true true s.
Definition model (s : bytes) : obs := OModel (shape_compile s).

(* ---- a literal against the float64 the implementation holds: correctly rounded ---- *)
Definition near (a b : Z) (m : N) (e : Z) : bool :=   (* | a/b - m*2^e | <= 2^(e-1), b > 0 *)
  let m := Z.of_N m in
  if (0 <=? e)%Z then (Z.abs (2 * a - 2 * b * m * 2 ^ e) <=? b * 2 ^ e)%Z
  else (Z.abs (2 * a * 2 ^ (- e) - 2 * b * m) <=? b)%Z.
Definition const_match (c : const) (f : fval) : bool :=
  match c, f with
  | CNaN, FNaN => true
  | CInf, FInf false => true
  | CInt z, FFin false m e => near z 1 m e
  | CDec m10 e10, FFin false m e =>
      if (0 <=? e10)%Z then near (m10 * 10 ^ e10) 1 m e else near m10 (10 ^ (- e10)) m e
  | CBin m2 e2, FFin false m e =>
      if (0 <=? e2)%Z then near (m2 * 2 ^ e2) 1 m e else near m2 (2 ^ (- e2)) m e
  | _, _ => false
  end.

Fixpoint tree_match (e : expr shp) (t : itree) : bool :=
  match e, t with
  | EVal (Some c), IVal f => const_match c f
  | EVal None, IVal _ => true              (* a folded constant: its value is covered by [vals] *)
  | ENamed n, INamed n' => bytes_eqb n n'
  | EIdx i, IIdx i' => (i =? i')%Z
  | EUn m x, IUn m' x' => bytes_eqb m m' && tree_match x x'
  | EBin o l r, IBin o' l' r' => bytes_eqb o o' && tree_match l l' && tree_match r r'
  | _, _ => false
  end.

(* model outcome against implementation outcome *)
Definition oeqb (a b : obs) : bool :=
  match a, b with
  | OModel (OOk e), OImpl (Some (Some t)) _ => tree_match e t
  | OModel OErr, OImpl (Some None) _ => true
  | OModel OPanic, OImpl None _ => true
  | _, _ => false
  end.

(* the property on an observed outcome: no crash; a compiled tree is the (folded) shape of the
   unique well-precedenced tree over the formula's tokens -- which is what the model builds
   (C19_parse_sound / C19_unique) -- and a malformed formula is an error; values agree. *)
Definition check (s : bytes) (o : obs) : bool :=
  match o with
  | OImpl None _ => false
  | OImpl (Some r) vals =>
      vals && match tokenize s with OOk ts => toks_mods_ok ts | _ => true end   (* premise of C19_total *)
      && match shape_compile s, r with
              | OOk e, Some t => tree_match e t
              | OErr, None => true
              | _, _ => false
              end
  | OModel _ => false
  end.

Definition mm := mismatches model oeqb check.

(* ---------------------------------------------------------------- search mode only
   Used by the driver after an obligation has stopped checking (e.g. C19_levels on a regenerated
   orderOfOps), to look for a concrete failing formula: the property's own order of operations
   ("^ before * / % before + - before comparisons before && ||, equal levels left to right"), frozen
   here and NOT regenerated from the source, against the tree the (regenerated) parser builds.
   Formulas using any other binary operator (shifts, & |: the property does not place them) are
   skipped.  Never part of the quick/thorough decision on a tree whose obligations all check. *)
Definition specOrder : list (list bytes) :=
  [ [[94]]; [[42]; [47]; [37]]; [[43]; [45]];
    [[61;61]; [60;61]; [62;61]; [62]; [60]]; [[38;38]; [124;124]] ]%N.
Definition slvl (o : bytes) : nat := lvl bytes bytes_eqb specOrder o.
Definition spec_op (o : bytes) : bool := Nat.ltb (slvl o) (List.length specOrder).
Fixpoint spec_ops_only (t : mast) : bool :=
  match t with
  | Atom _ => true | Grp e => spec_ops_only e | Un _ e => spec_ops_only e
  | Bin o _ l r => spec_op o && spec_ops_only l && spec_ops_only r
  end.
Fixpoint spec_wpb (t : mast) : bool :=
  match t with
  | Atom _ => true | Grp e => spec_wpb e | Un _ e => spec_wpb e
  | Bin o _ l r =>
      spec_wpb l && spec_wpb r
      && match l with Bin ol _ _ _ => Nat.leb (slvl ol) (slvl o) | _ => true end
      && match r with Bin or' _ _ _ => Nat.ltb (slvl or') (slvl o) | _ => true end
  end.
Definition check_search (s : bytes) (o : obs) : bool :=
  check s o &&
  match parse_formula true s with
  | OOk t => if spec_ops_only t then spec_wpb t else true
  | _ => true
  end.
Definition mm_search := mismatches model oeqb check_search.
