(* Glue between generated C17 case files and the model (Model/ArrayFns.v). *)
From Coq Require Import List NArith ZArith Bool String.
From RareV Require Import Base.Hex Model.Splitter Model.ArrayFns Corr.Run.
Import ListNotations.

(* expression constructors taking hex string literals *)
Definition L (s : string) : expr := Lit (unhex s).
Definition G (i : Z) : expr := Arg i.
Definition K (s : string) : expr := Key (unhex s).
Definition xSplit (a : expr) (d : string) : expr := ASplit a (unhex d).
Definition xJoin (a : expr) (d : string) : expr := AJoin a (unhex d).
Definition xReduce (a f : expr) (init : string) : expr := AReduce a f (unhex init).
Definition xIn (a : expr) (set : list string) : expr := AIn a (map unhex set).

Definition inp := (expr * ctx)%type.
Definition mk (e : expr) (ms : list string) (ks : list (string * string)) : inp :=
  (e, mkctx (map unhex ms) (map (fun p => (unhex (fst p), unhex (snd p))) ks)).

(* c expr matches keys output *)
Definition c (e : expr) (ms : list string) (ks : list (string * string)) (out : string) : inp * obs :=
  (mk e ms ks, Some (unhex out)).
(* the implementation panicked / did not finish / concurrent evaluation disagreed *)
Definition cN (e : expr) (ms : list string) (ks : list (string * string)) : inp * obs :=
  (mk e ms ks, None).

Definition model (i : inp) : obs := ArrayFns.model (fst i) (snd i).
Definition oeqb := obs_eqb.
Definition check (i : inp) (o : obs) : bool := C17_check (fst i) (snd i) o.
Definition mm := mismatches model oeqb check.
