(* Glue between generated C10 case files and the model. *)
From Coq Require Import List NArith ZArith Bool Arith String.
From RareV Require Import Base.Hex Model.Eff Model.Optimize Model.FuncFile Model.C10Check Corr.Run.
Import ListNotations.

Definition hx := unhex.
Definition mkctxs (cs : list (list string * list (string * string))) :=
  map (fun c => (map hx (fst c), map (fun p => (hx (fst p), hx (snd p))) (snd c))) cs.
Definition mkrow (r : string * string * string * bool * bool) : row :=
  let '(a, b, c, d, e) := r in mkRow (hx a) (hx b) (hx c) d e.

(* modelled cases carry an input for the model; equality-only cases (unmodelled helpers, the CLI)
   carry nothing: the observation itself is the list of groups that must be equal *)
Inductive xin := XModel (i : cin) | XEq.
Definition xobs := (obs + list (list bytes))%type.

(* c timed funcs template contexts | observed: names, loader errors, rows, concurrent=sequential *)
Definition c (timed : bool) (funcs tmpl : string) (cs : list (list string * list (string * string)))
             (names : list string) (nerr : N) (rows : list (string * string * string * bool * bool))
             (conc : bool) : xin * xobs :=
  (XModel (mkIn (hx funcs) (hx tmpl) (mkctxs cs) timed),
   inl (Some (map hx names, N.to_nat nerr, map mkrow rows, conc))).
(* the implementation panicked or did not finish *)
Definition cP (timed : bool) (funcs tmpl : string) (cs : list (list string * list (string * string)))
  : xin * xobs := (XModel (mkIn (hx funcs) (hx tmpl) (mkctxs cs) timed), inl None).
(* ce groups: every group lists outputs that must be equal *)
Definition ce (groups : list (list string)) : xin * xobs := (XEq, inr (map (map hx) groups)).

Definition model (x : xin) : xobs :=
  match x with XModel i => inl (C10Check.model i) | XEq => inr [] end.
Definition oeqb (a b : xobs) : bool :=
  match a, b with
  | inl a, inl b => obs_eqb a b
  | inr _, inr _ => true            (* no prediction *)
  | _, _ => false
  end.
Definition check (x : xin) (o : xobs) : bool :=
  match x, o with
  | XModel i, inl o => C10_check i o
  | XEq, inr groups => C10_eq_check groups
  | _, _ => false
  end.
Definition mm := mismatches model oeqb check.
