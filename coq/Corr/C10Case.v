(* Glue between generated C10 case files and the model. *)
From Coq Require Import List NArith ZArith Bool Arith String.
From RareV Require Import Base.Hex Model.Eff Model.Optimize Model.FuncFile Model.C10Check Corr.Run.
Import ListNotations.

Definition hx := unhex.
Definition mkctxs (cs : list (list string * list (string * string))) :=
  map (fun c => (map hx (fst c), map (fun p => (hx (fst p), hx (snd p))) (snd c))) cs.
Definition mkrow (r : string * string * string * bool * bool) : row :=
  let '(a, b, c, d, e) := r in mkRow (hx a) (hx b) (hx c) d e.

(* c timed funcs template contexts | observed: names, loader errors, rows, concurrent=sequential *)
Definition c (timed : bool) (funcs tmpl : string) (cs : list (list string * list (string * string)))
             (names : list string) (nerr : N) (rows : list (string * string * string * bool * bool))
             (conc : bool) : cin * obs :=
  (mkIn (hx funcs) (hx tmpl) (mkctxs cs) timed,
   Some (map hx names, N.to_nat nerr, map mkrow rows, conc)).
(* the implementation panicked or did not finish *)
Definition cP (timed : bool) (funcs tmpl : string) (cs : list (list string * list (string * string)))
  : cin * obs := (mkIn (hx funcs) (hx tmpl) (mkctxs cs) timed, None).

Definition model := C10Check.model.
Definition oeqb := obs_eqb.
Definition check := C10_check.
Definition mm := mismatches model oeqb check.
