(* Glue for pipeline cases (C01 and C02): the implementation's run of the real batchers+extractor
   is compared with the sequential reference of Model/Extract.v over lines_spec of each input. *)
From Coq Require Import List NArith ZArith Bool Arith String.
From RareV Require Import Base.Hex Base.Res Base.Num Model.Lines Model.Batch Model.Pipeline Model.Ctx Model.Color Model.Extract Corr.Run Gen.GenColor.
Import ListNotations.

Record psrc := { p_name : bytes; p_ok : bool; p_stream : bytes; p_rerr : bool }.
Record pin := {
  i_srcs : list psrc;
  i_names : list (bytes * Z);
  i_extract : ktmpl;
  i_ignore : list ktmpl;
  i_oracle : list (option (list Z));   (* per line of every openable source, in order *)
  i_cfg : (N * N * N * N)%type;        (* batch, workers, readers, buffer *)
  i_ordered : bool                     (* one reader at a time and one worker: consumption order is input order *)
}.
(* one observed match: source name, line number, text at hand-out, text re-read after GC, indices, indices re-read, key *)
Record pm := { o_src : bytes; o_no : N; o_line : bytes; o_line2 : bytes; o_ix : list Z; o_ix2 : list Z; o_key : bytes;
               o_wrapped : bytes (* `rare filter` output for the match, colour on *) }.
Record pout := {
  o_completed : bool;
  o_R : N; o_M : N; o_I : N; o_errs : N;
  o_summary : bytes;                   (* FWriteExtractorSummary, colour disabled *)
  o_sorted : list pm;                  (* matches ordered by (source position, line number) *)
  o_order : list (bytes * N);          (* (source, line number) in consumption order *)
  o_cli : list bytes                   (* [] or [stdout of `rare filter`; stdout of `rare --color filter`] on the same files, 1 reader, 1 worker *)
}.

(* run-length form for long byte strings: [(hex, n)] = the bytes of hex repeated n times *)
Definition rl (ps : list (string * N)) : bytes :=
  flat_map (fun p => N.iter (snd p) (fun acc => unhex (fst p) ++ acc) []) ps.
Definition S (name : string) (ok : bool) (stream : list (string * N)) (rerr : bool) : psrc :=
  {| p_name := unhex name; p_ok := ok; p_stream := rl stream; p_rerr := rerr |}.
Definition Mt (src : string) (no : N) (line line2 : list (string * N)) (ix ix2 : list Z) (key wrapped : list (string * N)) : pm :=
  {| o_src := unhex src; o_no := no; o_line := rl line; o_line2 := rl line2; o_ix := ix; o_ix2 := ix2; o_key := rl key; o_wrapped := rl wrapped |}.
Definition L (s : string) := KLit (unhex s).
Definition Nm (s : string) := KName (unhex s).
Definition nm (s : string) (i : Z) := (unhex s, i).
Definition od (s : string) (n : N) := (unhex s, n).

Definition ids_of (srcs : list psrc) : list lineid :=
  flat_map (fun s => if p_ok s then numbered (p_name s) 1%N (lines_fast (p_stream s)) else []) srcs.
Definition errs_of (srcs : list psrc) : N :=
  fold_right (fun s a => (if p_ok s then (if p_rerr s then 1 else 0) else 1) + a)%N 0%N srcs.
Definition ref_of (i : pin) : summary :=
  reference (i_names i) (i_extract i) (i_ignore i) (ids_of (i_srcs i)) (i_oracle i) summary0.

Fixpoint all2 {A B} (f : A -> B -> bool) (a : list A) (b : list B) : bool :=
  match a, b with
  | [], [] => true
  | x :: a', y :: b' => f x y && all2 f a' b'
  | _, _ => false
  end.
Definition zl_eqb := list_eqb Z.eqb.
Definition cfg_pos (i : pin) : bool :=
  let '(b, w, r, f) := i_cfg i in ((1 <=? b) && (1 <=? w) && (1 <=? r) && (1 <=? f))%N.

(* ---- C01: counters and the multiset of keys ---- *)
Definition key_eqb (m : mtch) (o : pm) : bool :=
  bytes_eqb (e_src m) (o_src o) && (e_no m =? o_no o)%N && bytes_eqb (e_key m) (o_key o).
Definition C01_check (i : pin) (o : pout) : bool :=
  let r := ref_of i in
  cfg_pos i && negb (s_panic r) && o_completed o &&
  (o_R o =? s_read r)%N && (o_M o =? s_matched r)%N && (o_I o =? s_ignored r)%N &&
  (o_errs o =? errs_of (i_srcs i))%N &&
  (N.of_nat (List.length (i_oracle i)) =? s_read r)%N &&
  (o_M o + o_I o <=? o_R o)%N &&
  bytes_eqb (o_summary o) (summary_line (s_matched r) (s_read r) (s_ignored r)) &&
  all2 key_eqb (s_matches r) (o_sorted o).

(* ---- C02: every field of every match; held values; order with one reader and one worker ---- *)
(* cmd/filter.go: a single index pair highlights the whole match, otherwise only the groups *)
Definition filter_groups (ix : list Z) : list Z := if (List.length ix =? 2)%nat then ix else skipn 2 ix.
Definition filter_ok (o : pm) : bool :=
  match wrap_indices GroupColors Reset (o_line o) (filter_groups (o_ix o)) with
  | Ok w => bytes_eqb w (o_wrapped o) && (if no_esc (o_line o) then bytes_eqb (strip_sgr (o_wrapped o)) (o_line o) else true)
  | Panic => false
  end.
Definition match_eqb (m : mtch) (o : pm) : bool :=
  key_eqb m o && bytes_eqb (e_line m) (o_line o) && bytes_eqb (o_line2 o) (o_line o) &&
  zl_eqb (e_ix m) (o_ix o) && zl_eqb (o_ix2 o) (o_ix o) && filter_ok o.
Definition ord_eqb (m : mtch) (p : bytes * N) : bool := bytes_eqb (e_src m) (fst p) && (e_no m =? snd p)%N.
(* default `rare filter` (cmd/filter.go, extraction {0}): one output line per input line whose match is not
   empty, in input order (one reader at a time, one worker); with colour codes removed it is the line itself *)
Definition nonempty_match (m : mtch) : bool :=
  match e_ix m with lo :: hi :: _ => (lo <? hi)%Z | _ => false end.
Definition cli_expect (ms : list mtch) : bytes :=
  flat_map (fun m => e_line m ++ [10%N]) (filter nonempty_match ms).
Definition cli_ok (ms : list mtch) (cli : list bytes) : bool :=
  match cli with
  | [] => true
  | [plain; coloured] =>
      bytes_eqb plain (cli_expect ms) &&
      (if forallb (fun m => no_esc (e_line m)) ms then bytes_eqb (strip_sgr coloured) (cli_expect ms) else true)
  | _ => false
  end.
Definition C02_check (i : pin) (o : pout) : bool :=
  let r := ref_of i in
  cfg_pos i && negb (s_panic r) && o_completed o && cli_ok (s_matches r) (o_cli o) &&
  all2 match_eqb (s_matches r) (o_sorted o) &&
  (if i_ordered i then all2 ord_eqb (s_matches r) (o_order o) else true) &&
  (List.length (o_order o) =? List.length (o_sorted o))%nat.

(* the model's prediction is the reference itself; "agreement" = the check holds *)
Definition model (i : pin) : summary := ref_of i.
Definition mm01 := mismatches_check C01_check.
Definition mm02 := mismatches_check C02_check.
