(* Glue between generated C12 case files and the model (case files open Z_scope and string_scope). *)
From Coq Require Import List NArith ZArith Bool Arith String Ascii.
From RareV Require Import Base.Hex Model.Dissect Model.IntPool Model.DissectRun Corr.Run.
Import ListNotations.

(* Case files carry the line list and the result lists as single strings (a 3000-element Coq list
   literal takes seconds to elaborate; a string literal does not):
     lines   = hex of each line, each terminated by ';'
     results = per line either "-" (nil) or decimal offsets separated by ',', each terminated by ';'
   both cut into chunks of at most 2000 characters (very long string literals overflow coqc's stack) *)
Definition cat (chunks : list string) : string := String.concat EmptyString chunks.
Local Open Scope N_scope.
Fixpoint plines (s : string) (hi : option N) (cur : list N) (out : list bytes) : list bytes :=
  match s with
  | EmptyString => rev out
  | String a r =>
      let n := N_of_ascii a in
      if n =? 59 then plines r None [] (rev cur :: out)
      else match hi with
           | None => plines r (Some (hexval a)) cur out
           | Some h => plines r None ((16 * h + hexval a) :: cur) out
           end
  end.
Definition lines_of (s : string) : list bytes := plines s None [] [].

Definition zval (neg : bool) (cur : N) : Z := if neg then (- Z.of_N cur)%Z else Z.of_N cur.
Fixpoint pres (s : string) (neg dig : bool) (cur : N) (nums : list Z) (out : list (option (list Z)))
  : list (option (list Z)) :=
  match s with
  | EmptyString => rev out
  | String a r =>
      let n := N_of_ascii a in
      if n =? 45 then pres r true dig cur nums out
      else if n =? 44 then pres r false false 0 (zval neg cur :: nums) out
      else if n =? 59 then
        match neg, dig, nums with
        | true, false, [] => pres r false false 0 [] (None :: out)
        | _, _, _ => pres r false false 0 [] (Some (rev (if dig then zval neg cur :: nums else nums)) :: out)
        end
      else pres r neg true (cur * 10 + (n - 48)) nums out
  end.
Definition results_of (s : string) : list (option (list Z)) := pres s false false 0 [] [].
Local Close Scope N_scope.

(* outcome of one mode *)
Definition NO : option outcome := None.                       (* mode not run *)
Definition E (code : Z) : option outcome := Some (OErr (Z.to_N code)).
Definition K (names : list (string * Z)) (ret end_ : list string) : option outcome :=
  Some (OOk (map (fun p => (unhex (fst p), snd p)) names) (results_of (cat ret)) (results_of (cat end_))).
(* the implementation did not complete (panic): never equal to a model outcome other than OErr 8 *)
Definition P : option outcome := Some (OErr 8).

(* one instance: mode pattern lines | observed: case-sensitive outcome, ignore-case outcome *)
Definition one (mode : Z) (pat : string) (lines : list string) (cs ic : option outcome) : inp * obs :=
  ((Z.to_N mode, unhex pat, lines_of (cat lines)), (cs, ic)).

(* compact form for long sequences: a table of the distinct lines / distinct results and one
   character per call ('0' + index into the table) *)
Definition pick {A} (tbl : list A) (d : A) (s : string) : list A :=
  map (fun a => nth (N.to_nat (N_of_ascii a) - 48) tbl d) (list_ascii_of_string s).
Definition Nil : option (list Z) := None.
Definition S_ (l : list Z) : option (list Z) := Some l.
Definition KL (names : list (string * Z)) (rtbl : list (option (list Z))) (ret end_ : list string) : option outcome :=
  Some (OOk (map (fun p => (unhex (fst p), snd p)) names) (pick rtbl None (cat ret)) (pick rtbl None (cat end_))).
Definition oneL (mode : Z) (pat : string) (ltbl : list string) (seq : list string) (cs ic : option outcome) : inp * obs :=
  ((Z.to_N mode, unhex pat, pick (map unhex ltbl) [] (cat seq)), (cs, ic)).

Example pick_ex : pick [S_ [1; 2]%Z; Nil] None "010" = [Some [1; 2]%Z; None; Some [1; 2]%Z].
Proof. reflexivity. Qed.
Example results_of_ex : results_of "0,17,0,5;-;;-3,4;" = [Some [0; 17; 0; 5]; None; Some []; Some [-3; 4]]%Z.
Proof. reflexivity. Qed.
Example lines_of_ex : lines_of "6162;;ff;" = [[97; 98]; []; [255]]%N /\ lines_of "" = [].
Proof. split; reflexivity. Qed.

(* A generated case is a GROUP of instance runs over the same pattern: one run for a sequence case;
   for a concurrent case one run per instance and phase (instances of one factory used interleaved
   in one goroutine, then one per goroutine at the same time).  Instances share no state, so the
   model of a group is the model of each run alone; the group disagrees / fails if any run does. *)
Definition gcase := (list inp * list obs)%type.
Definition cG (items : list (inp * obs)) : gcase := (map fst items, map snd items).
Definition c (mode : Z) (pat : string) (lines : list string) (cs ic : option outcome) : gcase :=
  cG [one mode pat lines cs ic].
Definition cL (mode : Z) (pat : string) (ltbl : list string) (seq : list string) (cs ic : option outcome) : gcase :=
  cG [oneL mode pat ltbl seq cs ic].

Definition model (is : list inp) : list obs := map DissectRun.model is.
Definition oeqb (a b : list obs) : bool := list_eqb obs_eqb a b.
Definition check (is : list inp) (os : list obs) : bool := all2 C12_check is os.
Definition mm := mismatches model oeqb check.
