(* Glue between generated C18 case files and the models (Calendar, TimeFmt, Duration). *)
From Coq Require Import List NArith ZArith Bool String.
From RareV Require Import Base.Hex Base.Num Gen.GenTime Model.Calendar Model.TimeFmt Model.Duration Model.C18Check Corr.Run.

(* the RFC822Z window of Proofs/TimeFmtRfc822z.v (local years 1969..2068) *)
Definition in_822 (t off : Z) : bool := ((-31536000 <=? t + off) && (t + off <? 3124224000))%Z.
Import ListNotations.

Inductive inp :=
| IFormat (arg fmt : bytes) (off : Z) (abbr : bytes)
| IAttr (arg attr : bytes) (off : Z)
| ITime (str fmt : bytes) (names : list (bytes * Z)) (locoff finoff : Z)
| IBucket (str bucket fmt : bytes) (names : list (bytes * Z)) (locoff finoff : Z)
| IDur (s : bytes)
| IDurFmt (arg : bytes)
(* nested forms: {time {timeformat {0} F Z} F Z}, {timeformat {time {0} F Z} F2 Z},
   {duration {durationformat {0}}}, {durationformat {duration {0}}} *)
| IRoundTrip (arg fmt : bytes) (off : Z) (abbr : bytes) (names : list (bytes * Z)) (locoff finoff : Z)
| IReformat (str fmt : bytes) (names : list (bytes * Z)) (locoff finoff : Z) (fmt2 : bytes) (off : Z) (abbr : bytes)
| IDurRT (arg : bytes)
| IDurRF (s : bytes)
(* {timeattr {time {0} F Z} A Z} *)
| IAttrTime (str fmt : bytes) (names : list (bytes * Z)) (locoff finoff : Z) (attr : bytes) (off : Z).

Definition hexnames (l : list (string * Z)) : list (bytes * Z) := map (fun p => (unhex (fst p), snd p)) l.

(* constructors used by the case files: hex strings, Z literals; last argument = the implementation's output *)
Definition cf (arg fmt : string) (off : Z) (abbr out : string) : inp * bytes :=
  (IFormat (unhex arg) (unhex fmt) off (unhex abbr), unhex out).
Definition ca (arg attr : string) (off : Z) (out : string) : inp * bytes :=
  (IAttr (unhex arg) (unhex attr) off, unhex out).
Definition ct (str fmt : string) (names : list (string * Z)) (locoff finoff : Z) (out : string) : inp * bytes :=
  (ITime (unhex str) (unhex fmt) (hexnames names) locoff finoff, unhex out).
Definition cb (str bucket fmt : string) (names : list (string * Z)) (locoff finoff : Z) (out : string) : inp * bytes :=
  (IBucket (unhex str) (unhex bucket) (unhex fmt) (hexnames names) locoff finoff, unhex out).
Definition cd (s out : string) : inp * bytes := (IDur (unhex s), unhex out).
Definition cg (arg out : string) : inp * bytes := (IDurFmt (unhex arg), unhex out).
Definition crt (arg fmt : string) (off : Z) (abbr : string) (names : list (string * Z)) (locoff finoff : Z) (out : string) : inp * bytes :=
  (IRoundTrip (unhex arg) (unhex fmt) off (unhex abbr) (hexnames names) locoff finoff, unhex out).
Definition cft (str fmt : string) (names : list (string * Z)) (locoff finoff : Z) (fmt2 : string) (off : Z) (abbr out : string) : inp * bytes :=
  (IReformat (unhex str) (unhex fmt) (hexnames names) locoff finoff (unhex fmt2) off (unhex abbr), unhex out).
Definition cat (str fmt : string) (names : list (string * Z)) (locoff finoff : Z) (attr : string) (off : Z) (out : string) : inp * bytes :=
  (IAttrTime (unhex str) (unhex fmt) (hexnames names) locoff finoff (unhex attr) off, unhex out).
Definition cdr (arg out : string) : inp * bytes := (IDurRT (unhex arg), unhex out).
Definition cdf (s out : string) : inp * bytes := (IDurRF (unhex s), unhex out).

Definition model (i : inp) : bytes :=
  match i with
  | IFormat arg fmt off abbr => kf_timeformat arg fmt off abbr
  | IAttr arg attr off => kf_timeattr arg attr off
  | ITime str fmt names lo fo => kf_time str fmt names lo fo
  | IBucket str b fmt names lo fo => kf_buckettime str b fmt names lo fo
  | IDur s => kf_duration s
  | IDurFmt a => kf_durationformat a
  | IRoundTrip arg fmt off abbr names lo fo => kf_time (kf_timeformat arg fmt off abbr) fmt names lo fo
  | IReformat str fmt names lo fo fmt2 off abbr => kf_timeformat (kf_time str fmt names lo fo) fmt2 off abbr
  | IDurRT a => kf_duration (kf_durationformat a)
  | IDurRF s => kf_durationformat (kf_duration s)
  | IAttrTime str fmt names lo fo attr off => kf_timeattr (kf_time str fmt names lo fo) attr off
  end.

Definition oeqb (a b : bytes) : bool := bytes_eqb a b.

(* the property's boolean form on an observed output (Model/C18Check.v) *)
Definition check (i : inp) (o : bytes) : bool :=
  match i with
  | IFormat arg fmt off abbr => C18_check_format arg fmt off abbr o
  | IAttr arg attr off => C18_check_attr arg attr off o
  | ITime str fmt names lo fo => bytes_eqb (kf_time str fmt names lo fo) o
  | IBucket str b fmt names lo fo => C18_check_bucket str b fmt names lo fo o
  | IDur s => C18_check_duration s o
  | IDurFmt a => C18_check_durationformat a o
  | IRoundTrip arg fmt off abbr names lo fo =>
      bytes_eqb (kf_time (kf_timeformat arg fmt off abbr) fmt names lo fo) o &&
      (* C18_roundtrip_kf: the instant comes back *)
      match atoi arg with
      | Some t => if existsb (bytes_eqb (upper fmt)) rt_names && in_range t off && rt_offset off
                  then bytes_eqb o (itoa t)
                  else if bytes_eqb (upper fmt) (s2b "RFC822Z") && in_822 t off && rt_offset off
                  then bytes_eqb o (itoa (t - t mod 60))   (* C18_roundtrip_kf_rfc822z *)
                  else true
      | None => true
      end
  | IReformat str fmt names lo fo fmt2 off abbr =>
      bytes_eqb (kf_timeformat (kf_time str fmt names lo fo) fmt2 off abbr) o
  | IDurRT a =>
      bytes_eqb (kf_duration (kf_durationformat a)) o &&
      (* C18_duration_roundtrip *)
      match atoi a with
      | Some secs => if (- max_whole_secs <=? secs)%Z && (secs <=? max_whole_secs)%Z
                     then bytes_eqb o (itoa secs) else true
      | None => true
      end
  | IDurRF s => bytes_eqb (kf_durationformat (kf_duration s)) o
  | IAttrTime str fmt names lo fo attr off =>
      bytes_eqb (kf_timeattr (kf_time str fmt names lo fo) attr off) o &&
      (* unparseable text never yields an attribute: the marker of `time` is not an integer *)
      match parse_layout (named_format fmt) str with
      | None => bytes_eqb o (if existsb (bytes_eqb (upper attr)) timeAttrKeys then timeErrorNum else compile_error)
      | Some _ => C18_check_attr (kf_time str fmt names lo fo) attr off o
      end
  end.

(* a case = one compiled expression evaluated on a sequence of inputs (singleton for the ordinary cases):
   every output of the sequence must agree with the model / satisfy the boolean form *)
Definition c1 (x : inp * bytes) : list inp * list bytes := ([fst x], [snd x]).
Definition cs (l : list (inp * bytes)) : list inp * list bytes := (map fst l, map snd l).

Fixpoint all2 {A B} (f : A -> B -> bool) (a : list A) (b : list B) : bool :=
  match a, b with
  | [], [] => true
  | x :: a', y :: b' => f x y && all2 f a' b'
  | _, _ => false
  end.

Definition model_seq (l : list inp) : list bytes := map model l.
Definition oeqb_seq (a b : list bytes) : bool := all2 oeqb a b.
Definition check_seq (l : list inp) (o : list bytes) : bool := all2 check l o.

Definition mm := mismatches model_seq oeqb_seq check_seq.
