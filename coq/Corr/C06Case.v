(* Glue between generated C06 case files and the model (Model/Input.v, Model/Exit.v).
   The oracles (os.Stat of every path consulted, filepath.Glob of every argument, compress/gzip on
   every file content) are tables the harness filled by calling the Go library on the same tree. *)
From Coq Require Import List NArith ZArith Bool Arith String.
From RareV Require Import Base.Hex Model.Batch Model.Input Model.Exit Corr.Run.
Import ListNotations.

(* tree terms: f "hex" = regular file; d [("name-hex", t); ...] = directory in Walk order *)
Definition f (s : string) : tree := TFile (unhex s).
Definition d (l : list (string * tree)) : tree :=
  TDir (fold_right (fun x r => FCons (unhex (fst x)) (snd x) r) FNil l).

Fixpoint assoc {A} (k : bytes) (l : list (bytes * A)) : option A :=
  match l with
  | [] => None
  | (k', v) :: r => if bytes_eqb k k' then Some v else assoc k r
  end.

Record oracles := mko {
  o_fs : list (bytes * option tree);                  (* os.Stat / os.Open; absent or None = does not exist *)
  o_glob : list (bytes * option (list bytes));        (* filepath.Glob; None = ErrBadPattern *)
  o_gz : list (bytes * option (bytes * bool))         (* gzip.NewReader + ReadAll; None = header rejected *)
}.
Definition fs_of (o : oracles) (p : path) : node :=
  match assoc p (o_fs o) with Some (Some t) => Found t | _ => Missing end.
Definition glob_of (o : oracles) (p : path) : option (list path) :=
  match assoc p (o_glob o) with Some r => r | None => Some [] end.
Definition gz_of (o : oracles) (c : content) : option (content * bool) :=
  match assoc c (o_gz o) with Some r => r | None => None end.

Definition inp := (oracles * cli_in)%type.

Definition mkline (x : string * N * string) : lineid := (unhex (fst (fst x)), snd (fst x), unhex (snd x)).

(* c fs glob gz args recursive gunzip batch stdin stdin-fails mode q | observed: lines exit nlog *)
Definition c (fsl : list (string * option tree)) (gl : list (string * option (list string)))
             (gz : list (string * option (string * bool)))
             (args : list string) (recursive z : bool) (batch : N) (stdin : string) (stdin_err : bool) (mode q : N)
             (lines : list (string * N * string)) (exit : Z) (nlog : N) : inp * cli_obs :=
  ((mko (map (fun x => (unhex (fst x), snd x)) fsl)
        (map (fun x => (unhex (fst x), option_map (map unhex) (snd x))) gl)
        (map (fun x => (unhex (fst x), option_map (fun y => (unhex (fst y), snd y)) (snd x))) gz),
    mkin (map unhex args) recursive z (N.to_nat batch) (unhex stdin) stdin_err (mode, q)),
   mkobs (map mkline lines) exit (N.to_nat nlog)).

(* ---- large inputs: byte strings in run-length form [("hex", n); ...] (each piece repeated n times) ---- *)
Definition rl (ps : list (string * N)) : bytes :=
  flat_map (fun p => List.concat (repeat (unhex (fst p)) (N.to_nat (snd p)))) ps.

(* cr name content z gunzip-of-content stdin? batch mode q | observed lines exit nlog:
   ONE input of [content] bytes, either the file [name] given as the only argument (gz = what compress/gzip
   says about the content, consulted only with -z) or standard input (no argument) *)
Definition cr (name : string) (content : list (string * N)) (z : bool) (gz : option (list (string * N) * bool))
              (from_stdin : bool) (batch : N) (mode q : N)
              (lines : list (string * N * list (string * N))) (exit : Z) (nlog : N) : inp * cli_obs :=
  let cb := rl content in
  let nm := unhex name in
  ((if from_stdin then mko [] [] []
    else mko [(nm, Some (TFile cb))] [(nm, Some [nm])]
             (if z then [(cb, option_map (fun y => (rl (fst y), snd y)) gz)] else []),
    mkin (if from_stdin then [] else [nm]) false z (N.to_nat batch) (if from_stdin then cb else []) false (mode, q)),
   mkobs (map (fun x => (unhex (fst (fst x)), snd (fst x), rl (snd x))) lines) exit (N.to_nat nlog)).

Definition model (i : inp) : cli_obs :=
  let (o, ci) := i in
  cli_model (fs_of o) (glob_of o) (gz_of o) (fun _ => 4096) [] ci.
Definition oeqb := obs_eqb.
Definition check (i : inp) (ob : cli_obs) : bool :=
  let (o, ci) := i in C06_check (fs_of o) (glob_of o) (gz_of o) ci ob.
Definition mm := mismatches model oeqb check.
