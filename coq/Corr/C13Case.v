(* Glue between generated C13 case files and the model (Model/Sort.v).
   Case files open Z_scope and string_scope: every number is a Z literal, byte strings are hex. *)
From Coq Require Import List NArith ZArith Bool String.
From RareV Require Import Base.Hex Model.Sort Corr.Run.
Import ListNotations.

(* ParseFloat oracle *)
Definition fx : option fval := None.                       (* err != nil *)
Definition fnan : option fval := Some FNaN.
Definition fpinf : option fval := Some FPosInf.
Definition fninf : option fval := Some FNegInf.
Definition ff (m e : Z) : option fval := Some (FFin m e).  (* m * 2^e *)
(* ParseFormat oracle *)
Definition e0 : fmt_res := FmtErr.
Definition eE : fmt_res := FmtOk None.
Definition eL (i : Z) : fmt_res := FmtOk (Some (Z.to_nat i)).

(* k name-hex ParseFloat ParseFormat [time.Parse per layout of the case] value *)
Definition k (name : string) (fv : option fval) (fm : fmt_res) (dates : list (option Z)) (v : Z) : item :=
  (mkkey (unhex name) fv fm dates, v).

Definition nats (l : list Z) : list nat := map Z.to_nat l.
Definition iAx (md : string) (its : list item) : cin := IAx (unhex md) its.
Definition iSeq (md : string) (its : list item) (ps : list (Z * Z)) : cin :=
  ISeq (unhex md) its (map (fun p => (Z.to_nat (fst p), Z.to_nat (snd p))) ps).
Definition iSort (md : string) (its : list item) (perms : list (list Z)) : cin :=
  ISort (unhex md) its (map nats perms).
(* collector history: eS key-index increment | eR (an intermediate read); the keys come as items
   whose value is ignored *)
Definition eS (k inc : Z) : ev := ESample (Z.to_nat k) inc.
Definition eR : ev := ERead.
Definition iCol (md : string) (bykey : bool) (its : list item) (h : list ev) : cin :=
  ICollect (unhex md) bykey (map fst its) h.
(* large key set: style, number of keys, value hash (i*a+b) mod m, row limit, number of arrival orders *)
Definition iTop (md : string) (style n a b m limit reps : Z) : cin :=
  ITop (unhex md) (big_items (Z.to_nat style) (Z.to_nat n) a b m) (Z.to_nat limit) (Z.to_nat reps).
(* table history: tS col row inc | tR | tK n (keep last n columns) | tV lo hi | tC [cols] *)
Definition tS (c r inc : Z) : tev := TSample (Z.to_nat c) (Z.to_nat r) inc.
Definition tR : tev := TRead.
Definition tK (n : Z) : tev := TTrimKeep (Z.to_nat n).
Definition tV (lo hi : Z) : tev := TTrimVal lo hi.
Definition tC (l : list Z) : tev := TTrimCols (nats l).
Definition iTab (md mdc : string) (byrows : bool) (rits cits : list item) (h : list tev) : cin :=
  ITable (unhex md) (unhex mdc) byrows (map fst rits) (map fst cits) h.
Definition oTab (present order : list Z) : cout := OTable (nats present) (nats order).
(* reduce groups: g [column values (hex)] (oracle key of the ordering text, as an item) *)
Definition g (parts : list string) (it : item) : list bytes * key := (map unhex parts, fst it).
Definition iGrp (md : string) (skind : Z) (gs : list (list bytes * key)) (hs : list (list ev)) : cin :=
  IGroups (unhex md) (Z.to_nat skind) gs hs.
Definition oErr : cout := OErr.
Definition oPanic : cout := OPanic.
Definition oAx (m : list (list bool)) : cout := OAx m.
Definition oSeq (r : list bool) : cout := OSeq r.
Definition oSort (outs : list (list Z)) : cout := OSort (map nats outs).

Definition oeqb := cout_eqb.
Definition check := C13_check.
Definition mm := mismatches model oeqb check.
