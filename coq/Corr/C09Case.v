(* Glue between generated C09 case files and the model. *)
From Coq Require Import List NArith ZArith Bool.
From RareV Require Import Base.Res Base.Hex Model.IsSpace Model.Tmpl Model.TmplPrint Corr.Run.
Import ListNotations.
Local Open Scope N_scope.

Inductive cin :=
| ITmplX (extra : list str) (s : str)    (* a template on a builder with own registrations besides the base set *)
| ITmpl (k : claim) (s : str)                                   (* a template and what the case claims about it *)
| ISpace (lim : N) (spaces : list N) (sample : list (N * bool)). (* unicode.IsSpace: all space runes < lim, and a sample *)

(* c claim template | observed: output (optimising builder), output (plain builder), errors (kind, offset) *)
Definition c (k : claim) (s out out' : list N) (es : list (N * N)) : cin * obs :=
  (ITmpl k s, Some (out, out', es)).
(* the implementation panicked *)
Definition cP (k : claim) (s : list N) : cin * obs := (ITmpl k s, None).
(* builder with extra registrations: compared with the model under the extended function table *)
Definition cx (extra : list (list N)) (s out out' : list N) (es : list (N * N)) : cin * obs :=
  (ITmplX extra s, Some (out, out', es)).
Definition cxP (extra : list (list N)) (s : list N) : cin * obs := (ITmplX extra s, None).
Definition cspace (lim : N) (spaces : list N) (sample : list (N * bool)) : cin * obs :=
  (ISpace lim spaces sample, Some ([], [], [])).

Definition model (i : cin) : obs :=
  match i with
  | ITmplX extra s => obs_of (compile (ext_fs extra) s)
  | ITmpl _ s => obs_of (compile probe_fs s)
  | ISpace _ _ _ => Some ([], [], [])
  end.
Definition oeqb : obs -> obs -> bool := obs_eqb.
Definition check (i : cin) (o : obs) : bool :=
  match i with
  | ITmplX _ s => C09_check KRaw s o
  | ITmpl k s => C09_check k s o
  | ISpace lim spaces sample =>
      list_eqb N.eqb (filter is_space (map N.of_nat (seq 0 (N.to_nat lim)))) spaces
      && forallb (fun p => Bool.eqb (is_space (fst p)) (snd p)) sample
  end.
Definition mm := mismatches model oeqb check.

(* ---------------------------------------------------------------- search mode only
   Used by the driver after an obligation has stopped checking (e.g. C09_gen_unescape on a regenerated
   unescape table), to look for a concrete failing template: on a brace-free template the property
   dictates the output outright -- "\x" is x, except that \n \t \r are LF TAB CR -- with the escape
   table frozen here, NOT regenerated from the source.  Templates with a brace or ending in a lone
   backslash are skipped.  Never part of the decision on a tree whose obligations all check. *)
Definition spec_unescape (c : N) : N :=
  if c =? 110 then 10 else if c =? 116 then 9 else if c =? 114 then 13 else c.
Fixpoint frozen_unesc (s : str) : option str :=
  match s with
  | [] => Some []
  | c :: r =>
      if c =? 92 then
        match r with
        | [] => None
        | d :: r' => option_map (cons (spec_unescape d)) (frozen_unesc r')
        end
      else if (c =? 123) || (c =? 125) then None
      else option_map (cons c) (frozen_unesc r)
  end.
Definition check_search (i : cin) (o : obs) : bool :=
  check i o &&
  match i, o with
  | ITmpl _ s, Some (out, out', _) =>
      match frozen_unesc s with
      | Some e => str_eqb out e && str_eqb out' e
      | None => true
      end
  | _, _ => true
  end.
Definition mm_search := mismatches model oeqb check_search.
