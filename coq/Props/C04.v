(* C04 — Line splitting is exact and returned line buffers are never overwritten.
   Property theorems only; proofs live in Proofs/Lines*.v. Model: Model/Lines.v
   (pkg/readahead/immediate.go Scan over a scripted io.Reader). *)
From Coq Require Import List NArith Bool Arith.
From Coq Require Import ZArith.
From RareV Require Import Gen.GenConsts Model.Skel Gen.GenSkel Base.Hex Model.Lines Model.LinesBuf Proofs.LinesProof Proofs.LinesErr Proofs.LinesTotal Proofs.LinesMain Proofs.LinesBufProof.
Import ListNotations.

(* For every stream, every read script (chunking, 0-byte reads, n>0 with error, error position)
   and every buffer size: the scan terminates; the lines handed out are exactly the line
   segments of the bytes the reader delivered; every slice still reads the same after the whole
   scan; a non-EOF error is reported exactly once (EOF never) and no Read follows it. *)
Theorem C04_scanner : forall bs scr str,
  exists o, run bs scr str = Some o /\
    o_ret o = lines_spec (o_del o) /\
    o_end o = o_ret o /\
    o_nerr o = expected_nerr scr /\
    o_rae o = 0 /\
    (exists rest, str = o_del o ++ rest).
Proof. exact C04_scanner_proof. Qed.
Print Assumptions C04_scanner.

(* the same four clauses for the second scanner of the package, BufferedReadAhead (Model/LinesBuf.v),
   for every stream, read script and maxBufLen >= 2 (the constructor panics below 2) *)
Theorem C04_buffered : forall mx scr str, mx >= 2 ->
  exists o, brun mx scr str = Some o /\
    o_ret o = lines_spec (o_del o) /\
    o_end o = o_ret o /\
    o_nerr o = expected_nerr scr /\
    o_rae o = 0.
Proof. exact C04_buffered_proof. Qed.
Print Assumptions C04_buffered.

(* the boolean form used on the implementation's outputs accepts everything the model produces *)
Theorem C04_check_sound : forall bs scr str o, run bs scr str = Some o -> C04_check bs scr o = true.
Proof. exact C04_check_sound_proof. Qed.
Print Assumptions C04_check_sound.

Theorem C04_check_sound_buffered : forall mx scr str o, mx >= 2 -> brun mx scr str = Some o -> C04_check mx scr o = true.
Proof. exact C04_check_sound_buffered_proof. Qed.
Print Assumptions C04_check_sound_buffered.

(* translator obligation: the holder of the scanner's slices. The batching loops append readahead.Bytes() to a
   batch and, after sending it, continue with a FRESH slice - `batch = batch[:0]` would let later lines
   overwrite entries of a batch the consumer still holds (the slices of this property, one level up); the
   conditions are those of Model/Skel.v on the regenerated skeleton of both loops (see C01_skeleton) *)
Theorem C04_batch_slices_fresh : sync_reader_ok skel_sync_reader && sync_reader_ok skel_sync_reader_flush = true.
Proof. vm_compute. reflexivity. Qed.

(* translator obligation: the buffer size the batchers pass to the scanner is positive *)
Theorem C04_bufsize_pos : (1 <= ReadAheadBufferSize)%Z.
Proof. vm_compute. discriminate. Qed.

(* specification sanity: lines_spec is what the property text says *)
Theorem C04_spec_newline : forall a r, ~ In NL a -> lines_spec (a ++ NL :: r) = drop_cr a :: lines_spec r.
Proof. exact spec_nl. Qed.
Theorem C04_spec_tail : forall a, ~ In NL a -> lines_spec a = match a with [] => [] | x => [x] end.
Proof. exact spec_nonl. Qed.
Print Assumptions C04_spec_newline.

(* non-vacuity: a 3-line stream with CRLF split across reads, buffer size 1, and an injected error *)
Example C04_example :
  run 1 [(1,RNil);(1,RNil);(1,RNil);(0,RNil);(1,RNil);(1,RNil);(1,RNil);(1,RNil);(1,RNil);(1,RErr)]
        [97;98;13;10;99;10;10;100;13]%N
  = Some (mkobs [[97;98];[99];[];[100;13]]%N [[97;98];[99];[];[100;13]]%N 1 0 [97;98;13;10;99;10;10;100;13]%N).
Proof. vm_compute. reflexivity. Qed.
