(* C14 — Renderers never crash and draw quantities proportionally within bounds.
   Property theorems only; proofs live in Proofs/Scale*.v and Proofs/Render*.v.
   Models: Model/Scale.v (termscaler/scale.go over exact rationals, with the mapper and the
   float64 rounding as parameters) and Model/Render.v (termunicode, termrenderers, color helpers,
   after fixes/C14-*.patch).  Palettes and rune tables: Gen/GenPalette.v (translator). *)
From Coq Require Import List NArith ZArith QArith Bool Lia.
From RareV Require Import Gen.GenPalette Base.Num Base.Res Model.Scale Model.Render Proofs.ScaleProof
  Proofs.RenderBars Proofs.RenderTable Proofs.RenderTotal Proofs.RenderHisto Proofs.ScaleRound Corr.C14Case Proofs.RenderCheck.
Import ListNotations.
Local Open Scope Q_scope.

Section ScaleLaws.
  (* m = mapVal o float64 (identity, log2, log10: all monotone); rnd = the rounding of every
     float64 operation.  The laws hold for every monotone m and every monotone rnd that fixes 0,
     1 and the integers up to 2^53 and keeps positive values positive (exact arithmetic and IEEE
     round-to-nearest are such). *)
  Variable m : Z -> Q.
  Variable rnd : Q -> Q.
  Hypothesis m_mono : forall a b, (a <= b)%Z -> m a <= m b.
  Hypothesis rnd_mono : forall x y, x <= y -> rnd x <= rnd y.
  Hypothesis rnd_0 : rnd 0 == 0.
  Hypothesis rnd_1 : rnd 1 == 1.
  Hypothesis rnd_pos : forall x, 0 < x -> 0 < rnd x.
  Hypothesis rnd_int : forall k, small_int k -> rnd (inject_Z k) == inject_Z k.

  (* "Scaled magnitudes lie in [0,1]": for every value and every (min, max) — no guard: after
     the repair C14-scale-maxint the one int64 operation of Scale (`min + 1` for a degenerate
     range) is not performed when it would wrap. *)
  Theorem C14_scale_unit : forall v mn mx, 0 <= scale m rnd v mn mx <= 1.
  Proof. exact (scale_unit m rnd m_mono rnd_mono rnd_0 rnd_1 rnd_pos). Qed.

  (* "... and are monotone in the value." *)
  Theorem C14_scale_mono : forall v v' mn mx, (v <= v')%Z ->
    scale m rnd v mn mx <= scale m rnd v' mn mx.
  Proof. exact (scale_mono m rnd m_mono rnd_mono rnd_0 rnd_1 rnd_pos). Qed.

  (* A magnitude in [0,1] selects an index in [0, n-1] (n = palette length) and a length in
     [0, len], monotonically. *)
  Theorem C14_bucket_range : forall n u, small_int (n - 1) -> 0 <= u <= 1 -> (0 <= bucket rnd n u <= n - 1)%Z.
  Proof. exact (bucket_range rnd rnd_mono rnd_0 rnd_int). Qed.
  Theorem C14_length_range : forall len u, small_int len -> 0 <= u <= 1 -> (0 <= length_val rnd len u <= len)%Z.
  Proof. exact (length_val_range rnd rnd_mono rnd_0 rnd_int). Qed.
  Theorem C14_length_mono : forall len u u', small_int len -> 0 <= u -> u <= u' ->
    (length_val rnd len u <= length_val rnd len u')%Z.
  Proof. exact (length_val_mono rnd rnd_mono rnd_0). Qed.

  (* ScaleKeys returns between 1 and `buckets` keys, no two adjacent ones equal. *)
  Theorem C14_scale_keys_shape : forall un buckets mn mx, (0 < buckets)%nat ->
    scale_keys m rnd un buckets mn mx <> [] /\
    (length (scale_keys m rnd un buckets mn mx) <= buckets)%nat /\
    no_adj (scale_keys m rnd un buckets mn mx).
  Proof.
    intros. split. apply scale_keys_nonempty; assumption.
    split. apply scale_keys_length. apply scale_keys_no_adjacent_dup.
  Qed.
End ScaleLaws.
Print Assumptions C14_scale_unit.
Print Assumptions C14_scale_mono.
Print Assumptions C14_bucket_range.
Print Assumptions C14_length_range.
Print Assumptions C14_length_mono.
Print Assumptions C14_scale_keys_shape.

(* the hypotheses are satisfiable: exact arithmetic with the linear mapper *)
Example C14_scale_instance : forall v mn mx,
  0 <= scale inject_Z (fun q => q) v mn mx <= 1.
Proof.
  intros. apply (C14_scale_unit inject_Z (fun q => q)); try assumption.
  - exact lin_mono.
  - intros; assumption.
  - reflexivity.
  - reflexivity.
  - intros; assumption.
Qed.

(* the former witness against the unguarded law (min = max = MaxInt64 under a log-like mapper,
   finding C14-scale-maxint) now lies in [0,1] *)
Example C14_scale_maxint_repaired :
  let m := fun x => if (x <=? 1)%Z then 0 else inject_Z (Z.log2 x) + (1 # 2) in
  scale m (fun q => q) max_int64 max_int64 max_int64 == 1 # 2.
Proof. vm_compute. reflexivity. Qed.

(* ------------------------------------------------------------------------------------------ *)
(* Translator obligations, by computation on the regenerated tables (Gen/GenPalette.v): the
   partial-block table has the 9 entries BarWrite indexes with 1..8, the palettes have the sizes
   the buckets are computed for and are non-empty, every colour code is an invisible, terminated
   SGR sequence, every ASCII heat cell is one visible rune, and no block rune is ESC.  A changed
   table that invalidates an index-range or width theorem breaks these. *)
Theorem C14_palette_ok :
  lenZ barUnicode = 9%Z /\ lenZ heatmapColors = 16%Z /\ lenZ heatmapAscii = 10%Z /\
  lenZ sparkBlocks = 9%Z /\ lenZ sparkAscii = 4%Z /\
  length col_GroupColors <> 0%nat /\ length barAscii <> 0%nat /\
  forallb code_ok col_GroupColors = true /\ forallb code_ok heatmapColors = true /\
  code_ok col_Reset = true /\
  forallb (fun c => negb (c =? ESC)%N) (fullBlock :: nonUnicodeBlock :: heatmapNonUnicode :: barAscii) = true.
Proof. repeat split; try (vm_compute; reflexivity); vm_compute; discriminate. Qed.
Print Assumptions C14_palette_ok.

(* "every renderer completes without panicking", bars: after the repair of defect #15
   (fixes/C14-bar-zero-max.patch) barWriteRunes and BarWriteStacked return for every value,
   maximum and width; the repair changes exactly the maxima <= 0, where the pinned code divides
   by zero (maximum 0). *)
Theorem C14_bar_total : forall col uni c val maxVal maxLen limit vals,
  bar_runes c val maxVal maxLen limit <> Panic /\ bar_stacked col uni maxVal maxLen vals <> Panic /\
  ((0 <= maxLen)%Z ->
   (0 < maxVal -> bar_runes_unrepaired c val maxVal maxLen = bar_runes c val maxVal maxLen maxLen)%Z /\
   (maxVal = 0%Z -> bar_runes_unrepaired c val maxVal maxLen = Panic)).
Proof.
  intros. split. apply bar_runes_total. split. apply bar_stacked_total. apply bar_runes_repair.
Qed.
Print Assumptions C14_bar_total.

(* "bars never exceed their maximum width and grow with the value": integer bars (stacked
   segments) ... *)
Theorem C14_bar_bounds : forall c v v' maxVal maxLen limit s s', (0 <= maxLen)%Z ->
  bar_runes c v maxVal maxLen limit = Ok s -> bar_runes c v' maxVal maxLen limit = Ok s' ->
  (0 <= lenZ s <= maxLen)%Z /\ (lenZ s <= Z.max 0 limit)%Z /\ ((v <= v')%Z -> (lenZ s <= lenZ s')%Z).
Proof.
  intros c v v' maxVal maxLen limit s s' H E E'.
  destruct (bar_runes_bounds c v maxVal maxLen limit s H E) as [A B]. split. assumption. split. assumption.
  intros Hv. eapply bar_runes_mono; eauto.
Qed.
Print Assumptions C14_bar_bounds.

(* ... a whole stacked bar never exceeds the width, for ALL integers — any values (negative
   ones included), any maximum — after the repair C14-stacked-negative (each segment is cut to
   what is left of the bar) ... *)
Theorem C14_bar_stacked_bounds : forall col uni maxVal maxLen vals s, (0 <= maxLen)%Z ->
  bar_stacked col uni maxVal maxLen vals = Ok s -> (0 <= str_len col s <= maxLen)%Z.
Proof. exact bar_stacked_bounds. Qed.
Print Assumptions C14_bar_stacked_bounds.
(* ... and the cut changes nothing in the regular case: with non-negative values whose total the
   maximum bounds, the visible width is the sum of the proportional segments floor(v*len/max). *)
Theorem C14_bar_stacked_proportional : forall col uni maxVal maxLen vals s, (0 <= maxLen)%Z -> (0 < maxVal)%Z ->
  Forall (fun v => 0 <= v)%Z vals -> (fold_right Z.add 0 vals <= maxVal)%Z ->
  bar_stacked col uni maxVal maxLen vals = Ok s -> str_len col s = seg_sum maxVal maxLen vals.
Proof. exact bar_stacked_proportional. Qed.
Print Assumptions C14_bar_stacked_proportional.
(* the former witness against the width law (finding C14-stacked-negative) *)
Example C14_stacked_negative_repaired :
  exists s, bar_stacked false false 15 50 [-5; 10; 10]%Z = Ok s /\ str_len false s = 50%Z.
Proof. eexists. split. vm_compute. reflexivity. vm_compute. reflexivity. Qed.

Section RenderLaws.
  Variable m : Z -> Q.
  Variable rnd : Q -> Q.
  Hypothesis m_mono : forall a b, (a <= b)%Z -> m a <= m b.
  Hypothesis rnd_mono : forall x y, x <= y -> rnd x <= rnd y.
  Hypothesis rnd_0 : rnd 0 == 0.
  Hypothesis rnd_1 : rnd 1 == 1.
  Hypothesis rnd_pos : forall x, 0 < x -> 0 < rnd x.
  Hypothesis rnd_int : forall k, small_int k -> rnd (inject_Z k) == inject_Z k.

  (* ... scaled bars (BarWrite, with and without partial blocks): no index outside the block
     table for any magnitude; width within [0, len] and monotone for magnitudes in [0,1]. *)
  Theorem C14_bar_write : forall uni u u' len s s', small_int (len * 9) -> 0 <= u -> u <= u' -> u' <= 1 ->
    bar_write uni rnd u len <> Panic /\
    (bar_write uni rnd u len = Ok s -> bar_write uni rnd u' len = Ok s' ->
     (0 <= lenZ s <= len)%Z /\ (lenZ s <= lenZ s')%Z).
  Proof.
    intros uni u u' len s s' Hs H0 Hu H1. split. apply bar_write_total.
    intros E E'. split.
    - apply (bar_write_bounds rnd rnd_mono rnd_0 rnd_int uni u len s Hs). split. assumption.
      apply Qle_trans with u'; assumption. assumption.
    - apply (bar_write_mono rnd rnd_mono rnd_0 rnd_int uni u u' len s s' Hs H0 Hu E E').
  Qed.

  (* "heatmap and sparkline rows contain one cell per displayed column": a heatmap row is the
     key, at least one blank, then cells of total visible width = number of values; a sparkline
     is one rune per value.  (Every palette index is in range: no Panic.) *)
  Theorem C14_rows_one_cell_per_column : forall col uni mn mx,
    (forall w name vals, exists cells,
       heat_row col uni m rnd w mn mx name vals =
         Ok (Z.max w (str_len col name),
             wrap col col_Yellow name ++ rep (Z.max w (str_len col name) - str_len col name + 1) SP ++ cells) /\
       str_len col cells = lenZ vals) /\
    (forall vals, exists cells,
       rconcat (fun v => spark_write uni rnd (scale m rnd v mn mx)) vals = Ok cells /\ lenZ cells = lenZ vals).
  Proof.
    intros col uni mn mx. split.
    - intros. apply (heat_row_cells col uni m rnd m_mono rnd_mono rnd_0 rnd_1 rnd_pos rnd_int).
    - apply (spark_cells uni m rnd m_mono rnd_mono rnd_0 rnd_1 rnd_pos rnd_int).
  Qed.

  (* "every renderer completes without panicking": for every aggregator state (any keys, any
     values), any limits >= 0, any scaler keys and formatter, colour
     and unicode on or off — heatmap (header loop with fuel colCount + 1: never exhausted, after
     the repair of #26), sparkline (after #16), histogram call histories (after #16), bar graph
     call histories stacked or grouped (after #15).  DataTable and TableWriter are total
     functions in the model (no partial operation occurs in them). *)
  Theorem C14_render_total : forall col uni keys fmt,
    (forall rlim clim h tm a,
       exists st, heat_write_table col uni m rnd keys fmt rlim clim h tm a = Some (Ok st)) /\
    (forall rlim clim st a,
       exists st', spark_write_table col uni m rnd fmt rlim clim st a = Ok st') /\
    (forall sb ops st, exists st', histo_run col uni m rnd fmt sb st ops = Ok st') /\
    (forall b tm ks, exists st', bg_set_keys col uni b tm ks = Ok st') /\
    (forall size stacked ops st, exists st', bg_run col uni m rnd fmt size stacked st ops = Ok st').
  Proof.
    intros col uni keys fmt. split; [|split; [|split; [|split]]].
    - intros. apply (heat_write_table_total col uni m rnd keys fmt m_mono rnd_mono rnd_0 rnd_1 rnd_pos rnd_int).
    - intros. apply (spark_write_table_total col uni m rnd fmt m_mono rnd_mono rnd_0 rnd_1 rnd_pos rnd_int).
    - intros. apply histo_run_total.
    - intros. apply bg_set_keys_total.
    - intros. apply bg_run_total.
  Qed.
End RenderLaws.
Print Assumptions C14_bar_write.
Print Assumptions C14_rows_one_cell_per_column.
Print Assumptions C14_render_total.

(* "bars ... grow with the value / are drawn proportionally", histogram, the FINAL screen: after
   any history of WriteForLine / UpdateTotal / WriteFooter calls — lines written in any order, the
   maximum growing at any point, any number of frames — the state is the fold of the calls
   (running maximum, key width, last key/value per line) and every displayed line (value > 0) is
   on the terminal as the line of its key and value under the CURRENT maximum and width: its bar
   is bar_write (scale value 0 max) 50 for the current max. *)
Theorem C14_histo_final : forall col uni m rnd fmt sb n ops h tm,
  histo_run col uni m rnd fmt sb (histo_new n, []) ops = Ok (h, tm) ->
  h = hstate col n ops /\
  forall i k v, nth_error (h_items h) i = Some (k, v) -> (0 < v)%Z ->
    exists l, histo_line col uni m rnd fmt sb h k v = Ok l /\ nth_error tm i = Some l.
Proof. exact histo_final. Qed.
Print Assumptions C14_histo_final.

(* the fuel statement on its own: WriteHeader's loop ends within colCount + 1 iterations for any
   column names (empty ones included) *)
Theorem C14_header_fuel : forall col names cc acc, (cc <= lenZ names)%Z ->
  exists s, header_loop col (S (Z.to_nat cc)) names cc 0 acc = Some (Ok s).
Proof. intros. apply header_loop_ok. assumption. lia. lia. Qed.
Print Assumptions C14_header_fuel.

(* "the '(n more)' notes equal the number of rows or columns not shown": the header shows
   min(#columns, limit) columns and its note carries the number of the others; the line after the
   last displayed row carries the number of rows beyond the limit. *)
Theorem C14_more_counts :
  (forall col w limit names, exists hdr,
     heat_header col w limit names = Some (Ok (Nat.min (length names) limit, hdr)) /\
     ((Nat.min (length names) limit < length names)%nat ->
      exists h, hdr = h ++ more_note_sp col (Z.of_nat (length (skipn limit names))))) /\
  (forall col uni m rnd keys fmt rlim clim h tm a h' tm',
     heat_write_table col uni m rnd keys fmt rlim clim h tm a = Some (Ok (h', tm')) ->
     (rlim < length (a_rows a))%nat ->
     nth_error tm' (2 + rlim) = Some (more_note col (Z.of_nat (length (skipn rlim (a_rows a)))))).
Proof. split. exact heat_header_ok. exact heat_more_rows. Qed.
Print Assumptions C14_more_counts.

(* "table columns line up": after any sequence of WriteRow / WriteFooter calls, every stored row
   is on its terminal line laid out with the current widths, and — when no cell leaves an SGR
   sequence unterminated — the text before column j has visible length sum_{i<j} (w_i + 1), for
   every column j the row has.  Cells made by color.Wrap are always terminated. *)
Theorem C14_table_aligned : forall col maxc maxr ops,
  let st := tw_run col maxc maxr ops in
  forall i cells, nth_error (tw_rows (fst st)) i = Some (Some cells) ->
    nth_error (snd st) i = Some (render_row col (tw_w (fst st)) cells) /\
    (Forall (closed col) cells ->
     forall j, (j <= Nat.min maxc (length cells))%nat ->
       exists pre rest, render_row col (tw_w (fst st)) cells = pre ++ rest /\
                        str_len col pre = offset (tw_w (fst st)) j /\
                        rest = render_row col (skipn j (tw_w (fst st))) (skipn j cells)).
Proof. exact table_aligned. Qed.
Print Assumptions C14_table_aligned.
Theorem C14_wrap_closed : forall col c s, closed col (wrap col c s).
Proof. exact wrap_closed. Qed.
Print Assumptions C14_wrap_closed.

(* non-vacuity: a two-row table whose second row widens column 0 — both rows are re-laid out *)
Example C14_table_example :
  snd (tw_run false 2 3 [TRow 0 [[97]; [98]]; TRow 1 [[97; 97; 97]; [99]]])%N
  = [[97; 32; 32; 32; 98; 32]; [97; 97; 97; 32; 99; 32]]%N.
Proof. vm_compute. reflexivity. Qed.
(* ------------------------------------------------------------------------------------------ *)
(* The rounding instance: round53 (round-to-nearest-even to 53 significant bits, the function the
   bit-exact correspondence evaluates for every float64 operation) satisfies all the abstract
   rounding hypotheses of the laws above — monotone, fixes 0, 1 and every integer up to 2^53,
   keeps positives positive.  Proved directly on Q (Proofs/ScaleRound.v): the scaled significand
   always lies in [2^52, 2^53), the exponent is monotone in the value, round-half-even is monotone
   on the significand. *)
Theorem C14_round53_ok :
  (forall x y, x <= y -> round53 x <= round53 y) /\ round53 0 == 0 /\ round53 1 == 1 /\
  (forall x, 0 < x -> 0 < round53 x) /\ (forall k, small_int k -> round53 (inject_Z k) == inject_Z k).
Proof. exact round53_ok. Qed.
Print Assumptions C14_round53_ok.

(* hence the laws hold of the model exactly as the correspondence evaluates it (float64
   arithmetic, no idealisation), for every monotone mapper — in particular the linear scaler,
   whose mapper is the int64 -> float64 conversion *)
Theorem C14_scale_float : forall m, (forall a b, (a <= b)%Z -> m a <= m b) -> forall v v' mn mx,
  0 <= scale m round53 v mn mx <= 1 /\ ((v <= v')%Z -> scale m round53 v mn mx <= scale m round53 v' mn mx).
Proof.
  intros m Hm v v' mn mx. destruct round53_ok as [R1 [R2 [R3 [R4 R5]]]]. split.
  - apply C14_scale_unit; assumption.
  - apply C14_scale_mono; assumption.
Qed.
Theorem C14_scale_float_linear : forall v v' mn mx,
  let m := fun x => round53 (inject_Z x) in
  0 <= scale m round53 v mn mx <= 1 /\ ((v <= v')%Z -> scale m round53 v mn mx <= scale m round53 v' mn mx).
Proof. intros. apply C14_scale_float. exact lin53_mono. Qed.
Theorem C14_render_total_float : forall m, (forall a b, (a <= b)%Z -> m a <= m b) -> forall col uni keys fmt,
  (forall rlim clim h tm a, exists st, heat_write_table col uni m round53 keys fmt rlim clim h tm a = Some (Ok st)) /\
  (forall rlim clim st a, exists st', spark_write_table col uni m round53 fmt rlim clim st a = Ok st') /\
  (forall sb ops st, exists st', histo_run col uni m round53 fmt sb st ops = Ok st') /\
  (forall b tm ks, exists st', bg_set_keys col uni b tm ks = Ok st') /\
  (forall size stacked ops st, exists st', bg_run col uni m round53 fmt size stacked st ops = Ok st').
Proof.
  intros m Hm. destruct round53_ok as [R1 [R2 [R3 [R4 R5]]]]. apply C14_render_total; assumption.
Qed.
Print Assumptions C14_scale_float.
Print Assumptions C14_scale_float_linear.
Print Assumptions C14_render_total_float.

(* ------------------------------------------------------------------------------------------ *)
(* Soundness of the boolean form that the driver evaluates on the implementation's own output
   (Corr/C14Case.v check): whenever it accepts an observed output, the corresponding clause of
   the property holds OF THAT OUTPUT.  (IHisto / IBarG: the check is "completed".) *)
Theorem C14_check_sound :
  (* scaler: observed magnitudes in [0,1], ascending along the ascending values *)
  (forall mp mn mx vs l, check (IScale mp mn mx vs) (OQ l) = true ->
     length l = length vs /\ Forall (fun q => 0 <= q <= 1) l /\
     (forall k a b, nth_error l k = Some a -> nth_error l (S k) = Some b -> a <= b)) /\
  (* buckets / lengths / scaled bars for magnitudes in [0,1]: in range, ascending *)
  (forall n us l, check (IBucket n us) (OZ l) = true ->
     Forall2 (fun u z => 0 <= u <= 1 -> (0 <= z <= n - 1)%Z) us l) /\
  (forall n us l, check (ILength n us) (OZ l) = true ->
     Forall2 (fun u z => 0 <= u <= 1 -> (0 <= z <= n)%Z) us l /\
     (Forall (fun u => 0 <= u <= 1) us ->
      forall k a b, nth_error l k = Some a -> nth_error l (S k) = Some b -> (a <= b)%Z)) /\
  (forall uni len us l, check (IBarW uni len us) (OS l) = true ->
     Forall2 (fun u s => 0 <= u <= 1 -> (lenZ s <= len)%Z) us l /\
     (Forall (fun u => 0 <= u <= 1) us ->
      forall k a b, nth_error l k = Some a -> nth_error l (S k) = Some b -> (length a <= length b)%nat)) /\
  (* stacked bar: within the width, whatever the values and the maximum *)
  (forall col uni maxVal maxLen vals s, check (IStack col uni maxVal maxLen vals) (OS [s]) = true ->
     (0 <= maxLen)%Z -> (str_len col s <= maxLen)%Z) /\
  (* table: every stored row is laid out with the widths W and column j starts at offset W j *)
  (forall col maxc maxr ops lines, check (ITable col maxc maxr ops) (OS lines) = true ->
     let W := spec_widths col maxc maxr ops in
     forall i cells, nth_error (spec_rows maxr ops) i = Some (Some cells) ->
       nth i lines [] = render_row col W cells /\
       (Forall (closed col) cells -> forall j, (j <= Nat.min maxc (length cells))%nat ->
          exists pre rest, nth i lines [] = pre ++ rest /\ str_len col pre = offset W j /\
                           rest = render_row col (skipn j W) (skipn j cells))) /\
  (* heatmap: one cell per displayed column in every displayed row; the notes *)
  (forall c rlim clim a lines, heat_chk c rlim clim a lines = true ->
     let cc := Nat.min (length (a_cols a)) clim in
     let rc := Nat.min (length (a_rows a)) rlim in
     (forall k r, nth_error (firstn rc (a_rows a)) k = Some r ->
        exists pad cells, nth (2 + k) lines [] = name_cell c r ++ pad ++ cells /\
          pad <> [] /\ Forall (fun x => x = SP) pad /\ length cells = cc /\
          match cells with x :: _ => x <> SP | [] => True end) /\
     ((rc < length (a_rows a))%nat ->
        nth (2 + rc) lines [] = more_txt (Z.of_nat (length (a_rows a) - rc))) /\
     ((cc < length (a_cols a))%nat ->
        exists h, nth 1 lines [] = h ++ SP :: more_txt (Z.of_nat (length (a_cols a) - cc)))) /\
  (* sparkline: per row one sparkline rune per displayed column beyond those of the key and the
     First/Last numbers; the note *)
  (forall c rlim clim a lines, spark_chk c rlim clim a lines = true ->
     let k := Nat.min clim (length (a_cols a)) in
     let rc := Nat.min (length (a_rows a)) rlim in
     (forall j r, nth_error (firstn rc (a_rows a)) j = Some r ->
        let vals := last_cols k (r_vals r) in
        count_in (spark_alpha c) (nth (S j) lines []) =
          (count_in (spark_alpha c) (name_cell c r) +
           count_in (spark_alpha c) (match vals with [] => [] | v :: _ => fmt_of (c_fk c) v (a_min a) (a_max a) end) +
           count_in (spark_alpha c) (match vals with [] => [] | _ => fmt_of (c_fk c) (last vals 0%Z) (a_min a) (a_max a) end) + k)%nat) /\
     ((rc < length (a_rows a))%nat -> In (more_txt (Z.of_nat (length (a_rows a) - rc))) lines)) /\
  (* data table: the displayed numbers are the aggregated numbers under the formatter *)
  (forall c ncols nrows rt a lines, data_chk c ncols nrows rt a lines = true ->
     forall j r, nth_error (firstn nrows (a_rows a)) j = Some r ->
       words [] (nth (S j) lines []) = data_row_words c (a_min a) (a_max a) (Nat.min ncols (length (a_cols a))) rt r).
Proof.
  split. exact check_scale_sound. split. exact check_bucket_sound. split. exact check_length_sound.
  split. exact check_barw_sound. split. exact check_stack_sound. split. exact check_table_sound.
  split. exact check_heat_sound. split. exact check_spark_sound. exact check_data_sound.
Qed.
Print Assumptions C14_check_sound.
Theorem C14_check_cells_sound :
  (forall col uni us l, check (IHeatC col uni us) (OS l) = true ->
     length l = length us /\ Forall (fun s => str_len col s = 1%Z) l) /\
  (forall uni us l, check (ISparkC uni us) (OS l) = true ->
     length l = length us /\ Forall (fun s => lenZ s = 1%Z) l).
Proof. exact check_cells_sound. Qed.
Print Assumptions C14_check_cells_sound.

(* ... and for the two clauses added with the final-screen and formatter checks *)
Theorem C14_check_histo_sound : forall c n sb ops lines, check (IHisto c n sb ops) (OS lines) = true ->
  let h := hstate (c_col c) n ops in
  forall i k v, nth_error (h_items h) i = Some (k, v) -> (0 < v)%Z ->
    exists l, histo_line (c_col c) (c_uni c) (m_of (c_mp c)) round53 (fmt_of (c_fk c)) sb h k v = Ok l /\
              nth i lines [] = vis (c_col c) l.
Proof. exact check_histo_sound. Qed.
Print Assumptions C14_check_histo_sound.
(* "displayed numbers equal the aggregated numbers under the chosen formatter": an accepted
   sequence of outputs of ONE compiled --format expression is, call by call, the expression
   instantiated with that call's (value, min, max) — no dependence on earlier calls *)
Theorem C14_check_fmt_sound : forall f calls l, check (IFmt f calls) (OS l) = true ->
  Forall2 (fun x out => out = fmt_of f (fst (fst x)) (snd (fst x)) (snd x)) calls l.
Proof. exact check_fmt_sound. Qed.
Print Assumptions C14_check_fmt_sound.

(* "for any scale (linear, log2, log10) ... draw quantities proportionally", heatmap, under the
   scale CHOSEN at the time of each render: in the model every call takes the scaler and the range
   in force as arguments, never a remembered one — UpdateMinMax and WriteTable complete for any
   range (fixed bounds included, in any order with the assignment of Scaler/Formatter), and every
   cell of a row is the block of its value under the scaler and range given to THAT render. *)
Theorem C14_heat_range_total : forall m rnd, (forall a b, (a <= b)%Z -> m a <= m b) ->
  (forall x y, x <= y -> rnd x <= rnd y) -> rnd 0 == 0 -> rnd 1 == 1 -> (forall x, 0 < x -> 0 < rnd x) ->
  (forall k, small_int k -> rnd (inject_Z k) == inject_Z k) ->
  forall col uni keys fmt mn mx,
  (forall rlim clim h tm a, exists st, heat_write_table_rng col uni m rnd keys fmt mn mx rlim clim h tm a = Some (Ok st)) /\
  (forall h tm, exists tm', heat_update_minmax col uni m rnd keys fmt h tm mn mx = Ok tm').
Proof.
  intros m rnd H1 H2 H3 H4 H5 H6 col uni keys fmt mn mx. split.
  - intros. apply (heat_write_table_rng_total col uni m rnd keys fmt H1 H2 H3 H4 H5 H6).
  - intros. apply (heat_update_minmax_total col uni m rnd keys fmt H1 H2 H3 H4 H5 H6).
Qed.
Print Assumptions C14_heat_range_total.
Theorem C14_heat_row_blocks : forall col uni m rnd w mn mx name vals w' line,
  heat_row col uni m rnd w mn mx name vals = Ok (w', line) ->
  exists cells, rconcat (fun v => heat_write col uni rnd (scale m rnd v mn mx)) vals = Ok cells /\
                line = wrap col col_Yellow name ++ rep (w' - str_len col name + 1) SP ++ cells.
Proof. exact heat_row_blocks. Qed.
Print Assumptions C14_heat_row_blocks.
(* and the boolean form for heatmaps driven in the command's call order is sound: an accepted
   final screen shows, row by row, the blocks of the values under the scaler in force at the last
   render and the range in force (fixed bounds or the data's) *)
Theorem C14_check_heatseq_sound : forall col uni rlim clim fmn fmx ops lines mp f a cmn cmx,
  check (IHeatSeq col uni rlim clim fmn fmx ops) (OS lines) = true ->
  ranges_before_last fmn fmx 0 1 ops = Some (HoTab mp f a, cmn, cmx) ->
  let mn := fst (eff_range fmn fmx cmn cmx a) in
  let mx := snd (eff_range fmn fmx cmn cmx a) in
  let cc := Nat.min (length (a_cols a)) clim in
  let rc := Nat.min (length (a_rows a)) rlim in
  forall k r, nth_error (firstn rc (a_rows a)) k = Some r ->
    exists pad cells,
      rconcat (fun v => heat_write col uni round53 (scale (m_of mp) round53 v mn mx)) (firstn cc (r_vals r)) = Ok cells /\
      nth (2 + k) lines [] = vis col (wrap col col_Yellow (r_name r)) ++ pad ++ vis col cells /\
      pad <> [] /\ Forall (fun x => x = SP) pad.
Proof. exact check_heatseq_sound. Qed.
Print Assumptions C14_check_heatseq_sound.

(* "the '(n more)' notes equal the number of rows ... not shown", sparkline, in EVERY frame of one
   renderer instance: whatever earlier frames left on the terminal and in the table writer, when
   rows are hidden the footer line (the line after the table's last active row) is the note with
   the number of rows hidden in THIS frame — the note is not a one-time state transition. *)
Theorem C14_more_counts_spark : forall col uni m rnd fmt rlim clim st a t' tm' off,
  spark_write_table col uni m rnd fmt rlim clim st a = Ok (t', tm', off) ->
  (rlim < length (a_rows a))%nat ->
  nth_error tm' (tw_active t') = Some (more_note col (Z.of_nat (length (skipn rlim (a_rows a))))) /\ off = 1%nat.
Proof. exact spark_more_rows. Qed.
Print Assumptions C14_more_counts_spark.

(* bar graph fed frame by frame as `rare bargraph` feeds it (SetKeys, then one WriteBar per row,
   every frame): the model keeps the values BY VALUE (after the repair C14-bargraph-live-slices the
   renderer copies them), and an accepted final screen shows, for the last WriteBar of every row
   of the last frame, the bar(s) of the last values against the FINAL maximum and the formatted
   number(s) — "bars grow with the value / displayed numbers equal the aggregated numbers". *)
Theorem C14_check_bargf_sound : forall c size stacked mx nk prefix lines ops,
  bg_rows_ok c size stacked mx nk prefix lines ops = true ->
  forall pre idx key vals post, ops = pre ++ BBar idx key vals :: post -> last_for_idx idx post = true ->
    if stacked then
      exists bar h, bar_stacked (c_col c) (c_uni c) mx size vals = Ok bar /\
        nth (idx + prefix) lines [] = h ++ SP :: SP :: vis (c_col c) (bar ++ [SP; SP] ++ fmt_of (c_fk c) (zsum vals) 0%Z mx)
    else forall i v, nth_error vals i = Some v ->
      exists gc bar h, group_color (0 + i) = Ok gc /\
        bar_write (c_uni c) round53 (scale (m_of (c_mp c)) round53 v 0%Z mx) size = Ok bar /\
        nth (prefix + idx * nk + (0 + i)) lines [] =
          h ++ SP :: vis (c_col c) (cwrite (c_col c) gc bar ++ [SP] ++ fmt_of (c_fk c) v 0%Z mx).
Proof.
  intros c size stacked mx nk prefix lines ops H pre idx key vals post E L.
  pose proof (bg_rows_sound c size stacked mx nk prefix lines ops H pre idx key vals post E L) as S.
  destruct stacked. exact S. intros i v Hn. apply (grouped_tails_sound _ _ _ _ _ _ _ S i v Hn).
Qed.
Print Assumptions C14_check_bargf_sound.
