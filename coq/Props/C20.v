(* C20 — The live terminal shows the latest text of every line, within its width.
   Property theorems only; proofs live in Proofs/TrimProof.v, TermEmu.v, TermMain.v, TrimStore.v.
   Models: Model/Term.v (pkg/multiterm/multiterm.go TermWriter, cursor.go; reference terminal),
   Model/Trim.v (linetrim.go WriteLineNoWrap, virtualterm.go, bufferedterm.go).
   Texts are rune lists; [visible] drops ESC..m sequences; [wf_text]: printable runes and
   complete SGR sequences ESC [ (digit|;)* m; [write_line_no_wrap a c] is the text as it is
   emitted (cut to c visible runes when AutoTrim a is on). *)
From Coq Require Import List NArith ZArith Bool Arith.
From RareV Require Import Base.Hex Base.Res Gen.GenTerm Model.Trim Model.Term.
From RareV Require Import Proofs.TrimProof Proofs.TermEmu Proofs.TermMain Proofs.TrimStore Proofs.TermBuffered Proofs.TermCheck Proofs.TermSelect.
Import ListNotations.

(* Clause 1 (screen, close).  For every history of (line, text) updates whose texts are
   well-formed and, as emitted, not wider than the terminal (exactly as wide included) — any order,
   repeats, gaps, growing and shrinking texts — every terminal width, both settings of ONLCR,
   both margin behaviours (idealised, and the DEC last-column flag of VT100 / xterm), both settings
   of AutoTrim
   and every computedCols: feeding the bytes of New(); WriteForLine...; Close() to the reference
   terminal leaves it in the ground state with, on every row l (also rows never written and rows
   below the last line), exactly the visible runes of the text last written to line l — a longer
   earlier text is fully erased, nothing wrapped into a neighbouring row; the cursor is parked
   on row max_line+1, column 0, and is visible again; it was hidden at most once. *)
Theorem C20_screen_latest : forall (tc : tcfg) (c : cfg) (ups : list (nat * text)),
  (forall u, In u ups ->
     wf_text (snd u) = true /\
     length (visible (write_line_no_wrap (autotrim c) (cols c) (snd u))) <= width tc) ->
  exists sc, run tc (scr0, Ground) (tw_output c ups) = (sc, Ground) /\
    (forall l, nth l (rows sc) [] = visible (write_line_no_wrap (autotrim c) (cols c) (last_write l ups))) /\
    crow sc = S (max_line ups) /\ ccol sc = 0 /\ cvis sc = true /\ hides sc <= 1.
Proof. exact C20_screen_latest_proof. Qed.
Print Assumptions C20_screen_latest.

(* Clause 1 with AutoTrim on: no width hypothesis on the texts is needed — whatever their
   length, well-formed texts never wrap on a terminal at least computedCols wide (either margin
   behaviour; in particular width = computedCols, the real configuration). *)
Theorem C20_screen_latest_trim : forall (tc : tcfg) (c : cfg) (ups : list (nat * text)),
  autotrim c = true -> Z.to_nat (cols c) <= width tc ->
  (forall u, In u ups -> wf_text (snd u) = true) ->
  exists sc, run tc (scr0, Ground) (tw_output c ups) = (sc, Ground) /\
    (forall l, nth l (rows sc) [] = visible (trim (cols c) (last_write l ups))) /\
    crow sc = S (max_line ups) /\ ccol sc = 0 /\ cvis sc = true /\ hides sc <= 1.
Proof.
  intros tc c ups Ha Hw Hwf.
  destruct (C20_screen_latest_proof tc c ups (trim_on_fits tc c ups Ha Hw Hwf)) as (sc & E & R & Rest).
  exists sc. split; [exact E|]. split; [|exact Rest].
  intros l. rewrite R. unfold wl. rewrite Ha. reflexivity.
Qed.
Print Assumptions C20_screen_latest_trim.

(* Clause 1, every intermediate state (the display is live): after any history of calls, before
   Close, the terminal's cursor row is the writer's cursor field, which is the line of the last
   call; the terminal's cursor is hidden exactly when the writer believes so; maxLine is the
   highest line; and every row already shows the latest text.  (Every prefix of a history is a
   history, so this is a statement about every state the writer goes through.) *)
Theorem C20_cursor_belief : forall (tc : tcfg) (c : cfg) (ups : list (nat * text)) (s : tw) (segs : list (list cmd)),
  (forall u, In u ups ->
     wf_text (snd u) = true /\
     length (visible (write_line_no_wrap (autotrim c) (cols c) (snd u))) <= width tc) ->
  tw_run c tw_new ups = (s, segs) ->
  exists sc, run tc (scr0, Ground) (render (concat segs)) = (sc, Ground) /\
    crow sc = tw_cursor s /\ tw_cursor s = last_line ups 0 /\
    cvis sc = negb (tw_hidden s) /\
    tw_max s = max_line ups /\
    forall l, nth l (rows sc) [] = visible (write_line_no_wrap (autotrim c) (cols c) (last_write l ups)).
Proof. exact C20_cursor_belief_proof. Qed.
Print Assumptions C20_cursor_belief.

(* the writer emits the hide-cursor sequence at most once, whatever is written (no hypothesis) *)
Theorem C20_hide_once : forall (c : cfg) (ups : list (nat * text)),
  count_hide (concat (tw_session c ups)) <= 1.
Proof. exact C20_hide_once_proof. Qed.
Print Assumptions C20_hide_once.

(* Clause 3 (trim).  For every width c >= 1 and every text (no well-formedness needed): the cut
   is a prefix; its visible runes are exactly the first c visible runes of the text, hence at
   most c; and it does not end inside an ESC..m sequence unless the text itself does and is
   returned whole. *)
Theorem C20_trim_prefix : forall (c : Z) (s : text), (1 <= c)%Z ->
  is_prefix (trim c s) s /\
  visible (trim c s) = firstn (Z.to_nat c) (visible s) /\
  length (visible (trim c s)) <= Z.to_nat c /\
  (escapes_complete (trim c s) \/ trim c s = s).
Proof. exact C20_trim_prefix_proof. Qed.
Print Assumptions C20_trim_prefix.

(* ... in particular a text whose sequences are complete is cut to one whose sequences are
   complete, a well-formed text to a well-formed text, and a text that fits is not touched *)
Theorem C20_trim_complete : forall (c : Z) (s : text), escapes_complete s -> escapes_complete (trim c s).
Proof. exact trim_complete_of_complete. Qed.
Theorem C20_trim_wf : forall (c : Z) (s : text), wf_text s = true -> wf_text (trim c s) = true.
Proof. exact trim_wf. Qed.
Theorem C20_trim_short : forall (c : Z) (s : text), (Z.of_nat (length (visible s)) < c)%Z -> trim c s = s.
Proof. exact trim_short_id. Qed.
Print Assumptions C20_trim_complete.
Print Assumptions C20_trim_wf.
Print Assumptions C20_trim_short.

(* Clause 2 (buffered writer).  For every history, BufferedTerm prints nothing before Close;
   Close prints the lines 0 .. max_line top to bottom (none for an empty history), line l being
   the text last written to l ("" for a gap) passed through WriteLineNoWrap and followed by
   "\n"; afterwards the store is closed.  These are the same texts the live writer leaves on
   rows 0 .. max_line (C20_screen_latest). *)
Theorem C20_buffered_same : forall (a : bool) (cl : Z) (ups : list (nat * text)),
  bt_session a cl ups =
  Ok (flat_map (fun l => write_line_no_wrap a cl (last_write l ups) ++ [10%N])
               (seq 0 (match ups with [] => 0 | _ => S (max_line ups) end)),
      mkvt (map (fun l => last_write l ups) (seq 0 (match ups with [] => 0 | _ => S (max_line ups) end))) true).
Proof.
  intros a cl ups. rewrite C20_buffered_same_proof. destruct ups; reflexivity.
Qed.
Print Assumptions C20_buffered_same.

(* Clause 2, on the screen: on a tty with ONLCR (either margin behaviour), for every history of
   well-formed texts that fit, the bytes BufferedTerm prints on Close put on every row l the same
   cells the live writer leaves there (C20_screen_latest), with the cursor below the last line *)
Theorem C20_buffered_screen : forall (tc : tcfg) (c : cfg) (ups : list (nat * text)) (out : text) (v : vterm),
  onlcr tc = true ->
  (forall u, In u ups -> wf_text (snd u) = true /\
     length (visible (write_line_no_wrap (autotrim c) (cols c) (snd u))) <= width tc) ->
  bt_session (autotrim c) (cols c) ups = Ok (out, v) ->
  exists sc, run tc (scr0, Ground) out = (sc, Ground) /\
    (forall l, nth l (rows sc) [] = visible (write_line_no_wrap (autotrim c) (cols c) (last_write l ups))) /\
    crow sc = line_count 0 ups /\ ccol sc = 0 /\ cvis sc = true.
Proof. exact C20_buffered_screen_proof. Qed.
Print Assumptions C20_buffered_screen.

(* Clause 2, selection (cmd/helpers BuildVTerm, termstate.IsPipedOutput).  Whatever standard
   output is — pipe, socket, regular file, anything that is not a character device — and with
   or without --snapshot, the command gets the buffered writer and colour is off by default; with
   --snapshot every output gets it; the live writer is handed out only without --snapshot to a
   character device; a terminal without --snapshot gets the live writer; --noout / --csv - give
   the null writer.  What then reaches a standard output that is not a character device, for
   every history, are the final lines top to bottom (C20_buffered_same). *)
Theorem C20_select_writer : forall (k : outkind) (snap : bool),
  (is_char_device k = false -> select_writer k snap = WBuffered /\ color_default k = false) /\
  select_writer k true = WBuffered /\
  (select_writer k snap = WLive -> snap = false /\ is_char_device k = true) /\
  select_writer OTerminal false = WLive /\
  (forall noout csv, select_from_args noout csv snap k = if (noout || csv)%bool then WNull else select_writer k snap).
Proof.
  intros k snap. split; [intros H; split; [apply select_not_chardev | apply color_off_not_chardev]; exact H|].
  split; [apply select_snapshot|]. split; [apply select_live_inv|]. split; [apply select_terminal|].
  intros; apply select_args.
Qed.
Print Assumptions C20_select_writer.

Theorem C20_select_output : forall (c : cfg) (k : outkind) (snap : bool) (ups : list (nat * text)),
  is_char_device k = false ->
  session_output c (select_writer k snap) ups =
  Ok (flat_map (fun l => write_line_no_wrap (autotrim c) (cols c) (last_write l ups) ++ [10%N])
               (seq 0 (line_count 0 ups))).
Proof. exact session_not_chardev. Qed.
Print Assumptions C20_select_output.

(* Clause 2, start-up configuration (linetrim.go init).  A process whose standard output is
   not a terminal starts with AutoTrim off (and the fall-back width); a terminal starts with
   AutoTrim on at the window width the tty driver reports; the environment (COLUMNS, LINES) has no
   influence.  Hence a standard output that is not a character device — pipe, socket, regular
   file — receives, for every history, window size, environment and --snapshot setting, the
   final lines top to bottom UNTRIMMED: each line is exactly the text last written to it. *)
Theorem C20_startup_cfg : forall (k : outkind) (win : Z) (e e' : env),
  default_cfg k win e = default_cfg k win e' /\
  (is_terminal k = false -> default_cfg k win e = mkcfg false DefaultCols) /\
  default_cfg OTerminal win e = mkcfg true win.
Proof.
  intros k win e e'. split; [apply default_cfg_env|]. split; [apply default_cfg_not_terminal | apply default_cfg_terminal].
Qed.
Print Assumptions C20_startup_cfg.

Theorem C20_select_output_untrimmed : forall (k : outkind) (win : Z) (e : env) (snap : bool) (ups : list (nat * text)),
  is_char_device k = false ->
  session_output (default_cfg k win e) (select_writer k snap) ups =
  Ok (flat_map (fun l => last_write l ups ++ [10%N]) (seq 0 (line_count 0 ups))).
Proof. exact session_untrimmed. Qed.
Print Assumptions C20_select_output_untrimmed.

(* Scope note, stated as a theorem: "anything but a terminal gets the buffered writer" is false of
   the code for exactly one kind of output — a character device that is not a terminal (e.g.
   /dev/null, where the bytes are discarded) keeps the live writer and colour.  The property's
   clause names --snapshot and piped output; the correspondence accepts either writer there. *)
Theorem C20_select_chardev :
  (exists k, is_terminal k = false /\ select_writer k false = WLive) /\
  (forall k, is_terminal k = false -> select_writer k false = WLive -> k = OCharDev).
Proof. split; [exists OCharDev; split; reflexivity | exact select_chardev_only]. Qed.
Print Assumptions C20_select_chardev.

(* VirtualTerm (rare histo / fuzzy print through it): the store after any history *)
Theorem C20_virtual_store : forall (size : nat) (ups : list (nat * text)),
  vt_run (vt_new size) ups =
  Ok (mkvt (map (fun l => last_write l ups) (seq 0 (line_count size ups))) false).
Proof. exact vt_store. Qed.
Print Assumptions C20_virtual_store.

(* Translator obligations.  The reference terminal's parser, run on the bytes of each command as
   rendered from the constants regenerated from cursor.go / multiterm.go, performs that command:
   LF, CR, cursor up by one, erase to end of line, hide / show cursor; a well-formed text prints
   its visible runes.  The runes the trim looks for are ESC and 'm'.  (All by computation on
   Gen/GenTerm.v: a changed sequence breaks these proofs.) *)
Theorem C20_sequences : forall (tc : tcfg) (cm : cmd) (s : scr),
  match cm with
  | Text t => wf_text t = true
  | Up n => n = 1%N
  | EraseEOL => ccol s = 0   (* the writer erases right after CR; there ESC[0K, ESC[K and ESC[2K coincide *)
  | _ => True
  end ->
  run tc (s, Ground) (render_cmd cm) = (interp tc s cm, Ground).
Proof. exact run_render_cmd_at. Qed.
Theorem C20_trim_runes : TrimSeqStart = 27%N /\ TrimSeqEnd = 109%N.
Proof. vm_compute. split; reflexivity. Qed.
Print Assumptions C20_sequences.

(* The boolean form evaluated on the implementation's per-call output (correspondence, kind 1).
   Soundness: for every history whose texts fit (fits = well-formed and not wider than the
   terminal), every width, margin behaviour, ONLCR and AutoTrim setting: if C20_check_live accepts
   a stream of segments, then on the reference terminal, after the k-th segment the terminal is
   in its ground state, its cursor is on the line of the k-th update and EVERY row shows exactly
   the visible runes of the text last written to it by the first k updates (nothing wrapped,
   nothing stale, nothing below the lowest line); after the whole stream every row shows the
   latest text and the cursor is parked on row max_line+1, column 0, visible. *)
Theorem C20_check_live_sound : forall (tc : tcfg) (c : cfg) (ups : list (nat * text)) (segs : list (list N)),
  fits tc c ups = true -> C20_check_live tc c ups segs = true ->
  length segs = S (length ups) /\
  (forall k, k < length ups ->
     let ek := run tc (scr0, Ground) (concat (firstn (S k) segs)) in
     snd ek = Ground /\ crow (fst ek) = fst (nth k ups (0, [])) /\
     forall l, nth l (rows (fst ek)) [] =
               visible (write_line_no_wrap (autotrim c) (cols c) (last_write l (firstn (S k) ups)))) /\
  exists sc, run tc (scr0, Ground) (concat segs) = (sc, Ground) /\
    (forall l, nth l (rows sc) [] = visible (write_line_no_wrap (autotrim c) (cols c) (last_write l ups))) /\
    crow sc = S (max_line ups) /\ ccol sc = 0 /\ cvis sc = true.
Proof. exact C20_check_live_sound_proof. Qed.
Print Assumptions C20_check_live_sound.

(* Completeness on the model: the check accepts the model's own per-call output for every
   history (also outside the theorem's domain, where it is vacuous), width, margin and setting *)
Theorem C20_check_live_ok : forall (tc : tcfg) (c : cfg) (ups : list (nat * text)),
  C20_check_live tc c ups (map render (tw_session c ups)) = true.
Proof. exact C20_check_live_ok_proof. Qed.
Print Assumptions C20_check_live_ok.

(* the boolean form used on the implementation's output accepts what the model's BufferedTerm prints *)
Theorem C20_check_buffered_ok : forall (c : cfg) (ups : list (nat * text)) (out : text) (v : vterm),
  bt_session (autotrim c) (cols c) ups = Ok (out, v) -> C20_check_buffered c ups out = true.
Proof. exact C20_check_buffered_sound. Qed.
Print Assumptions C20_check_buffered_ok.
(* ... and the trim clauses' boolean form accepts the model's own cut, for every width and text *)
Theorem C20_check_trim_ok : forall (c : Z) (s : text), C20_check_trim c s (trim c s) = true.
Proof. exact C20_check_trim_sound. Qed.
Print Assumptions C20_check_trim_ok.

(* Finding C20-dec-margin (repaired by fixes/C20-dec-margin.patch; the model is of the repaired
   order CR, erase, text).  On a terminal with the last-column flag, width 3 = computedCols 3,
   AutoTrim on, the text abcd is cut to abc and shown whole (first statement, also an instance of
   C20_screen_latest).  The order of the pinned tree — CR, text, erase — issued the erase with the
   cursor still ON the last column and left ab on the screen (second statement, the pinned
   byte sequence written out). *)
Theorem C20_dec_margin_repaired :
  nth 0 (rows (fst (run (mktc 3 false true) (scr0, Ground)
                        (tw_output (mkcfg true 3) [(0, [97;98;99;100]%N)])))) [] = [97;98;99]%N /\
  nth 0 (rows (fst (run (mktc 3 false true) (scr0, Ground)
                        [13; 97;98;99; 27;91;48;75; 13; 10]%N))) [] = [97;98]%N.   (* CR a b c ESC[0K CR LF *)
Proof. vm_compute. split; reflexivity. Qed.
Print Assumptions C20_dec_margin_repaired.

(* non-vacuity: width 3, trim on; line 2 is written with a coloured 4-cell text (cut to 3 cells,
   inside no sequence), line 0 is rewritten with a shorter text, line 1 is never written *)
Example C20_example :
  let ups := [(0, [72;105;33]%N); (2, [97;27;91;51;49;109;98;99;100]%N); (0, [88]%N)] in
  forallb (fun u => wf_text (snd u)) ups = true /\
  fst (run (mktc 3 false false) (scr0, Ground) (tw_output (mkcfg true 3) ups))
  = mkscr [[88]; []; [97;98;99]]%N 3 0 true 1 /\
  C20_check_live (mktc 3 false false) (mkcfg true 3) ups (map render (tw_session (mkcfg true 3) ups)) = true /\
  fits (mktc 3 false false) (mkcfg true 3) ups = true /\
  (* the same history on a 3-column terminal with the DEC last-column flag and ONLCR *)
  fst (run (mktc 3 true true) (scr0, Ground) (tw_output (mkcfg true 3) ups))
  = mkscr [[88]; []; [97;98;99]]%N 3 0 true 1.
Proof. vm_compute. repeat split. Qed.
