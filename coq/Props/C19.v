(* C19 — Math formulas follow documented precedence; constants equal bound variables.
   Property theorems only; proofs live in Proofs/Math*.v.  Models: Model/MathTok.v (tokenizer.go,
   compileToken literals), Model/MathParse.v (parser.go compileTokens/getNextExpr, ops.go
   opCodeOrder), Model/MathEval.v (expression.go, ops.go, simplify.go).  Tables: Gen/GenMathOps.v
   (regenerated from ops.go on every run). The models include the two repairs
   fixes/C19-unary-no-operand.patch and fixes/C19-int-ops-panic.patch. *)
From Coq Require Import List NArith ZArith Bool Arith String.
From RareV Require Import Base.Hex Base.Res Gen.GenMathOps Model.MathParse Model.MathTok Model.MathEval
     Proofs.MathParseProof Proofs.MathRelProof Proofs.MathEvalProof Proofs.MathTokProof.
Import ListNotations.

Notation inorderM := (inorder atom bytes bytes).
Notation ops_inM := (ops_in atom bytes bytes bytes_eqb orderOfOps is_binop).

(* ---------------------------------------------------------------- the precedence table *)

(* translator obligation: every key of `ops` is in exactly one level of orderOfOps, every entry of
   orderOfOps is a key of `ops`, "*" (implied multiplication) is one of them. Re-proved by
   computation on the regenerated table. *)
Theorem prec_table_wf : prec_table_wf_b = true.
Proof. exact prec_table_wf_proof. Qed.
Print Assumptions prec_table_wf.

(* "^ before * / % before + - before comparisons before && ||" holds of the regenerated table
   (shifts and bit operators sit where the table puts them). *)
Theorem C19_levels : levels_b = true.
Proof. exact levels_proof. Qed.
Print Assumptions C19_levels.

(* ---------------------------------------------------------------- parsing = the order of operations *)

(* Whatever Compile's parser returns was read from exactly the given tokens (nothing dropped, nothing
   invented) and obeys the order of operations: in every binary node an ungrouped left operand
   binds at least as tightly (equal levels: left to right), an ungrouped right operand strictly
   tighter (higher levels first), a unary operator takes the next primary, groups are opaque
   (parentheses first), an implied multiplication is "*" before a group. *)
Theorem C19_parse_sound : forall rep ts t,
  parse_tokens rep ts = OOk t -> inorderM t = ts /\ mwp t /\ ops_inM t.
Proof. exact parse_tokens_sound. Qed.
Print Assumptions C19_parse_sound.

(* Conversely every tree over the operator set that obeys the order of operations is what the
   parser builds from its own token sequence (with the model's own fuel: fuel never runs out) ... *)
Theorem C19_parse_complete : forall rep t, mwp t -> ops_inM t -> parse_tokens rep (inorderM t) = OOk t.
Proof. exact parse_tokens_complete. Qed.
Print Assumptions C19_parse_complete.

(* ... hence the parse under the order of operations is unique. *)
Theorem C19_unique : forall t1 t2,
  mwp t1 -> mwp t2 -> ops_inM t1 -> ops_inM t2 -> inorderM t1 = inorderM t2 -> t1 = t2.
Proof. exact parse_tokens_unique. Qed.
Print Assumptions C19_unique.

(* The model's fuel is a proof device only: it never runs out. *)
Theorem C19_fuel : forall rep ts, parse_tokens rep ts <> OFuel.
Proof. exact parse_tokens_no_fuel. Qed.
Print Assumptions C19_fuel.

(* Malformed formulas are rejected at compile time: empty formula (also an empty group's content),
   a dangling operator at the end or at the start, a unary operator with no operand. *)
Theorem C19_rejects : forall rep pre o m rest,
  parse_tokens rep [] = OErr /\
  parse_tokens true (pre ++ [TOp o]) = OErr /\
  parse_tokens true (TOp o :: rest) = OErr /\
  parse_tokens true (pre ++ [TMod m]) = OErr.
Proof.
  intros. split; [apply rejects_empty|]. split; [apply rejects_trailing_op|].
  split; [apply rejects_leading_op | apply rejects_trailing_mod].
Qed.
Print Assumptions C19_rejects.

(* Character level (tokenizer.go + compileToken), by evaluation of the model: unbalanced
   parentheses either way, an empty group, a malformed literal and a bad name are errors. *)
Example C19_rejects_chars :
  map (fun s => parse_formula true (of_str s)) ["(1+2"; "1+2)"; "((x)"; "2*()"; "2x"; "1.5.2"; "0b2"; "a_b"; "1e400"; ""; "  "]%string
  = [OErr; OErr; OErr; OErr; OErr; OErr; OErr; OErr; OErr; OErr; OErr].
Proof. vm_compute. reflexivity. Qed.

(* The parser cannot panic: opCodeOrder's panic("op not found") is unreachable because every key of
   ops has a level (prec_table_wf), and the repaired getNextExpr checks for the end of the tokens.
   The code as it stands does panic on a lone unary operator. *)
Theorem C19_parse_total : forall ts, parse_tokens true ts <> OPanic.
Proof. exact parse_tokens_no_panic. Qed.
Print Assumptions C19_parse_total.
Theorem C19_parse_total_refuted_unrepaired : parse_tokens false [TMod [45%N]] = OPanic.
Proof. exact parse_tokens_unrepaired_panics. Qed.

(* ---------------------------------------------------------------- evaluation: for ANY operator semantics *)
Section AnySemantics.
Variable V : Type.                                   (* Go: float64 *)
Variables vadd vsub vmul vdiv vpow : V -> V -> V.
Variables vlt vle vgt vge veq : V -> V -> bool.
Variable vtruthy : V -> bool.
Variables vone vzero vnan : V.
Variable to_int : V -> Z.
Variable of_int : Z -> V.
Variable unop : bytes -> V -> V.
Variable cval : const -> V.

Notation meval rep := (meval V vadd vsub vmul vdiv vpow vlt vle vgt vge veq vtruthy vone vzero vnan to_int of_int unop rep).
Notation aeval rep := (aeval V vadd vsub vmul vdiv vpow vlt vle vgt vge veq vtruthy vone vzero vnan to_int of_int unop cval rep).
Notation simplify rep := (simplify V vadd vsub vmul vdiv vpow vlt vle vgt vge veq vtruthy vone vzero vnan to_int of_int unop rep).
Notation compile_tokens rep := (compile_tokens V vadd vsub vmul vdiv vpow vlt vle vgt vge veq vtruthy vone vzero vnan to_int of_int unop cval rep).
Notation binop rep := (binop V vadd vsub vmul vdiv vpow vlt vle vgt vge veq vtruthy vone vzero vnan to_int of_int rep).

(* A compiled formula evaluates, for all variable bindings, to the value of its parse under the
   order of operations (the tree of C19_parse_sound, read directly: groups transparent, implied
   multiplication is "*"). *)
Theorem C19_eval : forall ro rep ts e, compile_tokens ro rep ts = OOk e ->
  exists t, parse_tokens rep ts = OOk t /\ inorderM t = ts /\ mwp t /\ forall c, meval ro c e = aeval ro c t.
Proof. intros ro. exact (compile_tokens_sem V vadd vsub vmul vdiv vpow vlt vle vgt vge veq vtruthy vone vzero vnan to_int of_int unop cval ro). Qed.

(* Compile-time simplification is invisible. *)
Theorem C19_simplify : forall ro e e', simplify ro e = Ok e' -> forall c, meval ro c e' = meval ro c e.
Proof. intros ro. exact (simplify_sound V vadd vsub vmul vdiv vpow vlt vle vgt vge veq vtruthy vone vzero vnan to_int of_int unop ro). Qed.

(* Replacing any atoms (numeric constants, [n], [name], bare names) by atoms that have the same value
   under the binding c -- in particular a constant by a variable bound to the same value, or the
   reverse, inside groups too -- never changes the result, and never changes acceptance. *)
Theorem C19_const_var : forall ro rep c ts ts' e e',
  Forall2 (tokR atom bytes bytes (arel V cval c)) ts ts' ->
  compile_tokens ro rep ts = OOk e -> compile_tokens ro rep ts' = OOk e' -> meval ro c e = meval ro c e'.
Proof. intros ro rep c. exact (const_var V vadd vsub vmul vdiv vpow vlt vle vgt vge veq vtruthy vone vzero vnan to_int of_int unop cval ro c rep). Qed.
Theorem C19_const_var_accept : forall rep c ts ts',
  Forall2 (tokR atom bytes bytes (arel V cval c)) ts ts' ->
  (exists t, parse_tokens rep ts = OOk t) -> exists t', parse_tokens rep ts' = OOk t'.
Proof. intros rep c. exact (const_var_accept V cval c rep). Qed.

(* No formula and no binding crashes: with the repaired integer operators (zero divisor of %,
   negative shift count => NaN) Compile does not panic and the compiled expression does not panic
   in Eval, for token lists whose unary operators are keys of uniOps (the tokenizer emits no other;
   checked by the correspondence). The original operators panic. *)
Theorem C19_total : forall ts,
  (forall t, inorderM t = ts -> mods_ok_t t) ->
  compile_tokens true true ts <> OPanic /\
  forall e, compile_tokens true true ts = OOk e -> forall c, meval true c e <> Panic.
Proof.
  intros ts Hm. split.
  - apply compile_tokens_total; auto.
  - intros e H c. eapply compiled_eval_total; eauto.
Qed.
Theorem C19_total_refuted_unrepaired : forall l r, to_int r = 0%Z -> binop false [37%N] l r = Panic.
Proof. intros l r. apply binop_orig_panics. reflexivity. Qed.

End AnySemantics.
Print Assumptions C19_eval.
Print Assumptions C19_simplify.
Print Assumptions C19_const_var.
Print Assumptions C19_const_var_accept.
Print Assumptions C19_total.
Print Assumptions C19_total_refuted_unrepaired.

(* The premise of C19_total in decidable form; the correspondence evaluates toks_mods_ok on the tokens
   of every generated formula. *)
Theorem C19_total_premise : forall ts, toks_mods_ok ts = true -> forall t, inorderM t = ts -> mods_ok_t t.
Proof. exact mods_premise. Qed.
Print Assumptions C19_total_premise.

(* non-vacuity: "2+3*x^2(y-1)" parses as 2 + ((3 * (x^2)) * (y-1)); "-x^2" as (-x)^2; "a-b-c" as (a-b)-c *)
Example C19_example :
  parse_formula true (of_str "a-b-c"%string) =
    OOk (Bin [45%N] false (Bin [45%N] false (Atom (ANamed [97%N])) (Atom (ANamed [98%N]))) (Atom (ANamed [99%N])))
  /\ parse_formula true (of_str "2+3*x^2(y-1)"%string) =
    OOk (Bin [43%N] false (Atom (AVal (CInt 2)))
          (Bin [42%N] true
             (Bin [42%N] false (Atom (AVal (CInt 3))) (Bin [94%N] false (Atom (ANamed [120%N])) (Atom (AVal (CInt 2)))))
             (Grp (Bin [45%N] false (Atom (ANamed [121%N])) (Atom (AVal (CInt 1)))))))
  /\ parse_formula true (of_str "-x^2"%string) =
    OOk (Bin [94%N] false (Un [45%N] (Atom (ANamed [120%N]))) (Atom (AVal (CInt 2)))).
Proof. vm_compute. repeat split; reflexivity. Qed.
