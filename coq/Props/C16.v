(* C16 — JSON views of a match ({.}, {#}, {.#}) are valid, faithful and deterministic.
   Property theorems only; proofs live in Proofs/Json*.v.  Model: Model/Json.v
   (pkg/minijson/minijson.go JsonObjectBuilder/escape/isNumeric/WriteInferred and
   pkg/extractor/sliceSpaceExpressionContext.go GetMatch/json, after fixes/C16-json-view.patch),
   together with a strict RFC 8259 reader for one object of scalar members (json_parse).
   The escape table is the one the translator extracts (Gen/GenJson.v). *)
From Coq Require Import List NArith ZArith Bool Permutation Sorted String.
From RareV Require Import Gen.GenJson Base.Hex Base.Num Base.Res Model.Json
  Proofs.JsonEscape Proofs.JsonNumber Proofs.JsonParse Proofs.JsonSort Proofs.JsonUtf8 Proofs.JsonMain Proofs.JsonCli.
Import ListNotations.

(* Translator obligation, by computation on the regenerated table: every element that
   escapeLookup sets is a JSON escape sequence denoting its own index (two-character escape or
   \u00XX), and the quote and the backslash have entries.  (Bytes below 0x20 without an entry are
   written as \u00XX by the code, see esc_byte.)  A changed table that breaks validity breaks
   this proof. *)
Theorem C16_table_ok : table_ok_b = true.
Proof. vm_compute. reflexivity. Qed.
Print Assumptions C16_table_ok.

(* After the repair every byte below 0x20, the quote and the backslash is written as an escape
   sequence, never raw. *)
Theorem C16_escapes_cover : forall b, (b < 32 \/ b = 34 \/ b = 92)%N ->
  exists c r, esc_byte b = 92%N :: c :: r.
Proof. exact escapes_cover. Qed.
Print Assumptions C16_escapes_cover.

(* Strings: reading the written characters (up to the closing quote) gives back exactly the
   original bytes — unescape after escape is the identity, for every byte string. *)
Theorem C16_escape_roundtrip : forall s tl, read_chars (escape s ++ 34%N :: tl) = Some (s, tl).
Proof. exact read_escape. Qed.
Print Assumptions C16_escape_roundtrip.

(* Numbers: a text the writer emits bare is a number of the RFC 8259 grammar — the number reader
   consumes exactly the text when a ',' or '}' follows — and has a decimal value. *)
Theorem C16_numeric_is_rfc_number : forall s c tl, is_numeric s = true -> num_follow c = true ->
  read_number (s ++ c :: tl) = Some (s, c :: tl).
Proof. exact read_number_numeric. Qed.
Print Assumptions C16_numeric_is_rfc_number.
Theorem C16_numeric_has_value : forall s, is_numeric s = true -> exists v, dec_val s = Some v.
Proof. exact dec_val_numeric. Qed.
Print Assumptions C16_numeric_has_value.

(* What WriteInferred decides for a text: bare numeral iff isNumeric; else true/false iff the text
   equals the word under ASCII case folding; else a string of exactly the text. *)
Theorem C16_infer_spec : forall v,
  match infer v with
  | JNum lit => lit = v /\ is_numeric v = true
  | JBool true => is_numeric v = false /\ fold_eq w_true v = true
  | JBool false => is_numeric v = false /\ fold_eq w_true v = false /\ fold_eq w_false v = true
  | JStr s => s = v /\ is_numeric v = false /\ fold_eq w_true v = false /\ fold_eq w_false v = false
  end.
Proof. exact infer_spec. Qed.
Print Assumptions C16_infer_spec.

(* true/false: a boolean member b stands for a text that equals the word "true"/"false" after mapping
   A..Z to a..z and nothing else (no Unicode folding: the long s U+017F or the Kelvin sign do not count) *)
Theorem C16_bool_ascii_only : forall w s, fold_eq w s = true <-> map ascii_lower s = w.
Proof. exact fold_eq_ascii. Qed.
Print Assumptions C16_bool_ascii_only.

(* AS FOUND (strings.EqualFold, before fixes/C16-bool-long-s.patch) the clause was false: the capture
   fal<U+017F>e was written as the boolean false, which does not decode to the captured text; the
   repaired inference writes it as a string. *)
Theorem C16_bool_asfound_refuted :
  exists v, infer_asfound v = JBool false /\ member_ok_b v (infer_asfound v) = false /\ infer v = JStr v.
Proof. exact bool_asfound_refuted_proof. Qed.
Print Assumptions C16_bool_asfound_refuted.

(* VALID AND FAITHFUL.  For every name table (in any iteration order), line, index vector and
   view: if the view is produced (no slicing panic), it is one syntactically valid JSON object
   (the strict reader accepts the whole text), with one member per expected (name, group text)
   pair, in order, whose name is the group name and whose value decodes to the group text:
   a string with exactly the captured bytes, or a number with the same decimal value, or
   true/false for a text equal to that word up to ASCII case. *)
Theorem C16_valid_faithful : forall nm nb tbl line ix text,
  json_view nm nb tbl line ix = Ok text ->
  exists exp ms, expected_members nm nb tbl line ix = Ok exp /\
                 json_parse text = Some ms /\
                 Forall2 (fun e m => fst m = fst e /\ member_ok (snd e) (snd m)) exp ms.
Proof. exact C16_valid_faithful_proof. Qed.
Print Assumptions C16_valid_faithful.

(* the same, sharper: the reader returns exactly the inferred members *)
Theorem C16_parse_exact : forall nm nb tbl line ix text,
  json_view nm nb tbl line ix = Ok text ->
  exists exp, expected_members nm nb tbl line ix = Ok exp /\ json_parse text = Some (infer_members exp).
Proof. exact C16_parse_exact_proof. Qed.
Print Assumptions C16_parse_exact.

(* UTF-8: bytes >= 0x80 are copied unchanged (invalid UTF-8 in a capture stays as it is; nothing
   is replaced), and if the names and the line's captured texts are well-formed UTF-8 so is the
   whole view. *)
Theorem C16_high_bytes_unchanged : forall s, Forall (fun b => 128 <= b)%N s -> escape s = s.
Proof. exact escape_keeps_high. Qed.
Print Assumptions C16_high_bytes_unchanged.
Theorem C16_utf8_preserved : forall ms : list (bytes * bytes),
  Forall (fun m => utf8 (fst m) /\ utf8 (snd m)) ms -> utf8 (render (infer_members ms)).
Proof. exact render_utf8. Qed.
Print Assumptions C16_utf8_preserved.

(* DETERMINISTIC.  The text does not depend on the order in which the name table (a Go map) is
   iterated: the same match always yields the same text. *)
Theorem C16_deterministic : forall nm nb tbl tbl' line ix, Permutation tbl tbl' ->
  json_view nm nb tbl line ix = json_view nm nb tbl' line ix.
Proof. exact C16_deterministic_proof. Qed.
Print Assumptions C16_deterministic.

(* the order used: exactly the table's entries, ascending by (group index, name) *)
Theorem C16_named_order : forall tbl, Permutation (sort_entries tbl) tbl /\ Sorted entry_le (sort_entries tbl).
Proof. intros tbl. split; [apply sort_is_perm|apply sort_sorted]. Qed.
Print Assumptions C16_named_order.

(* NO PANIC under the matcher contract (every index pair is negative = unmatched, or a slice of the line) *)
Theorem C16_no_panic : forall nm nb tbl line ix,
  pairs_ok (zlen line) ix = true -> exists text, json_view nm nb tbl line ix = Ok text.
Proof. exact C16_no_panic_proof. Qed.
Print Assumptions C16_no_panic.

(* KEY SAFETY.  Member names are escaped like values, so validity needs no hypothesis on names
   (C16_valid_faithful quantifies over all names).  Under the hypothesis that a name consists of
   bytes >= 0x20 without an escape-table entry — in particular regexp group names [A-Za-z0-9_]+ —
   it appears verbatim between the quotes. *)
Theorem C16_key_safe : forall first k j, forallb plain_byte k = true ->
  write_member first k j = (if first then [] else [44; 32]%N) ++ [34%N] ++ k ++ [34; 58; 32]%N ++ write_val j.
Proof. exact C16_key_safe_proof. Qed.
Print Assumptions C16_key_safe.
Theorem C16_word_key_safe : forall first k j, forallb is_word k = true ->
  write_member first k j = (if first then [] else [44; 32]%N) ++ [34%N] ++ k ++ [34; 58; 32]%N ++ write_val j.
Proof. exact C16_word_key_safe_proof. Qed.
Print Assumptions C16_word_key_safe.

(* the boolean form used on the implementation's outputs: means valid + faithful ... *)
Theorem C16_check_meaning : forall exp text, view_ok_b exp text = true ->
  exists ms, json_parse text = Some ms /\
             Forall2 (fun e m => fst m = fst e /\ member_ok (snd e) (snd m)) exp ms.
Proof. exact view_ok_b_spec. Qed.
Print Assumptions C16_check_meaning.
(* ... and accepts everything the model produces *)
Theorem C16_check_sound : forall nm nb tbl line ix text,
  json_view nm nb tbl line ix = Ok text ->
  C16_check_view (expected_members nm nb tbl line ix) [text] = true.
Proof. exact C16_check_sound_proof. Qed.
Print Assumptions C16_check_sound.

(* `rare expression -d ... -k key=value` (cmd/expressions.go buildSpecialKeyJson): the special keys
   are valid JSON whose members are strings with exactly the -d / -k texts (positions first, then
   the keys in ascending order), for all data and key/value byte strings ... *)
Theorem C16_cli_valid_faithful : forall nb nm data keys,
  json_parse (cli_view nb nm data keys) = Some (str_members (cli_expected nb nm data keys)).
Proof. exact cli_parse_exact. Qed.
Print Assumptions C16_cli_valid_faithful.
(* ... and do not depend on the iteration order of the key map (distinct keys) *)
Theorem C16_cli_deterministic : forall nb nm data keys keys',
  Permutation keys keys' -> NoDup (map fst keys) -> cli_view nb nm data keys = cli_view nb nm data keys'.
Proof. exact cli_deterministic. Qed.
Print Assumptions C16_cli_deterministic.
Theorem C16_cli_check_sound : forall nb nm data keys,
  C16_check_view (Ok (cli_expected nb nm data keys)) [cli_view nb nm data keys] = true.
Proof. exact cli_check_sound. Qed.
Print Assumptions C16_cli_check_sound.

(* non-vacuity: line  abc 007 1.5 true x<01><c8><quote>  with groups a=abc b=007 t=true, numbered groups
   incl. an unmatched one; control byte, raw byte >= 0x80 and a quote in the last group *)
Example C16_example :
  json_view true true [(of_str "b"%string, 2%Z); (of_str "t"%string, 4%Z); (of_str "a"%string, 1%Z)]
    (of_str "abc 007 1.5 true x"%string ++ [1; 200; 34]%N) [0; 21; 0; 3; 4; 7; 8; 11; 12; 16; -1; -1; 17; 21]%Z
  = Ok (of_str "{""a"": ""abc"", ""b"": ""007"", ""t"": true, ""0"": ""abc 007 1.5 true x\u0001"%string
          ++ [200%N] ++ of_str "\"""", ""1"": ""abc"", ""2"": ""007"", ""3"": 1.5, ""4"": true, ""6"": ""x\u0001"%string
          ++ [200%N] ++ of_str "\""""}"%string).
Proof. vm_compute. reflexivity. Qed.

(* the hypothesis of C16_no_panic is satisfiable: the index vector of the example obeys the contract *)
Example C16_example_contract :
  pairs_ok (zlen (of_str "abc 007 1.5 true x"%string ++ [1; 200; 34]%N))
           [0; 21; 0; 3; 4; 7; 8; 11; 12; 16; -1; -1; 17; 21]%Z = true.
Proof. vm_compute. reflexivity. Qed.

(* the member name of numbered group i is strconv.Itoa(i) for EVERY i (numbered_members uses
   Base.Num.itoa, no table of small indices); the boundary numerals, by computation *)
Example C16_example_index_names :
  map (fun i => itoa (Z.of_nat i)) [0; 9; 10; 11; 99; 100; 101; 110; 449; 450; 1000]%nat
  = map of_str ["0"; "9"; "10"; "11"; "99"; "100"; "101"; "110"; "449"; "450"; "1000"]%string.
Proof. vm_compute. reflexivity. Qed.

(* the reader is strict: leading zero, digitless fraction, raw control byte, trailing comma,
   missing colon, trailing garbage, misspelt literal, unknown escape are all rejected *)
Example C16_example_reader_strict :
  map json_parse
    [of_str "{""a"": 007}"%string; of_str "{""a"": 1.}"%string; of_str "{""a"": ""x"%string ++ [1%N] ++ of_str """}"%string;
     of_str "{""a"": 1,}"%string; of_str "{""a"" 1}"%string; of_str "{""a"": 1} x"%string; of_str "{""a"": tru}"%string;
     of_str "{""a"": ""\x""}"%string]
  = [None; None; None; None; None; None; None; None].
Proof. vm_compute. reflexivity. Qed.
