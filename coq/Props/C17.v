(* C17 — Array helpers obey list semantics.
   Property theorems only; proofs live in Proofs/Splitter*.v and Proofs/ArrayFns*.v.
   Models: Model/Splitter.v (pkg/stringSplitter), Model/ArrayFns.v (pkg/expressions/stdlib/funcsRange.go,
   kfJoin, truthy.go, sub-context).  A list is a NUL-separated byte string: [split0]/[join0].
   [eval] follows the Go control flow of every helper; the statements below say what it computes. *)
From Coq Require Import List NArith ZArith Bool Arith.
From RareV Require Import Gen.GenC17 Base.Hex Base.Num Model.Splitter Model.ArrayFns
  Proofs.SplitterProof Proofs.ArrayFnsOps Proofs.ArrayFnsLoops Proofs.ArrayFnsProof Proofs.ArrayFnsWf.
Import ListNotations.

(* ---- the splitter: first-occurrence splitting, any non-empty delimiter of any length ---- *)

(* joining what the Splitter hands out with the delimiter gives the string back *)
Theorem C17_join_split : forall d, d <> [] -> forall s, join d (split d s) = s.
Proof. exact join_split. Qed.
Print Assumptions C17_join_split.

(* splitting a joined list gives the list back exactly when every element followed by a delimiter
   is "clean" (the first occurrence of d in x ++ d is the trailing one) and the last contains no d;
   every list the splitter produces is of that kind, and it is the only such list with that join *)
Theorem C17_split_join_iff : forall d, d <> [] -> forall l, (split d (join d l) = l <-> clean_list d l).
Proof. exact split_join_iff. Qed.
Print Assumptions C17_split_join_iff.
Theorem C17_split_clean : forall d, d <> [] -> forall s, clean_list d (split d s).
Proof. exact split_clean. Qed.
Print Assumptions C17_split_clean.
Theorem C17_split_unique : forall d, d <> [] -> forall l s, clean_list d l -> join d l = s -> split d s = l.
Proof. exact split_unique. Qed.
Print Assumptions C17_split_unique.
(* one-byte delimiters (the NUL of arrays): "clean" = does not contain the byte *)
Theorem C17_split_join_single : forall b l, l <> [] -> Forall (fun x => ~ In b x) l -> split [b] (join [b] l) = l.
Proof. exact split_join_single. Qed.
Print Assumptions C17_split_join_single.
(* the number of rounds of the iterator does not matter once it exceeds the length *)
Theorem C17_splitter_fuel : forall d, d <> [] -> forall s f, length s < f -> sp_collect f (sp_init s d) = split d s.
Proof. exact split_fuel_irrelevant. Qed.
Print Assumptions C17_splitter_fuel.

(* ---- @split / @join ---- *)
Theorem C17_split : forall c a d, d <> [] -> eval (ASplit a d) c = join0 (split d (eval a c)).
Proof. exact T_split. Qed.
Print Assumptions C17_split.
Theorem C17_join : forall c a d, eval (AJoin a d) c = join d (split0 (eval a c)).
Proof. exact T_join. Qed.
Print Assumptions C17_join.
(* @split and @join are inverse: both directions *)
Theorem C17_split_join : forall c a d, d <> [] ->
  (nul_free (eval a c) -> eval (AJoin (ASplit a d) d) c = eval a c) /\
  (nul_free d -> (eval (ASplit (AJoin a d) d) c = eval a c <-> clean_list d (split0 (eval a c)))).
Proof. intros c a d H. split; [exact (T_join_split c a d H)|exact (T_split_join c a d H)]. Qed.
Print Assumptions C17_split_join.

(* ---- @len ---- *)
Theorem C17_len : forall c a, eval (ALen a) c =
  itoa (Z.of_nat (match eval a c with [] => 0 | v => length (split0 v) end)).
Proof. exact T_len. Qed.
Print Assumptions C17_len.
Theorem C17_len_list : forall c a l, Forall nul_free l -> eval a c = join0 l -> eval a c <> [] ->
  eval (ALen a) c = itoa (Z.of_nat (length l)).
Proof. exact T_len_list. Qed.
Print Assumptions C17_len_list.

(* ---- @map / @filter / @reduce: the sub-expression on every element, in order, {0} {1} bound, keys from the enclosing match ---- *)
Theorem C17_map : forall c a f,
  eval (AMap a f) c = join0 (map (fun x => eval f (subctx c x [])) (split0 (eval a c))).
Proof. exact T_map. Qed.
Print Assumptions C17_map.
Theorem C17_filter : forall c a f,
  eval (AFilter a f) c = join0 (filter (fun x => truthy (eval f (subctx c x []))) (split0 (eval a c))).
Proof. exact T_filter. Qed.
Print Assumptions C17_filter.
Theorem C17_reduce : forall c a f init, eval (AReduce a f init) c =
  let l := split0 (eval a c) in
  let step := fun memo x => eval f (subctx c memo x) in
  match init with
  | [] => fold_left step (tl l) (hd [] l)
  | _ => fold_left step l init
  end.
Proof. exact T_reduce. Qed.
Print Assumptions C17_reduce.
(* the sub-context: {0} {1} are the bound values, other indices (also negative) are "", keys are the parent's *)
Theorem C17_subcontext : forall c v0 v1 k,
  get_match (subctx c v0 v1) 0 = v0 /\ get_match (subctx c v0 v1) 1 = v1 /\
  (forall i, (i < 0 \/ i >= 2)%Z -> get_match (subctx c v0 v1) i = []) /\
  get_key (subctx c v0 v1) k = get_key c k.
Proof. exact T_subcontext. Qed.
Print Assumptions C17_subcontext.

(* ---- @select / @slice ---- *)
Theorem C17_select : forall c a i, eval (ASelect a i) c =
  let l := split0 (eval a c) in
  let n := Z.of_nat (length l) in
  let j := if (i <? 0)%Z then (i + n)%Z else i in
  if ((0 <=? j) && (j <? n))%Z then nth (Z.to_nat j) l [] else [].
Proof. exact T_select. Qed.
Print Assumptions C17_select.
Theorem C17_slice : forall c a start len, eval (ASlice a start len) c =
  let l := split0 (eval a c) in
  let n := Z.of_nat (length l) in
  let st := if (start <? 0)%Z then Z.max 0 (start + n) else start in
  let r := skipn (Z.to_nat st) l in
  join0 (if (len <? 0)%Z then r else firstn (Z.to_nat len) r).
Proof. exact T_slice. Qed.
Print Assumptions C17_slice.

(* ---- @in ---- *)
Theorem C17_in : forall c a set, set <> [] -> Forall nul_free set ->
  (eval (AIn a set) c = TruthyVal <-> In (eval a c) set) /\
  (eval (AIn a set) c = FalsyVal <-> ~ In (eval a c) set).
Proof. exact T_in_iff. Qed.
Print Assumptions C17_in.

(* ---- @range.  Where no int64 overflow is possible ([range_no_wrap start stop incr]: all three are int64
        and stop + incr - 1 <= MaxInt64 for a positive increment, MinInt64 <= stop + incr + 1 for a negative
        one) the result is <VALUE> for a zero increment, a wrong direction or more than maxRangeElements
        elements, and otherwise the arithmetic progression start, start+incr, ... strictly before stop.
        Outside that guard the model follows the wrapping int64 loop of the code (C17_range_any): the
        model needs no assumption, only this theorem has the guard. ---- *)
Theorem C17_range : forall c s e i start stop incr,
  atoi (eval s c) = Some start -> atoi (eval e c) = Some stop -> atoi (eval i c) = Some incr ->
  range_no_wrap start stop incr = true ->
  eval (ARange s e i) c =
  if ((incr =? 0) || (incr >? 0) && (start >? stop) || (incr <? 0) && (start <? stop))%Z then ErrorValue
  else if (range_countZ start stop incr >? MaxRangeElements)%Z then ErrorValue
  else join0 (map itoa (progression (range_count start stop incr) start incr)).
Proof. exact T_range. Qed.
Print Assumptions C17_range.
(* in general: the loop of kfArrayRange (int64 addition, element cap) always ends and its value is the result *)
Theorem C17_range_any : forall c s e i start stop incr,
  atoi (eval s c) = Some start -> atoi (eval e c) = Some stop -> atoi (eval i c) = Some incr ->
  range_valid start stop incr ->
  exists r, range_run MaxRangeElements start stop incr = Some r /\ eval (ARange s e i) c = r.
Proof. exact T_range_any. Qed.
Print Assumptions C17_range_any.
Theorem C17_range_bad_number : forall c s e i,
  atoi (eval s c) = None \/ atoi (eval e c) = None \/ atoi (eval i c) = None ->
  eval (ARange s e i) c = ErrorNum.
Proof. exact T_range_bad. Qed.
Print Assumptions C17_range_bad_number.
Theorem C17_progression : forall n start incr k, k < n ->
  length (progression n start incr) = n /\ nth k (progression n start incr) 0%Z = (start + Z.of_nat k * incr)%Z.
Proof. intros. split; [apply progression_length|now apply progression_nth]. Qed.
Print Assumptions C17_progression.

(* ---- @for: iterate while truthy, {0} value {1} index; the list when the condition turns falsy within
        MAX_ITERATIONS rounds and the joined output stays within MAX_OUTPUT_BYTES; the marker when the
        condition is still truthy after MAX_ITERATIONS + 1 rounds, or when the output written while it
        is truthy exceeds MAX_OUTPUT_BYTES ---- *)
Theorem C17_for : forall c s x i n, n <= iter_cap ->
  let cond := fun v k => eval x (subctx c v k) in
  let incr := fun v k => eval i (subctx c v k) in
  let vals := map (for_val incr (eval s c) dec_zero) (seq 0 n) in
  (forall k, k < n -> for_cond cond incr (eval s c) dec_zero k = true) ->
  for_cond cond incr (eval s c) dec_zero n = false ->
  (Z.of_nat (length (join0 vals)) <= ForMaxOutputBytes)%Z ->
  eval (AFor s x i) c = join0 vals.
Proof. exact T_for. Qed.
Print Assumptions C17_for.
Theorem C17_for_inf : forall c s x i,
  let cond := fun v k => eval x (subctx c v k) in
  let incr := fun v k => eval i (subctx c v k) in
  (forall k, k <= iter_cap -> for_cond cond incr (eval s c) dec_zero k = true) ->
  eval (AFor s x i) c = ForInfMarker.
Proof. exact T_for_inf. Qed.
Print Assumptions C17_for_inf.
Theorem C17_for_inf_bytes : forall c s x i m,
  let cond := fun v k => eval x (subctx c v k) in
  let incr := fun v k => eval i (subctx c v k) in
  let vals := map (for_val incr (eval s c) dec_zero) (seq 0 (S m)) in
  (forall k, k <= m -> for_cond cond incr (eval s c) dec_zero k = true) ->
  (Z.of_nat (length (join0 vals)) > ForMaxOutputBytes)%Z ->
  eval (AFor s x i) c = ForInfMarker.
Proof. exact T_for_inf_bytes. Qed.
Print Assumptions C17_for_inf_bytes.

(* ---- {@ ..} / {$ ..} ---- *)
Theorem C17_concat : forall c b es, es <> [] ->
  eval (Arr b es) c = join0 (map (fun e => eval e c) es) /\
  split0 (eval (Arr b es) c) = flat_map (fun e => split0 (eval e c)) es.
Proof. exact T_concat. Qed.
Print Assumptions C17_concat.

(* ---- well-formed results: splitting the result on NUL gives exactly the elements of the specified
        list, i.e. no separator appears that does not delimit an element.  [nul_safe f]: the
        sub-expression cannot produce a NUL itself (literals without NUL, {i}, {key}, concatenation,
        eq/not/if/prefix/len/sumi, @len/@in/@select); [keys_nf c]: the named keys hold no NUL.
        (The encoding cannot distinguish the empty list from [""]: C17_wf_empty.) ---- *)
Theorem C17_wf_empty : join0 [] = join0 [[]] /\ split0 [] = [[]].
Proof. exact W_empty_encoding. Qed.
Theorem C17_wf_split : forall c a d, d <> [] -> nul_free (eval a c) ->
  split0 (eval (ASplit a d) c) = split d (eval a c).
Proof. exact W_split. Qed.
Print Assumptions C17_wf_split.
Theorem C17_wf_map : forall c a f, nul_safe f = true -> keys_nf c ->
  split0 (eval (AMap a f) c) = map (fun x => eval f (subctx c x [])) (split0 (eval a c)).
Proof. exact W_map. Qed.
Print Assumptions C17_wf_map.
Theorem C17_wf_filter : forall c a f,
  let r := filter (fun x => truthy (eval f (subctx c x []))) (split0 (eval a c)) in
  r <> [] -> split0 (eval (AFilter a f) c) = r.
Proof. exact W_filter. Qed.
Print Assumptions C17_wf_filter.
Theorem C17_wf_slice : forall c a start len,
  let l := split0 (eval a c) in
  let r := slice_list l start len in
  r <> [] -> split0 (eval (ASlice a start len) c) = r.
Proof. exact W_slice. Qed.
Print Assumptions C17_wf_slice.
Theorem C17_wf_range : forall c s e i start stop incr,
  atoi (eval s c) = Some start -> atoi (eval e c) = Some stop -> atoi (eval i c) = Some incr ->
  range_no_wrap start stop incr = true -> in_range start stop incr = true ->
  (range_countZ start stop incr <= MaxRangeElements)%Z ->
  split0 (eval (ARange s e i) c) = map itoa (progression (range_count start stop incr) start incr).
Proof. exact W_range. Qed.
Print Assumptions C17_wf_range.
Theorem C17_wf_for : forall c s x i n, 1 <= n <= iter_cap ->
  let cond := fun v k => eval x (subctx c v k) in
  let incr := fun v k => eval i (subctx c v k) in
  let vals := map (for_val incr (eval s c) dec_zero) (seq 0 n) in
  (forall k, k < n -> for_cond cond incr (eval s c) dec_zero k = true) ->
  for_cond cond incr (eval s c) dec_zero n = false ->
  (Z.of_nat (length (join0 vals)) <= ForMaxOutputBytes)%Z ->
  nul_free (eval s c) -> nul_safe i = true -> keys_nf c ->
  split0 (eval (AFor s x i) c) = vals.
Proof. exact W_for. Qed.
Print Assumptions C17_wf_for.
Theorem C17_nul_safe : forall e c, nul_safe e = true -> ctx_nf c -> nul_free (eval e c).
Proof. exact nul_safe_free. Qed.
Print Assumptions C17_nul_safe.
(* the index string {1} of @for is the decimal representation of the round (checked for 0..1999) *)
Theorem C17_for_index_decimal :
  forallb (fun n => bytes_eqb (dec_str (Nat.iter n dec_succ dec_zero)) (itoa (Z.of_nat n))) (seq 0 2000) = true.
Proof. exact dec_is_itoa_2000. Qed.

(* ---- the whole evaluator (every nesting of the above) equals the list specification, and the boolean
        form used on the implementation's outputs accepts exactly that ---- *)
Theorem C17_eval_spec : forall e c, eval e c = spec e c.
Proof. exact eval_spec. Qed.
Print Assumptions C17_eval_spec.
Theorem C17_check_sound : forall e c, C17_check e c (model e c) = true.
Proof. exact check_sound. Qed.
Print Assumptions C17_check_sound.

(* ---- translator obligations: the constants the model takes from the source ---- *)
Theorem C17_consts :
  ArraySeparator = [NUL] /\ (0 < MaxIterations)%Z /\ (0 < MaxRangeElements)%Z /\ (0 < ForMaxOutputBytes)%Z /\
  Forall (fun m => nul_freeb m = true /\ truthy m = true) [TruthyVal; ErrorNum; ErrorValue; ErrorEmpty; ForInfMarker] /\
  FalsyVal = [] /\ truthy FalsyVal = false.
Proof. vm_compute. repeat split; repeat constructor; reflexivity. Qed.

(* non-vacuity: a multi-byte delimiter, a negative slice start below -n, a reduce over a split *)
From Coq Require Import String.
Example C17_example :
  let c := mkctx [of_str "a::b::::c"%string; of_str "3"%string] [(of_str "k"%string, of_str "b"%string)] in
  split0 (eval (ASplit (Arg 0) (of_str "::"%string)) c) = [of_str "a"%string; of_str "b"%string; []; of_str "c"%string] /\
  eval (ASlice (ASplit (Arg 0) (of_str "::"%string)) (-10) 2) c = of_str "a"%string ++ [NUL] ++ of_str "b"%string /\
  eval (AFilter (ASplit (Arg 0) (of_str "::"%string)) (SEq (Arg 0) (Key (of_str "k"%string)))) c = of_str "b"%string /\
  eval (AFor (Lit (of_str "0"%string)) (SNot (SEq (Arg 1) (Arg 5))) (Cat [Arg 1; Key (of_str "k"%string)])) c = ForInfMarker.
Proof. vm_compute. repeat split; reflexivity. Qed.

(* both sides of the caps.  @range: exactly maxRangeElements elements are still a list, one more is <VALUE>
   (branch of C17_range, by arithmetic; rendering a million numbers is not needed), and the loop itself
   on cap + 1 elements; huge bounds with few elements; an increment that overflows int64 *)
Example C17_range_cap_sides :
  let cap := MaxRangeElements in
  (range_countZ 0 cap 1 >? cap)%Z = false /\
  (range_countZ 0 (cap + 1) 1 >? cap)%Z = true /\
  range_no_wrap 0 (cap + 1) 1 = true /\
  eval (ARange (Lit (of_str "0"%string)) (Lit (itoa (cap + 1))) (Lit (of_str "1"%string))) (mkctx [] []) = ErrorValue /\
  eval (ARange (Lit (of_str "0"%string)) (Lit (of_str "7"%string)) (Lit (of_str "3"%string))) (mkctx [] []) = of_str "0"%string ++ [NUL] ++ of_str "3"%string ++ [NUL] ++ of_str "6"%string.
Proof. vm_compute. repeat split; reflexivity. Qed.
Example C17_range_huge :
  eval (ARange (Lit (of_str "9223372036854775000"%string)) (Lit (of_str "9223372036854775500"%string)) (Lit (of_str "300"%string))) (mkctx [] [])
    = of_str "9223372036854775000"%string ++ [NUL] ++ of_str "9223372036854775300"%string /\
  range_no_wrap 9223372036854775000 9223372036854775500 300 = true /\
  (* the increment overflows after the only element: the wrapped counter stays below stop until the cap *)
  range_no_wrap 9223372036854775806 9223372036854775807 5 = false /\
  eval (ARange (Lit (of_str "9223372036854775806"%string)) (Lit (of_str "9223372036854775807"%string)) (Lit (of_str "5"%string))) (mkctx [] []) = ErrorValue.
Proof. vm_compute. repeat split; reflexivity. Qed.
(* @for: with a 70-byte value the output bound is exceeded after MAX_OUTPUT_BYTES / 71 + 1 rounds; when that is
   fewer than MAX_ITERATIONS (pinned tree: 945196 < 1000000) the marker is due to the output bound alone; 3 rounds are a list *)
Example C17_for_bytes_sides :
  let v := Lit (of_str "0123456789012345678901234567890123456789012345678901234567890123456789"%string) in
  let rounds := (ForMaxOutputBytes / 71 + 2)%Z in
  (if (rounds <=? MaxIterations)%Z
   then eval (AFor v (SNot (SEq (Arg 1) (Lit (itoa rounds)))) (Arg 0)) (mkctx [] []) = ForInfMarker
   else True) /\
  eval (ALen (AFor v (SNot (SEq (Arg 1) (Lit (of_str "3"%string)))) (Arg 0))) (mkctx [] []) = of_str "3"%string.
Proof. vm_compute. repeat split; reflexivity. Qed.
