(* C09 -- Template syntax: literals, escapes, quotes and nesting parse as documented.
   Property theorems only; proofs live in Proofs/Tmpl*.v.  Model: Model/Tmpl.v (pkg/expressions
   keyBuilder.go Compile, argSplitter.go, stage.go, errors.go) over lists of code points;
   Model/TmplPrint.v: the documented syntax as a printer of concrete syntax trees
   (tree + layout choice), the escaped rendering [esc], the normal form [norm].
   [compile] is the compiler after the repair of defect 1 (fixes/C09-trailing-backslash.patch),
   [compile_pinned] the code as pinned; both are [compile_gen fixed]. *)
From Coq Require Import List NArith ZArith Bool String.
From RareV Require Import Gen.GenTmpl Base.Res Base.Hex Base.Num Model.IsSpace Model.Tmpl Model.TmplPrint
  Proofs.TmplFuel Proofs.TmplEsc Proofs.TmplCopy Proofs.TmplTree Proofs.TmplMain Proofs.TmplEscTree Proofs.TmplEval.
Import ListNotations.
Local Open Scope N_scope.

(* Clause "for any string s its escaped rendering evaluates to s": for every string s over all
   code points, every function table and both versions of the compiler, Compile(esc s) is the
   single literal stage s (no stage for the empty string) and there is no error. [esc] puts a
   backslash before backslash and braces and writes LF CR TAB as \n \r \t. *)
Theorem C09_escape_roundtrip : forall fixed fs s, compile_gen fixed fs (esc s) = Ok (flush s, []).
Proof. exact escape_roundtrip. Qed.
Print Assumptions C09_escape_roundtrip.

(* Clause "backslash x makes any character literal": between escaped texts, backslash followed by
   ANY rune c yields [unescape c], which is c itself unless c is one of n r t. *)
Theorem C09_backslash_any : forall fixed fs s c s',
  compile_gen fixed fs (esc s ++ 92 :: c :: esc s') = Ok ([PLit (s ++ unescape c :: s')], [])
  /\ (c <> 110 -> c <> 114 -> c <> 116 -> unescape c = c).
Proof. exact backslash_any_full. Qed.
Print Assumptions C09_backslash_any.

(* Defect 1: a template ending in an unpaired backslash. Pinned code: index out of range;
   repaired code: the backslash is literal. *)
Theorem C09_trailing_backslash_pinned_refuted : forall fs s, compile_pinned fs (esc s ++ [92]) = Panic.
Proof. exact trailing_backslash_pinned. Qed.
Theorem C09_trailing_backslash : forall fs s, compile fs (esc s ++ [92]) = Ok ([PLit (s ++ [92])], []).
Proof. exact trailing_backslash_repaired. Qed.
Print Assumptions C09_trailing_backslash_pinned_refuted.
Print Assumptions C09_trailing_backslash.

(* Clause "an expression tree printed with this syntax evaluates exactly as the tree dictates":
   for every concrete syntax tree c (an expression tree of any nesting depth together with a
   layout choice) that is admissible --
     [wf_tmpl]: literal text, words and function names over all runes except backslash, braces
       and double quote; white-space runs (any unicode.IsSpace runes; at least one before every
       argument, any number after the opening and before the closing brace); a word or function
       name is unquoted only if non-empty and free of white space; an argument is quoted only if
       its text contains no double quote at any depth, and unquoted only if its text is non-empty
       and has no white space outside nested braces; calls have at least one argument;
     [fn_ok_tmpl]: every call head is registered and its constructor accepts the arguments --
   compiling the printed text gives exactly the normal form (adjacent literals merged) of the
   tree c denotes ([erase]: a lone word is a group look-up iff Atoi accepts it, else a key
   look-up; every argument is a template), and no error. *)
Theorem C09_print_parse : forall fixed fs c,
  wf_tmpl c = true -> fn_ok_tmpl fs c = true ->
  compile_gen fixed fs (print c) = Ok (norm (erase c), []).
Proof. exact print_parse. Qed.
Print Assumptions C09_print_parse.

(* The same clause for literal text over ALL runes (space, backslash, braces, double quote,
   control characters) at any nesting depth, printed with layered escapes: every layer a text
   travels through (statement scanner, argument splitter, compile of the argument) removes
   exactly one backslash level regardless of brace depth, so a literal of a template that has j
   layers to go is written [lescn (j+1)] (a backslash before every syntax and white-space rune,
   j+1 times: 2^(2d+1)-1 backslashes at call depth d); arguments have two more layers to go than
   the statement they occur in.  Admissible [wfe_tmpl]: literal text arbitrary; words and names
   as in C09_print_parse; a quoted argument contains no quoted item; an unquoted argument is
   non-empty (its white space is escaped). *)
Theorem C09_print_parse_escaped : forall fixed fs c,
  wfe_tmpl c = true -> fn_ok_tmpl fs c = true ->
  compile_gen fixed fs (eprint 0 c) = Ok (norm (erase c), []).
Proof. exact print_parse_escaped. Qed.
Print Assumptions C09_print_parse_escaped.

(* ... and normalisation does not change the value (probe evaluation: literals as they are,
   look-ups and calls rendered visibly) *)
Theorem C09_norm_eval : forall t, eval (norm t) = eval t.
Proof. exact eval_norm. Qed.
Print Assumptions C09_norm_eval.

(* Clause "unterminated or empty statements and unknown functions are reported as compile
   errors", around arbitrary admissible printed trees c, c'.  Offsets are in runes. *)
(* {w} with w white space (possibly empty): ErrorEmptyStatement at the opening brace, no stage *)
Theorem C09_err_empty : forall fixed fs c w c',
  wf_tmpl c = true -> fn_ok_tmpl fs c = true -> wf_tmpl c' = true -> fn_ok_tmpl fs c' = true -> ws w = true ->
  compile_gen fixed fs (print c ++ 123 :: w ++ 125 :: print c')
  = Ok (norm (erase c) ++ norm (erase c'), [(EEmptyStatement, N.of_nat (List.length (print c)))]).
Proof. exact err_empty. Qed.
(* an opening brace that is never closed (q: no backslash; braces inside q balanced or open): ErrorUnterminated at
   the offset of that brace; the rest is emitted as literal text *)
Theorem C09_err_unterminated : forall fixed fs c q,
  wf_tmpl c = true -> fn_ok_tmpl fs c = true -> stays_open 0 q = true ->
  compile_gen fixed fs (print c ++ 123 :: q)
  = Ok (norm (erase c) ++ flush q, [(EUnterminated, N.of_nat (List.length (print c)))]).
Proof. exact err_unterminated. Qed.
(* a call whose head is not registered: ErrorMissingFunction at the statement, the stage is the
   text <Err:name>, the arguments are not compiled *)
Theorem C09_err_missing : forall fixed fs c pre qf f args post c',
  wf_tmpl c = true -> fn_ok_tmpl fs c = true -> wf_tmpl c' = true -> fn_ok_tmpl fs c' = true ->
  wf_piece (CCall pre qf f args post) = true -> fs f = None ->
  compile_gen fixed fs (print c ++ print_piece (CCall pre qf f args post) ++ print c')
  = Ok (norm (erase c) ++ PLit (err_lit f) :: norm (erase c'), [(EMissingFunction, N.of_nat (List.length (print c)))]).
Proof. exact err_missing. Qed.
(* errors of a nested argument x (any text both tokenisers copy verbatim: [okO], [okS]) are the
   errors of Compile(x) with offsets shifted by the offset of the enclosing statement *)
Theorem C09_err_rebase : forall fixed fs c f chk x tx ex,
  wf_tmpl c = true -> fn_ok_tmpl fs c = true ->
  item_ok false f = true -> fs f = Some chk -> chk [tx] = None ->
  okO 0 x = true -> okS 0 false x = true -> x <> [] ->
  compile_gen fixed fs x = Ok (tx, ex) ->
  compile_gen fixed fs (print c ++ 123 :: f ++ 32 :: x ++ [125])
  = Ok (norm (erase c) ++ [PCall f [tx]], rebase (N.of_nat (List.length (print c))) ex).
Proof. exact err_rebase. Qed.
(* the four error clauses together *)
Theorem C09_errors : forall fixed fs c, wf_tmpl c = true -> fn_ok_tmpl fs c = true ->
  (forall w c', wf_tmpl c' = true -> fn_ok_tmpl fs c' = true -> ws w = true ->
     compile_gen fixed fs (print c ++ 123 :: w ++ 125 :: print c')
     = Ok (norm (erase c) ++ norm (erase c'), [(EEmptyStatement, N.of_nat (List.length (print c)))])) /\
  (forall q, stays_open 0 q = true ->
     compile_gen fixed fs (print c ++ 123 :: q)
     = Ok (norm (erase c) ++ flush q, [(EUnterminated, N.of_nat (List.length (print c)))])) /\
  (forall pre qf f args post c', wf_tmpl c' = true -> fn_ok_tmpl fs c' = true ->
     wf_piece (CCall pre qf f args post) = true -> fs f = None ->
     compile_gen fixed fs (print c ++ print_piece (CCall pre qf f args post) ++ print c')
     = Ok (norm (erase c) ++ PLit (err_lit f) :: norm (erase c'), [(EMissingFunction, N.of_nat (List.length (print c)))])) /\
  (forall f chk x tx ex, item_ok false f = true -> fs f = Some chk -> chk [tx] = None ->
     okO 0 x = true -> okS 0 false x = true -> x <> [] -> compile_gen fixed fs x = Ok (tx, ex) ->
     compile_gen fixed fs (print c ++ 123 :: f ++ 32 :: x ++ [125])
     = Ok (norm (erase c) ++ [PCall f [tx]], rebase (N.of_nat (List.length (print c))) ex)).
Proof. exact errors_all. Qed.
Print Assumptions C09_errors.
Print Assumptions C09_err_empty.
Print Assumptions C09_err_unterminated.
Print Assumptions C09_err_missing.
Print Assumptions C09_err_rebase.

(* Compile's recursion on arguments terminates: any fuel above the length gives the same result,
   Compile unfolds to the scanner calling Compile on the arguments, and the repaired compiler
   never panics (so the fuel of [compile_gen] never runs out). *)
Theorem C09_compile_unfold : forall fixed fs s,
  compile_gen fixed fs s = scan fixed fs (compile_gen fixed fs) 0 0 0 [] [] [] s.
Proof. exact compile_unfold. Qed.
Theorem C09_compile_total : forall fs s, compile fs s <> Panic.
Proof. exact compile_total. Qed.
Print Assumptions C09_compile_unfold.
Print Assumptions C09_compile_total.

(* the boolean forms used on the implementation's outputs accept everything the model produces *)
Theorem C09_check_sound : forall k s,
  claim_static k s = true -> C09_check k s (obs_of (compile probe_fs s)) = true.
Proof. exact check_sound. Qed.
Print Assumptions C09_check_sound.
(* ... and for a builder with its own registrations (any function table): the raw form *)
Theorem C09_check_sound_raw : forall fs s, C09_check KRaw s (obs_of (compile fs s)) = true.
Proof. exact check_sound_raw. Qed.
Print Assumptions C09_check_sound_raw.

(* translator obligations (coq/Gen/GenTmpl.v is regenerated from /repo on every run) *)
Fixpoint table_lookup (t : list (N * N)) (c : N) : N :=
  match t with [] => c | (a, b) :: r => if c =? a then b else table_lookup r c end.
Theorem C09_gen_unescape : forall c, unescape c = table_lookup unescape_table c.
Proof. intros c. reflexivity. Qed.
Theorem C09_gen_errfmt : (err_fmt_prefix, err_fmt_suffix) = (err_prefix, err_suffix).
Proof. reflexivity. Qed.
Theorem C09_gen_errors :
  map fst compile_errors = ["ErrorUnterminated"; "ErrorEmptyStatement"; "ErrorMissingFunction"]%string.
Proof. reflexivity. Qed.

(* non-vacuity of the escaped form: text, then f0 of (f1 of a quoted literal with a blank and a bare
   literal with a backslash) and of a bare literal made of brace, q, double quote, brace; 7 and 31 backslashes *)
Definition ex_etree : ctmpl :=
  [CLit [120;32];
   CCall [] false [102;48]
     [CArg [32] false [CCall [] false [102;49] [CArg [32] true [CLit [97;32;98]]; CArg [32] false [CLit [67;58;92;100;105;114]]] []];
      CArg [32] false [CLit [123;113;34;125]]] []].
Example C09_example_escaped :
  wfe_tmpl ex_etree = true /\ fn_ok_tmpl probe_fs ex_etree = true /\
  List.length (eprint 0 ex_etree) = 113%nat /\
  compile probe_fs (eprint 0 ex_etree)
  = Ok ([PLit [120;32]; PCall [102;48] [[PCall [102;49] [[PLit [97;32;98]]; [PLit [67;58;92;100;105;114]]]]; [PLit [123;113;34;125]]]], []).
Proof. vm_compute. repeat split; reflexivity. Qed.

(* non-vacuity: documentation-style examples *)
Definition ex_fs : fenv := probe_fs.
(* {f0 {f1 a}b "x y" ""}{+1} text {key}  *)
Definition ex_tree : ctmpl :=
  [CCall [] false [102;48]
     [CArg [32] false [CCall [] false [102;49] [CArg [32] false [CLit [97]]] []; CLit [98]];
      CArg [32;9] true [CLit [120;32;121]];
      CArg [32] true []] [];
   CVar [] false [43;49] [];
   CLit [32;116;32];
   CVar [32] false [107;101;121] [8195]].
Example C09_example :
  wf_tmpl ex_tree = true /\ fn_ok_tmpl ex_fs ex_tree = true /\
  compile ex_fs (print ex_tree)
  = Ok ([PCall [102;48] [[PCall [102;49] [[PLit [97]]]; PLit [98]]; [PLit [120;32;121]]; []];
         PMatch 1; PLit [32;116;32]; PKey [107;101;121]], []).
Proof. vm_compute. repeat split; reflexivity. Qed.
