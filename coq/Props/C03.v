(* C03 — Final aggregates equal the reference aggregation, independent of parallelism.
   Composition of C01/C02/C05 (pipeline and aggregation loop, every schedule) with C07 (count-style
   aggregators are invariant under permutation of the sample history), the CSV writer / strict
   RFC 4180 reader, and the exit status. *)
From Coq Require Import List NArith ZArith Arith Permutation Bool String.
From RareV Require Import Base.Hex Base.Num Model.Batch Model.Pipeline Model.AggLoop Model.Agg Model.CsvFile Model.Exit
  Proofs.PipelineProof Proofs.ReduceOrder Proofs.C03Proof Proofs.CsvFileProof Gen.GenC06 Model.Skel Gen.GenSkel.
Import ListNotations.

(* whatever the schedule, worker count, reader concurrency, channel capacities and batching, the keys
   reaching the aggregator fold - for the histogram counter, the sub-key counter and the table - to
   the aggregate of the sequential one-line-at-a-time evaluation *)
Theorem C03_schedule_independent : forall classify c srcs nw s, cfg_ok c -> nw >= 1 ->
  reach bytes classify c (init bytes srcs nw) s -> (forall s', ~ step bytes classify c s s') ->
  c_run (consumed bytes s) = c_run (seq_keys bytes classify (input_of srcs)) /\
  s_run (consumed bytes s) = s_run (seq_keys bytes classify (input_of srcs)) /\
  (forall d, t_run d (consumed bytes s) = t_run d (seq_keys bytes classify (input_of srcs))).
Proof. exact pipeline_counts. Qed.
Print Assumptions C03_schedule_independent.

(* the same through RunAggregationLoop: what has been sampled when the final render runs *)
Theorem C03_loop_aggregate : forall classify c srcs nw x, nw >= 1 ->
  creach bytes classify c (init bytes srcs nw, loop0 bytes) x -> ag bytes (snd x) = ADone ->
  c_run (sampled bytes (snd x)) = c_run (seq_keys bytes classify (input_of srcs)) /\
  s_run (sampled bytes (snd x)) = s_run (seq_keys bytes classify (input_of srcs)) /\
  (forall d, t_run d (sampled bytes (snd x)) = t_run d (seq_keys bytes classify (input_of srcs))).
Proof. exact loop_counts. Qed.

(* two runs with any two configurations and schedules emit the same multiset of keys *)
Theorem C03_two_runs_agree : forall classify c srcs nw1 nw2 c2 s1 s2, cfg_ok c -> cfg_ok c2 -> nw1 >= 1 -> nw2 >= 1 ->
  reach bytes classify c (init bytes srcs nw1) s1 -> (forall s', ~ step bytes classify c s1 s') ->
  reach bytes classify c2 (init bytes srcs nw2) s2 -> (forall s', ~ step bytes classify c2 s2 s') ->
  Permutation (consumed bytes s1) (consumed bytes s2).
Proof. exact schedule_independent. Qed.

(* reduce with sum / count accumulators ({sumi {.} x}: int64 wrap-around, a non-integer operand gives the
   sticky marker): the row step commutes, so the group table depends only on the multiset of keys -
   for every configuration and every schedule it is the table of the sequential reference keys, also
   through RunAggregationLoop; in general (any accumulating group whose row step commutes) *)
Theorem C03_reduce_schedule_independent : forall classify c bad srcs nw s, atoi bad = None -> cfg_ok c -> nw >= 1 ->
  reach bytes classify c (init bytes srcs nw) s -> (forall s', ~ step bytes classify c s s') ->
  a_run expr (eval_expr bad) reduce_def (consumed bytes s) =
  a_run expr (eval_expr bad) reduce_def (seq_keys bytes classify (input_of srcs)).
Proof. exact pipeline_reduce. Qed.
Print Assumptions C03_reduce_schedule_independent.
Theorem C03_reduce_loop : forall classify c bad srcs nw x, atoi bad = None -> nw >= 1 ->
  creach bytes classify c (init bytes srcs nw, loop0 bytes) x -> ag bytes (snd x) = ADone ->
  a_run expr (eval_expr bad) reduce_def (sampled bytes (snd x)) =
  a_run expr (eval_expr bad) reduce_def (seq_keys bytes classify (input_of srcs)).
Proof. exact loop_reduce. Qed.
Theorem C03_accumulator_order_insensitive : forall (E : Type) eval (d : adef E),
  step_commutes E eval d -> forall h1 h2, Permutation h1 h2 -> a_run E eval d h1 = a_run E eval d h2.
Proof. exact a_run_perm. Qed.
Print Assumptions C03_accumulator_order_insensitive.
(* the marker the correspondence uses is not an integer *)
Example C03_bad_type_not_int : atoi (of_str "<BAD-TYPE>") = None.
Proof. vm_compute. reflexivity. Qed.

(* translator obligation for the 1x1 order theorem below: the reader pool hands the files to the readers in
   argument order because the SPAWNING LOOP takes the semaphore slot before it starts a reader (Model/Skel.v
   open_files_ok on the regenerated skeleton of OpenFilesToChan; see C01_skeleton) *)
Theorem C03_files_in_argument_order : open_files_ok skel_open_files = true.
Proof. vm_compute. reflexivity. Qed.

(* translator obligation for "the final snapshot / export reflects the whole input": the final output is written
   by helpers.RunAggregationLoop after its refresh goroutine has acknowledged the stop signal - an UNBUFFERED
   send, which is also what keeps the last refresh and the final write from running at the same time (an
   analyze -x sort or a spark trim executed twice at once corrupts the result); agg_loop_ok on the regenerated
   skeleton (the transition system over this structure is C05's) *)
Theorem C03_final_output_skeleton : agg_loop_ok skel_agg_loop = true.
Proof. vm_compute. reflexivity. Qed.

(* ANY accumulator (analyze, reduce: order-sensitive ones included) with one reader at a time and one worker *)
Theorem C03_any_accumulator_1x1 : forall (A : Type) (f : A -> bytes -> A) (a0 : A) classify c srcs s,
  nreaders c = 1 -> chcap c >= 1 -> rcap c >= 1 ->
  reach bytes classify c (init bytes srcs 1) s -> (forall s', ~ step bytes classify c s s') ->
  fold_left f (consumed bytes s) a0 = fold_left f (seq_keys bytes classify (input_of srcs)) a0.
Proof. exact any_fold_1x1. Qed.

(* keys that mention neither {src} nor {line}: only the multiset of line texts matters - order of
   the file arguments and division of the lines among files are irrelevant *)
Theorem C03_file_split_independent : forall (g : bytes -> cls bytes) classify in1 in2,
  (forall id, classify id = g (snd id)) ->
  Permutation (map (fun id : lineid => snd id) in1) (map (fun id : lineid => snd id) in2) ->
  Permutation (seq_keys bytes classify in1) (seq_keys bytes classify in2).
Proof. exact file_split_independent. Qed.
Print Assumptions C03_file_split_independent.

(* the CSV export parses (RFC 4180) back to exactly the rows written, whatever bytes the fields
   contain and whatever additional fields the writer chooses to quote *)
Theorem C03_csv_roundtrip : forall extra rows, Forall (fun r => r <> []) rows ->
  csv_read (csv_write extra rows) = Some rows.
Proof. exact csv_roundtrip. Qed.
Print Assumptions C03_csv_roundtrip.

(* exit status: 2 if read errors, else 2 if parse errors, else 1 if nothing matched, else 0 *)
Theorem C03_exit_code : forall r p m,
  exit_code r p m = if (0 <? r)%nat then 2%Z else if (0 <? p)%nat then 2%Z else if (m =? 0)%nat then 1%Z else 0%Z.
Proof. intros r p m. unfold exit_code. destruct (0 <? r)%nat, (0 <? p)%nat, (m =? 0)%nat; reflexivity. Qed.

Example C03_example_csv :
  csv_read (csv_write (fun _ => false) [[[97;44;98]%N; [49]%N]; [[34]%N; []]]) = Some [[[97;44;98]%N; [49]%N]; [[34]%N; []]].
Proof. vm_compute. reflexivity. Qed.
