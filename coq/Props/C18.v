(* C18 — Time helpers agree with the calendar and round-trip.
   Property theorems only; proofs live in Proofs/Calendar*.v, Proofs/TimeFmt*.v, Proofs/Duration*.v.
   Models: Model/Calendar.v (proleptic Gregorian calendar on Z), Model/TimeFmt.v (Go layout
   tokeniser, Time.Format, time.Parse and the funcsTime.go wrappers), Model/Duration.v
   (ParseDuration / Duration.String), Model/C18Check.v (boolean forms). *)
From Coq Require Import List NArith ZArith Bool String.
From RareV Require Import Gen.GenTime Base.Hex Base.Num Model.Calendar Model.TimeFmt Model.Duration Model.C18Check.
From RareV Require Import Proofs.CalendarSweep Proofs.CalendarProof Proofs.CalendarBucket Proofs.TimeFmtTok Proofs.TimeFmtProof Proofs.TimeFmtRfc822z Proofs.TimeFmtAttr Proofs.DurationProof.
Import ListNotations.
Local Open Scope Z_scope.

(* "report the calendar fields of that instant": the date the model computes for ANY day number
   (not only 1970..2100) is the unique valid civil date of that day: converting it back gives the
   day, month and day-of-month are in range for that year, and the day lies in that year.
   (Finite sweep of one 146097-day era by vm_compute, lifted to all of Z by periodicity.) *)
Theorem C18_civil_days_inverse : forall z y m d,
  civil_from_days z = (y, m, d) ->
  days_from_civil y m d = z /\ 1 <= m <= 12 /\ 1 <= d <= days_in_month y m /\
  year_start y <= z < year_start (y + 1) /\ days_from_civil y m 1 <= z.
Proof. exact civil_days_inverse_proof. Qed.
Print Assumptions C18_civil_days_inverse.

(* distinct days have distinct dates *)
Theorem C18_civil_injective : forall z1 z2, civil_from_days z1 = civil_from_days z2 -> z1 = z2.
Proof. exact civil_from_days_injective. Qed.
Print Assumptions C18_civil_injective.

(* every year has 365 days, leap years (Gregorian rule) 366 *)
Theorem C18_year_length : forall y, year_start (y + 1) - year_start y = if is_leap y then 366 else 365.
Proof. exact year_length. Qed.
Print Assumptions C18_year_length.

(* "quarter is 1..4 with January-March = 1" (repaired formula, fixes/C18-quarter.patch) *)
Theorem C18_quarter : forall m, 1 <= m <= 12 ->
  1 <= quarter m <= 4 /\ (quarter m = 1 <-> 1 <= m <= 3) /\ 3 * quarter m - 2 <= m <= 3 * quarter m.
Proof. exact quarter_proof. Qed.
Print Assumptions C18_quarter.

(* the formula in the pinned tree (month/3+1) violates it (March -> 2) and is right exactly off the
   months divisible by 3 *)
Theorem C18_quarter_go_refuted : exists m, 1 <= m <= 12 /\ ~ (3 * quarter_go m - 2 <= m <= 3 * quarter_go m).
Proof. exact quarter_go_refuted_proof. Qed.
Theorem C18_quarter_go_partial : forall m, 1 <= m <= 12 -> m mod 3 <> 0 -> quarter_go m = quarter m.
Proof. exact quarter_go_partial_proof. Qed.
Print Assumptions C18_quarter_go_partial.

(* weekday: 0..6, advances by one per day, 7-periodic, anchored at two known dates *)
Theorem C18_weekday : forall day,
  0 <= weekday day <= 6 /\ weekday (day + 1) = (weekday day + 1) mod 7 /\ forall k, weekday (day + 7 * k) = weekday day.
Proof. intros day. split; [exact (weekday_range_proof day)|split; [exact (weekday_succ_proof day)|exact (weekday_week_proof day)]]. Qed.
Print Assumptions C18_weekday.
Example C18_weekday_anchor : weekday 0 = 4 /\ weekday (days_from_civil 2006 1 2) = 1.   (* Thu 1970-01-01, Mon 2006-01-02 *)
Proof. vm_compute. split; reflexivity. Qed.

(* ISO week / yearweek: the ISO year is the year holding the Thursday of the day's Monday..Sunday
   week, and the week number counts that year's Thursdays starting from the first one; the
   declarative boolean form used on the implementation's outputs holds, and determines (y, w) *)
Theorem C18_isoweek : forall day y w, isoweek day = (y, w) ->
  let th := iso_thursday day in
  year_start y <= th < year_start (y + 1) /\
  th = first_thursday y + 7 * (w - 1) /\
  1 <= w <= 53 /\
  iso_spec_b day y w = true.
Proof. exact isoweek_proof. Qed.
Print Assumptions C18_isoweek.
Theorem C18_isoweek_unique : forall day y w y' w',
  iso_spec_b day y w = true -> iso_spec_b day y' w' = true -> y = y' /\ w = w'.
Proof. exact iso_spec_unique. Qed.
Print Assumptions C18_isoweek_unique.
(* the Thursday used is the Thursday of the day's own Monday..Sunday week *)
Theorem C18_iso_thursday : forall day,
  weekday (iso_thursday day) = 4 /\ day - 3 <= iso_thursday day <= day + 3 /\ weekday (iso_thursday day - 3) = 1.
Proof. exact iso_thursday_spec. Qed.
Print Assumptions C18_iso_thursday.

(* the first day of the month of any day is read back as (y, m, 1) *)
Theorem C18_month_start : forall z y m d,
  civil_from_days z = (y, m, d) -> civil_from_days (days_from_civil y m 1) = (y, m, 1).
Proof. exact month_start_inverse. Qed.
Print Assumptions C18_month_start.

(* ---- round trip: `time` with an explicit format parses what `timeformat` printed back to the
   same instant and offset — for every table layout holding date, time and a numeric offset
   (RFC3339 = the default, RFC3339N, RFC1123Z, RUBY, NGINX; any letter case of the name), every
   instant whose local year is 0..9999 and every zone offset that is a whole number of minutes
   within +-24 h; whatever the zone abbreviation printed and whatever zone the parser is given ---- *)
Theorem C18_roundtrip : forall fmt,
  existsb (bytes_eqb (upper fmt)) rt_names = true ->
  forall t off abbr, in_range t off = true -> rt_offset off = true ->
  exists p, parse_layout (named_format fmt) (format_layout (named_format fmt) (civil_of t 0 off abbr)) = Some p /\
            forall names lo fo, resolve names lo fo p = (t, off).
Proof. exact rt_names_layout. Qed.
Print Assumptions C18_roundtrip.

(* the same on the functions of funcsTime.go: {time {timeformat t F tz} F tz'} = t *)
Theorem C18_roundtrip_kf : forall fmt t off abbr names lo fo,
  existsb (bytes_eqb (upper fmt)) rt_names = true -> in_range t off = true -> rt_offset off = true ->
  kf_time (kf_timeformat (itoa t) fmt off abbr) fmt names lo fo = itoa t.
Proof. exact roundtrip_kf. Qed.
Print Assumptions C18_roundtrip_kf.

(* RFC822Z ("02 Jan 06 15:04 -0700") also holds date, time and numeric offset, with a two-digit year and
   no seconds: the instant comes back cut to the minute exactly when the local year is 1969..2068
   (local time in [1969-01-01, 2069-01-01)), for every whole-minute offset within +-24 h ... *)
Theorem C18_roundtrip_rfc822z : forall t off abbr,
  in_range_822 t off = true -> rt_offset off = true ->
  exists p, parse_layout (named_format (s2b "RFC822Z")) (format_layout (named_format (s2b "RFC822Z")) (civil_of t 0 off abbr)) = Some p /\
            forall names lo fo, resolve names lo fo p = (t - t mod 60, off).
Proof. exact rt_rfc822z. Qed.
Print Assumptions C18_roundtrip_rfc822z.
Theorem C18_roundtrip_kf_rfc822z : forall fmt t off abbr names lo fo,
  upper fmt = s2b "RFC822Z" -> in_range_822 t off = true -> rt_offset off = true ->
  kf_time (kf_timeformat (itoa t) fmt off abbr) fmt names lo fo = itoa (t - t mod 60).
Proof. exact roundtrip_kf_rfc822z. Qed.
Print Assumptions C18_roundtrip_kf_rfc822z.
(* ... and not outside: the first second of 2069 comes back as 1969-01-01, the last minute of 1968 as 2068-12-31 23:59 *)
Theorem C18_roundtrip_rfc822z_refuted_outside :
  kf_time (kf_timeformat (s2b "3124224000") (s2b "RFC822Z") 0 (s2b "UTC")) (s2b "RFC822Z") [] 0 0 = s2b "-31536000" /\
  kf_time (kf_timeformat (s2b "-31536060") (s2b "RFC822Z") 0 (s2b "UTC")) (s2b "RFC822Z") [] 0 0 = s2b "3124223940".
Proof. exact rfc822z_refuted_outside. Qed.
Example C18_rfc822z_window : in_range_822 (-31536000) 0 = true /\ in_range_822 3124223999 0 = true /\
  in_range_822 3124224000 0 = false /\ in_range_822 (-31536001) 0 = false.
Proof. vm_compute. repeat split; reflexivity. Qed.

(* ---- buckettime: two instants in the same unit of local time (same truncation) get the same
   key, for each of the seven bucket layouts of the table; the truncation is not after the instant;
   the keys are the zero-padded year-month-day hour fields cut at the unit ---- *)
Theorem C18_bucket_truncates : forall u t t' n n' off a a',
  trunc_local u (t + off) = trunc_local u (t' + off) -> (u = UNanos -> n = n') ->
  format_layout (unit_layout u) (civil_of t n off a) = format_layout (unit_layout u) (civil_of t' n' off a').
Proof. exact bucket_same_key. Qed.
Print Assumptions C18_bucket_truncates.
Theorem C18_trunc_le : forall u l, trunc_local u l <= l.
Proof. exact trunc_local_le. Qed.
Print Assumptions C18_trunc_le.
Theorem C18_bucket_key : forall c,
  format_layout (unit_layout UYears) c = append_int (c_year c) 4 /\
  format_layout (unit_layout UMonths) c = append_int (c_year c) 4 ++ [45%N] ++ append_int (c_month c) 2 /\
  format_layout (unit_layout UDays) c =
    append_int (c_year c) 4 ++ [45%N] ++ append_int (c_month c) 2 ++ [45%N] ++ append_int (c_day c) 2 /\
  format_layout (unit_layout UHours) c =
    append_int (c_year c) 4 ++ [45%N] ++ append_int (c_month c) 2 ++ [45%N] ++ append_int (c_day c) 2 ++ [32%N] ++
    append_int (c_hour c) 2.
Proof. exact bucket_key_explicit. Qed.
Print Assumptions C18_bucket_key.

(* ---- duration / durationformat: whole seconds survive the round trip (no int64 overflow:
   |s| <= 9223372036), on nanoseconds and on the two functions ---- *)
Theorem C18_duration_roundtrip_ns : forall s,
  - max_whole_secs <= s <= max_whole_secs ->
  parse_duration (format_duration (s * 1000000000)) = Some (s * 1000000000).
Proof. exact duration_roundtrip_ns. Qed.
Print Assumptions C18_duration_roundtrip_ns.
Theorem C18_duration_roundtrip : forall s,
  - max_whole_secs <= s <= max_whole_secs -> kf_duration (kf_durationformat (itoa s)) = itoa s.
Proof. exact duration_roundtrip_kf. Qed.
Print Assumptions C18_duration_roundtrip.

(* ---- unparseable input yields the error marker ---- *)
Theorem C18_time_error : forall str fmt names lo fo,
  parse_layout (named_format fmt) str = None -> kf_time str fmt names lo fo = timeErrorParsing.
Proof. exact time_error_marker. Qed.
Theorem C18_buckettime_error : forall str b fmt names lo fo l,
  bucket_layout b = Some l -> parse_layout (named_format fmt) str = None ->
  kf_buckettime str b fmt names lo fo = timeErrorParsing.
Proof. exact buckettime_error_marker. Qed.
Theorem C18_timeformat_error : forall arg fmt off abbr, atoi arg = None -> kf_timeformat arg fmt off abbr = timeErrorNum.
Proof. exact timeformat_error_marker. Qed.
Theorem C18_duration_error : forall s, parse_duration s = None -> kf_duration s = timeErrorParsing.
Proof. exact duration_error_marker. Qed.
Theorem C18_durationformat_error : forall a, atoi a = None -> kf_durationformat a = timeErrorNum.
Proof. exact durationformat_error_marker. Qed.
Print Assumptions C18_durationformat_error.
Example C18_error_examples :
  kf_time (s2b "2020-02-30T00:00:00Z") (s2b "RFC3339") [] 0 0 = s2b "<PARSE-ERROR>" /\
  kf_time (s2b "2020-02-29T00:00:00Zx") (s2b "RFC3339") [] 0 0 = s2b "<PARSE-ERROR>" /\
  kf_time (s2b "2020-02-29T24:00:00Z") (s2b "RFC3339") [] 0 0 = s2b "<PARSE-ERROR>" /\
  kf_duration (s2b "1d") = s2b "<PARSE-ERROR>" /\ kf_durationformat (s2b "1h") = s2b "<BAD-TYPE>".
Proof. vm_compute. repeat split; reflexivity. Qed.

(* ---- the boolean forms used on the implementation's outputs accept what the models produce ---- *)
Theorem C18_check_format_sound : forall arg fmt off abbr,
  C18_check_format arg fmt off abbr (kf_timeformat arg fmt off abbr) = true.
Proof. exact check_format_sound. Qed.
Print Assumptions C18_check_format_sound.
(* timeattr (for instants whose local year is 0..9999) and buckettime *)
Theorem C18_check_attr_sound : forall arg attr off,
  (forall t, atoi arg = Some t -> in_range t off = true) ->
  C18_check_attr arg attr off (kf_timeattr arg attr off) = true.
Proof. exact check_attr_sound. Qed.
Print Assumptions C18_check_attr_sound.
Theorem C18_check_bucket_sound : forall str b fmt names lo fo,
  C18_check_bucket str b fmt names lo fo (kf_buckettime str b fmt names lo fo) = true.
Proof. exact check_bucket_sound. Qed.
Print Assumptions C18_check_bucket_sound.
Theorem C18_check_durationformat_sound : forall arg, C18_check_durationformat arg (kf_durationformat arg) = true.
Proof. exact check_durationformat_sound. Qed.
Theorem C18_check_duration_sound : forall s, C18_check_duration s (kf_duration s) = true.
Proof. exact check_duration_sound. Qed.
Print Assumptions C18_check_durationformat_sound.

(* non-vacuity: a DST-zone instant at a quarter / ISO-year boundary *)
Example C18_example :
  kf_timeformat (s2b "1609455600") (s2b "rfc1123z") (-18000) (s2b "EST") = s2b "Thu, 31 Dec 2020 18:00:00 -0500" /\
  kf_timeattr (s2b "1609455600") (s2b "yearweek") (-18000) = s2b "2020-53" /\
  kf_timeattr (s2b "1609477200") (s2b "yearweek") (-18000) = s2b "2020-53" /\
  kf_timeattr (s2b "1609477200") (s2b "quarter") (-18000) = s2b "1" /\
  kf_buckettime (s2b "Thu, 31 Dec 2020 18:00:00 -0500") (s2b "mo") (s2b "RFC1123Z") [] 0 0 = s2b "2020-12".
Proof. vm_compute. repeat split; reflexivity. Qed.

(* ---- translator obligations (coq/Gen/GenTime.v is regenerated from funcsTime.go on every run) ---- *)
(* every layout of the named-format table and of the bucket table consists of tokens the parser model covers *)
Theorem C18_table_tokens_supported :
  forallb (fun p => forallb parse_supported (tokenize (snd p))) (timeFormats ++ timeBuckets) = true.
Proof. vm_compute. reflexivity. Qed.
(* bucket layouts carry no zone token (the bucket model ignores the abbreviation) and the seven units are present *)
Theorem C18_bucket_table :
  map fst timeBuckets = map s2b ["nanos"; "seconds"; "minutes"; "hours"; "days"; "months"; "years"]%string /\
  forallb (fun p => forallb (fun tk => match tk with TTZ | TNumTZ _ _ => false | _ => true end) (tokenize (snd p))) timeBuckets = true.
Proof. vm_compute. split; reflexivity. Qed.
(* the documented bucket names select the layout of that precision (in any letter case the lookup lowers the name) *)
Theorem C18_bucket_doc :
  forallb (fun p => match bucket_layout (fst p) with Some l => bytes_eqb (snd p) l | None => false end) doc_buckets = true.
Proof. vm_compute. reflexivity. Qed.
(* the attribute keys are exactly the four modelled ones *)
Theorem C18_attr_keys : timeAttrKeys = map s2b ["QUARTER"; "WEEK"; "WEEKDAY"; "YEARWEEK"]%string.
Proof. vm_compute. reflexivity. Qed.
(* the round-trip formats exist in the table and hold date, time and a numeric offset *)
Theorem C18_rt_names_in_table : forallb (fun n => existsb (fun p => bytes_eqb (fst p) n) timeFormats) rt_names = true.
Proof. vm_compute. reflexivity. Qed.
