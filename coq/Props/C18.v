(* C18 — Time helpers agree with the calendar and round-trip.
   Property theorems only; proofs live in Proofs/Calendar*.v, Proofs/TimeFmt*.v, Proofs/Duration*.v.
   Models: Model/Calendar.v (proleptic Gregorian calendar on Z), Model/TimeFmt.v (Go layout
   tokeniser, Time.Format, time.Parse and the funcsTime.go wrappers), Model/Duration.v
   (ParseDuration / Duration.String), Model/C18Check.v (boolean forms). *)
From Coq Require Import List NArith ZArith Bool String.
From RareV Require Import Gen.GenTime Base.Hex Base.Num Model.Calendar Model.TimeFmt Model.Duration Model.C18Check.
From RareV Require Import Proofs.CalendarSweep Proofs.CalendarProof.
Import ListNotations.
Local Open Scope Z_scope.

(* "report the calendar fields of that instant": the date the model computes for ANY day number
   (not only 1970..2100) is the unique valid civil date of that day: converting it back gives the
   day, month and day-of-month are in range for that year, and the day lies in that year.
   (Finite sweep of one 146097-day era by vm_compute, lifted to all of Z by periodicity.) *)
Theorem C18_civil_days_inverse : forall z y m d,
  civil_from_days z = (y, m, d) ->
  days_from_civil y m d = z /\ 1 <= m <= 12 /\ 1 <= d <= days_in_month y m /\
  year_start y <= z < year_start (y + 1) /\ days_from_civil y m 1 <= z.
Proof. exact civil_days_inverse_proof. Qed.
Print Assumptions C18_civil_days_inverse.

(* distinct days have distinct dates *)
Theorem C18_civil_injective : forall z1 z2, civil_from_days z1 = civil_from_days z2 -> z1 = z2.
Proof. exact civil_from_days_injective. Qed.
Print Assumptions C18_civil_injective.

(* every year has 365 days, leap years (Gregorian rule) 366 *)
Theorem C18_year_length : forall y, year_start (y + 1) - year_start y = if is_leap y then 366 else 365.
Proof. exact year_length. Qed.
Print Assumptions C18_year_length.

(* "quarter is 1..4 with January-March = 1" (repaired formula, fixes/C18-quarter.patch) *)
Theorem C18_quarter : forall m, 1 <= m <= 12 ->
  1 <= quarter m <= 4 /\ (quarter m = 1 <-> 1 <= m <= 3) /\ 3 * quarter m - 2 <= m <= 3 * quarter m.
Proof. exact quarter_proof. Qed.
Print Assumptions C18_quarter.

(* the formula in the pinned tree (month/3+1) violates it (March -> 2) and is right exactly off the
   months divisible by 3 *)
Theorem C18_quarter_go_refuted : exists m, 1 <= m <= 12 /\ ~ (3 * quarter_go m - 2 <= m <= 3 * quarter_go m).
Proof. exact quarter_go_refuted_proof. Qed.
Theorem C18_quarter_go_partial : forall m, 1 <= m <= 12 -> m mod 3 <> 0 -> quarter_go m = quarter m.
Proof. exact quarter_go_partial_proof. Qed.
Print Assumptions C18_quarter_go_partial.

(* weekday: 0..6, advances by one per day, 7-periodic, anchored at two known dates *)
Theorem C18_weekday : forall day,
  0 <= weekday day <= 6 /\ weekday (day + 1) = (weekday day + 1) mod 7 /\ forall k, weekday (day + 7 * k) = weekday day.
Proof. intros day. split; [exact (weekday_range_proof day)|split; [exact (weekday_succ_proof day)|exact (weekday_week_proof day)]]. Qed.
Print Assumptions C18_weekday.
Example C18_weekday_anchor : weekday 0 = 4 /\ weekday (days_from_civil 2006 1 2) = 1.   (* Thu 1970-01-01, Mon 2006-01-02 *)
Proof. vm_compute. split; reflexivity. Qed.

(* ISO week / yearweek: the ISO year is the year holding the Thursday of the day's Monday..Sunday
   week, and the week number counts that year's Thursdays starting from the first one; the
   declarative boolean form used on the implementation's outputs holds, and determines (y, w) *)
Theorem C18_isoweek : forall day y w, isoweek day = (y, w) ->
  let th := iso_thursday day in
  year_start y <= th < year_start (y + 1) /\
  th = first_thursday y + 7 * (w - 1) /\
  1 <= w <= 53 /\
  iso_spec_b day y w = true.
Proof. exact isoweek_proof. Qed.
Print Assumptions C18_isoweek.
Theorem C18_isoweek_unique : forall day y w y' w',
  iso_spec_b day y w = true -> iso_spec_b day y' w' = true -> y = y' /\ w = w'.
Proof. exact iso_spec_unique. Qed.
Print Assumptions C18_isoweek_unique.
(* the Thursday used is the Thursday of the day's own Monday..Sunday week *)
Theorem C18_iso_thursday : forall day,
  weekday (iso_thursday day) = 4 /\ day - 3 <= iso_thursday day <= day + 3 /\ weekday (iso_thursday day - 3) = 1.
Proof. exact iso_thursday_spec. Qed.
Print Assumptions C18_iso_thursday.

(* ---- translator obligations (coq/Gen/GenTime.v is regenerated from funcsTime.go on every run) ---- *)
(* every layout of the named-format table and of the bucket table consists of tokens the parser model covers *)
Theorem C18_table_tokens_supported :
  forallb (fun p => forallb parse_supported (tokenize (snd p))) (timeFormats ++ timeBuckets) = true.
Proof. vm_compute. reflexivity. Qed.
(* bucket layouts carry no zone token (the bucket model ignores the abbreviation) and the seven units are present *)
Theorem C18_bucket_table :
  map fst timeBuckets = map s2b ["nanos"; "seconds"; "minutes"; "hours"; "days"; "months"; "years"]%string /\
  forallb (fun p => forallb (fun tk => match tk with TTZ | TNumTZ _ _ => false | _ => true end) (tokenize (snd p))) timeBuckets = true.
Proof. vm_compute. split; reflexivity. Qed.
(* the attribute keys are exactly the four modelled ones *)
Theorem C18_attr_keys : timeAttrKeys = map s2b ["QUARTER"; "WEEK"; "WEEKDAY"; "YEARWEEK"]%string.
Proof. vm_compute. reflexivity. Qed.
(* the round-trip formats exist in the table and hold date, time and a numeric offset *)
Theorem C18_rt_names_in_table : forallb (fun n => existsb (fun p => bytes_eqb (fst p) n) timeFormats) rt_names = true.
Proof. vm_compute. reflexivity. Qed.
