(* C06 — Named inputs are each read once, decoded faithfully, and failures are reported (partial).
   Property theorems only.  Models: Model/Input.v (GlobExpand, openFileToReader with an explicit
   file offset, BuildBatcherFromArguments, CLI observables), Model/Exit.v (DetermineErrorState +
   main), Model/Pipeline.v (C01: the reader pool).  Proofs: Proofs/InputWalk.v, InputProof.v,
   ExitProof.v.  The file system (fs), filepath.Glob (glob), compress/gzip (gunzip) and the number
   of bytes the gzip probe consumes (probe) are universally quantified oracles; the directory
   order of filepath.Walk is the order of the entries in the tree. *)
From Coq Require Import List NArith ZArith Arith Bool Permutation String.
From RareV Require Import Gen.GenC06Skel Model.InputSkel.
From RareV Require Import Base.Hex Model.Lines Model.Batch Model.Pipeline Model.Exit Model.Input Gen.GenC06
  Proofs.PipelineProof Proofs.PipelineEnd Proofs.InputWalk Proofs.InputProof Proofs.ExitProof Model.Skel Gen.GenSkel.
Import ListNotations.

(* clause "each path argument, each glob expansion and (with -R) each regular file below a directory
   argument is opened once per mention": the number of times GlobExpand sends path p is the sum over
   the arguments of how often each mentions p — an argument that is not a pattern or matches nothing:
   once, itself; a pattern: once per match; with -R a directory: once per chain of entry names that
   leads to a regular file and that Walk names p.  A path given twice is therefore sent twice. *)
Theorem C06_once_per_mention : forall fs glob r args p,
  count_occ bytes_dec (map fst (fst (expand fs glob r args))) p = list_sum (map (mentions fs glob r p) args).
Proof. exact once_per_mention. Qed.
Print Assumptions C06_once_per_mention.

(* the walk emits exactly the regular files below the directory (never a directory), in order, each
   under the path Walk computes; a chain is listed iff it leads to a regular file; when no directory
   lists a name twice no chain is listed twice *)
Theorem C06_walk_exact : forall t p,
  walk_tree p t = map (emitted p) (chains_tree t) /\
  Forall (fun x => exists c, snd x = TFile c) (walk_tree p t) /\
  (forall ch c, In (ch, c) (chains_tree t) <-> leads t ch c) /\
  (wf_tree t -> NoDup (map fst (chains_tree t))).
Proof.
  intros t p. split; [apply walk_spec|]. split; [apply walk_files_only|]. split; [apply chains_leads|apply chains_nodup].
Qed.
Print Assumptions C06_walk_exact.

(* with well-formed entry names (non-empty, no separator) below a -R directory argument every path
   is sent at most once, and exactly the paths of the regular files below it are sent *)
Theorem C06_once_below_dir : forall fs glob a es p, fs a = Found (TDir es) -> wf_tree (TDir es) -> good_forest es ->
  mentions fs glob true p a <= 1 /\
  (mentions fs glob true p a = 1 <-> exists ch c, leads (TDir es) ch c /\ path_of a ch = p).
Proof. exact once_below_dir. Qed.
Print Assumptions C06_once_below_dir.

(* the expansion in Go's control flow equals the declarative list of mentions, in argument order *)
Theorem C06_expand_spec : forall fs glob r args, fst (expand fs glob r args) = flat_map (mention_list fs glob r) args.
Proof. exact expand_spec. Qed.

(* clause "with -z ... non-gzip files are read from their first byte": whatever number k of bytes
   the gzip probe consumed, the reader delivers the whole content (the probed bytes are replayed; a TFile node is any
   non-directory entry, seekable or not); without that
   the first min(k, length) bytes would be lost *)
Theorem C06_plain_from_first_byte : forall gunzip c k, gunzip c = None ->
  open_input gunzip true k (Found (TFile c)) = Some (c, false, 1).
Proof. exact plain_from_first_byte. Qed.
Theorem C06_plain_without_z : forall gunzip c k, open_input gunzip false k (Found (TFile c)) = Some (c, false, 0).
Proof. exact plain_no_gunzip. Qed.
Theorem C06_noseek_loses : forall k c, open_input_noseek k c = skipn (Nat.min k (List.length c)) c.
Proof. exact noseek_loses. Qed.
(* the fallback by Seek(0) delivers everything only from a seekable descriptor; from a pipe (named
   pipe, /dev/stdin, process substitution) the probed bytes are lost — hence record-and-replay *)
Theorem C06_seek_fallback : forall seekable k c,
  open_input_seek seekable k c = if seekable then c else skipn (Nat.min k (List.length c)) c.
Proof. exact seek_fallback. Qed.
(* clause "with -z gzip content is delivered decompressed" (and a stream that ends in an error is marked) *)
Theorem C06_gzip_decoded : forall gunzip c k d e, gunzip c = Some (d, e) ->
  open_input gunzip true k (Found (TFile c)) = Some (d, e, 0).
Proof. exact gzip_decoded. Qed.
Print Assumptions C06_plain_from_first_byte.
Print Assumptions C06_gzip_decoded.

(* clause "an input that cannot be opened or fails while being read is counted as a read error ...
   without preventing the other inputs from being completely processed": for every classifier,
   every configuration with capacities >= 1 and EVERY schedule of the reader pool / worker pipeline,
   when no goroutine can move any more: the error counter equals the number of mentions that failed
   to open or whose stream ended in an error; the lines classified are, as a multiset, all lines
   delivered by all mentions that opened (up to the failure for those that failed later); the keys
   consumed are those of the sequential evaluation; the semaphore is free and every reader is done *)
Theorem C06_failures_isolated : forall gunzip probe K cl c z bsz pns nw s, cfg_ok c -> nw >= 1 ->
  reach K cl c (init K (map (Input.source_of gunzip probe z bsz) pns) nw) s -> (forall s', ~ step K cl c s s') ->
  errs K s = list_sum (map (spec_failed gunzip z) pns) /\
  Permutation (processed K s) (flat_map (spec_lines_of gunzip z) pns) /\
  Permutation (consumed K s) (seq_keys K cl (flat_map (spec_lines_of gunzip z) pns)) /\
  cM K s = list_sum (map (isM K cl) (flat_map (spec_lines_of gunzip z) pns)) /\
  sema K s = 0 /\ all_done_r (rd K s).
Proof. exact failures_isolated. Qed.
Print Assumptions C06_failures_isolated.

(* clause "failures are reported": every mention that fails to open or fails while being read writes
   at least one log line ("Error opening file" / "Error reading") *)
Theorem C06_failures_reported : forall gunzip probe z pn, spec_failed gunzip z pn <= source_logs gunzip probe z pn.
Proof. exact failed_le_logs. Qed.
Print Assumptions C06_failures_reported.

(* mechanism "semaphore ... released on every path": in every reachable state the semaphore holds
   exactly one token per reader that is between a successful open and its end of stream *)
Theorem C06_sema_balanced : forall K cl c srcs nw s, nw >= 1 -> reach K cl c (init K srcs nw) s ->
  sema K s = n_send (rd K s) /\ sema K s <= List.length srcs.
Proof. exact sema_balanced. Qed.
Print Assumptions C06_sema_balanced.

(* clause "exit status 2 [read errors]; otherwise 2 if the aggregator saw unparsable increments,
   1 if nothing matched, and 0 otherwise" — with the translator's constants *)
Theorem C06_exit_precedence : forall readErr parseErr matched,
  exit_code readErr parseErr matched =
  if 0 <? readErr then 2%Z else if 0 <? parseErr then 2%Z else if matched =? 0 then 1%Z else 0%Z.
Proof. exact exit_precedence. Qed.
Theorem C06_exit_2_iff : forall readErr parseErr matched,
  exit_code readErr parseErr matched = 2%Z <-> readErr > 0 \/ parseErr > 0.
Proof. exact exit_2_iff. Qed.
Print Assumptions C06_exit_precedence.

(* clause "exit status 2 / 2 / 1 / 0" for the aggregating commands with --csv / -o: asking for the csv
   export changes neither the exit status nor the log lines (q = command + 8 * csv kind, Model/Input.v) *)
Theorem C06_exit_independent_of_csv : forall fs glob gunzip probe flush i q1 q2,
  agg_cmd (2%N, q1) = agg_cmd (2%N, q2) ->
  co_exit (cli_model fs glob gunzip probe flush (with_mode i (2%N, q1))) =
  co_exit (cli_model fs glob gunzip probe flush (with_mode i (2%N, q2))) /\
  co_nlog (cli_model fs glob gunzip probe flush (with_mode i (2%N, q1))) =
  co_nlog (cli_model fs glob gunzip probe flush (with_mode i (2%N, q2))).
Proof. exact exit_independent_of_csv. Qed.
Print Assumptions C06_exit_independent_of_csv.

(* the exit status and the matches of the command are those of EVERY terminal state of the pipeline
   started on the sources the arguments denote (the correspondence evaluates this projection) *)
Theorem C06_cli_projection : forall fs glob gunzip probe flush i srcs lg c nw s,
  cli_sources fs glob gunzip probe flush i = Some (srcs, lg) -> cfg_ok c -> nw >= 1 ->
  reach lineid (classify (ci_mode i)) c (init lineid srcs nw) s ->
  (forall s', ~ step lineid (classify (ci_mode i)) c s s') ->
  Permutation (shown (ci_mode i) (consumed lineid s)) (shown (ci_mode i) (seq_keys lineid (classify (ci_mode i)) (input_of srcs))) /\
  exit_code (errs lineid s) (parse_errors (ci_mode i) (consumed lineid s)) (cM lineid s)
    = co_exit (cli_model fs glob gunzip probe flush i).
Proof. exact cli_projection. Qed.
Print Assumptions C06_cli_projection.

(* composition with the scanner (C04) and read chunking: for every read script and buffer size under
   which the reader hands over the whole opened stream and ends in an error exactly when the stream
   does, the source that C01_end_to_end is about is the source used above *)
Theorem C06_source_chunked : forall gunzip probe z bsz bufsize scr pn,
  script_reads_all gunzip probe z bufsize scr pn ->
  match open_input gunzip z (probe (fst pn)) (snd pn) with
  | Some _ => PipelineEnd.source_of (indesc_of gunzip probe z bsz bufsize scr pn) = Input.source_of gunzip probe z bsz pn
  | None => fst (fst (PipelineEnd.source_of (indesc_of gunzip probe z bsz bufsize scr pn))) = false /\
            fst (fst (Input.source_of gunzip probe z bsz pn)) = false
  end.
Proof. exact source_chunked. Qed.
Print Assumptions C06_source_chunked.
(* the hypothesis is satisfiable: a truncated gzip stream "a\nb" read in chunks of 2 bytes ending in an error *)
Example C06_script_example :
  script_reads_all (fun _ => Some ([97; 10; 98]%N, true)) (fun _ => 0) true 4 [(2, RNil); (2, RErr)] ([120]%N, Found (TFile [31; 139]%N)).
Proof. unfold script_reads_all. simpl. intros o H. vm_compute in H. inversion H; subst. split; reflexivity. Qed.

(* translator obligation for "an input that cannot be opened is counted as a read error and makes the
   exit status 2": the model's rule s_rfail counts the error and finishes the reader in ONE step, so the
   count is there when the batch channel closes and the command reads ReadErrors(). The source must not
   separate the two: in the regenerated skeleton of OpenFilesToChan the reader goroutine calls
   out.incErrors on the failure path itself (not in its deferred clean-up, which signals the wait group
   first), returns right after it, and reads nothing (the conditions of Model/Skel.v, see C01_skeleton) *)
Theorem C06_open_failure_counted_before_done : open_files_ok skel_open_files = true.
Proof. vm_compute. reflexivity. Qed.

(* translator obligation for "each ... is opened and read exactly once per mention" / "without preventing
   the other inputs from being completely processed" when there are more inputs than descriptors: in
   every function of pkg/extractor/batchers that calls openFileToReader the input is closed when it has
   been read - no `defer ….Close()` inside a loop of its own function (it would keep every input read so
   far open until the loop is over), and every such function does close (Model/InputSkel.v) *)
Theorem C06_inputs_closed_when_read : closes_per_input open_sites deferred_closes plain_closes = true.
Proof. vm_compute. reflexivity. Qed.

(* clause "`-` or no argument reads standard input under the name <stdin>": standard input is used
   iff there is no argument or the FIRST argument is "-"; then it is the only source (further
   arguments are not read), it opens, it fails while being read exactly when its stream does, and its lines are numbered from 1 under the translator's name *)
Theorem C06_stdin : forall fs glob gunzip probe flush i,
  (use_stdin (ci_args i) = true <-> ci_args i = [] \/ exists r, ci_args i = DASH :: r) /\
  (use_stdin (ci_args i) = true -> ci_gunzip i = false ->
     let src := stdin_source flush (ci_batch i) (ci_stdin i) (ci_stdin_err i) in
     cli_sources fs glob gunzip probe flush i = Some ([src], if ci_stdin_err i then 1 else 0) /\
     input_of [src] = numbered StdinName 1%N (lines_spec (ci_stdin i)) /\
     errors_of [src] = (if ci_stdin_err i then 1 else 0)).
Proof. intros. split; [apply use_stdin_spec|apply stdin_single]. Qed.
(* standard input that fails while being read is a read error like any other: whatever it delivered
   before, the exit status is 2 (and the lines delivered before the failure are still the model's lines) *)
Theorem C06_stdin_failure_exit : forall fs glob gunzip probe flush i,
  use_stdin (ci_args i) = true -> ci_gunzip i = false -> ci_stdin_err i = true ->
  co_exit (cli_model fs glob gunzip probe flush i) = 2%Z /\ 1 <= co_nlog (cli_model fs glob gunzip probe flush i).
Proof. exact stdin_failure_exit. Qed.
Print Assumptions C06_stdin_failure_exit.
Theorem C06_stdin_name : StdinName = of_str "<stdin>"%string.
Proof. reflexivity. Qed.
Print Assumptions C06_stdin.

(* the boolean form used on the implementation's outputs accepts everything the model produces *)
Theorem C06_check_sound : forall fs glob gunzip probe flush i,
  C06_check fs glob gunzip i (cli_model fs glob gunzip probe flush i) = true.
Proof. exact check_sound. Qed.
Print Assumptions C06_check_sound.

(* non-vacuity: one tree, `-R -z d nope d/x.gz`: the walk finds d/a and d/s/b (not the directory d/s),
   nope fails to open, the gzip file is decoded (twice: found by the walk and named); 5 lines, one read error, exit status 2 *)
Example C06_example :
  let gzc := [31; 139; 8]%N in
  let t := TDir (FCons (of_str "a"%string) (TFile (of_str "1
2"%string))
                (FCons (of_str "s"%string) (TDir (FCons (of_str "b"%string) (TFile (of_str "x
"%string)) FNil))
                (FCons (of_str "x.gz"%string) (TFile gzc) FNil))) in
  let fs := fun p => if bytes_eqb p (of_str "d"%string) then Found t else if bytes_eqb p (of_str "d/x.gz"%string) then Found (TFile gzc) else Missing in
  let glob := fun p => if bytes_eqb p (of_str "d/x.gz"%string) then Some [p] else Some [] in
  let gunzip := fun c => if bytes_eqb c gzc then Some (of_str "z
"%string, false) else None in
  let o := cli_model fs glob gunzip (fun _ => 4096) [] (mkin [of_str "d"%string; of_str "nope"%string; of_str "d/x.gz"%string] true true 1000 [] false (0, 0)%N) in
  map (fun l => fst (fst l)) (co_lines o) = [of_str "d/a"%string; of_str "d/a"%string; of_str "d/s/b"%string; of_str "d/x.gz"%string; of_str "d/x.gz"%string] /\
  co_exit o = 2%Z /\ co_nlog o = 4.
Proof. vm_compute. repeat split. Qed.
