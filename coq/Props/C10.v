(* C10 - placeholder while the proofs are being written *)
From RareV Require Import Model.Eff Model.Optimize Model.FuncFile Model.C10Check.
