(* C10 - Optimisation and user-defined functions never change an expression's value.
   Models: Model/Eff.v (stages as a free monad of context look-ups and the clock), Model/Optimize.v
   (compilation of the parse tree of Model/Tmpl.v with and without CompiledKeyBuilder.optimize, the
   helper constructors), Model/FuncFile.v (the functions-file reader, registration, substitution).
   [meq] is equality of stages as functions of (context, clock) - value and number of look-ups
   ([C10_meq_run]); [kg m]: m reads the clock only after a key look-up. *)
From Coq Require Import List NArith ZArith Bool String.
From RareV Require Import Base.Hex Base.Res Base.Num Gen.GenC11 Model.Tmpl Model.Funcs Model.Eff Model.Optimize Model.FuncFile
  Model.C10Check Model.MathEval Model.MathTok Model.MathParse
  Proofs.EffProof Proofs.OptimizeProof Proofs.OptimizeLive Proofs.FuncFileLoader Proofs.FuncFileInline
  Proofs.FuncFileEnv Proofs.MathEvalProof Proofs.MathRelProof Props.C19.
Import ListNotations.
Local Notation length := List.length.
Local Open Scope string_scope.

(* meq is observational: same value and same number of look-ups in every context at every clock reading *)
Theorem C10_meq_run : forall (m m' : stage), meq m m' -> forall c clk, run m c clk = run m' c clk.
Proof. exact (@run_meq bytes). Qed.
Print Assumptions C10_meq_run.

(* Clause "constant sub-expressions folded at compile time have their run-time value": a stage the
   probe (EvalStaticStage at compile clock c0) reports constant evaluates to that value, with no
   look-up, in every context at every later clock reading. *)
Theorem C10_static_constant : forall (m : stage) c0 v, kg m -> static c0 m = Some v ->
  forall ctx clk, run m ctx clk = (v, O).
Proof. exact (@static_constant bytes). Qed.
Print Assumptions C10_static_constant.

(* ... and the guard is necessary: a stage reading the clock without touching the context is frozen
   by the probe (why {time live} touches the context) *)
Theorem C10_static_unguarded_refuted :
  exists (m : stage) c0 v, static c0 m = Some v /\ exists c clk, fst (run m c clk) <> v.
Proof. exact static_unguarded_frozen. Qed.
Print Assumptions C10_static_unguarded_refuted.

(* every template compiled against a well-behaved function table satisfies the guard *)
Theorem C10_compiled_guarded : forall c0 E, env_good c0 E -> forall o t, kg (eval_tmpl o c0 E t).
Proof. exact eval_kg. Qed.
Print Assumptions C10_compiled_guarded.

(* Clause "evaluation with optimisation yields the same string as without", one stage list:
   CompiledKeyBuilder.optimize (fold constants, merge adjacent literals) preserves BuildKey. *)
Theorem C10_optimize_sound : forall c0 (stages : list stage), Forall kg stages ->
  forall ctx clk, run (mconcat (optimize c0 stages)) ctx clk = run (mconcat stages) ctx clk.
Proof. intros c0 l K. exact (run_meq _ _ (optimize_sound c0 l K)). Qed.
Print Assumptions C10_optimize_sound.

(* ... lifted to whole templates through every level of nested compilation (arguments are compiled by
   the same builder, constructors probe their arguments): for every template and every context *)
Theorem C10_optimize_sound_tmpl : forall c0 E, env_good c0 E -> forall t ctx clk,
  run (eval_tmpl true c0 E t) ctx clk = run (eval_tmpl false c0 E t) ctx clk.
Proof. intros c0 E G t. exact (run_meq _ _ (eval_opt_sound c0 E G t)). Qed.
Print Assumptions C10_optimize_sound_tmpl.

(* the modelled part of stdlib.StandardFunctions is a well-behaved table, and it stays well-behaved
   when a functions file is loaded; hence optimisation is sound with any functions file *)
Theorem C10_std_env_good : forall c0, env_good c0 std_env.
Proof. exact std_env_good. Qed.
Print Assumptions C10_std_env_good.
Theorem C10_loaded_sound : forall c0 text t,
  let '(E, _, _) := load_file c0 text in meq (eval_tmpl true c0 E t) (eval_tmpl false c0 E t).
Proof. exact loaded_opt_sound. Qed.
Print Assumptions C10_loaded_sound.

(* Clause "values defined to vary are not frozen": the probe sees a look-up in {time live} and
   {time delta} in both modes, also inside any sub-context; they follow the clock; {time now} is a
   compile-time constant in both modes. *)
Theorem C10_live_not_frozen : forall o c0,
  static c0 (eval_tmpl o c0 std_env (time_call "live")) = None
  /\ static c0 (eval_tmpl o c0 std_env (time_call "delta")) = None.
Proof. exact live_not_frozen. Qed.
Print Assumptions C10_live_not_frozen.
Theorem C10_live_not_frozen_in_subcontext : forall h c0,
  static c0 (subst_match h live_stage) = None /\ static c0 (subst_match h (delta_stage c0)) = None.
Proof. exact live_not_frozen_in_subcontext. Qed.
Print Assumptions C10_live_not_frozen_in_subcontext.
Theorem C10_live_follows_clock : forall o c0 c clk,
  fst (run (eval_tmpl o c0 std_env (time_call "live")) c clk) = itoa clk
  /\ fst (run (eval_tmpl o c0 std_env (time_call "delta")) c clk) = itoa (clk - c0).
Proof. exact live_follows_clock. Qed.
Print Assumptions C10_live_follows_clock.
Theorem C10_now_compile_time : forall o c0 c clk,
  run (eval_tmpl o c0 std_env (time_call "now")) c clk = (itoa c0, O).
Proof. exact now_is_compile_time. Qed.
Print Assumptions C10_now_compile_time.
(* the pinned touch GetMatch(-1) is answered locally inside a funcs-file function: frozen
   (known finding C10-live-frozen-in-subcontext; the model has the repaired touch GetKey("")) *)
Theorem C10_live_pinned_refuted :
  exists c0 args v, static c0 (with_args args live_pinned) = Some v
                    /\ exists c clk, fst (run (with_args args live_pinned) c clk) <> v.
Proof. exact live_pinned_frozen_in_function. Qed.
Print Assumptions C10_live_pinned_refuted.

(* Typed arguments (evalTypedStage): a constant operand that does not parse makes the constructor
   report an error when the expression is compiled; and pre-parsing the constant operands never changes
   the stage - it is the stage that parses every operand at run time, left to right, so the same text
   yields the same marker whether it is a constant or arrives from the context (repaired order:
   fixes/C10-int-operand-order.patch). *)
Theorem C10_typed_args : forall f c0 (l : list (M bytes)) i s,
  (2 <= length l)%nat -> (i < length l)%nat -> static c0 (nth i l (Ret [])) = Some s -> atoi s = None ->
  exists q, h_body (H (p_ifold f)) c0 (map (static c0) l) = Err q.
Proof. exact typed_args_compile_time. Qed.
Print Assumptions C10_typed_args.
Theorem C10_typed_args_insensitive : forall f c0 (l : list (M bytes)), Forall kg l ->
  meq (ctor_of c0 (H (p_ifold f)) l) (interp nomask l (p_ifold f (no_view l))).
Proof. exact typed_args_insensitive. Qed.
Print Assumptions C10_typed_args_insensitive.
Theorem C10_typed_args_run_time : forall f v i r acc (l : list stage) c clk s,
  vstat v i = None -> fst (run (nth i l (Ret [])) c clk) = s -> atoi s = None ->
  fst (run (interp nomask l (ifold_run f v (i :: r) acc)) c clk) = ErrorNum.
Proof. exact typed_args_run_time. Qed.
Print Assumptions C10_typed_args_run_time.

(* stdmath: compile-time simplification and constants-as-variables (proved for C19, re-exported) *)
(* statements: exactly those of Props/C19.v (meval (simplify e) = meval e; a constant and a variable bound
   to the same value give the same result) *)
Theorem C10_math_simplify : ltac:(let t := type of C19_simplify in exact t).
Proof. exact C19_simplify. Qed.
Theorem C10_const_var : ltac:(let t := type of C19_const_var in exact t).
Proof. exact C19_const_var. Qed.
Print Assumptions C10_math_simplify.
Print Assumptions C10_const_var.

(* Clause "a function loaded from a funcs file (with comments, blank lines and backslash-continued
   lines)": the reader returns exactly the definitions under every layout. *)
Theorem C10_loader_layout : forall L defs, layout_of L defs -> load_defs (render L) = (defs, O).
Proof. exact loader_layout. Qed.
Print Assumptions C10_loader_layout.
Example C10_layout_example :
  exists L, layout_of L [(of_str "double", of_str "{sumi {0} {0}}")]
            /\ render L = [of_str "# test func"; of_str "double {sumi \ # twice"; of_str ""; of_str "   {0} {0}}  "].
Proof. exact layout_example. Qed.
Print Assumptions C10_layout_example.

(* a user function's stage evaluates its body in the lazy sub-context of the call's arguments:
   {i} = the i-th argument evaluated in the caller's context, named keys the caller's *)
Theorem C10_call_lazy_context : forall (args : list stage) (body : stage) c clk,
  fst (run (ufun body args) c clk) = fst (run body (lazy_ctx args c clk) clk).
Proof. intros. exact (run_with_args_fst args body c clk). Qed.
Print Assumptions C10_call_lazy_context.

(* Clause "{name a b ..} equals the body with {0}, {1}, .. replaced by the call's arguments, named
   keys resolved in the caller's match and missing arguments empty": in both modes, for every body
   and every argument list, substitution not descending into binder arguments; earlier functions
   called from the body are covered because the table E is arbitrary (induction on the definition
   order is [C10_loaded_sound]'s install_good).  [iok_all]: what a helper's constructor learns about
   its arguments is unchanged by the substitution. *)
Theorem C10_call_inline : forall c0 E, env_good c0 E -> env_ntm c0 E ->
  forall args o f b B,
    lookup E f = Some (FUser b) -> meq b (eval_tmpl true c0 E B) -> iok_all c0 E args B ->
    meq (eval_tmpl o c0 E [PCall f args]) (eval_tmpl o c0 E (subst_tmpl E args B)).
Proof. exact call_inline. Qed.
Print Assumptions C10_call_inline.
Example C10_call_inline_example : forall o,
  meq (eval_tmpl o 1000 env2 [PCall (of_str "quad") ex_args])
      (eval_tmpl o 1000 env2 (subst_tmpl env2 ex_args b_quad)).
Proof. exact call_inline_example. Qed.
Print Assumptions C10_call_inline_example.
(* without that hypothesis the statement is false of the code (known finding C10-const-param-in-function) *)
Theorem C10_call_inline_unrestricted_refuted :
  exists c clk,
    fst (run (eval_tmpl true 1000 rx_env [PCall (of_str "r") rx_args]) c clk)
    <> fst (run (eval_tmpl true 1000 rx_env (subst_tmpl rx_env rx_args rx_body)) c clk).
Proof. exact call_inline_unrestricted_refuted. Qed.
Print Assumptions C10_call_inline_unrestricted_refuted.

(* the boolean form holds of the model's own prediction whenever the call/inline hypothesis does
   (rows: optimising = plain by C10_loaded_sound) *)
Theorem C10_check_opt_rows : forall c0 E, env_good c0 E -> forall t c clk,
  bytes_eqb (fst (run (eval_tmpl true c0 E t) c clk)) (fst (run (eval_tmpl false c0 E t) c clk)) = true.
Proof.
  intros c0 E G t c clk. rewrite (run_meq _ _ (eval_opt_sound c0 E G t)). apply bytes_eqb_eq. reflexivity.
Qed.
Print Assumptions C10_check_opt_rows.
