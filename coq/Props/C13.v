(* C13 — Output ordering is a deterministic function of the aggregated data.
   Property theorems only; proofs live in Proofs/Sort*.v. Model: Model/Sort.v
   (pkg/aggregation/sorting/*.go, cmd/helpers/sorting.go), of /repo after the repairs
   C13-bynamesmart, C13-contextual-ties, C13-stateful-comparators. ByDate still carries closure
   state (C13-stateful-date, recorded: see props/C13.json). *)
From Coq Require Import List Permutation Sorted Bool NArith ZArith String.
From RareV Require Import Base.Hex Gen.GenSortSets Model.Sort
  Proofs.SortGeneric Proofs.SortOrders Proofs.SortCtx Proofs.SortMerge Proofs.SortCheck.
Import ListNotations.

(* ---- determinism from the order axioms (for ANY correct sorting algorithm) ---- *)

(* A sorted arrangement of a key set is unique when the comparator is irreflexive and transitive
   (the design's statement). *)
Theorem sorted_perm_unique : forall (A : Type) (less : A -> A -> bool) (l l1 l2 : list A),
  strict_on less l -> Permutation l l1 -> Permutation l l2 ->
  StronglySorted (lt less) l1 -> StronglySorted (lt less) l2 -> l1 = l2.
Proof. intros A less. exact (SortGeneric.sorted_perm_unique less). Qed.
Print Assumptions sorted_perm_unique.

(* Clause "every permutation of the same data sorts to the same sequence": if the pairwise
   decisions on distinct keys are asymmetric, transitive and total, then whatever arrangement the
   keys arrive in (map iteration order) and whatever correct algorithm sorts them (its output is a
   sorted permutation), the result is the reference sort of the key set. *)
Theorem C13_sort_unique : forall (A : Type) (less : A -> A -> bool) (l out : list A),
  order_on less l -> NoDup l -> Permutation l out -> StronglySorted (lt less) out ->
  out = isort less l.
Proof. intros A less. exact (sort_unique less). Qed.
Print Assumptions C13_sort_unique.

Theorem C13_permutation_invariant : forall (A : Type) (less : A -> A -> bool) (l l' : list A),
  order_on less l -> NoDup l -> Permutation l l' -> isort less l' = isort less l.
Proof. intros A less. exact (isort_perm_invariant less). Qed.
Print Assumptions C13_permutation_invariant.

(* the reference sort is a sorted permutation (so the uniqueness statements are not vacuous) *)
Theorem C13_isort_sorted : forall (A : Type) (less : A -> A -> bool) (l : list A),
  order_on less l -> NoDup l ->
  Permutation l (isort less l) /\ StronglySorted (lt less) (isort less l).
Proof.
  intros A less l Ho Hnd. split; [apply isort_perm|].
  apply (isort_sorted less l Ho); [apply incl_refl|exact Hnd].
Qed.
Print Assumptions C13_isort_sorted.

(* Clause "reversing reverses the order": Reverse (negation of the comparer) of a total order on
   distinct keys sorts to the reversed sequence. *)
Theorem C13_reverse : forall (A : Type) (less : A -> A -> bool) (l : list A),
  order_on less l -> NoDup l -> isort (reverse less) l = rev (isort less l).
Proof. intros A less. exact (isort_reverse less). Qed.
Print Assumptions C13_reverse.

(* ---- text ---- *)
(* `text`: byte order of the names is irreflexive, asymmetric, transitive and total on distinct keys *)
Theorem C13_text_total : forall l : list key, NoDup (map kname l) -> strict_order_on by_name l.
Proof. exact by_name_strict. Qed.
Print Assumptions C13_text_total.

(* ---- value ---- *)
(* `value` (ValueSorterEx(ByName), value then name) is a strict total order on items with distinct
   names, and so is, on distinct items, its Reverse (what `--sort value` uses by default) *)
Theorem C13_value_total : forall l : list item, NoDup (map item_name l) ->
  strict_order_on value_asc l /\ order_on (reverse value_asc) l.
Proof.
  intros l H. split; [now apply value_asc_strict|].
  apply reverse_order_on. now apply value_asc_strict.
Qed.
Print Assumptions C13_value_total.

(* `value` puts larger totals first: pairwise, and in the sorted output *)
Theorem C13_value_larger_first : forall a b : item, (snd a > snd b)%Z ->
  reverse value_asc a b = true /\ reverse value_asc b a = false.
Proof. exact value_larger_first. Qed.
Theorem C13_value_sorted_desc : forall l : list item, NoDup (map item_name l) ->
  StronglySorted (fun a b : item => (snd a >= snd b)%Z) (isort (reverse value_asc) l).
Proof. exact value_sorted_desc. Qed.
(* the package-level NVValueSorter = Reverse(ValueSorterEx(Reverse(ByName))) likewise *)
Theorem C13_nv_value_larger_first : forall a b : item, (snd a > snd b)%Z ->
  nv_value_sorter a b = true /\ nv_value_sorter b a = false.
Proof. exact nv_value_larger_first. Qed.
Print Assumptions C13_value_sorted_desc.

(* ---- numeric (after repair #19a) ---- *)
Theorem C13_numeric_total : forall l : list key, NoDup (map kname l) -> strict_order_on by_name_smart l.
Proof. exact by_name_smart_strict. Qed.
Print Assumptions C13_numeric_total.
(* numbers by magnitude (values compared exactly) *)
Theorem C13_numeric_magnitude : forall a b x y, knum a = Some x -> knum b = Some y -> plt x y = true ->
  by_name_smart a b = true /\ by_name_smart b a = false.
Proof. exact smart_magnitude. Qed.
(* numbers before text (and before nan) *)
Theorem C13_numeric_numbers_first : forall a b x, knum a = Some x -> knum b = None ->
  by_name_smart a b = true /\ by_name_smart b a = false.
Proof. exact smart_numbers_first. Qed.
(* several spellings of one value (1, 1.0, 01, 1e0), and text among itself: byte order *)
Theorem C13_numeric_ties : forall a b x, knum a = Some x -> knum b = Some x -> by_name_smart a b = by_name a b.
Proof. exact smart_ties. Qed.
Theorem C13_numeric_text : forall a b, knum a = None -> knum b = None -> by_name_smart a b = by_name a b.
Proof. exact smart_text. Qed.
(* the comparator as pinned is not an order: 9 < 10 < 5x < 9, and 1 / 1.0 are tied (finding #19a) *)
Theorem C13_numeric_pinned_refuted :
  (exists a b c, by_name_smart_pinned a b = true /\ by_name_smart_pinned b c = true /\
                 by_name_smart_pinned c a = true) /\
  (exists a b, kname a <> kname b /\ by_name_smart_pinned a b = false /\ by_name_smart_pinned b a = false).
Proof.
  split.
  - exists k9, k10, k5x. exact smart_pinned_cycle.
  - exists k1, k1_0. split; [vm_compute; discriminate|exact smart_pinned_tie].
Qed.
Print Assumptions C13_numeric_pinned_refuted.

(* ---- contextual (after the repairs C13-contextual-ties and C13-stateful-comparators) ---- *)
(* `contextual` is a strict total order on distinct keys: irreflexive, asymmetric, transitive,
   total, on EVERY key set (weekdays, months, numbers, text and any mixture) *)
Theorem C13_contextual_total : forall l : list key, NoDup (map kname l) -> strict_order_on ctx_lt l.
Proof. exact ctx_lt_strict. Qed.
Print Assumptions C13_contextual_total.
(* the comparer built by ByContextual() is that function of the two keys: its answer never
   depends on what it was asked before *)
Theorem C13_contextual_stateless : forall st a b, by_contextual st a b = (ctx_lt a b, st).
Proof. exact by_contextual_pure. Qed.
Theorem C13_contextual_history_free : forall qs st,
  fst (srun by_contextual st qs) = map (fun q => ctx_lt (fst q) (snd q)) qs.
Proof. exact srun_contextual. Qed.
(* full strength, no key-set restriction: every arrangement of a set of distinct keys sorts to the
   same sequence (from any closure state) *)
Theorem C13_contextual_deterministic : forall (l : list key), NoDup (map kname l) ->
  forall arr st, Permutation l arr -> fst (sisort by_contextual st arr) = isort ctx_lt l.
Proof. exact sisort_contextual. Qed.
Print Assumptions C13_contextual_deterministic.

(* Clause "contextual orders weekday and month names by calendar position": for names and
   abbreviations of the generated tables in any letter case the order is the day of the week /
   the month of the year, the table position IS the index of the name it abbreviates, and several
   spellings of one day or month (mon, Monday) are ordered by the numeric/text fallback. *)
Theorem C13_contextual_calendar_weekdays : forall a b pa pb,
  lookup set_weekdays (lower (kname a)) = Some pa ->
  lookup set_weekdays (lower (kname b)) = Some pb ->
  ctx_lt a b = (if (pa =? pb)%Z then by_name_smart a b else (pa <? pb)%Z) /\
  (0 <= pa < 7)%Z /\ is_prefix (lower (kname a)) (nth (Z.to_nat pa) weekday_names []) = true.
Proof. exact contextual_weekdays. Qed.
Theorem C13_contextual_calendar_months : forall a b pa pb,
  lookup set_months (lower (kname a)) = Some pa ->
  lookup set_months (lower (kname b)) = Some pb ->
  ctx_lt a b = (if (pa =? pb)%Z then by_name_smart a b else (pa <? pb)%Z) /\
  (0 <= pa < 12)%Z /\ is_prefix (lower (kname a)) (nth (Z.to_nat pa) month_names []) = true.
Proof. exact contextual_months. Qed.
Print Assumptions C13_contextual_calendar_months.
(* mixtures: keys outside every set first (in the numeric order), then weekdays, then months *)
Theorem C13_contextual_classes : forall a b,
  (fst (ctx_rank a) < fst (ctx_rank b))%Z -> ctx_lt a b = true /\ ctx_lt b a = false.
Proof. exact contextual_classes. Qed.
Theorem C13_contextual_class_of : forall a,
  (forall pa, lookup set_weekdays (lower (kname a)) = Some pa -> ctx_rank a = (0%Z, pa)) /\
  (forall pa, lookup set_months (lower (kname a)) = Some pa -> ctx_rank a = (1%Z, pa)) /\
  (lookup set_weekdays (lower (kname a)) = None -> lookup set_months (lower (kname a)) = None ->
   ctx_rank a = ((-1)%Z, 0%Z)).
Proof. intros a. split; [|split]; [apply rank_weekday|apply rank_month|apply rank_other]. Qed.
Theorem C13_contextual_others : forall a b,
  ctx_rank a = ((-1)%Z, 0%Z) -> ctx_rank b = ((-1)%Z, 0%Z) -> ctx_lt a b = by_name_smart a b.
Proof. exact contextual_others. Qed.
(* translator obligations: the generated tables are the calendar (every entry abbreviates, with at
   least 3 letters, the name at its position; every full name is present), lower-case, disjoint,
   and looked up weekdays first *)
Theorem C13_contextual_calendar :
  calendar_table_ok weekday_names set_weekdays = true /\
  calendar_table_ok month_names set_months = true /\
  sortSets = [set_weekdays; set_months] /\
  forallb (fun e : bytes * Z => bytes_eqb (lower (fst e)) (fst e)) (set_weekdays ++ set_months) = true /\
  forallb (fun e : bytes * Z => match lookup set_weekdays (fst e) with None => true | Some _ => false end)
          set_months = true.
Proof.
  split; [exact weekdays_table_ok|]. split; [exact months_table_ok|]. split; [exact sortSets_order|].
  split; [exact tables_lowercase|exact tables_disjoint].
Qed.
Print Assumptions C13_contextual_calendar.

(* independent of the generated positions: for a member of the weekday (month) set, the index in
   the hand-written calendar of the name it abbreviates with >= 3 letters IS its table position
   (this is what the boolean form checks on the implementation's sorted output) *)
Theorem C13_contextual_calendar_independent : forall k s i, cal_of k = Some (s, i) ->
  s = fst (ctx_rank k) /\ i = Z.to_nat (snd (ctx_rank k)) /\ (0 <= snd (ctx_rank k))%Z.
Proof. exact cal_of_spec. Qed.
Print Assumptions C13_contextual_calendar_independent.

(* ByContextualEx AS PINNED (before the repairs) did not satisfy the statement: b, wed, thu sorted
   differently from different arrangements, the same question got different answers depending on
   the history, and mon / Monday were tied. Kept as the justification of the two fix commits. *)
Theorem C13_contextual_pinned_refuted :
  (exists l l', NoDup (map kname l) /\ Permutation l l' /\
     fst (sisort by_contextual_pinned cs0 l) <> fst (sisort by_contextual_pinned cs0 l')) /\
  (exists a b hist,
     fst (by_contextual_pinned cs0 a b) <>
     fst (by_contextual_pinned (snd (srun by_contextual_pinned cs0 hist)) a b)) /\
  (exists a b, kname a <> kname b /\
     fst (by_contextual_pinned cs0 a b) = false /\ fst (by_contextual_pinned cs0 b a) = false).
Proof.
  split; [exact contextual_pinned_refuted|]. split; [exact contextual_pinned_history_dependent|].
  exists kmon, kMonday. split; [vm_compute; discriminate|exact contextual_pinned_tie].
Qed.
Print Assumptions C13_contextual_pinned_refuted.

(* ---- date ---- *)
(* ByDate keeps closure state (layout, sticky fallback): the full statement is refuted on the
   current tree: n/a, 01/02/2022, 12/31/2021 sort differently from different arrangements
   (finding C13-stateful-date, recorded) *)
Theorem C13_date_refuted :
  exists l l', NoDup (map kname l) /\ Permutation l l' /\
    fst (sisort by_date_with_contextual ds0 l) <> fst (sisort by_date_with_contextual ds0 l').
Proof. exact date_refuted. Qed.
Print Assumptions C13_date_refuted.

(* Partial: all keys have one layout and parse in it (equal instants allowed since the repair
   C13-contextual-ties) -> chronological, ties by the contextual order; no key has a layout -> the
   contextual order. On such key sets the closure follows one strict total order from its initial
   state on, whatever it is asked in whatever sequence. *)
Theorem C13_date_partial : forall (l : list key) f,
  date_pure l = Some f -> NoDup (map kname l) ->
  strict_order_on f l /\
  (forall arr, Permutation l arr -> fst (sisort by_date_with_contextual ds0 arr) = isort f l) /\
  (forall qs, (forall q, In q qs -> In (fst q) l /\ In (snd q) l) ->
     fst (srun by_date_with_contextual ds0 qs) = map (fun q => f (fst q) (snd q)) qs).
Proof.
  intros l f H Hnd. destruct (date_pure_sound l f H Hnd) as [Hs [P [Hp0 Hp]]].
  split; [exact Hs|]. split.
  - intros arr Hperm.
    destruct (sisort_pure by_date_with_contextual P f l Hp arr ds0 Hp0) as [E _].
    { intros x Hx. eapply Permutation_in; [apply Permutation_sym; exact Hperm|exact Hx]. }
    rewrite E. apply isort_perm_invariant; auto; [apply Hs|]. now apply NoDup_map_inv in Hnd.
  - intros qs Hq. exact (proj1 (srun_pure by_date_with_contextual P f l Hp qs ds0 Hp0 Hq)).
Qed.
Print Assumptions C13_date_partial.
(* the two domains, and chronological: the pure order on a one-layout key set compares the parsed
   instants and falls back to the contextual order only between equal instants *)
Theorem C13_date_chronological : forall (k : key) (l : list key) i,
  kfmt k = FmtOk (Some i) -> date_dom_layout i (k :: l) = true ->
  date_pure (k :: l) = Some (date_lt i) /\
  (forall a b ta tb, kdate i a = Some ta -> kdate i b = Some tb ->
     date_lt i a b = if (ta =? tb)%Z then ctx_lt a b else (ta <? tb)%Z).
Proof.
  intros k l i Hf Hd. unfold date_pure. rewrite Hf, Hd. split; [reflexivity|].
  intros a b ta tb. apply date_lt_instants.
Qed.
Theorem C13_date_no_layout : forall (k : key) (l : list key),
  kfmt k = FmtErr -> date_dom_none (k :: l) = true -> date_pure (k :: l) = Some ctx_lt.
Proof. intros k l Hf Hd. unfold date_pure. now rewrite Hf, Hd. Qed.
(* the chronological order with its tie-break is a strict total order on any key set *)
Theorem C13_date_order_total : forall i (l : list key), NoDup (map kname l) -> strict_order_on (date_lt i) l.
Proof. exact date_lt_strict. Qed.

(* ---- all modes through BuildSorter ---- *)
(* For every sort mode and modifier: on a key set with distinct names inside the mode's state-free
   domain (always, for text / numeric / contextual / value), the sorter built by BuildSorter sorts every
   arrangement of the items to the same sequence, the reference sort by one total order. *)
Theorem C13_mode_deterministic : forall m rv (its : list item) f,
  mode_pure m its = Some f -> NoDup (map item_name its) ->
  order_on (with_rev rv f) its /\
  forall arr, Permutation its arr ->
    fst (sisort (build_cmp (m, rv)) s_init arr) = isort (with_rev rv f) its.
Proof.
  intros m rv its f H Hnd. split.
  - exact (proj1 (build_cmp_pure m rv its f H Hnd)).
  - exact (mode_sort_deterministic m rv its f H Hnd).
Qed.
Print Assumptions C13_mode_deterministic.
Theorem C13_mode_always_pure : forall its,
  mode_pure MText its = Some (on_name by_name) /\
  mode_pure MNumeric its = Some (on_name by_name_smart) /\
  mode_pure MContextual its = Some (on_name ctx_lt) /\
  mode_pure MValue its = Some value_asc.
Proof. intros its. repeat split. Qed.

(* ---- sort-name parsing (cmd/helpers/sorting.go) ---- *)
(* truth table: name (any letter case) -> sorter; `value` alone is descending, everything else
   ascending; :asc / :desc set the direction, :rev / :reverse flip the default; anything after a
   second ':' is ignored; unknown names and modifiers are errors *)
Theorem C13_parse_sort_plain : forall n m, ~ In COLON n -> lookup_mode (lower n) = Some m ->
  parse_sort n = Some (m, mode_eqb m MValue).
Proof. exact parse_sort_plain. Qed.
Theorem C13_parse_sort_modifier : forall n md rest m,
  ~ In COLON n -> ~ In COLON md -> (rest = [] \/ exists r, rest = COLON :: r) ->
  lookup_mode (lower n) = Some m ->
  parse_sort (n ++ COLON :: md ++ rest) =
  option_map (fun rv => (m, rv)) (apply_modifier (mode_eqb m MValue) (lower md)).
Proof. exact parse_sort_modifier. Qed.
Theorem C13_parse_sort_unknown : forall n rest, ~ In COLON n -> lookup_mode (lower n) = None ->
  parse_sort n = None /\ parse_sort (n ++ COLON :: rest) = None.
Proof. exact parse_sort_unknown. Qed.
Local Open Scope string_scope.
Theorem C13_parse_sort_names : forall lname m,
  lookup_mode lname = Some m <->
  In (lname, m) [(of_str "text", MText); ([], MText); (of_str "numeric", MNumeric);
                 (of_str "contextual", MContextual); (of_str "context", MContextual);
                 (of_str "date", MDate); (of_str "value", MValue)].
Proof. exact lookup_mode_table. Qed.
Theorem C13_parse_sort_modifiers : forall d,
  apply_modifier d (of_str "asc") = Some false /\
  apply_modifier d (of_str "desc") = Some true /\
  apply_modifier d (of_str "rev") = Some (negb d) /\
  apply_modifier d (of_str "reverse") = Some (negb d) /\
  (forall s, ~ In s [of_str "asc"; of_str "desc"; of_str "rev"; of_str "reverse"] ->
             apply_modifier d s = None).
Proof. exact apply_modifier_table. Qed.
Print Assumptions C13_parse_sort_modifier.
Example C13_parse_sort_examples :
  parse_sort (of_str "value") = Some (MValue, true) /\
  parse_sort (of_str "Value:ASC") = Some (MValue, false) /\
  parse_sort (of_str "value:rev") = Some (MValue, false) /\
  parse_sort (of_str "TEXT:Reverse") = Some (MText, true) /\
  parse_sort (of_str "numeric") = Some (MNumeric, false) /\
  parse_sort (of_str ":desc") = Some (MText, true) /\
  parse_sort (of_str "date:asc:whatever") = Some (MDate, false) /\
  parse_sort (of_str "context:desc") = Some (MContextual, true) /\
  parse_sort (of_str "text:descending") = None /\
  parse_sort (of_str "bogus") = None.
Proof. vm_compute. repeat split. Qed.

(* ---- the boolean form used on the implementation's outputs ---- *)
(* it accepts everything the model produces on a case inside the state-free domains with distinct
   key names and genuine arrangements *)
Theorem C13_check_sound : forall c, case_wf c = true -> in_domain c = true -> C13_check c (model c) = true.
Proof. exact C13_check_sound_proof. Qed.
Print Assumptions C13_check_sound.

(* ---- large key sets, row limits ---- *)
(* the O(n log n) sort the model uses for thousands of keys IS the reference sort *)
Theorem C13_msort_is_reference_sort : forall (A : Type) (less : A -> A -> bool) (l : list A),
  order_on less l -> NoDup l -> msort less l = isort less l.
Proof. intros A less. exact (msort_isort less). Qed.
Print Assumptions C13_msort_is_reference_sort.
(* the rows an accessor with a limit shows (ItemsSortedBy(limit, ..)) are the first [limit] rows of
   THE sorted arrangement of the items - the one every arrangement sorts to (C13_mode_deterministic) *)
Theorem C13_top_rows : forall m rv (its : list item) f limit arr,
  mode_pure m its = Some f -> NoDup (map item_name its) -> Permutation its arr ->
  firstn limit (msort (with_rev rv f) its) =
  firstn limit (fst (sisort (build_cmp (m, rv)) s_init arr)).
Proof.
  intros m rv its f limit arr H Hnd Hp.
  rewrite (mode_sort_deterministic m rv its f H Hnd arr Hp).
  rewrite (msort_isort (with_rev rv f) its); [reflexivity| |now apply items_NoDup].
  exact (proj1 (build_cmp_pure m rv its f H Hnd)).
Qed.
Print Assumptions C13_top_rows.

(* ---- collectors over histories (counter, subkey counter, table rows / columns, reduce groups) ---- *)
(* The sorted view is a function of the FINAL aggregated data: two histories with the same totals
   per key give the same sequence; in particular the order in which samples arrived and the reads
   (rendered frames) in between do not matter. The correspondence compares the implementation's
   final read after an interleaved history with this. *)
Theorem C13_collect_final_data : forall md bk keys h1 h2, (forall i, total h1 i = total h2 i) ->
  model (ICollect md bk keys h1) = model (ICollect md bk keys h2).
Proof. exact collect_final_data. Qed.
Theorem C13_collect_arrival_order : forall md bk keys h1 h2, Permutation h1 h2 ->
  model (ICollect md bk keys h1) = model (ICollect md bk keys h2).
Proof. intros. apply collect_final_data. now apply total_perm. Qed.
Theorem C13_collect_reads_irrelevant : forall md bk keys h,
  model (ICollect md bk keys (drop_reads h)) = model (ICollect md bk keys h).
Proof. intros. apply collect_final_data. intros i. apply total_drop_reads. Qed.
Print Assumptions C13_collect_arrival_order.

(* ---- rare reduce with several group columns ---- *)
(* what HEAD's AccumulatingGroup.Groups orders by: without a --sort expression the column values
   joined by the array separator, compared as ONE text by the (possibly reversed) NameSorter - not
   column by column; with --sort {sum} the decimal total; with --sort "{1} {0}" second column, space,
   first column.  Being an instance of the sort of distinct texts, the order is the same from every
   arrival order and read history, and the reversed sorter gives the reversed sequence
   (C13_mode_deterministic, C13_reverse, C13_check_sound through [norm]). *)
Theorem C13_groups_ordering_text : forall parts k h i,
  group_item 0 h (i, (parts, k)) = (rekey k (join0 parts), 0%Z) /\
  group_item 1 h (i, (parts, k)) = (numkey (total h i), 0%Z) /\
  group_item 2 h (i, (parts, k)) = (rekey k (nth 1 parts [] ++ 32%N :: nth 0 parts [])%list, 0%Z).
Proof. intros. repeat split. Qed.
Example C13_groups_example :
  let kk := mkkey [] None FmtErr [] in
  let gs := map (fun p : string * string => ([of_str (fst p); of_str (snd p)], kk))
                [("web", "200"); ("web", "404"); ("web", "500"); ("db", "200"); ("db", "500")]%string in
  let hs := [[ESample 0 1; ERead; ESample 1 2; ESample 2 3; ESample 3 4; ESample 4 5];
             [ESample 4 5; ESample 3 4; ESample 2 3; ERead; ESample 1 2; ESample 0 1]] in
  model (IGroups (of_str "contextual") 0 gs hs) = OSort [[3; 4; 0; 1; 2]; [3; 4; 0; 1; 2]]%nat /\
  model (IGroups (of_str "contextual:desc") 0 gs hs) = OSort [[2; 1; 0; 4; 3]; [2; 1; 0; 4; 3]]%nat.
Proof. vm_compute. split; reflexivity. Qed.

(* ---- tables with Trim (spark, heatmap, table) ---- *)
(* The sorted rows / columns of a TableAggregator, and which of them are left, are a function of
   the FINAL cells alone: two histories of samples, reads and trims (keep the last n columns in the
   column sorter's order, value predicates, column sets) that end with the same cells give the same
   answer - no cached sum, total or earlier frame can matter. *)
Theorem C13_table_final_cells : forall md mdc br rk ck h1 h2,
  (forall c r, cget (final_cells mdc ck (List.length ck) (List.length rk) h1) c r =
               cget (final_cells mdc ck (List.length ck) (List.length rk) h2) c r) ->
  model (ITable md mdc br rk ck h1) = model (ITable md mdc br rk ck h2).
Proof. exact table_final_cells. Qed.
Print Assumptions C13_table_final_cells.
(* the documented example: a row whose remaining cells sum to 10 comes before one summing to 3 in
   `value` order after the column holding the 20 has been trimmed away *)
Example C13_table_example :
  let k (s : string) := mkkey (of_str s) None FmtErr [] in
  model (ITable (of_str "value") (of_str "text") true [k "a"; k "b"; k "c"] [k "x"; k "y"]
           [TSample 0 0 20; TSample 1 0 3; TSample 1 1 10; TSample 1 2 5; TRead; TTrimCols [0%nat]; TRead])
  = OTable [0; 1; 2]%nat [1; 2; 0]%nat.
Proof. vm_compute. reflexivity. Qed.

(* non-vacuity: a mixed-case weekday set with a tie, a non-member and a month sorts as stated *)
Definition kx (s : string) := mkkey (of_str s) None FmtErr [].
Example C13_example_weekdays :
  map kname (fst (sisort by_contextual tt [kx "Wed"; kx "tues"; kx "MON"; kx "thurs"; kx "Sunday"; kx "mon"; kx "abc"; kx "May"]))
  = map of_str ["abc"; "Sunday"; "MON"; "mon"; "tues"; "Wed"; "thurs"; "May"].
Proof. vm_compute. reflexivity. Qed.
Example C13_example_numeric :
  let n (s : string) m e := mkkey (of_str s) (Some (FFin m e)) FmtErr [] in
  map kname (isort by_name_smart [kx "5x"; n "10" 5%Z 1%Z; n "9" 9%Z 0%Z; n "1.0" 1%Z 0%Z; kx "abc"; n "1" 1%Z 0%Z; n "0.5" 1%Z (-1)%Z])
  = map of_str ["0.5"; "1"; "1.0"; "9"; "10"; "5x"; "abc"].
Proof. vm_compute. reflexivity. Qed.
