(* C13 — Output ordering is a deterministic function of the aggregated data.
   Property theorems only; proofs live in Proofs/Sort*.v. Model: Model/Sort.v
   (pkg/aggregation/sorting/*.go, cmd/helpers/sorting.go). ByNameSmart is modelled after the repair
   fixes/C13-bynamesmart.patch (#19a); ByContextualEx/ByDate as they are (#19b, recorded). *)
From Coq Require Import List Permutation Sorted Bool NArith ZArith String.
From RareV Require Import Base.Hex Gen.GenSortSets Model.Sort
  Proofs.SortGeneric Proofs.SortOrders Proofs.SortCtx Proofs.SortCheck.
Import ListNotations.

(* ---- determinism from the order axioms (for ANY correct sorting algorithm) ---- *)

(* A sorted arrangement of a key set is unique when the comparator is irreflexive and transitive
   (the design's statement). *)
Theorem sorted_perm_unique : forall (A : Type) (less : A -> A -> bool) (l l1 l2 : list A),
  strict_on less l -> Permutation l l1 -> Permutation l l2 ->
  StronglySorted (lt less) l1 -> StronglySorted (lt less) l2 -> l1 = l2.
Proof. intros A less. exact (SortGeneric.sorted_perm_unique less). Qed.
Print Assumptions sorted_perm_unique.

(* Clause "every permutation of the same data sorts to the same sequence": if the pairwise
   decisions on distinct keys are asymmetric, transitive and total, then whatever arrangement the
   keys arrive in (map iteration order) and whatever correct algorithm sorts them (its output is a
   sorted permutation), the result is the reference sort of the key set. *)
Theorem C13_sort_unique : forall (A : Type) (less : A -> A -> bool) (l out : list A),
  order_on less l -> NoDup l -> Permutation l out -> StronglySorted (lt less) out ->
  out = isort less l.
Proof. intros A less. exact (sort_unique less). Qed.
Print Assumptions C13_sort_unique.

Theorem C13_permutation_invariant : forall (A : Type) (less : A -> A -> bool) (l l' : list A),
  order_on less l -> NoDup l -> Permutation l l' -> isort less l' = isort less l.
Proof. intros A less. exact (isort_perm_invariant less). Qed.
Print Assumptions C13_permutation_invariant.

(* the reference sort is a sorted permutation (so the uniqueness statements are not vacuous) *)
Theorem C13_isort_sorted : forall (A : Type) (less : A -> A -> bool) (l : list A),
  order_on less l -> NoDup l ->
  Permutation l (isort less l) /\ StronglySorted (lt less) (isort less l).
Proof.
  intros A less l Ho Hnd. split; [apply isort_perm|].
  apply (isort_sorted less l Ho); [apply incl_refl|exact Hnd].
Qed.
Print Assumptions C13_isort_sorted.

(* Clause "reversing reverses the order": Reverse (negation of the comparer) of a total order on
   distinct keys sorts to the reversed sequence. *)
Theorem C13_reverse : forall (A : Type) (less : A -> A -> bool) (l : list A),
  order_on less l -> NoDup l -> isort (reverse less) l = rev (isort less l).
Proof. intros A less. exact (isort_reverse less). Qed.
Print Assumptions C13_reverse.

(* ---- text ---- *)
(* `text`: byte order of the names is irreflexive, asymmetric, transitive and total on distinct keys *)
Theorem C13_text_total : forall l : list key, NoDup (map kname l) -> strict_order_on by_name l.
Proof. exact by_name_strict. Qed.
Print Assumptions C13_text_total.

(* ---- value ---- *)
(* `value` (ValueSorterEx(ByName), value then name) is a strict total order on items with distinct
   names, and so is, on distinct items, its Reverse (what `--sort value` uses by default) *)
Theorem C13_value_total : forall l : list item, NoDup (map item_name l) ->
  strict_order_on value_asc l /\ order_on (reverse value_asc) l.
Proof.
  intros l H. split; [now apply value_asc_strict|].
  apply reverse_order_on. now apply value_asc_strict.
Qed.
Print Assumptions C13_value_total.

(* `value` puts larger totals first: pairwise, and in the sorted output *)
Theorem C13_value_larger_first : forall a b : item, (snd a > snd b)%Z ->
  reverse value_asc a b = true /\ reverse value_asc b a = false.
Proof. exact value_larger_first. Qed.
Theorem C13_value_sorted_desc : forall l : list item, NoDup (map item_name l) ->
  StronglySorted (fun a b : item => (snd a >= snd b)%Z) (isort (reverse value_asc) l).
Proof. exact value_sorted_desc. Qed.
(* the package-level NVValueSorter = Reverse(ValueSorterEx(Reverse(ByName))) likewise *)
Theorem C13_nv_value_larger_first : forall a b : item, (snd a > snd b)%Z ->
  nv_value_sorter a b = true /\ nv_value_sorter b a = false.
Proof. exact nv_value_larger_first. Qed.
Print Assumptions C13_value_sorted_desc.

(* ---- numeric (after repair #19a) ---- *)
Theorem C13_numeric_total : forall l : list key, NoDup (map kname l) -> strict_order_on by_name_smart l.
Proof. exact by_name_smart_strict. Qed.
Print Assumptions C13_numeric_total.
(* numbers by magnitude (values compared exactly) *)
Theorem C13_numeric_magnitude : forall a b x y, knum a = Some x -> knum b = Some y -> plt x y = true ->
  by_name_smart a b = true /\ by_name_smart b a = false.
Proof. exact smart_magnitude. Qed.
(* numbers before text (and before nan) *)
Theorem C13_numeric_numbers_first : forall a b x, knum a = Some x -> knum b = None ->
  by_name_smart a b = true /\ by_name_smart b a = false.
Proof. exact smart_numbers_first. Qed.
(* several spellings of one value (1, 1.0, 01, 1e0), and text among itself: byte order *)
Theorem C13_numeric_ties : forall a b x, knum a = Some x -> knum b = Some x -> by_name_smart a b = by_name a b.
Proof. exact smart_ties. Qed.
Theorem C13_numeric_text : forall a b, knum a = None -> knum b = None -> by_name_smart a b = by_name a b.
Proof. exact smart_text. Qed.
(* the comparator as pinned is not an order: 9 < 10 < 5x < 9, and 1 / 1.0 are tied (finding #19a) *)
Theorem C13_numeric_pinned_refuted :
  (exists a b c, by_name_smart_pinned a b = true /\ by_name_smart_pinned b c = true /\
                 by_name_smart_pinned c a = true) /\
  (exists a b, kname a <> kname b /\ by_name_smart_pinned a b = false /\ by_name_smart_pinned b a = false).
Proof.
  split.
  - exists k9, k10, k5x. exact smart_pinned_cycle.
  - exists k1, k1_0. split; [vm_compute; discriminate|exact smart_pinned_tie].
Qed.
Print Assumptions C13_numeric_pinned_refuted.

(* ---- contextual ---- *)
(* Clause "contextual orders weekday and month names by calendar position": for names and
   abbreviations of the generated tables in any letter case, a fresh sorter compares the day of
   the week / the month of the year, and the table position IS the index of the name it abbreviates. *)
Theorem C13_contextual_calendar_weekdays : forall a b pa pb,
  lookup set_weekdays (lower (kname a)) = Some pa ->
  lookup set_weekdays (lower (kname b)) = Some pb ->
  fst (by_contextual cs0 a b) = (pa <? pb)%Z /\
  (0 <= pa < 7)%Z /\ is_prefix (lower (kname a)) (nth (Z.to_nat pa) weekday_names []) = true.
Proof. exact contextual_weekdays. Qed.
Theorem C13_contextual_calendar_months : forall a b pa pb,
  lookup set_months (lower (kname a)) = Some pa ->
  lookup set_months (lower (kname b)) = Some pb ->
  fst (by_contextual cs0 a b) = (pa <? pb)%Z /\
  (0 <= pa < 12)%Z /\ is_prefix (lower (kname a)) (nth (Z.to_nat pa) month_names []) = true.
Proof. exact contextual_months. Qed.
Print Assumptions C13_contextual_calendar_months.
(* translator obligations: the generated tables are the calendar (every entry abbreviates, with at
   least 3 letters, the name at its position; every full name is present), lower-case, disjoint,
   and looked up weekdays first *)
Theorem C13_contextual_calendar :
  calendar_table_ok weekday_names set_weekdays = true /\
  calendar_table_ok month_names set_months = true /\
  sortSets = [set_weekdays; set_months] /\
  forallb (fun e : bytes * Z => bytes_eqb (lower (fst e)) (fst e)) (set_weekdays ++ set_months) = true /\
  forallb (fun e : bytes * Z => match lookup set_weekdays (fst e) with None => true | Some _ => false end)
          set_months = true.
Proof.
  split; [exact weekdays_table_ok|]. split; [exact months_table_ok|]. split; [exact sortSets_order|].
  split; [exact tables_lowercase|exact tables_disjoint].
Qed.
Print Assumptions C13_contextual_calendar.

(* The full statement (every arrangement sorts to one sequence) is FALSE of ByContextual as pinned:
   b, wed, thu (finding #19b, recorded). The same question gets different answers depending on
   what the closure was asked before. *)
Theorem C13_contextual_refuted :
  (exists l l', NoDup (map kname l) /\ Permutation l l' /\
     fst (sisort by_contextual cs0 l) <> fst (sisort by_contextual cs0 l')) /\
  (exists a b hist,
     fst (by_contextual cs0 a b) <> fst (by_contextual (snd (srun by_contextual cs0 hist)) a b)).
Proof. split; [exact contextual_refuted|exact contextual_history_dependent]. Qed.
Print Assumptions C13_contextual_refuted.
(* distinct spellings of one position are tied (recorded as C13-contextual-ties) *)
Theorem C13_contextual_ties_refuted : exists a b, kname a <> kname b /\
  fst (by_contextual cs0 a b) = false /\ fst (by_contextual cs0 b a) = false.
Proof. exists kmon, kMonday. split; [vm_compute; discriminate|exact contextual_tie]. Qed.

(* Partial: on a key set inside one sort set with pairwise distinct positions, or without any
   member of a sort set, the closure follows one strict total order (calendar position, resp. the
   numeric order) from its initial state on, whatever it is asked in whatever sequence. *)
Theorem C13_contextual_partial : forall (l : list key) f,
  ctx_pure l = Some f -> NoDup (map kname l) ->
  strict_order_on f l /\
  (forall arr, Permutation l arr -> fst (sisort by_contextual cs0 arr) = isort f l) /\
  (forall qs, (forall q, In q qs -> In (fst q) l /\ In (snd q) l) ->
     fst (srun by_contextual cs0 qs) = map (fun q => f (fst q) (snd q)) qs).
Proof.
  intros l f H Hnd. destruct (ctx_pure_sound l f H Hnd) as [Hs [P [Hp0 Hp]]].
  split; [exact Hs|]. split.
  - intros arr Hperm.
    destruct (sisort_pure by_contextual P f l Hp arr cs0 Hp0) as [E _].
    { intros x Hx. eapply Permutation_in; [apply Permutation_sym; exact Hperm|exact Hx]. }
    rewrite E. apply isort_perm_invariant; auto; [apply Hs|]. now apply NoDup_map_inv in Hnd.
  - intros qs Hq. exact (proj1 (srun_pure by_contextual P f l Hp qs cs0 Hp0 Hq)).
Qed.
Print Assumptions C13_contextual_partial.
(* what ctx_pure is on the two domains *)
Theorem C13_contextual_partial_domains : forall (k : key) (l : list key) i,
  (infer (kname k) = Some i -> ctx_dom_set i (k :: l) = true -> ctx_pure (k :: l) = Some (pos_lt i)) /\
  (infer (kname k) = None -> ctx_dom_none (k :: l) = true -> ctx_pure (k :: l) = Some by_name_smart).
Proof. intros k l i. unfold ctx_pure. split; intros -> ->; reflexivity. Qed.

(* ---- date ---- *)
(* refuted as pinned: n/a, 01/02/2022, 12/31/2021 sort differently from different arrangements *)
Theorem C13_date_refuted :
  exists l l', NoDup (map kname l) /\ Permutation l l' /\
    fst (sisort by_date_with_contextual (d_init, cs0) l) <>
    fst (sisort by_date_with_contextual (d_init, cs0) l').
Proof. exact date_refuted. Qed.
Print Assumptions C13_date_refuted.

(* Partial: all keys parse in one layout to distinct instants -> chronological; no key has a layout
   -> the contextual order of the previous theorem. *)
Theorem C13_date_partial : forall (l : list key) f,
  date_pure l = Some f -> NoDup (map kname l) ->
  strict_order_on f l /\
  (forall arr, Permutation l arr -> fst (sisort by_date_with_contextual (d_init, cs0) arr) = isort f l) /\
  (forall qs, (forall q, In q qs -> In (fst q) l /\ In (snd q) l) ->
     fst (srun by_date_with_contextual (d_init, cs0) qs) = map (fun q => f (fst q) (snd q)) qs).
Proof.
  intros l f H Hnd. destruct (date_pure_sound l f H Hnd) as [Hs [P [Hp0 Hp]]].
  split; [exact Hs|]. split.
  - intros arr Hperm.
    destruct (sisort_pure by_date_with_contextual P f l Hp arr (d_init, cs0) Hp0) as [E _].
    { intros x Hx. eapply Permutation_in; [apply Permutation_sym; exact Hperm|exact Hx]. }
    rewrite E. apply isort_perm_invariant; auto; [apply Hs|]. now apply NoDup_map_inv in Hnd.
  - intros qs Hq. exact (proj1 (srun_pure by_date_with_contextual P f l Hp qs (d_init, cs0) Hp0 Hq)).
Qed.
Print Assumptions C13_date_partial.
(* chronological: the pure order on a one-layout key set compares the parsed instants *)
Theorem C13_date_chronological : forall (k : key) (l : list key) i,
  kfmt k = FmtOk (Some i) -> date_dom_layout i (k :: l) = true ->
  date_pure (k :: l) = Some (date_lt i) /\
  (forall a b ta tb, kdate i a = Some ta -> kdate i b = Some tb -> date_lt i a b = (ta <? tb)%Z).
Proof.
  intros k l i Hf Hd. unfold date_pure. rewrite Hf, Hd. split; [reflexivity|].
  intros a b ta tb Ha Hb. unfold date_lt. now rewrite Ha, Hb.
Qed.

(* ---- all modes through BuildSorter ---- *)
(* For every sort mode and modifier: on a key set with distinct names inside the mode's state-free
   domain (always, for text / numeric / value), the sorter built by BuildSorter sorts every
   arrangement of the items to the same sequence, the reference sort by one total order. *)
Theorem C13_mode_deterministic : forall m rv (its : list item) f,
  mode_pure m its = Some f -> NoDup (map item_name its) ->
  order_on (with_rev rv f) its /\
  forall arr, Permutation its arr ->
    fst (sisort (build_cmp (m, rv)) s_init arr) = isort (with_rev rv f) its.
Proof.
  intros m rv its f H Hnd. split.
  - exact (proj1 (build_cmp_pure m rv its f H Hnd)).
  - exact (mode_sort_deterministic m rv its f H Hnd).
Qed.
Print Assumptions C13_mode_deterministic.
Theorem C13_mode_always_pure : forall its,
  mode_pure MText its = Some (on_name by_name) /\
  mode_pure MNumeric its = Some (on_name by_name_smart) /\
  mode_pure MValue its = Some value_asc.
Proof. intros its. repeat split. Qed.

(* ---- sort-name parsing (cmd/helpers/sorting.go) ---- *)
(* truth table: name (any letter case) -> sorter; `value` alone is descending, everything else
   ascending; :asc / :desc set the direction, :rev / :reverse flip the default; anything after a
   second ':' is ignored; unknown names and modifiers are errors *)
Theorem C13_parse_sort_plain : forall n m, ~ In COLON n -> lookup_mode (lower n) = Some m ->
  parse_sort n = Some (m, mode_eqb m MValue).
Proof. exact parse_sort_plain. Qed.
Theorem C13_parse_sort_modifier : forall n md rest m,
  ~ In COLON n -> ~ In COLON md -> (rest = [] \/ exists r, rest = COLON :: r) ->
  lookup_mode (lower n) = Some m ->
  parse_sort (n ++ COLON :: md ++ rest) =
  option_map (fun rv => (m, rv)) (apply_modifier (mode_eqb m MValue) (lower md)).
Proof. exact parse_sort_modifier. Qed.
Theorem C13_parse_sort_unknown : forall n rest, ~ In COLON n -> lookup_mode (lower n) = None ->
  parse_sort n = None /\ parse_sort (n ++ COLON :: rest) = None.
Proof. exact parse_sort_unknown. Qed.
Local Open Scope string_scope.
Theorem C13_parse_sort_names : forall lname m,
  lookup_mode lname = Some m <->
  In (lname, m) [(of_str "text", MText); ([], MText); (of_str "numeric", MNumeric);
                 (of_str "contextual", MContextual); (of_str "context", MContextual);
                 (of_str "date", MDate); (of_str "value", MValue)].
Proof. exact lookup_mode_table. Qed.
Theorem C13_parse_sort_modifiers : forall d,
  apply_modifier d (of_str "asc") = Some false /\
  apply_modifier d (of_str "desc") = Some true /\
  apply_modifier d (of_str "rev") = Some (negb d) /\
  apply_modifier d (of_str "reverse") = Some (negb d) /\
  (forall s, ~ In s [of_str "asc"; of_str "desc"; of_str "rev"; of_str "reverse"] ->
             apply_modifier d s = None).
Proof. exact apply_modifier_table. Qed.
Print Assumptions C13_parse_sort_modifier.
Example C13_parse_sort_examples :
  parse_sort (of_str "value") = Some (MValue, true) /\
  parse_sort (of_str "Value:ASC") = Some (MValue, false) /\
  parse_sort (of_str "value:rev") = Some (MValue, false) /\
  parse_sort (of_str "TEXT:Reverse") = Some (MText, true) /\
  parse_sort (of_str "numeric") = Some (MNumeric, false) /\
  parse_sort (of_str ":desc") = Some (MText, true) /\
  parse_sort (of_str "date:asc:whatever") = Some (MDate, false) /\
  parse_sort (of_str "context:desc") = Some (MContextual, true) /\
  parse_sort (of_str "text:descending") = None /\
  parse_sort (of_str "bogus") = None.
Proof. vm_compute. repeat split. Qed.

(* ---- the boolean form used on the implementation's outputs ---- *)
(* it accepts everything the model produces on a case inside the state-free domains with distinct
   key names and genuine arrangements *)
Theorem C13_check_sound : forall c, case_wf c = true -> in_domain c = true -> C13_check c (model c) = true.
Proof. exact C13_check_sound_proof. Qed.
Print Assumptions C13_check_sound.

(* non-vacuity: a mixed-case weekday set and a one-layout date set sort as the calendar says *)
Definition kx (s : string) := mkkey (of_str s) None FmtErr [].
Example C13_example_weekdays :
  map kname (fst (sisort by_contextual cs0 [kx "Wed"; kx "tues"; kx "MON"; kx "thurs"; kx "Sunday"]))
  = map of_str ["Sunday"; "MON"; "tues"; "Wed"; "thurs"] /\
  ctx_pure [kx "Wed"; kx "tues"; kx "MON"; kx "thurs"; kx "Sunday"] = Some (pos_lt 0).
Proof. vm_compute. split; reflexivity. Qed.
Example C13_example_numeric :
  let n (s : string) m e := mkkey (of_str s) (Some (FFin m e)) FmtErr [] in
  map kname (isort by_name_smart [kx "5x"; n "10" 5%Z 1%Z; n "9" 9%Z 0%Z; n "1.0" 1%Z 0%Z; kx "abc"; n "1" 1%Z 0%Z; n "0.5" 1%Z (-1)%Z])
  = map of_str ["0.5"; "1"; "1.0"; "9"; "10"; "5x"; "abc"].
Proof. vm_compute. reflexivity. Qed.
