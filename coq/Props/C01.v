(* C01 — Every input line is read exactly once and classified exactly once.
   Property theorems only.  Models: Model/Batch.v (the two batching loops), Model/Pipeline.v (the
   transition system of readers, channel, workers, result channel, consumer), composition with the
   line scanner of C04.  Proofs: Proofs/BatchProof.v, PipelineProof.v, PipelineEnd.v.
   All statements are for an arbitrary classifier (matcher + ignore set + key expression), an
   arbitrary match type K, every configuration with capacities >= 1 and EVERY schedule. *)
From Coq Require Import List NArith Arith Permutation Bool.
From RareV Require Import Base.Hex Model.Lines Model.Batch Model.Pipeline
  Proofs.BatchProof Proofs.PipelineProof Proofs.PipelineEnd Gen.GenConsts Model.Skel Gen.GenSkel.
Import ListNotations.

(* batching loses and duplicates nothing, for every batch size and every time-flush oracle; the line
   numbers workers compute from BatchStart are the true 1-based line numbers *)
Theorem C01_cut_ids : forall src bsz flush ls, flat_map b_ids (cut src bsz flush ls) = numbered src 1%N ls.
Proof. exact cut_ids. Qed.
Theorem C01_cut_concat : forall src bsz flush ls, concat (map b_lines (cut src bsz flush ls)) = ls.
Proof. exact cut_concat. Qed.
(* no empty batch is ever sent; no batch exceeds the batch size *)
Theorem C01_cut_nonempty : forall src bsz flush ls, Forall (fun b => b_lines b <> []) (cut src bsz flush ls).
Proof. exact cut_nonempty. Qed.
Theorem C01_cut_size : forall src bsz flush ls, Forall (fun b => length (b_lines b) <= Nat.max bsz 1) (cut src bsz flush ls).
Proof. exact cut_size. Qed.
Print Assumptions C01_cut_ids.

(* safety, every reachable state, every schedule: each line is in exactly one place (unread, in a
   channel, in a worker, classified), every key in exactly one place, and the three atomic counters
   equal the true counts of the lines classified so far *)
Theorem C01_inv : forall K classify c srcs nw s, nw >= 1 ->
  reach K classify c (init K srcs nw) s ->
  Inv K classify (input_of srcs) (errors_of srcs) s /\ Aux K s.
Proof. intros K classify c srcs nw s H R. destruct (reach_inv K classify c srcs nw s H R) as (A & B & _). split; assumption. Qed.
Print Assumptions C01_inv.

(* no send on a closed channel: the batch channel is closed only when every reader is done, the
   result channel only when every worker has exited *)
Theorem C01_no_send_after_close : forall K classify c srcs nw s, nw >= 1 ->
  reach K classify c (init K srcs nw) s ->
  (closed K s = true -> all_done_r (rd K s)) /\ (rclosed K s = true -> all_done_w K (wk K s)).
Proof.
  intros K classify c srcs nw s H R. destruct (reach_inv K classify c srcs nw s H R) as (_ & (_ & A & _ & B & _) & _).
  split; assumption.
Qed.

(* no deadlock: with capacities >= 1 some goroutine can always move until the consumer is done *)
Theorem C01_progress : forall K classify c srcs nw s, cfg_ok c -> nw >= 1 ->
  reach K classify c (init K srcs nw) s -> cdone K s = false -> exists s', step K classify c s s'.
Proof.
  intros K classify c srcs nw s Hc H R Hd. destruct (reach_inv K classify c srcs nw s H R) as (_ & A & _).
  exact (progress K classify c s Hc A Hd).
Qed.

(* termination under every schedule: a variant decreases on every step, so no execution is longer
   than the variant of its first state *)
Theorem C01_terminates : forall K classify c n s s', steps K classify c n s s' -> n + mu K s' <= mu K s.
Proof. exact bounded_executions. Qed.
Print Assumptions C01_terminates.

(* the result: every maximal execution ends with the consumer done, the multiset of emitted keys
   equal to the sequential one-line-at-a-time evaluation, R/M/I equal to the true counts
   (R = M + I + unmatched) and the error count equal to the number of failed inputs *)
Theorem C01_final : forall K classify c srcs nw s, cfg_ok c -> nw >= 1 ->
  reach K classify c (init K srcs nw) s -> (forall s', ~ step K classify c s s') ->
  cdone K s = true /\
  Permutation (consumed K s) (seq_keys K classify (input_of srcs)) /\
  cR K s = length (input_of srcs) /\
  cM K s = list_sum (map (isM K classify) (input_of srcs)) /\
  cI K s = list_sum (map (isI K classify) (input_of srcs)) /\
  errs K s = errors_of srcs /\
  cR K s = cM K s + cI K s + (length (input_of srcs) - cM K s - cI K s).
Proof. exact pipeline_final. Qed.
Print Assumptions C01_final.

(* end to end: inputs given as bytes; read chunking (script), scanner buffer size, batch size and
   time-flush decisions are universally quantified as well; the lines are the line segments of the
   delivered bytes numbered from 1 *)
Theorem C01_end_to_end : forall K classify c ds nw s, cfg_ok c -> nw >= 1 ->
  reach K classify c (init K (map source_of ds) nw) s -> (forall s', ~ step K classify c s s') ->
  cdone K s = true /\
  Permutation (consumed K s) (seq_keys K classify (flat_map true_lines ds)) /\
  cR K s = length (flat_map true_lines ds) /\
  cM K s = list_sum (map (isM K classify) (flat_map true_lines ds)) /\
  cI K s = list_sum (map (isI K classify) (flat_map true_lines ds)) /\
  errs K s = errors_of (map source_of ds).
Proof. exact end_to_end. Qed.
Print Assumptions C01_end_to_end.

(* translator obligation: the structure the transition system assumes is the structure of the source.
   Gen/GenSkel.v is the communication skeleton (sends, receives, go / defer statements, wait-group and
   close calls, the assignments to the batch variables, in syntactic order with their lexical context)
   regenerated from fileBatcher.go, readerBatcher.go, batcher.go and extractor.go on every run; the
   conditions (Model/Skel.v) are: the spawning loop takes the semaphore slot before it starts a
   reader, a reader gives it back and signals the wait group in a deferred function, an open
   failure counts one error and returns, the batch channel is closed exactly once after wg.Wait; both
   batching loops send {batch, source, batchStart}, advance batchStart by the batch length and
   continue with a FRESH slice, and send the rest after the loop; New starts the workers after
   wg.Add and closes the match channel in a separate goroutine after wg.Wait; a worker signals the
   wait group in a deferred call, numbers the lines BatchStart+idx and sends the matches of one
   batch once, after the batch's last line *)
Theorem C01_skeleton :
  open_files_ok skel_open_files && open_reader_ok skel_open_reader && batcher_close_ok skel_batcher_close &&
  sync_reader_ok skel_sync_reader && sync_reader_ok skel_sync_reader_flush &&
  extractor_new_ok skel_extractor_new && async_worker_ok skel_async_worker = true.
Proof. vm_compute. reflexivity. Qed.

(* translator obligation for "the reported totals equal the true counts": the totals are what the LAST frame
   shows. The commands draw through helpers.RunAggregationLoop; its regenerated skeleton must hand every
   batch to the aggregator and, after the batch channel has closed and the refresh goroutine has been told
   to stop (an unbuffered send), draw once more, unconditionally (agg_loop_ok; the transition system over
   this structure and its theorems are C05's) *)
Theorem C01_final_frame_skeleton : agg_loop_ok skel_agg_loop = true.
Proof. vm_compute. reflexivity. Qed.

(* non-vacuity: a two-source system has an enabled first step *)
Example C01_example_step :
  exists s', step nat (fun _ => Mat 0) {| nreaders := 1; chcap := 1; rcap := 5 |}
                  (init nat [(true, false, cut [97]%N 2 [] [[1]%N; [2]%N; [3]%N])] 2) s'.
Proof. eexists. eapply (s_racq_ok nat _ _ _ []); [reflexivity|constructor|cbn; auto]. Qed.
