(* C05 — The pipeline is race-free, renders atomically and ends with a complete render.
   (a) Model/Sync.v + Proofs/SyncProof.v: happens-before / lockset soundness over abstract traces,
       instantiated with the synchronisation table the translator extracts from the source.
   (b) Model/AggLoop.v + Proofs/AggLoopProof.v: the aggregation loop on top of the pipeline of C01,
       every schedule.   (c) Model/ObjPool.v: the object pool. *)
From Coq Require Import List NArith Arith Permutation Bool String.
From RareV Require Import Base.Hex Model.Batch Model.Pipeline Model.AggLoop Model.Sync Model.ObjPool
  Proofs.PipelineProof Proofs.AggLoopProof Proofs.SyncProof Proofs.ObjPoolProof Proofs.RWLock Gen.GenSync Gen.GenOrder Model.Skel Gen.GenSkel.
Import ListNotations.

(* (a) a well-formed trace (mutual exclusion as the runtime provides it) in which every location
   follows one of the three disciplines has no data race *)
Theorem C05_lockset_sound : forall tr, wf tr ->
  (forall x, (exists m, guarded tr x m) \/ all_atomic tr x \/ init_then_read tr x) -> ~ race tr.
Proof. exact lockset_sound. Qed.
Theorem C05_table_sound : forall tbl n tr, table_ok tbl n = true -> wf tr -> obeys tbl tr -> locs_below tr n -> ~ race tr.
Proof. exact table_sound. Qed.
Print Assumptions C05_table_sound.

(* translator obligation: in the table regenerated from the working tree every shared field of
   Batcher, Extractor, ObjectPool and the logger globals is all-atomic, guarded by one mutex
   (shared holds read only), or written only in its constructor *)
Theorem C05_discipline : table_ok sync_table sync_nlocs = true.
Proof. vm_compute. reflexivity. Qed.
Theorem C05_discipline_nonempty : 15 <= sync_nlocs /\ 40 <= List.length sync_table.
Proof. vm_compute. split; repeat constructor. Qed.

(* translator obligation (termination clause): no mutex of these types is acquired - directly or through a
   call within the package - by a goroutine that already holds it. Go's locks are not re-entrant; for the
   read side of an RWMutex (pkg/logger) the failure needs a writer arriving in between, which
   helpers.RunAggregationLoop supplies: its first statement is logger.DeferLogs (mux.Lock) while reader
   goroutines may be logging an open or read error. C05_reentrant_rlock_deadlocks (Proofs/RWLock.v, a model
   of the runtime's writer-preferring RWMutex) states what would happen: the reader and the writer are
   blocked for ever whatever the other goroutines do - the reader before its deferred wg.Done, so the
   batch channel never closes and the final render never happens. *)
Theorem C05_no_reentrant_lock : sync_reentrant = [].
Proof. vm_compute. reflexivity. Qed.
(* translator obligation (termination clause): no channel send or receive that can block is made - directly or
   through a call within the package - while a mutex is held. The transition systems of Model/Pipeline.v and
   Model/AggLoop.v treat a critical section as ONE action that always completes; a reader that parks on the
   full batch channel inside Batcher.mux would make the renderer (which holds the output mutex and asks for
   the status line) wait for the workers, the workers for the aggregation loop, and the loop for the
   renderer - a cycle none of the no-deadlock theorems below would be about *)
Theorem C05_no_blocking_under_lock : sync_blocking_under_lock = [].
Proof. vm_compute. reflexivity. Qed.
Theorem C05_reentrant_rlock_deadlocks : forall g w l s s',
  stuck g w s -> Forall (fun p => fst p <> g /\ fst p <> w) l -> run s l = Some s' ->
  RWLock.step s' g ARLock = None /\ RWLock.step s' w AAcquire = None.
Proof. exact reentrant_rlock_deadlocks. Qed.
Print Assumptions C05_reentrant_rlock_deadlocks.

(* hence: no data race in any trace that obeys the extracted table *)
Theorem C05_race_free : forall tr, wf tr -> obeys sync_table tr -> locs_below tr sync_nlocs -> ~ race tr.
Proof. intros tr. exact (table_sound sync_table sync_nlocs tr C05_discipline). Qed.
Print Assumptions C05_race_free.

(* translator obligation for (b): the model counts a line (s_wline: readLines, matchedLines, ignoredLines)
   BEFORE the worker sends its matches on readChan (s_wsend); the source must do the same: the
   counters are updated only in processLineSync, which asyncWorker calls before the send *)
Theorem C05_counters_before_send :
  counter_update_functions = ["processLineSync"%string] /\ worker_processes_before_send = true.
Proof. vm_compute. split; reflexivity. Qed.

(* translator obligation for (b): the structure Model/AggLoop.v assumes is the structure of
   RunAggregationLoop as regenerated into Gen/GenSkel.v — the ticker goroutine renders between
   Lock and Unlock and returns when it receives on outputDone, which is UNBUFFERED; the main loop
   samples a batch between Lock and Unlock; after the loop it sends on outputDone and only then
   renders, once, outside any goroutine *)
Theorem C05_loop_skeleton : agg_loop_ok skel_agg_loop = true.
Proof. vm_compute. reflexivity. Qed.

(* (b) every reachable state of pipeline + aggregation loop + ticker, every schedule *)
Definition reachable K classify c srcs nw x := creach K classify c (init K srcs nw, loop0 K) x.

(* a render never runs while a match is being sampled; the final render starts only after the
   ticker goroutine has returned; whoever renders or samples holds the mutex *)
Theorem C05_render_atomic : forall K classify c srcs nw x, nw >= 1 -> reachable K classify c srcs nw x ->
  ~ (tk K (snd x) = TRender /\ exists m, ag K (snd x) = AHold m) /\
  (ag K (snd x) = AFinal -> tk K (snd x) = TDone) /\
  (tk K (snd x) = TRender -> mtx K (snd x) = Some OTick) /\
  ((exists m, ag K (snd x) = AHold m) -> mtx K (snd x) = Some OAgg).
Proof.
  intros K classify c srcs nw x Hn Hr.
  exact (render_atomic K classify (input_of srcs) (errors_of srcs) x (creach_inv K classify c srcs nw x Hn Hr)).
Qed.

(* no deadlock: until the loop is done some step other than a new timer tick is enabled (this
   includes the outputDone hand-off while the ticker is inside writeOutput) *)
Theorem C05_progress : forall K classify c srcs nw x, cfg_ok c -> nw >= 1 -> reachable K classify c srcs nw x ->
  ag K (snd x) <> ADone -> exists y, cstep K classify c x y /\ ~ is_tick K x y.
Proof.
  intros K classify c srcs nw x Hc Hn Hr Hd.
  exact (loop_progress K classify c (input_of srcs) (errors_of srcs) x Hc (creach_inv K classify c srcs nw x Hn Hr) Hd).
Qed.

(* termination: steps other than new ticks strictly decrease a well-founded measure; there is no
   infinite run without infinitely many timer ticks *)
Theorem C05_terminates : forall K classify c,
  well_founded (fun y x : cstate K => cstep K classify c x y /\ ~ is_tick K x y).
Proof. exact nontick_wf. Qed.

(* the final render happens after the last match was sampled and reflects all matches *)
Theorem C05_final_complete : forall K classify c srcs nw x, nw >= 1 -> reachable K classify c srcs nw x ->
  ag K (snd x) = ADone ->
  final_render K (snd x) = Some (sampled K (snd x), list_sum (map (isM K classify) (input_of srcs))) /\
  Permutation (sampled K (snd x)) (seq_keys K classify (input_of srcs)) /\
  tk K (snd x) = TDone.
Proof.
  intros K classify c srcs nw x Hn Hr.
  exact (final_complete K classify (input_of srcs) (errors_of srcs) x (creach_inv K classify c srcs nw x Hn Hr)).
Qed.

(* every intermediate render shows a prefix of the finally sampled keys - so each per-key count is
   at most the final count - and a matched total not below the number of samples shown *)
Theorem C05_monotone_renders : forall K classify c srcs nw x, nw >= 1 -> reachable K classify c srcs nw x ->
  forall snap mc, In (snap, mc) (renders K (snd x)) ->
  (exists rest, sampled K (snd x) = snap ++ rest) /\ List.length snap <= mc.
Proof.
  intros K classify c srcs nw x Hn Hr.
  exact (renders_monotone K classify (input_of srcs) (errors_of srcs) x (creach_inv K classify c srcs nw x Hn Hr)).
Qed.
Theorem C05_counts_monotone : forall K (eqd : forall a b : K, {a = b} + {a <> b}) (snap rest : list K) k,
  count_occ eqd snap k <= count_occ eqd (snap ++ rest) k.
Proof. exact count_prefix. Qed.
Print Assumptions C05_final_complete.

(* (c) object pool: after any sequence of Get / Return by well-behaved clients, objects in use are
   pairwise distinct and not on the free list *)
Theorem C05_pool_exclusive : forall ops p p', PI p ->
  fold_left (fun st op => match st with Some q => pstep q op | None => None end) ops (Some p) = Some p' -> PI p'.
Proof. exact pool_exclusive. Qed.
Theorem C05_pool_holders_distinct : forall p, PI p -> forall t1 o1 t2 o2 l1 l2 l3,
  inuse p = l1 ++ (t1, o1) :: l2 ++ (t2, o2) :: l3 -> o1 <> o2.
Proof. exact holders_distinct. Qed.
Print Assumptions C05_pool_exclusive.

Example C05_example_table : classify_loc sync_table 0 <> CBad.
Proof. vm_compute. discriminate. Qed.
