(* C02 — Each match carries its true source, line number, text and capture groups.
   Models: Model/Extract.v (processLineSync with the matcher as oracle), Model/Ctx.v (the match
   context), Model/Color.v (WrapIndices), and the pipeline of C01 / scanner of C04. *)
From Coq Require Import List NArith ZArith Arith Bool Permutation.
From RareV Require Import Base.Hex Base.Res Model.Lines Model.Batch Model.Pipeline Model.Ctx Model.Color Model.Extract
  Proofs.PipelineProof Proofs.PipelineEnd Proofs.PipelineOrder Proofs.ExtractProof Proofs.MatchFields Proofs.CtxProof
  Proofs.LinesMain Gen.GenColor Model.Skel Gen.GenSkel.
Import ListNotations.

(* every consumed match is (source, true 1-based number, unmodified text) of a line of that input,
   with the index list the matcher returns for that line — for every batch size, time-flush oracle,
   worker/reader count, read chunking and schedule *)
Theorem C02_match_identity : forall names extract igs orc c ds nw s m, cfg_ok c -> nw >= 1 ->
  reach mtch (classify_of names extract igs orc) c (init mtch (map source_of ds) nw) s ->
  (forall s', ~ step mtch (classify_of names extract igs orc) c s s') ->
  In m (consumed mtch s) ->
  In (e_src m, e_no m, e_line m) (flat_map true_lines ds) /\ orc (e_src m, e_no m, e_line m) = Some (e_ix m).
Proof. exact consumed_true. Qed.
Print Assumptions C02_match_identity.

(* "true line number": in the numbered lines of a source, number n is the n-th line *)
Theorem C02_line_numbers : forall src ls n l, In (src, n, l) (numbered src 1%N ls) ->
  (1 <= n)%N /\ nth_error ls (N.to_nat (n - 1)) = Some l.
Proof. intros src ls n l. exact (numbered_nth src ls 1%N n l). Qed.

(* capture values: {i} is the text of group i; groups that did not participate, negative and
   out-of-range group numbers read as empty; never a panic on a valid index list *)
Theorem C02_groups : forall line ix i, valid_idxs line ix = true -> (0 <= i)%Z ->
  get_match line ix i = Ok (group_spec line ix (Z.to_nat i)).
Proof. exact get_match_spec. Qed.
Theorem C02_groups_total : forall line ix i, valid_idxs line ix = true -> get_match line ix i <> Panic.
Proof. exact get_match_total. Qed.
Theorem C02_groups_negative : forall line ix i, (i < 0)%Z -> get_match line ix i = Ok [].
Proof. exact get_match_negative. Qed.
Theorem C02_groups_beyond : forall line ix i, (Z.of_nat (length ix) <= i * 2 + 1)%Z -> get_match line ix i = Ok [].
Proof. exact get_match_beyond. Qed.
Print Assumptions C02_groups.

(* held values: the slice behind a handed-out line reads the same after the whole scan (C04) *)
Theorem C02_held_lines_stable : forall bs scr str, exists o, run bs scr str = Some o /\ o_end o = o_ret o.
Proof. intros bs scr str. destruct (C04_scanner_proof bs scr str) as (o & A & _ & B & _). exists o. split; assumption. Qed.

(* one reader at a time and one worker: matches are consumed in input order *)
Theorem C02_order_1x1 : forall K classify c srcs s, nreaders c = 1 -> chcap c >= 1 -> rcap c >= 1 ->
  reach K classify c (init K srcs 1) s -> (forall s', ~ step K classify c s s') ->
  consumed K s = seq_keys K classify (input_of srcs).
Proof. intros K classify c srcs s H. exact (ordered_final K classify c H srcs s). Qed.
Print Assumptions C02_order_1x1.

(* translator obligation: the colour table of `rare filter` consists of well-formed SGR codes *)
Theorem C02_palette_wf : GroupColors <> [] /\ forallb is_sgr GroupColors = true /\ is_sgr Reset = true.
Proof. split; [discriminate|]. split; vm_compute; reflexivity. Qed.

(* default `filter` output with colour codes removed is byte-identical to the matched line
   (overlapping, nested, absent and empty groups included) *)
Theorem C02_filter_identity : forall s groups, no_esc s = true -> valid_idxs s groups = true ->
  exists w, wrap_indices GroupColors Reset s groups = Ok w /\ strip_sgr w = s.
Proof.
  destruct C02_palette_wf as (A & B & C). exact (wrap_indices_identity GroupColors Reset A B C).
Qed.
Print Assumptions C02_filter_identity.

Example C02_example_groups :
  get_match [97;98;99;100]%N [0;4;1;3;-1;-1]%Z 1 = Ok [98;99]%N /\
  get_match [97;98;99;100]%N [0;4;1;3;-1;-1]%Z 2 = Ok [] /\
  wrap_indices GroupColors Reset [97;98;99;100]%N [1;3;-1;-1]%Z = Ok [97;27;91;51;49;109;98;99;27;91;48;109;100]%N.
Proof. vm_compute. auto. Qed.

(* translator obligation (see C01_skeleton): the line number and source a match carries are computed
   the way Model/Extract.v and Batch.v assume — batches are sent as {batch, sourceName, batchStart},
   batchStart starts at 1 and advances by the batch length, the worker passes
   (batch.Source, batch.BatchStart + idx, line) to processLineSync and collects one batch's matches
   in a fresh slice *)
Theorem C02_numbering_skeleton :
  sync_reader_ok skel_sync_reader && sync_reader_ok skel_sync_reader_flush && async_worker_ok skel_async_worker = true.
Proof. vm_compute. reflexivity. Qed.
