(* C08 -- No template and no input line can crash expression compilation or evaluation.
   Property theorems only; proofs live in Proofs/NoCrashProof.v, Proofs/DrawingProof.v and in the
   proof files of the models this property is built on.  Models: Model/Tmpl.v (C09: the compiler),
   Model/Funcs.v + Humanize.v + CsvItem.v (C11: scalar helpers), Model/Drawing.v (repeat, color,
   bar), Model/NoCrash.v (the registry classified, one evaluator over helper names, expression
   trees, Go's partial operations in [result], the panic-site map), Model/MathEval.v (C19),
   Model/Ctx.v (match context), Model/Splitter.v / ArrayFns.v (C17).
   "Repaired" below = after the fix commits already in /repo plus fixes/C08-repeat-count.patch,
   fixes/C08-bar-length.patch (this property) and fixes/C17-subctx-negative-index.patch,
   fixes/C17-for-parent-context.patch (C17). *)
From Coq Require Import List NArith ZArith Bool String.
From RareV Require Import Base.Hex Base.Res Base.Num Gen.GenC11 Gen.GenFuncs Gen.GenPanicSites
  Model.Ctx Model.Humanize Model.CsvItem Model.Funcs Model.Drawing Model.NoCrash Model.Tmpl
  Model.MathTok Model.MathEval
  Proofs.TmplFuel Proofs.TmplEsc Proofs.TmplCopy Proofs.TmplTree Proofs.TmplMain Proofs.CtxProof Proofs.MathEvalProof Proofs.DrawingProof Proofs.NoCrashProof.
Import ListNotations.
Local Open Scope Z_scope.

(* Clause "compiling any template string either yields a usable expression or reports errors; it
   never panics or fails to return": for every function table and every rune string the (repaired)
   compiler returns (it is a structurally recursive function of Coq, with the recursion on arguments
   justified by a length measure: C09_compile_unfold).  Re-export of C09_compile_total. *)
Theorem C08_compile_total : forall fs s, Tmpl.compile fs s <> Panic.
Proof. exact compile_total. Qed.
Print Assumptions C08_compile_total.
(* the code as pinned did panic on a trailing backslash (repaired in /repo: a5c02ad) *)
Theorem C08_compile_pinned_refuted : forall fs s, compile_pinned fs (TmplPrint.esc s ++ [92%N]) = Panic.
Proof. exact trailing_backslash_pinned. Qed.
Print Assumptions C08_compile_pinned_refuted.

(* Translator obligation: the hand-written classification of the helpers (which model covers which
   name, which names are library forwarders) has exactly the keys of stdlib.StandardFunctions as
   regenerated from /repo, each bound to the same Go builder function.  A new, renamed or re-bound
   helper breaks this proof. *)
Theorem C08_registry : registry_matches = true.
Proof. vm_compute. reflexivity. Qed.
Print Assumptions C08_registry.

(* Translator obligation: every syntactic run-time panic site (index, slice, integer / and %, shift,
   strings.Repeat, make, type assertion, panic) of the regenerated inventory that lies in a claimed
   function is on the hand-written list [covered] (inert by Go's semantics / guarded by a visible
   test / guarded by a named, proved statement), and the list has no stale entry.  A new site in a
   claimed function breaks this proof. *)
Theorem C08_sites_covered : sites_all_covered = true.
Proof. vm_compute. reflexivity. Qed.
Print Assumptions C08_sites_covered.
(* ... and every guard name used on that list is a proved statement about the models *)
Theorem C08_guards : forall g, guard_stmt g.
Proof. exact all_guards_hold. Qed.
Print Assumptions C08_guards.

(* Clause "evaluating ... returns a string and never panics", per helper.
   Scalar helpers (Model/Funcs.v, 50 helpers incl. divi/modi by zero, substr near MaxInt64, hi of
   MinInt64): no argument list of any length, no argument values, no oracle text make the model
   panic; the only precondition is that strconv's text for hf is non-empty. *)
Theorem C08_scalar_total : forall f args orc, (f = Hf -> orc <> []) -> scalar_eval f args orc <> Panic.
Proof. exact scalar_eval_total. Qed.
Print Assumptions C08_scalar_total.
(* the integer folds check their operands left to right and the first failing check decides the marker
   (/repo 2e0440e): operand 0 must be an integer, then operand 1 (integer, then non-zero for divi / modi), then
   the rest in the same way; whether an operand is a constant does not matter.  This evaluator agrees with
   Model/Funcs.v f_ifold for the folds without division and whenever no constant operand is a non-integer. *)
Theorem C08_ifold_order : forall f a0 a1 rest,
  f_ifold_ltr f (a0 :: a1 :: rest) =
  match atoi (a_val a0) with
  | None => Ok ErrorNum
  | Some v0 =>
      match atoi (a_val a1) with
      | None => Ok ErrorNum
      | Some v1 => match iop f v0 v1 with
                   | Some x => ifold_loop f x rest
                   | None => Ok ErrorValue
                   end
      end
  end.
Proof. exact ifold_ltr_order. Qed.
Theorem C08_ifold_agrees : forall f args,
  (f <> Divi -> f <> Modi -> f_ifold_ltr f args = f_ifold f args) /\
  (existsb const_bad_int args = false -> f_ifold_ltr f args = f_ifold f args).
Proof. intros f args. split; [exact (ifold_ltr_nodiv f args)|exact (ifold_ltr_agrees f args)]. Qed.
Print Assumptions C08_ifold_order.
Print Assumptions C08_ifold_agrees.
(* repeat: the repaired helper never reaches strings.Repeat with a negative count or an overflowing
   length, and never builds more than repeat_cap bytes; the code as pinned panics ({repeat a -1}) *)
Theorem C08_repeat_total : forall args, f_repeat true args <> Panic.
Proof. exact repeat_total. Qed.
Theorem C08_repeat_bounded : forall args out, f_repeat true args = Ok out -> blen out <= repeat_cap.
Proof. exact repeat_bounded. Qed.
Theorem C08_repeat_pinned_refuted : exists args, f_repeat false args = Panic.
Proof. exact repeat_pinned_refuted. Qed.
Print Assumptions C08_repeat_total.
Print Assumptions C08_repeat_bounded.
Print Assumptions C08_repeat_pinned_refuted.
(* color (both settings of color.Enabled) and bar (both settings of UnicodeEnabled, any block count
   the float arithmetic may produce, pinned and repaired) *)
Theorem C08_color_total : forall enabled args, f_color enabled args <> Panic.
Proof. exact color_total. Qed.
Theorem C08_bar_total : forall fixed unicode args blocks, f_bar fixed unicode args blocks <> Panic.
Proof. exact bar_total. Qed.
Print Assumptions C08_color_total.
Print Assumptions C08_bar_total.
(* the sub-context of @map/@filter/@reduce/@for: the repaired GetMatch answers {0}, {1} and "" for
   every other index; as pinned, every negative index panics ({@map a "{-1}"}) *)
Theorem C08_subctx_total : forall v0 v1 idx,
  subctx_get true v0 v1 idx = Ok (if idx =? 0 then v0 else if idx =? 1 then v1 else []).
Proof. exact subctx_get_value. Qed.
Theorem C08_subctx_pinned_refuted : forall v0 v1 idx, idx < 0 -> subctx_get false v0 v1 idx = Panic.
Proof. exact subctx_get_pinned_refuted. Qed.
Print Assumptions C08_subctx_total.
Print Assumptions C08_subctx_pinned_refuted.
(* the match context (re-export of C02_groups_total): no group number panics on matcher output *)
Theorem C08_get_match_total : forall line ix i, valid_idxs line ix = true -> Ctx.get_match line ix i <> Panic.
Proof. exact get_match_total. Qed.
Print Assumptions C08_get_match_total.
(* {! ..} formulas (re-export of C19): the parser never panics on any token list, and the repaired
   integer operators never panic, whatever the float semantics *)
Theorem C08_math_parse_total : forall ts, parse_tokens true ts <> OPanic.
Proof. exact parse_tokens_no_panic. Qed.
Print Assumptions C08_math_parse_total.

(* C08_eval_total, over helper names of the regenerated registry: whenever a name has an output
   model, evaluating it on ANY argument list and oracle yields a value, never Panic. *)
Theorem C08_eval_total : forall n args o,
  oracle_ok n o ->
  (forall r, eval_name n args o = Some r -> r <> Panic) /\
  (has_model n = true -> exists r, eval_name n args o = Some r).
Proof. intros n args o H. split; [intros r; exact (eval_name_total n args o r H)|exact (has_model_eval n args o)]. Qed.
Print Assumptions C08_eval_total.

(* ... and over expression trees of any shape and depth (literals, {i}, {key}, juxtaposition, calls
   nested in calls), for every context whose GetMatch does not panic, whatever EvalStaticStage
   (constant flags), strconv.ParseFloat and the forwarded libraries answer, and whatever the helpers
   without an output model return as strings. *)
Theorem C08_tree_total : forall cflag fparse orc other c, tctx_ok c -> forall e, tree_oracle_ok orc e -> teval cflag fparse orc other c e <> Panic.
Proof. exact teval_total. Qed.
Print Assumptions C08_tree_total.

(* Clause "compile-time constant evaluation runs the same stages": EvalStaticStage is evaluation of
   the same tree under the monitor context (every look-up answers ""), hence inherits totality *)
Theorem C08_static_eval_total : forall cflag fparse orc other e,
  tree_oracle_ok orc e -> teval cflag fparse orc other monitor_ctx e <> Panic.
Proof. intros. apply teval_total; [exact monitor_ok|assumption]. Qed.
Print Assumptions C08_static_eval_total.

(* Clause "using the documented <ERROR> markers for bad input": the markers of errors.go as
   regenerated are the ones the models use, none of them is a number or empty, and a non-numeric
   operand of repeat, bar, the integer folds, bucket, clamp, expbucket, hi, select, substr yields
   exactly <BAD-TYPE> (folds: or <VALUE> / <ARGN>), never a number. *)
Theorem C08_markers : markers_stmt.
Proof. exact markers_all. Qed.
Print Assumptions C08_markers.

(* round / percent / bytesize / bytesizesi / downscale (after repair 7c30345): a constant precision above
   maxPrecision (regenerated, 1100) yields <VALUE> for every value, bound and oracle -- the float
   formatter is never asked for an unbounded number of decimals *)
Theorem C08_precision_marker : precision_stmt.
Proof. exact precision_marker. Qed.
Print Assumptions C08_precision_marker.

(* @range (after repair 454a143; the loop with int64 wrap-around of i += incr and the count test): whatever
   start, stop and increment are, at most maxRangeElements (regenerated, 10^6) elements are built; the
   alternative is <VALUE>.  Ranges below the cap are C17's subject (C17_range). *)
Theorem C08_range_bounded : forall start stop incr l,
  range_capped start stop incr = Some l -> Z.of_nat (List.length l) <= maxRangeElements.
Proof. exact range_bounded. Qed.
Print Assumptions C08_range_bounded.

(* the accumulator / group context of `rare reduce` (after repair C08-accumulator-index): a group number
   outside the fields of the sample reads as "" and the look-up makes at most one splitter step per field,
   whatever number the template names ({9223372036854775807} did not return before the repair) *)
Theorem C08_acc_index : forall m idx,
  (0 <= acc_rounds m idx <= Z.of_nat (List.length (acc_fields m))) /\
  (idx < 0 \/ Z.of_nat (List.length (acc_fields m)) < idx -> acc_get_match m idx = []).
Proof. intros m idx. split; [exact (acc_rounds_bounded m idx)|exact (acc_get_match_outside m idx)]. Qed.
Print Assumptions C08_acc_index.

(* the boolean form used on the implementation's outcomes accepts everything the model predicts *)
Theorem C08_check_sound : forall c,
  (forall n args o, c = CFlat n args o -> has_model n = true /\ oracle_ok n o) -> C08_check c (predict c) = true.
Proof. exact check_sound. Qed.
Print Assumptions C08_check_sound.

(* non-vacuity: the inputs of the findings, repaired *)
Example C08_examples :
  eval_name "repeat" [A true [97%N] None; A false [45%N; 49%N] None] (mkOrc [] false false 0) = Some (Ok M_ErrorValue) /\
  eval_name "repeat" [A true [97%N; 98%N] None; A false [51%N] None] (mkOrc [] false false 0) = Some (Ok [97%N; 98%N; 97%N; 98%N; 97%N; 98%N]) /\
  eval_name "divi" [A false [49%N] None; A false [48%N] None] (mkOrc [] false false 0) = Some (Ok M_ErrorValue) /\
  eval_name "bar" [A false [53%N] None; A true [53%N] None; A true [49%N] None] (mkOrc [] false true 13) = Some (Ok (fullBlock ++ [226%N; 150%N; 140%N])) /\
  eval_name "divi" [A true (of_str "-4294967296") None; A true (of_str "0") None; A true (of_str "1.5") None] (mkOrc [] false false 0) = Some (Ok M_ErrorValue) /\
  eval_name "divi" [A true (of_str "8") None; A true (of_str "1.5") None; A true (of_str "0") None] (mkOrc [] false false 0) = Some (Ok M_ErrorNum) /\
  eval_name "format" [] (mkOrc [] false false 0) = None /\ modelled "format" = false /\ modelled "@map" = true.
Proof. vm_compute. repeat split; reflexivity. Qed.
