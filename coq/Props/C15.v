(* C15 — Follow mode delivers every appended byte exactly once, in order.  (claimed: partial)
   Property theorems only.  Model: Model/Follow.v — two transition systems, one rule per atomic action:
   [nstep] (NotifyFollowReader.Read + the fsnotify goroutine + the writer; the delete handler as repaired by
   fixes/C15-notify-stale-delete.patch, flag true) and [pstep] (PollingFollowReader.Read + the writer; the plain-follow Stat rule as repaired by
   fixes/C15-poll-plain-recreate.patch, flag true).
   Every theorem is for EVERY interleaving ([nreach]/[preach] = any finite step sequence from the state after
   followreader.New (+ Drain for --tail)) of histories restricted as the property states: a file is removed
   only after everything written was delivered ([nok]/[pok], label LRemove); polling: a file other than the
   open one is looked at by os.Stat while not longer than readBytes, or before anything was read ([pok], LStat).
   [pre_of c0 tail] = the bytes --tail skips ([] without --tail); [all e] = every byte ever written to the
   path, incarnation after incarnation; [ndel]/[pdel] = every byte Read has returned.
   Proofs: Proofs/Follow{Base,Notify,Poll,Refute,Check,Live,Main,AsFound}.v. *)
From Coq Require Import List NArith Arith Bool.
From RareV Require Model.Skel Gen.GenSkel.
From RareV Require Import Base.Hex Model.Follow Proofs.FollowBase Proofs.FollowNotify Proofs.FollowPoll
  Proofs.FollowRefute Proofs.FollowCheck Proofs.FollowLive Proofs.FollowMain Proofs.FollowAsFound.
Import ListNotations.

(* safety ("exactly the bytes appended after the starting position, in order, without loss or duplication";
   "reads [the re-created file] from its beginning"): at every moment what has been delivered, put after the
   skipped part, is a prefix of everything written — never a duplicate, never a gap, nothing out of order *)
Theorem C15_prefix_notify : forall reopen c0 tail tr s, nreach reopen c0 tail tr s ->
  exists rest, all (nenv s) = pre_of c0 tail ++ ndel s ++ rest.
Proof. exact m_prefix_notify. Qed.
Print Assumptions C15_prefix_notify.
Theorem C15_prefix_poll : forall reopen c0 tail tr s, (c0 = None -> reopen = true) -> preach reopen c0 tail tr s ->
  exists rest, all (penv s) = pre_of c0 tail ++ pdel s ++ rest.
Proof. exact m_prefix_poll. Qed.
Print Assumptions C15_prefix_poll.

(* the same as a statement about what an observer sees: the log of writer operations and Read results of every
   run is accepted by the specification automaton [spec_run] (each chunk continues the expected stream exactly
   where the previous one stopped and consists of bytes already written; EOF only in plain follow after a
   removal).  The correspondence feeds the log recorded from the real reader into the same [spec_run]. *)
Theorem C15_trace_admissible_notify : forall reopen c0 tail tr s, nreach reopen c0 tail tr s ->
  spec_run reopen (spec_init c0 tail) tr = Some (nabs (pre_of c0 tail) s).
Proof. exact m_admissible_notify. Qed.
Print Assumptions C15_trace_admissible_notify.
Theorem C15_trace_admissible_poll : forall reopen c0 tail tr s, (c0 = None -> reopen = true) -> preach reopen c0 tail tr s ->
  spec_run reopen (spec_init c0 tail) tr = Some (pabs (pre_of c0 tail) s).
Proof. exact m_admissible_poll. Qed.
Print Assumptions C15_trace_admissible_poll.

(* no lost wake-up ("for any ... timing of appends to a file that stays in place"): the reader sits in the select,
   its descriptor is the file at the path and undelivered bytes exist => the write signal is pending or a write
   event is still queued for the watcher goroutine *)
Theorem C15_no_lost_wakeup : forall reopen c0 tail tr s, nreach reopen c0 tail tr s ->
  forall i off, nfd s = Some (i, off) -> present (nenv s) = true -> i = ino (nenv s) ->
  off < length (curc (nenv s)) -> npcs s = NSelect -> sigW s = true \/ In EvWrite (queue s).
Proof. exact m_no_lost_wakeup. Qed.
Print Assumptions C15_no_lost_wakeup.

(* scope note (not a finding): with re-open the guarantee above does not extend to a re-created file that is not
   open yet — the select may take the write signal (Create) before the delete signal; the reader then sleeps,
   nothing pending, until the next write to the new file (delay, not loss: C15_prefix_notify still holds) *)
Theorem C15_reopen_wakeup_refuted :
  exists tr s, nreach true (Some cA) false tr s /\
    npcs s = NSelect /\ nfd s = None /\ sigW s = false /\ sigD s = false /\ queue s = [] /\
    cur (nenv s) = Some cx /\ ndel s = cA.
Proof. exact reopen_wakeup_needs_later_write. Qed.
Print Assumptions C15_reopen_wakeup_refuted.

(* "the reader blocks rather than ending while the file exists": Read returns EOF only in plain follow and only
   after the file has been removed *)
Theorem C15_blocks_not_ends_notify : forall reopen c0 tail tr s, nreach reopen c0 tail tr s ->
  npcs s = NEnded -> reopen = false /\ past (nenv s) <> [].
Proof. exact m_blocks_notify. Qed.
Print Assumptions C15_blocks_not_ends_notify.
Theorem C15_blocks_not_ends_poll : forall reopen c0 tail tr s, (c0 = None -> reopen = true) -> preach reopen c0 tail tr s ->
  ppcs s = PEnded -> reopen = false /\ past (penv s) <> [].
Proof. exact m_blocks_poll. Qed.
Print Assumptions C15_blocks_not_ends_poll.

(* "plain follow ends the stream": notify - after the removal the delete signal stays pending (or its event queued)
   until the stream has ended, and the select can take it; polling (Stat rule as repaired by
   fixes/C15-poll-plain-recreate.patch, applied) - once the open file has been removed, the os.Stat the poller
   performs when its read attempts have run out ends the stream and is the only thing the reader can do there,
   WHATEVER happened to the path since (still missing, re-created empty or with content, re-created several times):
   the comparison is with the open file (os.SameFile), not with the existence of the path *)
Theorem C15_remove_ends_notify : forall reopen c0 tail tr s, nreach reopen c0 tail tr s ->
  reopen = false -> past (nenv s) <> [] -> npcs s <> NEnded ->
  (sigD s = true \/ In EvRemove (queue s)) /\
  (npcs s = NSelect -> sigD s = true -> exists s', nstep reopen true s LEof s').
Proof. exact m_remove_ends_notify. Qed.
Print Assumptions C15_remove_ends_notify.
Theorem C15_remove_ends_poll : forall reopen c0 tail tr s, (c0 = None -> reopen = true) -> preach reopen c0 tail tr s ->
  reopen = false -> ppcs s = PStat ->
  forall i off, pfd s = Some (i, off) -> i < length (past (penv s)) ->
  (exists s', pstep reopen true s LEof s' /\ ppcs s' = PEnded) /\
  (forall l s', is_env l = false -> pstep reopen true s l s' -> l = LEof /\ ppcs s' = PEnded).
Proof. exact m_remove_ends_poll. Qed.
Print Assumptions C15_remove_ends_poll.
(* finding C15-poll-plain-recreate (fixed in /repo): with the Stat rule AS FOUND (flag false: the stream ends only
   when os.Stat fails) a removal after drain followed by a re-creation of the path before the poller looks is never
   noticed - the state is reachable and no sequence of reader steps from it ends the stream *)
Theorem C15_remove_ends_poll_asfound_refuted :
  exists tr s, run (pstep false false) (pok []) (pinit (Some cAB) false) tr s /\
    ppcs s = PStat /\ pfd s = Some (0, 2) /\ past (penv s) = [cAB] /\ present (penv s) = true /\
    forall tr' s', run (pstep false false) (fun _ l => is_env l = false) s tr' s' -> ppcs s' <> PEnded.
Proof. exact poll_plain_asfound_never_ends. Qed.
Print Assumptions C15_remove_ends_poll_asfound_refuted.
(* ... and after EOF only the writer and the watcher move: nothing is delivered any more *)
Theorem C15_ended_silent_notify : forall reopen rp s l s', npcs s = NEnded -> nstep reopen rp s l s' ->
  is_env l = true \/ l = LWatch.
Proof. exact m_ended_silent_notify. Qed.
Theorem C15_ended_silent_poll : forall reopen rp s l s', ppcs s = PEnded -> pstep reopen rp s l s' -> is_env l = true.
Proof. exact m_ended_silent_poll. Qed.
Print Assumptions C15_ended_silent_notify.

(* "re-open follow continues with a file re-created at the same path and reads it from its beginning": with a
   descriptor on incarnation i at offset off, delivered = every earlier incarnation completely + the first off
   bytes of incarnation i; without a descriptor nothing of the file at the path has been delivered *)
Theorem C15_reopen_continues_notify : forall reopen c0 tail tr s, nreach reopen c0 tail tr s ->
  (forall i off, nfd s = Some (i, off) ->
     pre_of c0 tail ++ ndel s = concat (firstn i (past (nenv s))) ++ firstn off (content (nenv s) i)) /\
  (nfd s = None -> pre_of c0 tail ++ ndel s = concat (past (nenv s))).
Proof. exact m_reopen_notify. Qed.
Print Assumptions C15_reopen_continues_notify.
Theorem C15_reopen_continues_poll : forall reopen c0 tail tr s, (c0 = None -> reopen = true) -> preach reopen c0 tail tr s ->
  (forall i off, pfd s = Some (i, off) ->
     pre_of c0 tail ++ pdel s = concat (firstn i (past (penv s))) ++ firstn off (content (penv s) i)) /\
  (pfd s = None -> pre_of c0 tail ++ pdel s = concat (past (penv s))).
Proof. exact m_reopen_poll. Qed.
Print Assumptions C15_reopen_continues_poll.

(* PollingFollowReader.readBytes = offset of the descriptor in the current incarnation (0 without one) *)
Theorem C15_poll_offset : forall reopen c0 tail tr s, (c0 = None -> reopen = true) -> preach reopen c0 tail tr s ->
  (forall i off, pfd s = Some (i, off) -> rb s = off) /\ (pfd s = None -> rb s = 0).
Proof. exact m_poll_offset. Qed.
Print Assumptions C15_poll_offset.

(* finding C15-notify-stale-delete: the delete handler AS FOUND (flag false) closes the descriptor on a stale
   delete event; histories of the property (removal after drain) deliver a re-created file twice *)
Theorem C15_prefix_unrepaired_refuted :
  exists tr s, run (nstep true false) (nok []) (ninit (Some cA) false) tr s /\
               forall rest, all (nenv s) <> [] ++ ndel s ++ rest.
Proof. exact unrepaired_duplicates. Qed.
Print Assumptions C15_prefix_unrepaired_refuted.

(* ... and the strongest restriction under which the code AS FOUND is safe (the _partial statement of the
   finding): in addition to "removal after drain", a file is removed only while the reader has it open
   ([nok0]); then the same prefix property holds for every interleaving.  The restriction is satisfiable. *)
Theorem C15_prefix_asfound_partial : forall reopen c0 tail tr s,
  run (nstep reopen false) (nok0 (pre_of c0 tail)) (ninit c0 tail) tr s ->
  exists rest, all (nenv s) = pre_of c0 tail ++ ndel s ++ rest.
Proof. exact asfound_prefix. Qed.
Print Assumptions C15_prefix_asfound_partial.
Example C15_asfound_rotation :
  exists tr s, run (nstep true false) (nok0 []) (ninit (Some cA) false) tr s /\
               ndel s = cA ++ cx /\ all (nenv s) = cA ++ cx.
Proof. exact asfound_rotation_example. Qed.

(* the polling proviso of the property is needed: removal after drain alone allows a gap *)
Theorem C15_poll_proviso_needed :
  exists tr s, run (pstep true true) (fun s l => match l with LRemove => drained [] (penv s) (pdel s) | _ => True end)
                   (pinit (Some cAB) false) tr s /\
               forall rest, all (penv s) <> [] ++ pdel s ++ rest.
Proof. exact poll_proviso_needed. Qed.
Print Assumptions C15_poll_proviso_needed.

(* the restrictions are satisfiable: a rotation, delivered once, by both readers *)
Example C15_rotation_notify :
  exists tr s, nreach true (Some cA) false tr s /\
               ndel s = cA ++ cx /\ all (nenv s) = cA ++ cx /\ nfd s = Some (1, 1).
Proof. exact notify_rotation_example. Qed.
Example C15_rotation_poll :
  exists tr s, preach true (Some cAB) false tr s /\
               pdel s = cAB ++ cx /\ all (penv s) = cAB ++ cx /\ pfd s = Some (1, 1) /\ rb s = 1.
Proof. exact poll_rotation_example. Qed.

(* ---------------------------------------------------------------------------------------------------------
   Eventual delivery, without temporal logic (Proofs/FollowLive.v).  Writer quiescent = only reader / watcher
   steps (labels with is_env = false).  [must step goal k s]: every maximal sequence of such steps from s
   reaches [goal] within k steps and is never stuck before (at each state short of the goal a step exists, and
   EVERY step leads to a state from which the rest holds with k - 1).
   Scheduling assumption: the run is maximal, i.e. the reader goroutine and the fsnotify goroutine are not
   suspended for ever while one of them can move (weak fairness for the pair; no fairness between them, every
   step decreases the measure).  fsnotify guarantees used (rules n_env, n_watch): every append / create puts a
   Write / Create event for the path into the queue read by the goroutine, events are not dropped, and the
   goroutine can always take the next one.  Polling needs neither; it needs a finite ReadAttempts (the budget
   [patt]) and, for a re-created file, the STRICT form of the property's proviso (a new file of exactly
   readBytes bytes is never noticed by the code). *)

(* every reader / watcher step strictly decreases
   nmu = 3 |queued events| + 2 [write signal] + 2 [delete signal] + undelivered bytes + [about to read] *)
Theorem C15_measure_notify : forall reopen c0 tail tr s, nreach reopen c0 tail tr s ->
  forall l s', is_env l = false -> nstep reopen true s l s' -> nmu (pre_of c0 tail) s' < nmu (pre_of c0 tail) s.
Proof. exact m_measure_notify. Qed.
Print Assumptions C15_measure_notify.
(* the descriptor is the file at the path, bytes of it are undelivered, the stream has not ended => a step exists *)
Theorem C15_progress_notify : forall reopen c0 tail tr s, nreach reopen c0 tail tr s ->
  forall off, nfd s = Some (ino (nenv s), off) -> present (nenv s) = true ->
  off < length (curc (nenv s)) -> npcs s <> NEnded -> exists l s', is_env l = false /\ nstep reopen true s l s'.
Proof. exact m_progress_notify. Qed.
Print Assumptions C15_progress_notify.
(* hence: file in place (the descriptor is the file at the path) => everything written is inevitably delivered *)
Theorem C15_eventual_notify : forall reopen c0 tail tr s, nreach reopen c0 tail tr s ->
  fd_current (nenv s) (nfd s) = true -> npcs s <> NEnded ->
  must (nstep reopen true) (ndrained c0 tail) (nmu (pre_of c0 tail) s) s.
Proof. exact m_eventual_notify. Qed.
Print Assumptions C15_eventual_notify.
(* re-open, no descriptor, the re-created file is at the path and a wake-up for it is pending (write signal, or
   a Write / Create event still queued) => it is inevitably opened and delivered completely.  (Without a
   pending wake-up nothing happens until the next write: C15_reopen_wakeup_refuted.) *)
Theorem C15_eventual_reopen_notify : forall reopen c0 tail tr s, nreach reopen c0 tail tr s ->
  reopen = true -> nfd s = None -> present (nenv s) = true ->
  sigW s = true \/ In EvWrite (queue s) \/ In EvCreate (queue s) ->
  must (nstep reopen true) (ndrained c0 tail) (nmu (pre_of c0 tail) s) s.
Proof. exact m_eventual_reopen_notify. Qed.
Print Assumptions C15_eventual_reopen_notify.

(* polling, file in place: pmu = 4 undelivered bytes + {os.Stat: 2, os.Open: 1, read: 0} *)
Theorem C15_measure_poll : forall reopen c0 tail tr s, (c0 = None -> reopen = true) -> preach reopen c0 tail tr s ->
  forall off l s', pfd s = Some (ino (penv s), off) -> present (penv s) = true ->
  off < length (curc (penv s)) -> is_env l = false -> pstep reopen true s l s' ->
  pmu (pre_of c0 tail) s' < pmu (pre_of c0 tail) s.
Proof. exact m_measure_poll. Qed.
Print Assumptions C15_measure_poll.
Theorem C15_progress_poll : forall reopen (s : pstate) off, pfd s = Some (ino (penv s), off) -> present (penv s) = true ->
  off < length (curc (penv s)) -> ppcs s <> PEnded -> exists l s', is_env l = false /\ pstep reopen true s l s'.
Proof. intros reopen s. exact (pprogress reopen s). Qed.
Theorem C15_eventual_poll : forall reopen c0 tail tr s, (c0 = None -> reopen = true) -> preach reopen c0 tail tr s ->
  fd_current (penv s) (pfd s) = true -> ppcs s <> PEnded ->
  must (pstep reopen true) (pdrained c0 tail) (pmu (pre_of c0 tail) s) s.
Proof. exact m_eventual_poll. Qed.
Print Assumptions C15_eventual_poll.
(* polling, re-open, a re-created non-empty file not opened yet, strictly shorter than readBytes (or nothing read
   so far), every removed file delivered: after at most the remaining read attempts, os.Stat and os.Open the new
   file is open at offset 0 and is then delivered completely; bound = cw (3 + attempts left | 2 | 1) + 4 undelivered *)
Theorem C15_eventual_reopen_poll : forall reopen c0 tail tr s, (c0 = None -> reopen = true) -> preach reopen c0 tail tr s ->
  reopen = true -> fd_current (penv s) (pfd s) = false -> present (penv s) = true ->
  0 < size (penv s) -> size (penv s) < rb s \/ rb s = 0 ->
  pre_of c0 tail ++ pdel s = concat (past (penv s)) ->
  must (pstep reopen true) (pdrained c0 tail) (cw s + 4 * undel (pre_of c0 tail) (penv s) (pdel s)) s.
Proof. exact m_eventual_reopen_poll. Qed.
Print Assumptions C15_eventual_reopen_poll.

(* activity on OTHER entries of the followed file's directory (label LSibling: create / write / remove / rename of
   app.log.1, old-app.log, a sub-directory ...) is irrelevant: inserted anywhere in a history it changes neither
   the set of admissible observations (the specification automaton reaches the same state) nor the stream and
   termination the model predicts; in the transition systems it only queues an event that the watcher goroutine
   filters out (notify) / changes nothing at all (poll).  All theorems above quantify over runs containing
   such steps. *)
Theorem C15_siblings_irrelevant : forall reopen tr sp,
  spec_run reopen sp (filter (fun l => negb (is_sibling l)) tr) = spec_run reopen sp tr.
Proof. exact siblings_spec. Qed.
Print Assumptions C15_siblings_irrelevant.
Theorem C15_siblings_irrelevant_model : forall i,
  model (mkcin (i_poll i) (i_reopen i) (i_tail i) (i_c0 i) (filter (fun l => negb (is_sibling l)) (i_hist i))) = model i.
Proof. exact siblings_model. Qed.
Theorem C15_sibling_step_notify : forall reopen rp s s', nstep reopen rp s LSibling s' ->
  nenv s' = nenv s /\ nfd s' = nfd s /\ npcs s' = npcs s /\ sigW s' = sigW s /\ sigD s' = sigD s /\ ndel s' = ndel s /\
  queue s' = queue s ++ [EvOther].
Proof. exact sibling_step_notify. Qed.
Theorem C15_sibling_step_poll : forall reopen rp s s', pstep reopen rp s LSibling s' -> s' = s.
Proof. exact sibling_step_poll. Qed.
Print Assumptions C15_sibling_step_notify.

(* the boolean form evaluated by the correspondence holds for, and the functional projection [model] agrees
   with, every quiescent run: everything that has to be delivered ([want]: re-open = everything written; plain
   follow = the first incarnation only - the stream ends at its removal whatever happens to the path afterwards,
   nothing of a re-created file is expected, [wanted] in [expected]) has been delivered; ended iff plain follow
   and removed *)
Theorem C15_check_sound_notify : forall reopen c0 tail tr s,
  nreach reopen c0 tail tr s -> pre_of c0 tail ++ ndel s = want reopen (nenv s) ->
  nended s = negb reopen && removed_b (nenv s) ->
  let i := mkcin false reopen tail c0 (filter is_env tr) in
  C15_check i (ndel s, termN (nended s), tr) = true /\ obs_eqb (model i) (ndel s, termN (nended s), tr) = true.
Proof. exact check_sound_notify. Qed.
Print Assumptions C15_check_sound_notify.
Theorem C15_check_sound_poll : forall reopen c0 tail, (c0 = None -> reopen = true) -> forall tr s,
  preach reopen c0 tail tr s -> pre_of c0 tail ++ pdel s = want reopen (penv s) ->
  pended s = negb reopen && removed_b (penv s) ->
  let i := mkcin true reopen tail c0 (filter is_env tr) in
  C15_check i (pdel s, termN (pended s), tr) = true /\ obs_eqb (model i) (pdel s, termN (pended s), tr) = true.
Proof. exact check_sound_poll. Qed.
Print Assumptions C15_check_sound_poll.

(* translator obligation (tools/gentables -> Gen/GenSkel.v, regenerated from pkg/extractor/batchers/batcher.go on
   every run): the loop behind TailFilesToChan, syncReaderToBatcherWithTimeFlush, sends its batch and continues
   with a FRESH slice, also after a timed flush of a partial batch - `batch = batch[:0]` would let the next lines
   overwrite entries of a batch the consumer still holds: followed lines lost and duplicated *)
Theorem C15_tail_batches_fresh : Skel.sync_reader_ok GenSkel.skel_sync_reader_flush = true.
Proof. vm_compute. reflexivity. Qed.
