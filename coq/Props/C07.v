(* C07 — Aggregators compute the exact fold of their sample history.
   Property theorems only; proofs live in Proofs/Agg*.v and Proofs/WelfordProof.v.
   Models: Model/Agg.v (counter.go, countersubkey.go, table.go incl. Trim, accumulator.go;
   stringSplitter with the 1-byte separator the aggregators use) and Model/Welford.v (numerical.go
   over exact rationals).  int64 additions wrap (wrap64); wrap64 z = z for z in the int64 range
   (C07_wrap64_small), so below "wrap64 (sum ...)" reads "the sum" unless it overflows. *)
From Coq Require Import String.
From Coq Require Import List NArith ZArith QArith Qround Bool Permutation Sorted.
From RareV Require Import Base.Hex Base.Num Base.Res Model.Agg Model.Welford Corr.C07Case
  Proofs.AggMap Proofs.AggSplit Proofs.AggCounter Proofs.AggSubkey Proofs.AggTableWf Proofs.AggTable Proofs.AggTableTot
  Proofs.AggAccum Proofs.AggTrim Proofs.AggLawDefs Proofs.AggLawMeaning Proofs.AggLaw Proofs.WelfordProof Proofs.AggCheck.
Import ListNotations.
Close Scope Q_scope.

(* ------------------------------------------------------------------ histogram counter *)
(* After any history the counter IS the specification: the items are the keys of the valid samples
   (in key order) each with the sum of its increments (1 when absent, the parsed int64 otherwise),
   errors = number of samples whose increment does not parse (they change nothing else),
   total = sum of all increments. *)
Theorem C07_counter_fold : forall h, c_run h = spec_counter h.
Proof. exact counter_fold_proof. Qed.
Print Assumptions C07_counter_fold.

(* the same, key by key *)
Theorem C07_counter_by_key : forall h k,
  afind k (c_items (c_run h)) =
    (if mem k (map fst (valid2 h)) then Some (wrap64 (sum_for k (valid2 h))) else None) /\
  asorted (c_items (c_run h)).
Proof. exact counter_spec_meaning. Qed.
Print Assumptions C07_counter_by_key.

(* order independence *)
Theorem C07_counter_perm : forall h1 h2, Permutation h1 h2 -> c_run h1 = c_run h2.
Proof. exact counter_perm_proof. Qed.
Print Assumptions C07_counter_perm.

(* ------------------------------------------------------------------ sub-key counter *)
(* After every prefix: subKeys strictly sorted; the index map is exactly "position in subKeys";
   every row vector has the length of subKeys (so insertAti64 and submatches[i] never go out of
   range, with C07_subkey_index_le); row.count = sum of the row vector. *)
Theorem C07_subkey_inv : forall h, sk_inv (s_run h).
Proof. exact subkey_inv_proof. Qed.
Print Assumptions C07_subkey_inv.

Theorem C07_subkey_index_le : forall l e, (snd (insert_alnum l e) <= length l)%nat.
Proof. exact insert_alnum_idx_le. Qed.
Print Assumptions C07_subkey_index_le.

(* the state IS the specification (sorted distinct sub-keys; per key the count and, per sub-key,
   the sum of the increments of that (key, sub-key)) — in particular re-indexing on a smaller
   sub-key shifts every existing row consistently *)
Theorem C07_subkey_fold : forall h, s_run h = spec_subkey h.
Proof. exact subkey_fold_proof. Qed.
Print Assumptions C07_subkey_fold.

Theorem C07_subkey_cell : forall h k s i, nth_error (s_keys (s_run h)) i = Some s ->
  forall c vec, afind k (s_matches (s_run h)) = Some (c, vec) ->
  nth i vec 0%Z = wrap64 (sum_ab k s (valid3 [0%N] h)) /\ c = wrap64 (sum_a k (valid3 [0%N] h)).
Proof. exact subkey_cell_proof. Qed.
Print Assumptions C07_subkey_cell.

Theorem C07_subkey_perm : forall h1 h2, Permutation h1 h2 -> s_run h1 = s_run h2.
Proof. exact subkey_perm_proof. Qed.
Print Assumptions C07_subkey_perm.

(* ------------------------------------------------------------------ table *)
(* The splitter, for ANY non-empty delimiter (tabulate/heatmap/spark --delim): Next() cuts at the
   first occurrence of the WHOLE delimiter — the cut is at an occurrence and no occurrence starts
   earlier (so a proper prefix of the delimiter inside a key never cuts it), and conversely the first
   occurrence is where the cut is; no occurrence = the rest is the last field.  For a one-byte
   delimiter this is the byte cut used by the counters. *)
Theorem C07_split_sound : forall d s p r, d <> [] -> cutd d s = (p, Some r) ->
  s = p ++ d ++ r /\ forall i, (i < length p)%nat -> is_pre d (skipn i s) = None.
Proof. exact cutd_some. Qed.
Theorem C07_split_last : forall d s p, d <> [] -> cutd d s = (p, None) ->
  p = s /\ forall i, is_pre d (skipn i s) = None.
Proof. exact cutd_none. Qed.
Theorem C07_split_complete : forall d x r, d <> [] ->
  (forall i, (i < length x)%nat -> is_pre d (skipn i (x ++ d ++ r)) = None) ->
  cutd d (x ++ d ++ r) = (x, Some r).
Proof. exact cutd_complete. Qed.
Theorem C07_split_prefix : forall d s r, is_pre d s = Some r <-> s = d ++ r.
Proof. exact is_pre_spec. Qed.
Theorem C07_split_one_byte : forall b s, cutd [b] s = cut b s.
Proof. exact cutd_one. Qed.
Print Assumptions C07_split_sound.
Print Assumptions C07_split_last.
Print Assumptions C07_split_complete.
Print Assumptions C07_split_prefix.
Print Assumptions C07_split_one_byte.

(* the fields of a table sample: "a d b d v" with a, b, v free of (earlier) delimiter occurrences is
   column a, row b, increment atoi v (parse error when v is not an int64) *)
Theorem C07_table_fields : forall d a b v, d <> [] ->
  dfree d a (b ++ d ++ v) -> dfree d b v -> (forall i, is_pre d (skipn i v) = None) ->
  parse3 d (a ++ d ++ b ++ d ++ v) = match atoi v with Some z => Some (a, b, z) | None => None end.
Proof. exact parse3_three. Qed.
Print Assumptions C07_table_fields.

(* cells, row sums, column totals and the error count are those of the specification, for EVERY
   delimiter (any length) *)
Theorem C07_table_fold : forall d h, t_run d h = spec_table d h.
Proof. exact table_fold_proof. Qed.
Print Assumptions C07_table_fold.

(* the redundant totals agree with the cells: row.sum = sum of the row's cells, cols[c] = sum over
   the rows of cell (r, c); every row has a cell, every column has a cell *)
Theorem C07_table_totals : forall d h, t_wf (t_run d h) /\ t_totals_ok (t_run d h).
Proof. exact table_wf_proof. Qed.
Print Assumptions C07_table_totals.

(* Sum() = the sum of all increments *)
Theorem C07_table_sum : forall d h, t_sum (t_run d h) = wrap64 (zsum (map snd (valid3 d h))).
Proof. exact table_sum_proof. Qed.
Print Assumptions C07_table_sum.

(* ComputeMinMax = min/max over every row x every column, absent cells counting as 0; (0,0) for an
   empty table.  (The code's sentinels make a minimum of exactly MaxInt64 / a maximum of exactly
   MinInt64 read as 0: stated, not hidden.) *)
Theorem C07_table_minmax : forall d h,
  let t := t_run d h in let vs := t_cellvals t in
  (vs = [] -> t_minmax t = (0, 0)%Z) /\
  (vs <> [] ->
     exists mn mx, In mn vs /\ In mx vs /\ (forall x, In x vs -> (mn <= x <= mx)%Z) /\
       t_minmax t = ((if (mn =? max_int64)%Z then 0 else mn)%Z, (if (mx =? min_int64)%Z then 0 else mx)%Z)).
Proof.
  intros d h t vs. destruct (table_minmax_proof t) as [A B]. split; [exact A|].
  apply B. apply t_cellvals_range.
Qed.
Print Assumptions C07_table_minmax.

Theorem C07_table_perm : forall d h1 h2, Permutation h1 h2 -> t_run d h1 = t_run d h2.
Proof. exact table_perm_proof. Qed.
Print Assumptions C07_table_perm.

(* ------------------------------------------------------------------ Sample / Trim histories *)
(* THE LAW OF THE TABLE.  After ANY history of Sample and Trim calls (Trim as repaired by fix
   C07-trim-stale; every Trim with whatever order Go's map range visited the columns in), the table is
   exactly the table determined by its cells: well-formed cells (rows and cells in key order, no empty
   row); every row sum = sum of its cells; every column total = sum of that column's cells over the
   rows (absent = 0); Columns() = exactly the columns having a cell; Sum() = sum of all cells. *)
Theorem C07_table_law : forall d ops, ops_valid d t0 ops ->
  let t := t_ops d ops in let cs := cells_of t in
  cs_ok cs /\ t = rebuild cs (t_errors t) /\
  (forall r cells sm, In (r, (cells, sm)) (t_rows t) -> sm = wrap64 (zsum (map snd cells))) /\
  (forall c, afind c (t_cols t) = if mem c (allcols cs) then Some (wrap64 (colsum c cs)) else None) /\
  (forall c, In c (map fst (t_cols t)) <-> exists r cells, In (r, cells) cs /\ In c (map fst cells)) /\
  t_sum t = wrap64 (zsum (map (fun rw : bytes * amap Z => zsum (map snd (snd rw))) cs)).
Proof. exact table_law_proof. Qed.
Print Assumptions C07_table_law.

(* ... and the cells themselves follow the straightforward fold: a valid Sample adds its increment to
   one cell, a Trim removes exactly the selected cells and the rows left empty (cs_op / cs_trim) *)
Theorem C07_table_ops : forall d ops, ops_valid d t0 ops ->
  t_ops d ops = rebuild (fst (cs_ops d ops)) (snd (cs_ops d ops)) /\ cs_ok (fst (cs_ops d ops)).
Proof. exact table_ops_proof. Qed.
Print Assumptions C07_table_ops.

(* C07_trim, full statement: on every reachable table, for every predicate and every visiting order,
   Trim removes exactly the selected cells plus any row or column left empty, and all totals are those
   of the remaining cells (spec_trim) *)
Theorem C07_trim : forall d ops pred order, ops_valid d t0 ops ->
  let t := t_ops d ops in Permutation order (map fst (t_cols t)) ->
  trimf_order pred order t = spec_trim pred t.
Proof. exact trim_full_proof. Qed.
Print Assumptions C07_trim.

(* Go's map iteration order never shows: two valid histories with the same calls give the same table *)
Theorem C07_table_order_irrelevant : forall d a b,
  same_calls a b -> ops_valid d t0 a -> ops_valid d t0 b -> t_ops d a = t_ops d b.
Proof. exact table_order_irrelevant. Qed.
Print Assumptions C07_table_order_irrelevant.

(* as found (before fix C07-trim-stale; [trim] is the loop without the recomputation) the full
   statement was false: a value predicate kept an emptied column with its old total ... *)
Theorem C07_trim_asfound_refuted : exists h pred, let t := t_run [0%N] h in trim pred t <> spec_trim pred t.
Proof. exact trim_refuted. Qed.
Print Assumptions C07_trim_asfound_refuted.
(* ... and even for a column predicate the surviving rows kept their old Sum() *)
Theorem C07_trim_asfound_refuted_colpred : exists h sel,
  let pred := fun (c _ : bytes) (_ : Z) => sel c in let t := t_run [0%N] h in trim pred t <> spec_trim pred t.
Proof. exact trim_refuted_colpred. Qed.
Print Assumptions C07_trim_asfound_refuted_colpred.

(* ------------------------------------------------------------------ accumulating group *)
(* for ANY expression evaluator: the row of group g is the fold of the row step (columns evaluated
   left to right, {.} = the column's previous value, column references resolved in the row as it is
   at that moment) over exactly g's samples, starting from the initial values; the groups are the
   distinct group keys *)
Theorem C07_accumulator_fold : forall (E : Type) (eval : E -> bytes -> bytes -> (bytes -> bytes) -> bytes) d h,
  a_run E eval d h = spec_accum E eval d h.
Proof. exact accum_fold_proof. Qed.
Print Assumptions C07_accumulator_fold.

Theorem C07_accumulator_groups : forall (E : Type) eval d h,
  map fst (a_run E eval d h) = usort (map (a_group_key E eval d) h).
Proof. exact accum_groups_proof. Qed.
Print Assumptions C07_accumulator_groups.

(* the set of groups is independent of the sample order; a group expression is evaluated with {.} and
   every named key (data-column names included) reading "" *)
Theorem C07_accumulator_groups_perm : forall (E : Type) eval d h1 h2, Permutation h1 h2 ->
  map fst (a_run E eval d h1) = map fst (a_run E eval d h2).
Proof. exact accum_groups_perm_proof. Qed.
Print Assumptions C07_accumulator_groups_perm.
Theorem C07_accumulator_group_key : forall (E : Type) eval d m,
  a_group_key E eval d m = join0 (map (fun g => eval g m [] (fun _ => [])) (a_groups d)).
Proof. exact accum_group_key_proof. Qed.
Print Assumptions C07_accumulator_group_key.

(* ------------------------------------------------------------------ numerical aggregator (over Q) *)
Open Scope Q_scope.
(* count, parse errors, mean = sum/n, m2 = sum of squared deviations from the mean *)
Theorem C07_welford : forall keep h, let s := n_run keep h in let xs := oks h in
  n_cnt s = length xs /\ n_err s = N.of_nat (length h - length xs) /\
  (xs <> [] -> n_mean s == qsum xs / qn (length xs) /\
               n_m2 s == qsqdev (qsum xs / qn (length xs)) xs).
Proof. exact welford_proof. Qed.
Print Assumptions C07_welford.

(* Variance() is the sample variance (n-1 denominator); StdDev is its square root (math.Sqrt trusted) *)
Theorem C07_variance : forall keep h, let s := n_run keep h in let xs := oks h in
  (2 <= length xs)%nat ->
  n_variance s == qsqdev (qsum xs / qn (length xs)) xs / qn (length xs - 1).
Proof. exact variance_proof. Qed.
Print Assumptions C07_variance.

Theorem C07_minmax : forall keep h,
  n_min (n_run keep h) = qmin_list (oks h) /\ n_max (n_run keep h) = qmax_list (oks h).
Proof. exact minmax_proof. Qed.
Theorem C07_min_is_min : forall l m, qmin_list l = Some m -> In m l /\ forall x, In x l -> m <= x.
Proof. exact qmin_list_spec. Qed.
Theorem C07_max_is_max : forall l m, qmax_list l = Some m -> In m l /\ forall x, In x l -> x <= m.
Proof. exact qmax_list_spec. Qed.
Print Assumptions C07_minmax.
Print Assumptions C07_min_is_min.
Print Assumptions C07_max_is_max.

(* order statistics: Analyze sorts a permutation of the kept values; the i-th ordered value has at
   least i+1 samples <= it and at least n-i samples >= it; Median is the floor(n/2)-th, Quantile(p)
   the floor(n*p)-th for 0 <= p < 1 and the last for p >= 1 (repaired, C07-quantile-one); Mode is a
   value of maximal multiplicity for both sort directions *)
Theorem C07_order_stats :
  (forall h, n_vals (n_run true h) = oks h /\ n_vals (n_run false h) = []) /\
  (forall l, Permutation (qsort l) l /\ Sorted Qle (qsort l)) /\
  (forall l, median (qsort l) = nth (length l / 2) (qsort l) 0) /\
  (forall l i, (i < length l)%nat -> let v := nth i (qsort l) 0 in
     (i < length (filter (fun x => Qle_bool x v) l))%nat /\
     (length l - i <= length (filter (fun x => Qle_bool v x) l))%nat) /\
  (forall l p, l <> [] -> 0 <= p -> p < 1 ->
     quantile l p = Ok (nth (Z.to_nat (Qfloor (qn (length l) * p))) l 0) /\
     (Z.to_nat (Qfloor (qn (length l) * p)) < length l)%nat) /\
  (forall l p, l <> [] -> 1 <= p -> quantile l p = Ok (nth (length l - 1) l 0)) /\
  (forall l', l' <> [] -> forall l, l = qsort l' \/ l = rev (qsort l') ->
     (exists x, In x l /\ mode l == x) /\ forall y, (qcount y l <= qcount (mode l) l)%nat).
Proof.
  split; [exact vals_proof|]. split; [intros l; split; [apply qsort_perm | apply qsort_sorted]|].
  split; [exact median_proof|]. split; [intros l i H; split; [apply rank_le | apply rank_ge]; exact H|].
  split; [exact quantile_proof|]. split; [exact quantile_one|].
  intros l' Hne l [->| ->]; [apply mode_qsort | apply mode_rev_qsort]; exact Hne.
Qed.
Print Assumptions C07_order_stats.

(* Quantile never panics for p >= 0 (in particular 0 <= p <= 1), nor on an empty list *)
Theorem C07_quantile_nopanic : forall l p, 0 <= p -> quantile l p <> Panic.
Proof. exact quantile_nopanic. Qed.
Print Assumptions C07_quantile_nopanic.

Close Scope Q_scope.
(* ------------------------------------------------------------------ glue *)
Theorem C07_wrap64_small : forall z, in_int64 z = true -> wrap64 z = z.
Proof. exact wrap64_small. Qed.
Print Assumptions C07_wrap64_small.

(* the boolean form used on the implementation's outputs accepts everything the model produces
   (counter, sub-key, table, accumulator histories after every prefix; Sample/Trim histories;
   permutation pairs) *)
Theorem C07_check_sound : forall i, exact_kind i -> check i (model i) = true.
Proof. exact check_sound_proof. Qed.
Print Assumptions C07_check_sound.

(* non-vacuity: a history that re-indexes (sub-key "a" arrives after "b"), with an explicit
   increment, a parse error and a wrap-free huge increment *)
Example C07_example :
  s_obs (s_run (map unhex ["6b310062"; "6b3200620035"; "6b31006100782d"; "6b310061002d33"]%string))
  = ([[97]; [98]]%N,
     [([107; 49]%N, ((-2)%Z, [(-3)%Z; 1%Z])); ([107; 50]%N, (5%Z, [0%Z; 5%Z]))],
     1%N).
Proof. vm_compute. reflexivity. Qed.
