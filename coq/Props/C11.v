(* C11 — Scalar helper functions follow their documented semantics.
   Property theorems only; proofs live in Proofs/NumProof.v, FuncsArith.v, FuncsStr.v,
   HumanizeProof.v, CsvItemProof.v, FuncsCheck.v.  Models: Model/Funcs.v (pkg/expressions/stdlib
   funcs*.go), Model/Humanize.v (pkg/humanize), Model/CsvItem.v (funcsCsv.go).
   An argument [A const value fval] records whether it is a template constant or a match group;
   every theorem quantifies over that flag where the code does not care. *)
From Coq Require Import List NArith ZArith Bool.
From RareV Require Import Gen.GenC11 Base.Hex Base.Res Base.Num Model.Humanize Model.CsvItem Model.Funcs
  Proofs.NumProof Proofs.FuncsArith Proofs.FuncsStr Proofs.FuncsSelect Proofs.FuncsCeil Proofs.HumanizeProof Proofs.HumanizeFloatProof Proofs.CsvItemProof Proofs.FuncsCheck.
Import ListNotations.
Local Open Scope Z_scope.

(* strconv round trip (Base/Num.v): what FormatInt prints, Atoi/ParseInt reads back *)
Theorem C11_atoi_itoa : forall z, in_int64 z = true -> atoi (itoa z) = Some z.
Proof. exact atoi_itoa. Qed.
Print Assumptions C11_atoi_itoa.

(* translator obligation + "never a wrong number": the error markers of errors.go are not
   numbers (neither for Atoi nor ParseUint) and are non-empty (truthy-visible) *)
Theorem C11_markers_not_numbers :
  atoi ErrorNum = None /\ atoi ErrorArgCount = None /\ atoi ErrorConst = None /\ atoi ErrorValue = None /\
  atou ErrorNum = None /\ ErrorNum <> [] /\ ErrorArgCount <> [] /\ ErrorValue <> [] /\ ErrorConst <> [].
Proof. exact markers_not_numbers_proof. Qed.
Print Assumptions C11_markers_not_numbers.

(* translator obligations: the separator of humanizeInt is not a digit and is the one stripped;
   the unit tables are non-empty and the steps exceed 1 (used by C11_unitize_law) *)
Theorem C11_gen_tables :
  is_digit baseSeparator = false /\ baseSeparator <> decimalSeparator /\ TruthyVal <> FalsyVal /\ FalsyVal = [] /\
  1 < bytesize_step /\ 1 < bytesizesi_step /\ 1 < downscale_step /\
  bytesize_units <> [] /\ bytesizesi_units <> [] /\ downscale_units <> [].
Proof. vm_compute. repeat split; discriminate. Qed.
Print Assumptions C11_gen_tables.

(* bucket(v, s): for a constant size s > 0 and any integer text v (constant or group) not within s of
   MinInt64, the output is the decimal text of the multiple b of s with b <= v < b + s *)
Theorem C11_bucket_law : forall c0 a sz fa fs v s,
  atoi a = Some v -> atoi sz = Some s -> 0 < s -> min_int64 + s <= v ->
  exists b, f_bucket [A c0 a fa; A true sz fs] = Ok (itoa b) /\ atoi (itoa b) = Some b /\
            (s | b) /\ b <= v < b + s.
Proof. exact bucket_law_proof. Qed.
Print Assumptions C11_bucket_law.

(* that multiple is unique *)
Theorem C11_bucket_unique : forall v s b b', 0 < s ->
  (s | b) -> b <= v < b + s -> (s | b') -> b' <= v < b' + s -> b = b'.
Proof. exact bucket_unique. Qed.
Print Assumptions C11_bucket_unique.

(* bucketrange prints "b - (b+s-1)" for the same b (when b+s-1 fits int64) *)
Theorem C11_bucketrange_law : forall c0 a sz fa fs v s,
  atoi a = Some v -> atoi sz = Some s -> 0 < s -> min_int64 + s <= v ->
  spec_bucket v s + s - 1 <= max_int64 ->
  f_bucketrange [A c0 a fa; A true sz fs] =
    Ok (itoa (spec_bucket v s) ++ [32; 45; 32]%N ++ itoa (spec_bucket v s + s - 1)).
Proof. exact bucketrange_law_proof. Qed.
Print Assumptions C11_bucketrange_law.

(* bucket: a size that is not a constant integer gives <BAD-TYPE>, a non-positive one <VALUE>,
   a non-integer value <BAD-TYPE> *)
Theorem C11_bucket_markers : forall a b,
  (static_int b = None -> f_bucket [a; b] = Ok ErrorNum) /\
  (forall s, static_int b = Some s -> s <= 0 -> f_bucket [a; b] = Ok ErrorValue) /\
  (forall s, static_int b = Some s -> 0 < s -> atoi (a_val a) = None -> f_bucket [a; b] = Ok ErrorNum).
Proof. exact bucket_markers_proof. Qed.
Print Assumptions C11_bucket_markers.

(* clamp returns its argument text iff min <= v <= max (bounds inclusive), else "min" / "max" *)
Theorem C11_clamp_law : forall a lo hi v l h,
  atoi (a_val a) = Some v -> static_int lo = Some l -> static_int hi = Some h ->
  (l <= v <= h -> f_clamp [a; lo; hi] = Ok (a_val a)) /\
  (v < l -> f_clamp [a; lo; hi] = Ok [109; 105; 110]%N) /\
  (l <= v -> h < v -> f_clamp [a; lo; hi] = Ok [109; 97; 120]%N) /\
  (f_clamp [a; lo; hi] = Ok (a_val a) <-> l <= v <= h).
Proof. exact clamp_law_proof. Qed.
Print Assumptions C11_clamp_law.

(* expbucket (after repair C11-expbucket-float): for v >= 1 the output is 10^k with 10^k <= v < 10^(k+1) *)
Theorem C11_expbucket_law : forall c0 a fa v,
  atoi a = Some v -> 1 <= v ->
  exists k, 0 <= k /\ f_expbucket [A c0 a fa] = Ok (itoa (10 ^ k)) /\ 10 ^ k <= v < 10 ^ (k + 1).
Proof. exact expbucket_law_proof. Qed.
Print Assumptions C11_expbucket_law.

(* sumi/subi/multi/divi/modi/maxi/mini over integer operands: the left fold of the int64 operation
   (wrap-around made explicit in iop); a zero divisor gives <VALUE> (after repair C11-divi-zero) *)
Theorem C11_ifold_law : forall f a0 a1 rest z0 z1 zs,
  parses (a0 :: a1 :: rest) (z0 :: z1 :: zs) ->
  f_ifold f (a0 :: a1 :: rest) =
    Ok (match ifold_spec f z0 (z1 :: zs) with Some r => itoa r | None => ErrorValue end).
Proof. exact ifold_law_proof. Qed.
Print Assumptions C11_ifold_law.

(* the operands are checked strictly left to right (fix 2e0440e), constants and groups alike: the FIRST
   operand that fails decides - a non-integer gives <BAD-TYPE>, a zero divisor of divi/modi gives
   <VALUE> - whatever follows it (so `{modi 1023 0 {0} 2 x 3}` is <VALUE> and `{modi 1023 x 0}` is <BAD-TYPE>) *)
Theorem C11_ifold_first_failure : forall f a0 pre z0 zs acc a post,
  atoi (a_val a0) = Some z0 -> parses pre zs -> ifold_spec f z0 zs = Some acc ->
  (atoi (a_val a) = None -> f_ifold f (a0 :: pre ++ a :: post) = Ok ErrorNum) /\
  (atoi (a_val a) = Some 0 -> f = Divi \/ f = Modi -> f_ifold f (a0 :: pre ++ a :: post) = Ok ErrorValue) /\
  (atoi (a_val a0) = Some z0 -> forall b rest, atoi (a_val b) = None -> f_ifold f (b :: a0 :: rest) = Ok ErrorNum).
Proof. exact ifold_first_failure_proof. Qed.
Print Assumptions C11_ifold_first_failure.

(* ... which is the mathematical sum while no partial sum leaves int64, and the list max / min *)
Theorem C11_sumi_sum : forall zs acc, partial_sums_in_range acc zs ->
  ifold_spec Sumi acc zs = Some (fold_left Z.add zs acc).
Proof. exact sumi_spec_proof. Qed.
Theorem C11_maxi_max : forall zs acc, ifold_spec Maxi acc zs = Some (fold_left Z.max zs acc).
Proof. exact maxi_spec_proof. Qed.
Theorem C11_mini_min : forall zs acc, ifold_spec Mini acc zs = Some (fold_left Z.min zs acc).
Proof. exact mini_spec_proof. Qed.
Print Assumptions C11_sumi_sum.
Print Assumptions C11_maxi_max.
Print Assumptions C11_mini_min.

(* divi = truncated quotient, modi = remainder with the sign of the dividend; zero divisor => marker;
   MinInt64 / -1 wraps to MinInt64 as in Go *)
Theorem C11_divi_modi : forall a b x y, parses [a; b] [x; y] ->
  f_ifold Divi [a; b] = Ok (if y =? 0 then ErrorValue
                            else if (x =? min_int64) && (y =? -1) then itoa min_int64
                            else itoa (Z.quot x y)) /\
  f_ifold Modi [a; b] = Ok (if y =? 0 then ErrorValue else itoa (Z.rem x y)).
Proof. exact divi_two_proof. Qed.
Print Assumptions C11_divi_modi.

(* a non-integer operand never yields a number: the output is an error marker, and exactly
   <BAD-TYPE> for the folds without division *)
Theorem C11_ifold_bad_operand : forall f args,
  (exists a, In a args /\ atoi (a_val a) = None) ->
  f_ifold f args = Ok ErrorNum \/ f_ifold f args = Ok ErrorValue \/ f_ifold f args = Ok ErrorArgCount.
Proof. exact ifold_bad_operand_proof. Qed.
Theorem C11_ifold_badtype : forall f a0 a1 rest, f <> Divi -> f <> Modi ->
  (exists a, In a (a0 :: a1 :: rest) /\ atoi (a_val a) = None) ->
  f_ifold f (a0 :: a1 :: rest) = Ok ErrorNum.
Proof. exact ifold_badtype_proof. Qed.
Print Assumptions C11_ifold_bad_operand.
Print Assumptions C11_ifold_badtype.

(* if / unless / not / eq / neq truth tables over truthy (strings.TrimSpace(s) != "") *)
Theorem C11_logic_tables : forall c t e,
  f_if [c; t; e] = Ok (if truthy (a_val c) then a_val t else a_val e) /\
  f_if [c; t] = Ok (if truthy (a_val c) then a_val t else []) /\
  f_unless [c; t] = Ok (if truthy (a_val c) then [] else a_val t) /\
  f_not [c] = Ok (if truthy (a_val c) then [] else TruthyVal) /\
  f_strcmp false [c; t] = Ok (if bytes_eqb (a_val c) (a_val t) then TruthyVal else []) /\
  f_strcmp true [c; t] = Ok (if bytes_eqb (a_val c) (a_val t) then [] else TruthyVal) /\
  (f_strcmp false [c; t] = Ok TruthyVal <-> a_val c = a_val t).
Proof. exact logic_tables_proof. Qed.
Print Assumptions C11_logic_tables.

(* truthy: the empty string and ASCII-blank strings are falsy; a string starting with any other
   ASCII byte is truthy *)
Theorem C11_truthy : truthy [] = false /\
  (forall s, forallb is_ascii_space s = true -> truthy s = false) /\
  (forall b r, (b < 128)%N -> is_ascii_space b = false -> truthy (b :: r) = true).
Proof. exact (conj truthy_nil (conj truthy_ascii_spaces truthy_ascii_head)). Qed.
Print Assumptions C11_truthy.

(* switch: value after the first truthy condition, else the unpaired default, else "" *)
Theorem C11_switch_law : forall ps,
  Forall (fun p => truthy (a_val (fst p)) = false) ps ->
  (forall c v rest, truthy (a_val c) = true -> switch_loop (flat ps ++ c :: v :: rest) = a_val v) /\
  (forall d, switch_loop (flat ps ++ [d]) = a_val d) /\
  switch_loop (flat ps) = [].
Proof. exact switch_law_proof. Qed.
Print Assumptions C11_switch_law.

(* coalesce: the first non-empty argument, else "" *)
Theorem C11_coalesce_law : forall pre,
  Forall (fun a => a_val a = []) pre ->
  (forall a rest, a_val a <> [] -> f_coalesce (pre ++ a :: rest) = Ok (a_val a)) /\
  f_coalesce pre = Ok [].
Proof. exact coalesce_law_proof. Qed.
Print Assumptions C11_coalesce_law.

(* and / or (after repair C11-andor-emptiness): truthy logic as documented, for every argument list:
   and is truthy iff every argument is truthy, or iff some argument is *)
Theorem C11_andor_law : forall args,
  f_and args = Ok (spec_and args) /\ f_or args = Ok (spec_or args) /\
  (f_and args = Ok TruthyVal <-> Forall (fun a => truthy (a_val a) = true) args) /\
  (f_or args = Ok TruthyVal <-> Exists (fun a => truthy (a_val a) = true) args).
Proof. exact andor_law_proof. Qed.
(* the emptiness test found on the pinned tree was not that law *)
Theorem C11_andor_asfound_refuted :
  (exists args, tstr (forallb (fun a => nonempty (a_val a)) args) <> spec_and args) /\
  (exists args, tstr (existsb (fun a => nonempty (a_val a)) args) <> spec_or args).
Proof. exact andor_asfound_refuted_proof. Qed.
Print Assumptions C11_andor_law.
Print Assumptions C11_andor_asfound_refuted.

(* ceil / floor (after repair C11-ceil-overflow) on the exact value m * 2^e of the float64 argument:
   the mathematical ceiling / floor when it fits int64, otherwise (and for NaN, Inf) the <VALUE>
   marker, never a wrong number; a non-number gives <BAD-TYPE> *)
Theorem C11_ceilfloor_spec : forall m e,
  (0 <= e -> ffloor m e = m * 2 ^ e /\ fceil m e = m * 2 ^ e) /\
  (e < 0 -> let d := 2 ^ (- e) in
            ffloor m e * d <= m < (ffloor m e + 1) * d /\
            (fceil m e - 1) * d < m <= fceil m e * d).
Proof. exact ffloor_spec_proof. Qed.
Theorem C11_ceilfloor_law : forall up a,
  (a_f a = None -> f_ceilfloor up [a] = Ok ErrorNum) /\
  (forall m e, a_f a = Some (FFin m e) ->
     let r := if up then fceil m e else ffloor m e in
     f_ceilfloor up [a] = Ok (if in_int64 r then itoa r else ErrorValue)) /\
  (forall v, a_f a = Some v -> (v = FNaN \/ v = FNegInf \/ v = FPosInf) -> f_ceilfloor up [a] = Ok ErrorValue).
Proof. exact ceilfloor_law_proof. Qed.
Theorem C11_ceil_asfound_refuted :
  fceil 1 100 = 2 ^ 100 /\ in_int64 (fceil 1 100) = false /\
  atoi (itoa min_int64) = Some min_int64 /\ min_int64 <> fceil 1 100.
Proof. exact ceil_asfound_refuted_proof. Qed.
Print Assumptions C11_ceilfloor_spec.
Print Assumptions C11_ceilfloor_law.
Print Assumptions C11_ceil_asfound_refuted.

(* lt/gt/lte/gte on the exact values ParseFloat produced: a non-number gives <BAD-TYPE>; the four
   tests are mutually consistent (gt = flipped lt, lte = not gt unless a NaN is involved, NaN
   compares false), and on integers they are the integer order *)
Theorem C11_numcmp_markers : forall test a b,
  (a_f a = None \/ a_f b = None -> f_numcmp test [a; b] = Ok ErrorNum) /\
  (forall x y, a_f a = Some x -> a_f b = Some y -> f_numcmp test [a; b] = Ok (tstr (test x y))).
Proof. exact numcmp_markers_proof. Qed.
Theorem C11_numcmp_law : forall a b,
  f_gt a b = f_lt b a /\ f_ge a b = f_le b a /\
  (f_lt a b = true -> f_le a b = true) /\
  (fcompare a b <> None -> f_le a b = negb (f_gt a b) /\ f_ge a b = negb (f_lt a b)) /\
  (fcompare a b = None -> f_lt a b = false /\ f_le a b = false /\ f_gt a b = false /\ f_ge a b = false) /\
  f_lt a a = false.
Proof. exact numcmp_law_proof. Qed.
Theorem C11_numcmp_ints : forall a b, fcompare (f_of_Z a) (f_of_Z b) = Some (a ?= b).
Proof. exact fcompare_ints. Qed.
Print Assumptions C11_numcmp_markers.
Print Assumptions C11_numcmp_law.
Print Assumptions C11_numcmp_ints.
(* the comparison of finite values is the order of the rationals m * 2^e: it does not depend on the
   common scale the two mantissas are brought to *)
Theorem C11_numcmp_scale : forall m1 e1 m2 e2 e0, e0 <= Z.min e1 e2 ->
  fcompare (FFin m1 e1) (FFin m2 e2) = Some (m1 * 2 ^ (e1 - e0) ?= m2 * 2 ^ (e2 - e0)).
Proof. exact fcompare_scale_proof. Qed.
Print Assumptions C11_numcmp_scale.

(* prefix / suffix / like return the string iff it starts with / ends with / contains the pattern *)
Theorem C11_str2_law : forall a b,
  (f_str2 is_prefix [a; b] = Ok (a_val a) \/ f_str2 is_prefix [a; b] = Ok []) /\
  ((exists r, a_val a = a_val b ++ r) -> f_str2 is_prefix [a; b] = Ok (a_val a)) /\
  (~ (exists r, a_val a = a_val b ++ r) -> f_str2 is_prefix [a; b] = Ok []) /\
  ((exists r, a_val a = r ++ a_val b) -> f_str2 is_suffix [a; b] = Ok (a_val a)) /\
  (~ (exists r, a_val a = r ++ a_val b) -> f_str2 is_suffix [a; b] = Ok []) /\
  ((exists x y, a_val a = x ++ a_val b ++ y) -> f_str2 contains [a; b] = Ok (a_val a)) /\
  (~ (exists x y, a_val a = x ++ a_val b ++ y) -> f_str2 contains [a; b] = Ok []).
Proof. exact str2_law_proof. Qed.
Print Assumptions C11_str2_law.

(* substr (after repair C11-substr-overflow): for every int64 pos and length, the output is the
   window [lo, hi) of the string: negative pos counts from the end, everything clamped, no panic *)
Theorem C11_substr_law : forall s l n lv nv,
  a_val s <> [] -> atoi (a_val l) = Some lv -> atoi (a_val n) = Some nv ->
  let len := Z.of_nat (length (a_val s)) in
  let lo := if (lv <? 0)%Z then Z.max (lv + len) 0 else Z.min lv len in
  let hi := Z.min (lo + Z.max nv 0) len in
  f_substr [s; l; n] = Ok (slice (a_val s) lo hi) /\
  (0 <= lo <= hi)%Z /\ (hi <= len)%Z /\
  exists pre post, a_val s = pre ++ slice (a_val s) lo hi ++ post /\
    Z.of_nat (length pre) = lo /\ Z.of_nat (length (slice (a_val s) lo hi)) = (hi - lo)%Z.
Proof. exact substr_law_proof. Qed.
Theorem C11_substr_markers : forall s l n,
  (a_val s = [] -> f_substr [s; l; n] = Ok []) /\
  (a_val s <> [] -> atoi (a_val l) = None \/ atoi (a_val n) = None -> f_substr [s; l; n] = Ok ErrorNum).
Proof. exact substr_markers_proof. Qed.
Print Assumptions C11_substr_law.
Print Assumptions C11_substr_markers.

(* select: for words free of delimiters and quotes joined by one delimiter (space, tab, newline or
   NUL), the idx-th word (0-based), and the empty string beyond the last; quoted fields and
   delimiter runs are covered by the correspondence only *)
Theorem C11_select_law : forall d words idx,
  is_sel_delim d = true -> Forall plain_word words -> words <> [] -> (0 <= idx)%Z ->
  select_field (join d words) idx = nth (Z.to_nat idx) words [].
Proof. exact select_law_proof. Qed.
Print Assumptions C11_select_law.

(* select, general form: words free of delimiters and quotes separated by arbitrary non-empty runs of
   delimiters: the idx-th word, the empty string beyond the last; a leading delimiter makes field 0
   empty.  (Quoted fields remain tied by the correspondence only.) *)
Theorem C11_select_runs_law : forall w0 rest idx,
  plain_word w0 -> Forall (fun p => delim_run (fst p) /\ plain_word (snd p)) rest -> (0 <= idx)%Z ->
  select_field (w0 ++ tail_runs rest) idx = nth (Z.to_nat idx) (w0 :: map snd rest) [].
Proof. exact select_runs_law_proof. Qed.
Theorem C11_select_leading_delim : forall c s, is_sel_delim c = true -> select_field (c :: s) 0 = [].
Proof. exact select_leading_delim_proof. Qed.
Print Assumptions C11_select_runs_law.
Print Assumptions C11_select_leading_delim.

(* tab / $ : arguments joined by the separator *)
Theorem C11_join_law : forall sep a r, r <> [] -> join sep (a :: r) = a ++ sep :: join sep r.
Proof. exact join_law_proof. Qed.
Print Assumptions C11_join_law.

(* {csv a1 .. an} (n >= 1) read by an RFC 4180 record reader gives back a1 .. an, for all byte strings *)
Theorem C11_csv_roundtrip : forall args, args <> [] -> rfc4180_row (csv_row args) = Some args.
Proof. exact csv_roundtrip_proof. Qed.
(* and a field is left unquoted exactly when it has no quote, comma, CR or LF *)
Theorem C11_csv_plain : forall a,
  csv_item a = a <-> forallb (fun b => negb (special b)) a = true.
Proof. exact csv_item_plain_iff_proof. Qed.
Print Assumptions C11_csv_roundtrip.
Print Assumptions C11_csv_plain.

(* hi (after repair C11-hi-minint64) only inserts thousands separators, for every integer incl.
   MinInt64: stripping them gives FormatInt's text; from the right every 4th character, and only
   those, is a separator and the leftmost character is a digit *)
Theorem C11_hi_law : forall z,
  strip_sep (humanize_int z) = itoa z /\ well_grouped (humanize_int z) = true.
Proof. exact hi_law_proof. Qed.
Print Assumptions C11_hi_law.

(* hf (after repair C11-hf-rounding): for every finite v and every text sign? digits (. rest)? that
   strconv prints for it, the output is that text with the integer digits grouped exactly as hi
   groups them (so: no separator iff at most 3 integer digits, decided on the rounded text) *)
Theorem C11_hf_law : forall m e sign ds frac,
  sign = [] \/ sign = [45%N] -> ds <> [] -> digits ds -> frac_ok frac ->
  humanize_float (FFin m e) (sign ++ ds ++ frac) = Ok (sign ++ group3 ds ++ frac).
Proof. exact hf_law_proof. Qed.
(* ... hence hf only inserts thousands separators: stripping them gives back the text, and the part
   before the decimal point is grouped in threes from the right *)
Theorem C11_hf_grouping : forall sign ds frac,
  sign = [] \/ sign = [45%N] -> ds <> [] -> digits ds -> frac_ok frac -> strip_sep frac = frac ->
  let out := sign ++ group3 ds ++ frac in
  strip_sep out = sign ++ ds ++ frac /\
  well_grouped (firstn (match index_of decimalSeparator out with Some i => i | None => length out end) out) = true.
Proof. exact hf_check_proof. Qed.
(* the forward loop of humanizeFloat and the backward loop of humanizeInt group identically *)
Theorem C11_hf_loop_group3 : forall ds, hf_loop ds 0 (3 - length ds mod 3) = group3 ds.
Proof. exact hf_loop_group3. Qed.
Print Assumptions C11_hf_law.
Print Assumptions C11_hf_grouping.
Print Assumptions C11_hf_loop_group3.

(* precision arguments of round / bytesize / bytesizesi / downscale / percent (after repair
   C11-precision-unbounded): a constant beyond maxPrecision gives <VALUE>; translator obligation:
   the bound covers every float64 digit and keeps the output small *)
Theorem C11_precision_law : forall a p pv orc, static_int p = Some pv -> maxPrecision < pv ->
  f_round [a; p] orc = Ok ErrorValue /\
  (forall un step delim units, f_unitize un step delim units [a; p] orc = Ok ErrorValue) /\
  f_percent [a; p] orc = Ok ErrorValue /\
  (forall x, f_percent [a; p; x] orc = Ok ErrorValue) /\
  (forall x y, f_percent [a; p; x; y] orc = Ok ErrorValue).
Proof. exact precision_law_proof. Qed.
Theorem C11_precision_bound : 1074 <= maxPrecision <= 100000.
Proof. vm_compute. split; discriminate. Qed.
Print Assumptions C11_precision_law.
Print Assumptions C11_precision_bound.

(* bytesize / bytesizesi (after repair C11-bytesize-uint64-wrap): for every uint64 the printed size is
   not negative (given that Go prints a non-negative mantissa for a non-negative float) *)
Theorem C11_bytesize_nonneg : forall u step delim units mant,
  is_prefix [45%N] mant = false -> mant <> [] ->
  is_prefix [45%N] (unitize (Z.of_N u) step delim units mant) = false.
Proof. exact bytesize_nonneg_proof. Qed.
Print Assumptions C11_bytesize_nonneg.

(* bytesize / bytesizesi / downscale: below the step the integer and the first unit; otherwise the unit
   of rank r with step^r <= |n| and (|n| < step^(r+1) or r is the last unit); the mantissa text is Go's *)
Theorem C11_unitize_law : forall n step delim units mant, 1 < step -> units <> [] ->
  (- step < n < step -> unitize n step delim units mant = itoa n ++ unit_suffix delim (nth 0 units [])) /\
  (~ (- step < n < step) ->
     exists r, (r < length units)%nat /\
       unitize n step delim units mant = mant ++ unit_suffix delim (nth r units []) /\
       step ^ Z.of_nat r <= Z.abs n /\ (S r = length units \/ Z.abs n < step ^ (Z.of_nat r + 1))).
Proof. exact unitize_law_proof. Qed.
Print Assumptions C11_unitize_law.

(* lookup / haskey: the last binding of a key wins; an unbound key is absent *)
Theorem C11_lookup_law : forall k t1 v t2 found,
  (forall v', ~ In (k, v') t2) -> assoc_last k (t1 ++ (k, v) :: t2) found = Some v.
Proof. exact lookup_law_proof. Qed.
Theorem C11_lookup_unbound : forall k t, (forall v, ~ In (k, v) t) -> assoc_last k t None = None.
Proof. exact lookup_unbound_proof. Qed.
Print Assumptions C11_lookup_law.
Print Assumptions C11_lookup_unbound.

(* the boolean form used on the implementation's outputs accepts everything the model produces;
   C11_guard only asks that the oracle texts are well-formed (hf: sign? digits (. rest)? without
   separators; bytesize: a non-empty, non-negative mantissa text) *)
Theorem C11_check_sound : forall c, C11_guard c -> C11_check c (eval c) = true.
Proof. exact C11_check_sound_proof. Qed.
Print Assumptions C11_check_sound.

(* non-vacuity: the repaired behaviours on the inputs of the findings, and a CSV row *)
Example C11_examples :
  C11_guard (Bucket, [A false [45; 49; 48; 48]%N None; A true [53; 48]%N None], []%list) /\
  eval (Bucket, [A false [45; 49; 48; 48]%N None; A true [53; 48]%N None], []%list) = Ok [45; 49; 48; 48]%N /\
  eval (Hi, [A false [45; 57; 50; 50; 51; 51; 55; 50; 48; 51; 54; 56; 53; 52; 55; 55; 53; 56; 48; 56]%N None], []%list)
    = Ok [45; 57; 44; 50; 50; 51; 44; 51; 55; 50; 44; 48; 51; 54; 44; 56; 53; 52; 44; 55; 55; 53; 44; 56; 48; 56]%N /\
  eval (Divi, [A false [49]%N None; A false [48]%N None], []%list) = Ok ErrorValue /\
  eval (Substr, [A true [97; 98; 99]%N None; A true [49]%N None;
                 A true [57; 50; 50; 51; 51; 55; 50; 48; 51; 54; 56; 53; 52; 55; 55; 53; 56; 48; 55]%N None], []%list) = Ok [98; 99]%N /\
  eval (Csv, [A false [97; 44; 34]%N None; A true []%list None], []%list) = Ok [34; 97; 44; 34; 34; 34; 44]%N.
Proof. exact guard_examples. Qed.

(* the second round of repairs on the inputs of their findings *)
Example C11_repaired_examples :
  eval (Hf, [A true [57;57;57;46;57;57;57;57;57]%N (Some (FFin 4398046467123535 (-42)))], [49;48;48;48;46;48;48;48;48]%N)
    = Ok [49;44;48;48;48;46;48;48;48;48]%N /\
  hf_text [49;48;48;48;46;48;48;48;48]%N /\
  eval (Bytesize, [A true [49;56;52;52;54;55;52;52;48;55;51;55;48;57;53;53;49;54;49;53]%N None], [49;54]%N)
    = Ok [49;54;32;69;66]%N /\
  eval (Ceil, [A true [49;101;51;48]%N (Some (FFin 1 100))], []%list) = Ok ErrorValue /\
  eval (And, [A true [32]%N None; A true [97]%N None], []%list) = Ok []%list /\
  eval (Or, [A true [32]%N None], []%list) = Ok []%list.
Proof. exact repaired_examples. Qed.
