(* C12 — Dissect matching equals its specification; ignore-case only adds matches.
   Property theorems only; proofs live in Proofs/Dissect*.v and Proofs/IntPoolProof.v.
   Models: Model/Dissect.v (dissect.go CompileEx/FindSubmatchIndex, case.go indexIgnoreCase, after
   the repairs of defects #14 and #24), Model/IntPool.v (slicepool/intpool.go), Model/DissectRun.v
   (a DissectInstance over a sequence of lines; observables; boolean form). *)
From Coq Require Import List NArith ZArith Bool Arith.
From RareV Require Import Base.Hex Base.Res Model.Dissect Model.IntPool Model.DissectRun.
From RareV Require Import Proofs.DissectSearch Proofs.DissectFind Proofs.DissectCase
  Proofs.DissectCompile Proofs.DissectCompileSpec Proofs.IntPoolProof Proofs.DissectRunProof Proofs.DissectSpan Proofs.DissectSched.
Import ListNotations.

(* ---- the search primitive (strings.Index / indexIgnoreCase) ---- *)

(* index_of returns i exactly when the needle occurs at i and at no smaller offset (for either
   byte comparison: f = fold_id is strings.Index, f = lower is indexIgnoreCase) *)
Theorem C12_index_of_first : forall f needle hay i,
  index_of f needle hay = Some i <->
  occurs f needle hay i /\ forall j, j < i -> ~ occurs f needle hay j.
Proof. exact index_of_some. Qed.
Print Assumptions C12_index_of_first.

(* ... and fails exactly when the needle occurs nowhere; the empty needle is found at 0 *)
Theorem C12_index_of_none : forall f needle hay,
  index_of f needle hay = None <-> forall j, ~ occurs f needle hay j.
Proof. exact index_of_none. Qed.
Print Assumptions C12_index_of_none.

Theorem C12_index_of_empty : forall f hay, index_of f [] hay = Some 0.
Proof. exact index_of_empty. Qed.
Print Assumptions C12_index_of_empty.

(* ---- clause 1: the result equals the specification ---- *)

(* for every compiled pattern d (any prefix, tokens, flags), every line and either comparison:
   FindSubmatchIndex returns r (or nil) exactly when the specification relates d and the line to r
   (first occurrence of the leading literal; per token the first following occurrence of its
   trailing literal, or the end of the line if it has none) — resp. when no r is related *)
Theorem C12_find_spec : forall f d line r, find_f f d line = r <-> dissect_spec f d line r.
Proof. exact find_spec_proof. Qed.
Print Assumptions C12_find_spec.

(* the specification determines the result *)
Theorem C12_spec_functional : forall f d line r1 r2,
  match_spec f d line r1 -> match_spec f d line r2 -> r1 = r2.
Proof. exact match_spec_fun. Qed.
Print Assumptions C12_spec_functional.

(* ---- clause 3: offsets ordered and within the line; {0} ---- *)

(* a result is [s0; e; c1; c2; ...] with s0 + |prefix| <= c1 <= c2 <= ... <= e <= |line| and one
   (start, end) pair per non-skipped token; by C12_find_spec s0 is the first occurrence of the
   leading literal and e the offset just after the last token's delimiter *)
Theorem C12_offsets_ordered : forall f d line s0 e caps,
  find_f f d line = Some (s0 :: e :: caps) ->
  chainb (s0 + length (d_prefix d)) caps e = true /\ e <= length line /\
  length caps = 2 * length (nonskip (d_tokens d)).
Proof. exact offsets_ordered_proof. Qed.
Print Assumptions C12_offsets_ordered.

(* what {0} spans: the line is pre ++ p' ++ body ++ post where pre ends at s0, p' is the text that
   matched the leading literal, body is (value ++ delimiter) for every token in order (skipped or
   not), and e is the offset at which body ends, i.e. just after the last delimiter *)
Theorem C12_span : forall f d line s0 e caps,
  find_f f d line = Some (s0 :: e :: caps) ->
  exists pre p' body post,
    line = pre ++ p' ++ body ++ post /\ length pre = s0 /\ map f p' = d_prefix d /\
    body_of f (d_tokens d) body /\ e = s0 + length p' + length body.
Proof. exact span_proof. Qed.
Print Assumptions C12_span.

(* ---- clause 2: %{} and %{?name} consume without capturing ---- *)

(* matching with skip flags = matching the same tokens all captured, then dropping the flagged
   spans: the end offset and all other captures are unchanged *)
Theorem C12_skip_consume : forall f line toks s,
  scan f toks line s =
  match scan f (map unskip toks) line s with
  | None => None
  | Some (all, e) => Some (select (map t_skip toks) all, e)
  end.
Proof. exact skip_consume_proof. Qed.
Print Assumptions C12_skip_consume.

(* a skipped token contributes no offsets; matching continues after its delimiter *)
Theorem C12_skip_token : forall f t ts line s off,
  t_skip t = true -> until_off f t line s = Some off ->
  scan f (t :: ts) line s = scan f ts line (s + off + length (t_until t)).
Proof. exact skip_token_proof. Qed.
Print Assumptions C12_skip_token.

(* ---- clause 4: ignore-case only adds matches ---- *)

(* generic form: whatever byte map f folds both the pattern literals and the line bytes, a
   case-sensitive match implies a match under f *)
Theorem C12_ic_monotone_gen : forall f ic d line r,
  find_f fold_id d line = Some r -> exists r', find_f f (fold_lits ic f d) line = Some r'.
Proof. exact ic_monotone_gen_proof. Qed.
Print Assumptions C12_ic_monotone_gen.

(* for the compiler and matcher of the (repaired) code: same pattern, same line *)
Theorem C12_ic_monotone : forall pat d line,
  compile false pat = COk d -> find d line <> None ->
  exists d', compile true pat = COk d' /\ find d' line <> None /\ d_names d' = d_names d.
Proof. exact ic_monotone_proof. Qed.
Print Assumptions C12_ic_monotone.

(* compile errors, tokens, flags and the name table do not depend on the mode: compiling with
   folding = compiling case-sensitively and folding the literals *)
Theorem C12_compile_mode : forall ic f pat,
  compile_f ic f pat = cres_map (fold_lits ic f) (compile_f false fold_id pat).
Proof. exact compile_fold_proof. Qed.
Print Assumptions C12_compile_mode.

(* ---- clause 5: ignore-case = case-sensitive on lower-cased pattern and line ---- *)

(* the ignore-case instance of a pattern has the lower-cased literals of the case-sensitive one,
   and matching a line with it equals matching the lower-cased line case-sensitively against those
   lower-cased literals (ASCII lower-casing bytewise; bytes >= 0x80 are compared exactly) *)
Theorem C12_ic_ascii : forall pat d,
  compile false pat = COk d ->
  compile true pat = COk (fold_lits true lower d) /\
  forall line, find (fold_lits true lower d) line = find (fold_lits false lower d) (map lower line).
Proof. exact ic_ascii_proof. Qed.
Print Assumptions C12_ic_ascii.

(* ... and the lower-cased literals are those of the lower-cased pattern text: compiling
   map lower pat case-sensitively yields the same prefix, delimiters and skip flags *)
Theorem C12_ic_lowered_pattern : forall pat d1 d2,
  compile true pat = COk d1 -> compile false (map lower pat) = COk d2 ->
  d_prefix d2 = d_prefix d1 /\
  map (fun t => (t_until t, t_skip t)) (d_tokens d2) = map (fun t => (t_until t, t_skip t)) (d_tokens d1).
Proof. exact lowered_pattern_proof. Qed.
Print Assumptions C12_ic_lowered_pattern.

(* ---- clause 6: results returned for earlier lines are not altered by later lines ---- *)

(* IntPool: after ANY sequence of (Get n; writes through the returned slice), every slice handed
   out reads exactly what its own writes put on zeroed memory *)
Theorem C12_pool_stable : forall size ops sls p',
  run_ops (new_pool size) ops = Ok (sls, p') ->
  Forall2 (fun sl o => read (p_heap p') sl = expected o) sls ops.
Proof. exact pool_stable_proof. Qed.
Print Assumptions C12_pool_stable.

(* ... in particular what a slice read after some operations is what it reads after any more *)
Theorem C12_pool_stable_split : forall size ops1 ops2 sls1 p1 sls2 p2,
  run_ops (new_pool size) ops1 = Ok (sls1, p1) -> run_ops p1 ops2 = Ok (sls2, p2) ->
  Forall (fun sl => read (p_heap p2) sl = read (p_heap p1) sl) sls1.
Proof. exact pool_stable_split_proof. Qed.
Print Assumptions C12_pool_stable_split.

(* the matcher on its pool: for any number of lines on one instance no Get or index panics, and
   each returned slice holds the offsets of its own line both when returned and after the last call *)
Theorem C12_instance_stable : forall d lines,
  d_names d = map t_name (nonskip (d_tokens d)) ->
  exists xs p', run_lines d (create_instance d) lines = Ok (xs, p') /\
    map snd xs = map (fun l => option_map (map Z.of_nat) (find d l)) lines /\
    map (fun x => option_map (read (p_heap p')) (fst x)) xs = map snd xs.
Proof. exact instance_stable_proof. Qed.
Print Assumptions C12_instance_stable.

(* factory-level contract: instances created from one compiled pattern share no mutable state.
   For any number w of instances (each with its own pool) and ANY interleaving of calls
   (instance, line) over them, no call panics, every call returns the offsets of its own line alone
   (independent of every other call on this or any other instance), and the returned slice still
   reads the same through its instance's heap after the whole schedule *)
Theorem C12_instances_independent : forall d w sched,
  d_names d = map t_name (nonskip (d_tokens d)) -> Forall (fun c => fst c < w) sched ->
  exists xs ps, run_sched d (instances d w) sched = Ok (xs, ps) /\
    Forall2 (fun c x =>
               fst (fst x) = fst c /\
               snd x = option_map (map Z.of_nat) (find d (snd c)) /\
               option_map (read (p_heap (nth (fst c) ps dflt))) (snd (fst x)) = snd x) sched xs.
Proof. exact instances_independent_proof. Qed.
Print Assumptions C12_instances_independent.

(* in observable form: the model that simulates the pool (results at return, results re-read at the
   end) equals the pool-free closed form in which both are the offsets computed by find *)
Theorem C12_model_closed_form : forall i, model i = model_fast i.
Proof. exact model_fast_eq. Qed.
Print Assumptions C12_model_closed_form.

(* ---- the compiler ---- *)

(* the loop always finishes within its fuel *)
Theorem C12_compile_total : forall ic f pat, compile_f ic f pat <> CFuel.
Proof. exact compile_total_proof. Qed.
Print Assumptions C12_compile_total.

(* the name table: the non-skipped tokens in order, pairwise distinct *)
Theorem C12_compile_names : forall ic f pat d,
  compile_f ic f pat = COk d -> d_names d = map t_name (nonskip (d_tokens d)) /\ NoDup (d_names d).
Proof. exact compile_names_proof. Qed.
Print Assumptions C12_compile_names.

(* C12_compile_errors.  A pattern text  prefix %{k1}u1 %{k2}u2 ... %{kn}un  whose literals contain
   no "%{", whose keys contain no "}" and whose delimiters are non-empty except possibly the last
   compiles to exactly those tokens (keys "" and "?x" skipped), or to a key conflict if a
   non-skipped name repeats *)
Theorem C12_compile_ok : forall ic f raw,
  wf_raw raw -> dup_free (raw_toks raw) [] = true ->
  compile_f ic f (render raw) = COk (build ic f raw).
Proof. exact compile_ok_proof. Qed.
Print Assumptions C12_compile_ok.

Theorem C12_compile_conflict : forall ic f raw,
  wf_raw raw -> dup_free (raw_toks raw) [] = false ->
  compile_f ic f (render raw) = CErr EConflict.
Proof. exact compile_conflict_proof. Qed.
Print Assumptions C12_compile_conflict.

(* a well-formed part (every delimiter non-empty, no conflict) followed by "%{" and no "}" : unclosed *)
Theorem C12_compile_unclosed : forall ic f raw tail,
  wf_raw raw -> all_delims raw = true -> dup_free (raw_toks raw) [] = true -> ~ In 125%N tail ->
  compile_f ic f (render raw ++ PB ++ tail) = CErr EUnclosed.
Proof. exact compile_unclosed_proof. Qed.
Print Assumptions C12_compile_unclosed.

(* ... followed by a token that is immediately followed by another "%{" : sequential tokens
   (reported before a key conflict of that same token) *)
Theorem C12_compile_sequential : forall ic f raw key tail,
  wf_raw raw -> all_delims raw = true -> dup_free (raw_toks raw) [] = true -> ~ In 125%N key ->
  compile_f ic f (render raw ++ PB ++ key ++ CB ++ PB ++ tail) = CErr ESequential.
Proof. exact compile_sequential_proof. Qed.
Print Assumptions C12_compile_sequential.

(* ---- the boolean form used on the implementation's outputs accepts everything the model produces ---- *)
Theorem C12_check_sound : forall i, C12_check i (model i) = true.
Proof. exact check_sound_proof. Qed.
Print Assumptions C12_check_sound.

(* ---- non-vacuity / the two repaired defects on their witnesses ---- *)
From Coq Require Import String.
Definition s2b := of_str.
Definition eacute : bytes := [195; 169]%N.
Local Open Scope string_scope.

(* the package's own test vector *)
Example C12_example_basic :
  match compile false (s2b "%{val};%{};%{?skip} - %{val2}") with
  | COk d => find d (s2b "Hello;a;b - there") = Some [0; 17; 0; 5; 12; 17] /\ d_names d = [s2b "val"; s2b "val2"]
  | _ => False
  end.
Proof. vm_compute. split; reflexivity. Qed.

(* defect #24 repaired: the literal " 50% " is kept whole *)
Example C12_example_percent :
  match compile false (s2b "%{a} 50% %{b}") with
  | COk d => find d (s2b "x 50% y") = Some [0; 7; 0; 1; 6; 7]
  | _ => False
  end.
Proof. vm_compute. reflexivity. Qed.

(* defect #14 repaired: a multi-byte literal (e-acute = C3 A9) matches with ignore-case as it does without *)
Example C12_example_utf8_ic :
  match compile true (eacute ++ s2b "%{x};")%list, compile false (eacute ++ s2b "%{x};")%list with
  | COk di, COk dc => find di (eacute ++ s2b "abc;")%list = Some [0; 6; 2; 5] /\
                      find dc (eacute ++ s2b "abc;")%list = Some [0; 6; 2; 5]
  | _, _ => False
  end.
Proof. vm_compute. split; reflexivity. Qed.

(* ignore-case strictly adds matches *)
Example C12_example_ic_adds :
  match compile true (s2b "pref %{val} post"), compile false (s2b "pref %{val} post") with
  | COk di, COk dc => find di (s2b "a Pref 5 pOst") = Some [2; 13; 7; 8] /\ find dc (s2b "a Pref 5 pOst") = None
  | _, _ => False
  end.
Proof. vm_compute. split; reflexivity. Qed.

Example C12_example_errors :
  compile false (s2b "unclosed %{") = CErr EUnclosed /\
  compile false (s2b "a %{a} %{a}") = CErr EConflict /\
  compile false (s2b "a %{a}%{b}") = CErr ESequential.
Proof. vm_compute. repeat split; reflexivity. Qed.
