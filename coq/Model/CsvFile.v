(* CSV export (pkg/csv/csvfile.go uses Go's encoding/csv Writer with ',' and LF) and a strict
   RFC 4180 reader. *)
From Coq Require Import List NArith Bool.
From RareV Require Import Base.Hex.
Import ListNotations.
Local Open Scope N_scope.

Definition DQ : N := 34. Definition COMMA : N := 44. Definition CR : N := 13. Definition LF : N := 10.
Definition special (b : N) : bool := (b =? LF) || (b =? CR) || (b =? DQ) || (b =? COMMA).

Section Writer.
(* encoding/csv also quotes a field that is `\.` or starts with a Unicode space; any such extra
   quoting is a parameter: the theorems hold whatever it is *)
Variable extra : bytes -> bool.

Definition needs_quotes (f : bytes) : bool :=
  match f with [] => false | _ => existsb special f || extra f end.
Fixpoint dbl (f : bytes) : bytes :=
  match f with [] => [] | b :: r => if b =? DQ then DQ :: DQ :: dbl r else b :: dbl r end.
Definition field_out (f : bytes) : bytes := if needs_quotes f then DQ :: dbl f ++ [DQ] else f.
Fixpoint fields_out (fs : list bytes) : bytes :=
  match fs with
  | [] => [LF]
  | [f] => field_out f ++ [LF]
  | f :: r => field_out f ++ COMMA :: fields_out r
  end.
(* Writer.Write for every record *)
Definition csv_write (rows : list (list bytes)) : bytes := concat (map fields_out rows).
End Writer.

(* strict RFC 4180 reader: records end with LF; a quoted field may contain anything, quotes doubled;
   no quote inside an unquoted field, no bare CR outside quotes, no text after a closing quote;
   the file ends right after a record terminator *)
Inductive rst := FS | UQ | QT | QQ.
Fixpoint rdf (s : bytes) (q : rst) (cur : bytes) (rec : list bytes) (done : list (list bytes)) : option (list (list bytes)) :=
  match s with
  | [] => match q, cur, rec with FS, [], [] => Some (rev done) | _, _, _ => None end
  | b :: r =>
      match q with
      | FS => if b =? DQ then rdf r QT [] rec done
              else if b =? COMMA then rdf r FS [] ([] :: rec) done
              else if b =? LF then rdf r FS [] [] (rev ([] :: rec) :: done)
              else if b =? CR then None
              else rdf r UQ [b] rec done
      | UQ => if b =? DQ then None
              else if b =? COMMA then rdf r FS [] (rev cur :: rec) done
              else if b =? LF then rdf r FS [] [] (rev (rev cur :: rec) :: done)
              else if b =? CR then None
              else rdf r UQ (b :: cur) rec done
      | QT => if b =? DQ then rdf r QQ cur rec done else rdf r QT (b :: cur) rec done
      | QQ => if b =? DQ then rdf r QT (DQ :: cur) rec done
              else if b =? COMMA then rdf r FS [] (rev cur :: rec) done
              else if b =? LF then rdf r FS [] [] (rev (rev cur :: rec) :: done)
              else None
      end
  end.
Definition csv_read (s : bytes) : option (list (list bytes)) := rdf s FS [] [] [].
