(* Model of pkg/extractor/sliceSpaceExpressionContext.go: what a match exposes to expressions. *)
From Coq Require Import List NArith ZArith Bool Arith.
From RareV Require Import Base.Hex Base.Res Base.Num.
Import ListNotations.
Local Open Scope Z_scope.

(* Go s[lo:hi] on a string: panics unless 0 <= lo <= hi <= len s *)
Definition go_slice (s : bytes) (lo hi : Z) : result bytes :=
  if (0 <=? lo) && (lo <=? hi) && (hi <=? Z.of_nat (length s))
  then Ok (firstn (Z.to_nat (hi - lo)) (skipn (Z.to_nat lo) s))
  else Panic.

Definition znth (l : list Z) (i : Z) : Z := nth (Z.to_nat i) l 0.

(* GetMatch(idx) *)
Definition get_match (line : bytes) (ix : list Z) (i : Z) : result bytes :=
  let si := i * 2 in
  if (si <? 0) || (Z.of_nat (length ix) <=? si + 1) then Ok []
  else let s := znth ix si in let e := znth ix (si + 1) in
       if (s <? 0) || (e <? 0) then Ok [] else go_slice line s e.

(* matcher output as the regexp package defines it: pairs; (-1,-1) for a group that did not
   participate, otherwise 0 <= s <= e <= |line| *)
Fixpoint valid_pairs (n : Z) (ix : list Z) : bool :=
  match ix with
  | [] => true
  | s :: e :: r => (((s =? -1) && (e =? -1)) || ((0 <=? s) && (s <=? e) && (e <=? n))) && valid_pairs n r
  | _ => false
  end.
Definition valid_idxs (line : bytes) (ix : list Z) : bool := valid_pairs (Z.of_nat (length line)) ix.

(* the declarative reading: group i of the index list *)
Fixpoint group_spec (line : bytes) (ix : list Z) (i : nat) : bytes :=
  match ix, i with
  | s :: e :: _, O => if (s <? 0) || (e <? 0) then [] else firstn (Z.to_nat (e - s)) (skipn (Z.to_nat s) line)
  | _ :: _ :: r, S j => group_spec line r j
  | _, _ => []
  end.

Fixpoint bjoin (sep : bytes) (l : list bytes) : bytes :=
  match l with [] => [] | [x] => x | x :: r => x ++ sep ++ bjoin sep r end.

(* array(): groups 1.. joined by the array separator (NUL) *)
Fixpoint rmap_list {A B} (f : A -> result B) (l : list A) : result (list B) :=
  match l with
  | [] => Ok []
  | x :: r => y <- f x ;; ys <- rmap_list f r ;; Ok (y :: ys)
  end.
Definition ctx_array (line : bytes) (ix : list Z) : result bytes :=
  let n := (length ix / 2)%nat in
  gs <- rmap_list (fun i => get_match line ix (Z.of_nat i)) (seq 1 (n - 1)) ;;
  Ok (bjoin [0%N] gs).

Definition err_arg_name : bytes := [60;78;65;77;69;62]%N.

(* GetKey for the keys that do not involve JSON (those are C16's) *)
Definition get_key (src : bytes) (lineno : N) (names : list (bytes * Z)) (line : bytes) (ix : list Z) (k : bytes) : result bytes :=
  if bytes_eqb k ([115;114;99]%N) then Ok src
  else if bytes_eqb k ([108;105;110;101]%N) then Ok (itoa (Z.of_N lineno))
  else if bytes_eqb k ([64]%N) then ctx_array line ix
  else match find (fun p => bytes_eqb (fst p) k) names with
       | Some (_, idx) => get_match line ix idx
       | None => Ok err_arg_name
       end.
