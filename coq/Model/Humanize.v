(* C11: pkg/humanize — digit grouping (numeric.go humanizeInt / humanizeFloat) and unit scaling
   (units.go unitize). Float-to-text is Go's strconv (not modelled): the formatted text enters
   the model as an oracle string supplied by the harness. *)
From Coq Require Import List NArith ZArith Bool.
From RareV Require Import Base.Hex Base.Res Base.Num Gen.GenC11.
Import ListNotations.
Local Open Scope N_scope.

(* ---- exact values of float64 arguments, pre-parsed by the harness (strconv.ParseFloat trusted) ---- *)
Inductive fval := FNaN | FNegInf | FPosInf | FFin (m e : Z).   (* FFin m e = m * 2^e *)

(* comparison as Go's float64 comparison operators see it: None when a NaN is involved *)
Definition fcompare (a b : fval) : option comparison :=
  match a, b with
  | FNaN, _ | _, FNaN => None
  | FNegInf, FNegInf => Some Eq
  | FNegInf, _ => Some Lt
  | _, FNegInf => Some Gt
  | FPosInf, FPosInf => Some Eq
  | FPosInf, _ => Some Gt
  | _, FPosInf => Some Lt
  | FFin m1 e1, FFin m2 e2 =>
      let e := Z.min e1 e2 in
      Some (Z.compare (m1 * 2 ^ (e1 - e)) (m2 * 2 ^ (e2 - e)))%Z
  end.
Definition f_lt a b := match fcompare a b with Some Lt => true | _ => false end.
Definition f_gt a b := match fcompare a b with Some Gt => true | _ => false end.
Definition f_le a b := match fcompare a b with Some Lt | Some Eq => true | _ => false end.
Definition f_ge a b := match fcompare a b with Some Gt | Some Eq => true | _ => false end.
Definition f_of_Z (z : Z) : fval := FFin z 0.

(* math.Floor / math.Ceil of a finite value, exactly *)
Definition ffloor (m e : Z) : Z := if (0 <=? e)%Z then (m * 2 ^ e)%Z else (m / 2 ^ (- e))%Z.
Definition fceil (m e : Z) : Z := if (0 <=? e)%Z then (m * 2 ^ e)%Z else (- ((- m) / 2 ^ (- e)))%Z.

(* ---- humanizeInt ----
   emit walks the digits least-significant first (the Go loop `v % 10; v /= 10`), inserting the
   separator before every 4th, 7th, ... digit; ci = digits written since the last separator. *)
Fixpoint emit (ds : bytes) (ci : nat) : bytes :=
  match ds with
  | [] => []
  | d :: r => if Nat.eqb ci 3 then baseSeparator :: d :: emit r 1 else d :: emit r (S ci)
  end.

Definition group3 (digits : bytes) : bytes := rev (emit (rev digits) 0).

(* humanizeInt[int] after repair C11-hi-minint64 (magnitude taken in uint64) *)
Definition humanize_int (z : Z) : bytes :=
  if (0 <=? z)%Z && (z <? 100)%Z then itoa z
  else let body := group3 (utoa (Z.abs_N z)) in
       if (z <? 0)%Z then 45 :: body else body.

(* what the law speaks about *)
Definition strip_sep (s : bytes) : bytes := filter (fun b => negb (b =? baseSeparator)) s.
(* read right to left: every 4th character is the separator, all others are digits, and the
   leftmost character is a digit; k = digits seen since the last separator *)
Fixpoint grouped_rev (l : bytes) (k : nat) : bool :=
  match l with
  | [] => negb (Nat.eqb k 0)
  | b :: r => if Nat.eqb k 3 then (b =? baseSeparator) && grouped_rev r 0
              else is_digit b && grouped_rev r (S k)
  end.
Definition unsigned_part (s : bytes) : bytes := match s with 45 :: r => r | _ => s end.
Definition well_grouped (s : bytes) : bool := grouped_rev (rev (unsigned_part s)) 0.

(* ---- humanizeFloat(v, decimals) given s = strconv.AppendFloat(v, 'f', decimals) ---- *)
Fixpoint index_of (x : N) (s : bytes) : option nat :=
  match s with
  | [] => None
  | b :: r => if b =? x then Some O else option_map S (index_of x r)
  end.

(* the forward loop: c3 counts towards 3; a separator is written when it reaches 3, except at i = 0 *)
Fixpoint hf_loop (s : bytes) (i c3 : nat) : bytes :=
  match s with
  | [] => []
  | b :: r => if Nat.eqb c3 3
              then (if Nat.eqb i 0 then [] else [baseSeparator]) ++ b :: hf_loop r (S i) 1
              else b :: hf_loop r (S i) (S c3)
  end.

Definition humanize_float (v : fval) (s : bytes) : result bytes :=
  match v with
  | FNaN => Ok [78; 97; 78]
  | FNegInf | FPosInf => Ok [73; 110; 102]
  | FFin _ _ =>
      match s with
      | [] => Panic                                   (* s[0] *)
      | c :: r =>
          let negative := c =? 45 in
          let s1 := if is_digit c then s else r in
          let decIdx := match index_of 46 s1 with Some i => i | None => length s1 end in
          (* after repair C11-hf-rounding the no-separator shortcut is decided on the rounded text *)
          if Nat.leb decIdx 3 then Ok s
          else
            let body := hf_loop (firstn decIdx s1) 0 (3 - Nat.modulo decIdx 3) in
            let dec := if Nat.ltb decIdx (length s1)
                       then decimalSeparator :: skipn (S decIdx) s1 else [] in
            Ok ((if negative then [45] else []) ++ body ++ dec)
      end
  end.

(* ---- unitize(n, step, precision, delim, units): integer part; the mantissa text is an oracle ---- *)
Definition unit_suffix (delim u : bytes) : bytes := match u with [] => [] | _ => delim ++ u end.

(* number of divisions by step until |n| < step, at most k (= len(units)-1) *)
Fixpoint rank_loop (k : nat) (a step : Z) : nat :=
  match k with
  | O => O
  | S k' => if (a <? step)%Z then O else S (rank_loop k' (a / step)%Z step)
  end.

Definition unitize (n step : Z) (delim : bytes) (units : list bytes) (mant : bytes) : bytes :=
  if (- step <? n)%Z && (n <? step)%Z
  then itoa n ++ unit_suffix delim (nth 0 units [])
  else let rank := rank_loop (length units - 1) (Z.abs n) step in
       mant ++ unit_suffix delim (nth rank units []).
