(* C09: the documented template syntax as a printer.
   A concrete syntax tree [ctmpl] is an expression tree together with a layout choice (which
   white-space runs, which items are quoted, how a group index is spelled); [print] renders it,
   [erase] forgets the layout and gives the expression tree, [wf_tmpl] says which alphabet and
   which layouts are admissible.  Also: [esc] (escaped rendering of a literal string), [norm]
   (adjacent literals merged), the probe evaluation used by the correspondence, and the boolean
   forms of the property on an observed output. *)
From Coq Require Import List NArith ZArith Bool.
From RareV Require Import Base.Res Base.Hex Base.Num Model.IsSpace Model.Tmpl.
Import ListNotations.
Local Open Scope N_scope.

(* ---- concrete syntax ------------------------------------------------------------------- *)
Inductive cpiece :=
| CLit (s : str)                                   (* text outside braces *)
| CVar (pre : str) (q : bool) (w : str) (post : str)          (* {pre w post}, w quoted iff q *)
| CCall (pre : str) (qf : bool) (f : str) (args : list carg) (post : str)   (* {pre f args post} *)
with carg :=
| CArg (sep : str) (q : bool) (body : list cpiece).           (* sep body, body quoted iff q *)
Definition ctmpl := list cpiece.

Definition quote (q : bool) (s : str) : str := if q then 34 :: s ++ [34] else s.

Fixpoint print_piece (c : cpiece) : str :=
  match c with
  | CLit s => s
  | CVar pre q w post => 123 :: pre ++ quote q w ++ post ++ [125]
  | CCall pre qf f args post =>
      123 :: pre ++ quote qf f ++ concat (map print_arg args) ++ post ++ [125]
  end
with print_arg (a : carg) : str :=
  match a with CArg sep q body => sep ++ quote q (concat (map print_piece body)) end.
Definition print (t : ctmpl) : str := concat (map print_piece t).

(* the expression tree a concrete tree denotes: a lone word is a group look-up iff Atoi accepts it *)
Fixpoint erase_piece (c : cpiece) : piece :=
  match c with
  | CLit s => PLit s
  | CVar _ _ w _ => simple_var w
  | CCall _ _ f args _ => PCall f (map erase_arg args)
  end
with erase_arg (a : carg) : tmpl :=
  match a with CArg _ _ body => map erase_piece body end.
Definition erase (t : ctmpl) : tmpl := map erase_piece t.

(* ---- printable alphabet and admissible layouts ------------------------------------------ *)
(* the four syntax characters: backslash, braces, double quote *)
Definition safe (c : N) : bool := negb ((c =? 92) || (c =? 123) || (c =? 125) || (c =? 34)).
Definition safe_str : str -> bool := forallb safe.
Definition ws : str -> bool := forallb is_space.
Definition nospace : str -> bool := forallb (fun c => negb (is_space c)).
Definition noquote : str -> bool := forallb (fun c => negb (c =? 34)).
(* a word or function name: safe alphabet; unquoted only if non-empty and without white space *)
Definition item_ok (q : bool) (w : str) : bool := safe_str w && (q || (nonempty w && nospace w)).
Definition bare_lit (c : cpiece) : bool := match c with CLit s => nospace s | _ => true end.

Fixpoint wf_piece (c : cpiece) : bool :=
  match c with
  | CLit s => safe_str s
  | CVar pre q w post => ws pre && ws post && item_ok q w
  | CCall pre qf f args post =>
      ws pre && ws post && item_ok qf f && nonempty args && forallb wf_arg args
  end
with wf_arg (a : carg) : bool :=
  match a with
  | CArg sep q body =>
      ws sep && nonempty sep && forallb wf_piece body &&
      (if q then noquote (concat (map print_piece body))      (* no quote at any depth inside *)
       else nonempty (concat (map print_piece body)) && forallb bare_lit body)
  end.
Definition wf_tmpl (t : ctmpl) : bool := forallb wf_piece t.

(* ---- printing with layered escapes: literal text over ALL runes ------------------------------ *)
(* Every layer a text travels through (statement scanner, argument splitter, compile of the
   argument) removes exactly one backslash level.  [lesc] adds one level to literal text: a
   backslash before each syntax character and each white-space rune.  A literal of a template
   that still has j layers to go before it is compiled is written [lescn (S j)]; the arguments
   of a statement have two more layers to go than the template the statement occurs in. *)
Definition special (c : N) : bool := negb (safe c) || is_space c.
Definition lesc1 (c : N) : str := if special c then [92; c] else [c].
Definition lesc (s : str) : str := flat_map lesc1 s.
Fixpoint lescn (n : nat) (s : str) : str := match n with O => s | S m => lesc (lescn m s) end.

Fixpoint eprint_piece (j : nat) (c : cpiece) : str :=
  match c with
  | CLit s => lescn (S j) s
  | CVar pre q w post => 123 :: pre ++ quote q w ++ post ++ [125]
  | CCall pre qf f args post =>
      123 :: pre ++ quote qf f ++ concat (map (eprint_arg j) args) ++ post ++ [125]
  end
with eprint_arg (j : nat) (a : carg) : str :=
  match a with
  | CArg sep q body => sep ++ quote q (concat (map (eprint_piece (S (S j))) body))
  end.
Definition eprint (j : nat) (t : ctmpl) : str := concat (map (eprint_piece j) t).

(* no quoted item anywhere inside (a quoted argument cannot contain another quoted item) *)
Fixpoint qfree (c : cpiece) : bool :=
  match c with
  | CLit _ => true
  | CVar _ q _ _ => negb q
  | CCall _ qf _ args _ => negb qf && forallb qfree_arg args
  end
with qfree_arg (a : carg) : bool :=
  match a with CArg _ q body => negb q && forallb qfree body end.
Definition piece_nonempty (c : cpiece) : bool := match c with CLit s => nonempty s | _ => true end.

(* admissible: literal text is arbitrary; words and names as in [wf_piece]; an unquoted argument
   is non-empty (white space in it is escaped, so it need not be quoted) *)
Fixpoint wfe_piece (c : cpiece) : bool :=
  match c with
  | CLit _ => true
  | CVar pre q w post => ws pre && ws post && item_ok q w
  | CCall pre qf f args post =>
      ws pre && ws post && item_ok qf f && nonempty args && forallb wfe_arg args
  end
with wfe_arg (a : carg) : bool :=
  match a with
  | CArg sep q body =>
      ws sep && nonempty sep && forallb wfe_piece body &&
      (if q then forallb qfree body else existsb piece_nonempty body)
  end.
Definition wfe_tmpl (t : ctmpl) : bool := forallb wfe_piece t.

(* ---- normal form of an expression tree --------------------------------------------------- *)
(* the effect of a sequence of pieces on (stages, pending literal text) *)
Fixpoint absorb (stages : tmpl) (sb : str) (ps : tmpl) : tmpl * str :=
  match ps with
  | [] => (stages, sb)
  | PLit s :: r => absorb stages (sb ++ s) r
  | p :: r => absorb (stages ++ flush sb ++ [p]) [] r
  end.
(* adjacent literals concatenated, empty literals dropped *)
Definition merge (t : tmpl) : tmpl := let '(st, sb) := absorb [] [] t in st ++ flush sb.
Fixpoint normp (p : piece) : piece :=
  match p with
  | PCall f args => PCall f (map (fun a => merge (map normp a)) args)
  | _ => p
  end.
Definition norm (t : tmpl) : tmpl := merge (map normp t).

(* every call head is registered and its constructor accepts the (compiled) arguments *)
Fixpoint fn_ok (fs : fenv) (c : cpiece) : bool :=
  match c with
  | CCall _ _ f args _ =>
      match fs f with
      | Some chk =>
          match chk (map (fun a => norm (erase_arg a)) args) with None => true | Some _ => false end
          && forallb (fn_ok_arg fs) args
      | None => false
      end
  | _ => true
  end
with fn_ok_arg (fs : fenv) (a : carg) : bool :=
  match a with CArg _ _ body => forallb (fn_ok fs) body end.
Definition fn_ok_tmpl (fs : fenv) (t : ctmpl) : bool := forallb (fn_ok fs) t.

(* ---- escaped rendering of a literal string ----------------------------------------------- *)
Definition esc1 (c : N) : str :=
  if (c =? 92) || (c =? 123) || (c =? 125) then [92; c]
  else if c =? 10 then [92; 110] else if c =? 13 then [92; 114] else if c =? 9 then [92; 116]
  else [c].
Definition esc (s : str) : str := flat_map esc1 s.

(* ---- probe evaluation (the observation used by the correspondence) ------------------------ *)
(* context: GetMatch i = U+27E8 i U+27E9, GetKey k = U+27EA k U+27EB; function f renders f(a1|a2|..) *)
Fixpoint join (sep : N) (l : list str) : str :=
  match l with
  | [] => []
  | [a] => a
  | a :: r => a ++ sep :: join sep r
  end.
Fixpoint eval_piece (p : piece) : str :=
  match p with
  | PLit s => s
  | PMatch i => 10216 :: itoa i ++ [10217]
  | PKey k => 10218 :: k ++ [10219]
  | PCall f args => f ++ 40 :: join 124 (map (fun a => concat (map eval_piece a)) args) ++ [41]
  end.
Definition eval (t : tmpl) : str := concat (map eval_piece t).

(* probes f0..f3 accept anything; g2 returns an error unless it has exactly two arguments *)
Definition probe_fs : fenv := fun f =>
  if list_eqb N.eqb f [102; 48] || list_eqb N.eqb f [102; 49] || list_eqb N.eqb f [102; 50]
     || list_eqb N.eqb f [102; 51] then Some (fun _ => None)
  else if list_eqb N.eqb f [103; 50] then
    Some (fun args => if (length args =? 2)%nat then None else Some 0)
  else None.

(* a builder that has, besides the base set, its own registrations [extra] (plain probes) *)
Definition ext_fs (extra : list str) : fenv := fun f =>
  if existsb (list_eqb N.eqb f) extra then Some (fun _ => None) else probe_fs f.

(* ---- observables --------------------------------------------------------------------------- *)
Definition ekind_code (k : ekind) : N :=
  match k with EUnterminated => 0 | EEmptyStatement => 1 | EMissingFunction => 2 | EFunc c => 3 + c end.
(* None: Compile or BuildKey panicked; output with optimisation, output without, errors *)
Definition obs := option (str * str * list (N * N)).
Definition codes (es : list cerr) : list (N * N) := map (fun e => (ekind_code (fst e), snd e)) es.
Definition obs_of (r : result (tmpl * list cerr)) : obs :=
  match r with
  | Ok (t, es) => Some (eval t, eval t, codes es)
  | Panic => None
  end.
Definition str_eqb : str -> str -> bool := list_eqb N.eqb.
Definition err_eqb (a b : N * N) : bool := (fst a =? fst b) && (snd a =? snd b).
Definition obs_eqb (a b : obs) : bool :=
  match a, b with
  | Some (x1, y1, e1), Some (x2, y2, e2) => str_eqb x1 x2 && str_eqb y1 y2 && list_eqb err_eqb e1 e2
  | None, None => true
  | _, _ => false
  end.

(* ---- text both tokenisers copy verbatim (used by the nested-error clause) ------------------ *)
(* x keeps the brace depth at or above its starting level, ends k levels lower, has no backslash *)
Fixpoint okO (k : nat) (x : str) : bool :=
  match x with
  | [] => (k =? 0)%nat
  | c :: r =>
      if c =? 92 then false
      else if c =? 123 then okO (S k) r
      else if c =? 125 then match k with O => false | S k' => okO k' r end
      else okO k r
  end.

(* x is copied verbatim by the splitter from (depth D + k, quoted q) and leaves it at (D, unquoted) *)
Fixpoint okS (k : nat) (q : bool) (x : str) : bool :=
  match x with
  | [] => (k =? 0)%nat && negb q
  | c :: r =>
      if c =? 92 then false
      else if c =? 34 then match k with O => false | S _ => okS k (negb q) r end
      else if q then okS k q r
      else if c =? 123 then okS (S k) q r
      else if c =? 125 then match k with O => false | S k' => okS k' q r end
      else if is_space c then match k with O => false | S _ => okS k q r end
      else okS k q r
  end.


(* ---- boolean forms of the property on an observed output ---------------------------------- *)
(* what a case claims about its template [s] *)
Inductive claim :=
| KRaw                                   (* nothing beyond: compiles and evaluates without a crash *)
| KEsc (s0 : str)                        (* s = esc s0: evaluates to s0, no errors *)
| KTree (c : ctmpl)                      (* s = print c, admissible: evaluates as erase c dictates *)
| KEmpty (c : ctmpl) (w : str) (c' : ctmpl)     (* s = print c {w} print c', w white space *)
| KUnterm (c : ctmpl) (q : str)                 (* s = print c { q, q never closes that brace *)
| KMissing (c : ctmpl) (call : cpiece) (c' : ctmpl)   (* s = print c call print c', head of call unknown *)
| KNested (c : ctmpl) (f lit w : str)           (* s = print c {f lit{w}}: error inside an argument *)
| KArg (c : ctmpl) (f x : str)                 (* s = print c {f x}, x any text copied verbatim: the
                                                   errors are those of x alone, re-based (C09_err_rebase) *)
| KEscTree (c : ctmpl).                         (* s = eprint 0 c: layered escapes, literals over all runes *)

(* q has no backslash and never closes the statement it is in (k: braces opened inside q so far) *)
Fixpoint stays_open (k : nat) (q : str) : bool :=
  match q with
  | [] => true
  | c :: r =>
      if c =? 92 then false
      else if c =? 123 then stays_open (S k) r
      else if c =? 125 then match k with O => false | S k' => stays_open k' r end
      else stays_open k r
  end.
Definition is_plain_probe (f : str) : bool :=
  list_eqb N.eqb f [102; 48] || list_eqb N.eqb f [102; 49] || list_eqb N.eqb f [102; 50]
  || list_eqb N.eqb f [102; 51].
Definition olen (s : str) : N := N.of_nat (length s).
Definition wf2 (c : ctmpl) : bool := wf_tmpl c && fn_ok_tmpl probe_fs c.

(* the claim is well formed and is about the template s *)
Definition claim_static (k : claim) (s : str) : bool :=
  match k with
  | KRaw => true
  | KEsc s0 => str_eqb (esc s0) s
  | KTree c => wf2 c && str_eqb (print c) s
  | KEmpty c w c' => wf2 c && wf2 c' && ws w && str_eqb (print c ++ 123 :: w ++ 125 :: print c') s
  | KUnterm c q => wf2 c && stays_open 0 q && str_eqb (print c ++ 123 :: q) s
  | KMissing c call c' =>
      wf2 c && wf2 c' && wf_piece call &&
      match call with
      | CCall _ _ f _ _ =>
          match probe_fs f with
          | None => str_eqb (print c ++ print_piece call ++ print c') s
          | Some _ => false
          end
      | _ => false
      end
  | KNested c f lit w =>
      wf2 c && is_plain_probe f && safe_str lit && nospace lit && ws w
      && str_eqb (print c ++ 123 :: f ++ 32 :: (lit ++ 123 :: w ++ [125]) ++ [125]) s
  | KArg c f x =>
      wf2 c && is_plain_probe f && okO 0 x && okS 0 false x && nonempty x
      && str_eqb (print c ++ 123 :: f ++ 32 :: x ++ [125]) s
  | KEscTree c => wfe_tmpl c && fn_ok_tmpl probe_fs c && str_eqb (eprint 0 c) s
  end.

(* what the property then says about output and compile errors (kind code, offset) *)
Definition claim_expect (k : claim) : option (str * list (N * N)) :=
  match k with
  | KRaw => None
  | KEsc s0 => Some (s0, [])
  | KTree c => Some (eval (erase c), [])
  | KEmpty c w c' => Some (eval (erase c) ++ eval (erase c'), [(1, olen (print c))])
  | KUnterm c q => Some (eval (erase c) ++ q, [(0, olen (print c))])
  | KMissing c call c' =>
      match call with
      | CCall _ _ f _ _ => Some (eval (erase c) ++ err_lit f ++ eval (erase c'), [(2, olen (print c))])
      | _ => None
      end
  | KNested c f lit w =>
      Some (eval (erase c) ++ f ++ 40 :: lit ++ [41], [(1, olen lit + olen (print c))])
  | KArg c f x =>
      match compile probe_fs x with
      | Ok (tx, ex) => Some (eval (erase c) ++ f ++ 40 :: eval tx ++ [41], codes (rebase (olen (print c)) ex))
      | Panic => None
      end
  | KEscTree c => Some (eval (erase c), [])
  end.

Definition C09_check (k : claim) (s : str) (o : obs) : bool :=
  match o with
  | None => false
  | Some (out, out', es) =>
      str_eqb out out' && claim_static k s &&
      match claim_expect k with
      | None => true
      | Some (eo, ee) => str_eqb out eo && list_eqb err_eqb es ee
      end
  end.
