(* Model of the two batching loops of pkg/extractor/batchers/batcher.go
   (syncReaderToBatcher / syncReaderToBatcherWithTimeFlush): lines are cut into batches that
   carry their source and the 1-based number of their first line. *)
From Coq Require Import List NArith Bool Arith.
From RareV Require Import Base.Hex.
Import ListNotations.

Definition lineid := (bytes * N * bytes)%type.   (* source name, 1-based line number, text *)

Record batch := mkb { b_src : bytes; b_start : N; b_lines : list bytes }.

Fixpoint numbered (src : bytes) (start : N) (ls : list bytes) : list lineid :=
  match ls with
  | [] => []
  | l :: r => (src, start, l) :: numbered src (N.succ start) r
  end.

(* the lines of a batch with the numbers a worker computes for them: BatchStart + idx *)
Definition b_ids (b : batch) : list lineid := numbered (b_src b) (b_start b) (b_lines b).

(* [flush]: for the k-th scanned line, whether the auto-flush timer had expired when it was
   appended (all false for the plain variant).  [cur] is the batch being filled. *)
Fixpoint cut_go (src : bytes) (bsz : nat) (flush : list bool) (start : N) (cur : list bytes)
                (ls : list bytes) : list batch :=
  match ls with
  | [] => match cur with [] => [] | _ => [mkb src start cur] end
  | l :: r =>
      let cur' := cur ++ [l] in
      if (bsz <=? length cur') || hd false flush
      then mkb src start cur' :: cut_go src bsz (tl flush) (start + N.of_nat (length cur')) [] r
      else cut_go src bsz (tl flush) start cur' r
  end.

Definition cut (src : bytes) (bsz : nat) (flush : list bool) (ls : list bytes) : list batch :=
  cut_go src bsz flush 1%N [] ls.
