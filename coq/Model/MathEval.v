(* C19 — evaluation model of pkg/expressions/stdmath: expression.go (Eval), ops.go (ops, uniOps),
   simplify.go (simplify), parser.go Compile.  The value type (Go: float64) and the float
   operations are Section parameters: every theorem holds for any operator semantics, in
   particular float64's.  The integer-only operators (% << >> & |) go through int64 and are in
   [result]: Go panics on a zero divisor and on a negative shift count.

   Repair modelled (defect C19-int-ops-panic, fixes/C19-int-ops-panic.patch): `%` with int64(right) = 0
   and `<<`/`>>` with int64(right) < 0 yield NaN.  The flag [rep_ops] selects the repaired (true)
   or the original (false) operator semantics. *)
From Coq Require Import List NArith ZArith Bool.
From RareV Require Import Base.Hex Base.Num Base.Res Gen.GenMathOps Model.MathParse Model.MathTok.
Import ListNotations.

(* ---------------------------------------------------------------- the parser, instantiated *)
Definition mast := ast atom bytes bytes.
Definition MUL : bytes := [42%N].
Definition mparse (repaired : bool) := parse atom bytes bytes bytes_eqb orderOfOps is_binop MUL repaired.
Definition mparse_top (repaired : bool) (ts : list mtok) :=
  parse_top atom bytes bytes bytes_eqb orderOfOps is_binop MUL repaired ts.
Definition mlvl := lvl bytes bytes_eqb orderOfOps.
Definition mwp := wp atom bytes bytes bytes_eqb orderOfOps MUL.

(* Compile up to (not including) simplification: tokenize, parse, everything consumed *)
Definition parse_tokens (repaired : bool) (ts : list mtok) : out mast :=
  match mparse_top repaired ts with
  | POk t [] => OOk t
  | POk _ (_ :: _) => OErr
  | PErr => OErr
  | PFuel => OFuel
  | PPanic => OPanic
  end.
Definition parse_formula (repaired : bool) (s : bytes) : out mast :=
  obind (tokenize s) (parse_tokens repaired).

(* ---------------------------------------------------------------- evaluation *)
Section Eval.
Variable V : Type.
Variables vadd vsub vmul vdiv vpow : V -> V -> V.
Variables vlt vle vgt vge veq : V -> V -> bool.
Variable vtruthy : V -> bool.            (* val != 0.0 *)
Variables vone vzero vnan : V.
Variable to_int : V -> Z.                (* int64(f) *)
Variable of_int : Z -> V.                (* float64(i) *)
Variable unop : bytes -> V -> V.         (* uniOps[name] for the names of the table *)
Variable cval : const -> V.              (* float64 value of a literal (strconv) *)
Variable rep_ops : bool.

Record ctx := mkCtx { get_match : Z -> V; get_key : bytes -> V }.

Inductive expr := EVal (v : V) | ENamed (n : bytes) | EIdx (i : Z) | EUn (m : bytes) (e : expr) | EBin (o : bytes) (l r : expr).

Definition cond (b : bool) : V := if b then vone else vzero.
Definition int_fault : result V := if rep_ops then Ok vnan else Panic.

Local Open Scope N_scope.
(* ops[o](l, r); an opcode that is not a key of ops is a nil function: calling it panics *)
Definition binop (o : bytes) (l r : V) : result V :=
  if bytes_eqb o [43] then Ok (vadd l r)
  else if bytes_eqb o [42] then Ok (vmul l r)
  else if bytes_eqb o [45] then Ok (vsub l r)
  else if bytes_eqb o [47] then Ok (vdiv l r)
  else if bytes_eqb o [94] then Ok (vpow l r)
  else if bytes_eqb o [37] then
    (if (to_int r =? 0)%Z then int_fault else Ok (of_int (Z.rem (to_int l) (to_int r))))
  else if bytes_eqb o [60;60] then
    (if (to_int r <? 0)%Z then int_fault
     else Ok (of_int (if (64 <=? to_int r)%Z then 0%Z else wrap64 (Z.shiftl (to_int l) (to_int r)))))
  else if bytes_eqb o [62;62] then
    (if (to_int r <? 0)%Z then int_fault else Ok (of_int (Z.shiftr (to_int l) (to_int r))))
  else if bytes_eqb o [38] then Ok (of_int (Z.land (to_int l) (to_int r)))
  else if bytes_eqb o [124] then Ok (of_int (Z.lor (to_int l) (to_int r)))
  else if bytes_eqb o [60] then Ok (cond (vlt l r))
  else if bytes_eqb o [60;61] then Ok (cond (vle l r))
  else if bytes_eqb o [62] then Ok (cond (vgt l r))
  else if bytes_eqb o [62;61] then Ok (cond (vge l r))
  else if bytes_eqb o [61;61] then Ok (cond (veq l r))
  else if bytes_eqb o [38;38] then Ok (cond (vtruthy l && vtruthy r))
  else if bytes_eqb o [124;124] then Ok (cond (vtruthy l || vtruthy r))
  else Panic.

(* uniOps[m](v); a name that is not a key of uniOps is a nil function *)
Definition unop_r (m : bytes) (v : V) : result V := if is_uniop m then Ok (unop m v) else Panic.

(* expression.go Eval: strict in every operand (&& and || are ordinary functions) *)
Fixpoint meval (c : ctx) (e : expr) : result V :=
  match e with
  | EVal v => Ok v
  | ENamed n => Ok (get_key c n)
  | EIdx i => Ok (get_match c i)
  | EUn m x => v <- meval c x ;; unop_r m v
  | EBin o l r => a <- meval c l ;; b <- meval c r ;; binop o a b
  end.

(* simplify.go: evaluate against a context that returns 0 and counts its calls *)
Definition ctx0 : ctx := mkCtx (fun _ => vzero) (fun _ => vzero).
Fixpoint hits (e : expr) : nat :=
  match e with
  | EVal _ => 0%nat | ENamed _ => 1%nat | EIdx _ => 1%nat
  | EUn _ x => hits x | EBin _ l r => (hits l + hits r)%nat
  end.
Definition simplify (e : expr) : result expr :=
  v <- meval ctx0 e ;; Ok (if Nat.eqb (hits e) 0 then EVal v else e).

(* the value of a syntax tree, read directly: groups are transparent, an implied multiplication is "*" *)
Definition aval (c : ctx) (a : atom) : V :=
  match a with AVal k => cval k | AIdx i => get_match c i | ANamed n => get_key c n end.
Fixpoint aeval (c : ctx) (t : mast) : result V :=
  match t with
  | Atom a => Ok (aval c a)
  | Un m x => v <- aeval c x ;; unop_r m v
  | Bin o _ l r => a <- aeval c l ;; b <- aeval c r ;; binop o a b
  | Grp x => aeval c x
  end.

(* the expression compileTokens builds from the tokens of a tree: compileToken for the leaves,
   simplify on both operands of a binary node and on the result of every Compile (groups, top) *)
Definition atom_expr (a : atom) : expr :=
  match a with AVal k => EVal (cval k) | AIdx i => EIdx i | ANamed n => ENamed n end.
Fixpoint to_expr (t : mast) : result expr :=
  match t with
  | Atom a => Ok (atom_expr a)
  | Un m x => e <- to_expr x ;; Ok (EUn m e)
  | Bin o _ l r => el <- to_expr l ;; er <- to_expr r ;; sl <- simplify el ;; sr <- simplify er ;; Ok (EBin o sl sr)
  | Grp x => e <- to_expr x ;; simplify e
  end.

Definition lift {A} (r : result A) : out A := match r with Ok a => OOk a | Panic => OPanic end.

(* stdmath.Compile on a token list / on a formula *)
Definition compile_tokens (repaired : bool) (ts : list mtok) : out expr :=
  obind (parse_tokens repaired ts) (fun t => lift (e <- to_expr t ;; simplify e)).
Definition compile (repaired : bool) (s : bytes) : out expr :=
  obind (tokenize s) (compile_tokens repaired).

End Eval.

Arguments EVal {V} v.
Arguments ENamed {V} n.
Arguments EIdx {V} i.
Arguments EUn {V} m e.
Arguments EBin {V} o l r.
