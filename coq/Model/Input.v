(* C06: which inputs an extraction command reads, what their readers deliver, what is reported.
   pkg/extractor/dirwalk/globExpand.go   GlobExpand, isDir
   pkg/extractor/batchers/fileBatcher.go openFileToReader (gzip probe, Seek(0) fallback), OpenFilesToChan
   pkg/extractor/batchers/readerBatcher.go OpenReaderToChan
   cmd/helpers/extractorBuilder.go       BuildBatcherFromArguments
   cmd/helpers/exitCodes.go, main.go     (Model/Exit.v)
   The reader pool itself (semaphore, open failure, read error, channel, workers) is the transition
   system of Model/Pipeline.v (C01); this file produces its [source]s.
   Not modelled (oracles of the Section below, instantiated by the correspondence from what the Go
   library returns on the same tree): the OS file system, filepath.Glob, the directory order of
   filepath.Walk, compress/gzip.  Trees contain only regular files and directories. *)
From Coq Require Import List NArith ZArith Arith Bool.
From RareV Require Import Base.Hex Base.Num Model.Lines Model.Batch Model.Pipeline Model.Exit Gen.GenC06.
Import ListNotations.

Definition path := bytes.
Definition name := bytes.
Definition content := bytes.

(* what is below a path: a regular file with its bytes, or a directory with its entries in the
   order filepath.Walk visits them (lexical; the order is data here) *)
Inductive tree := TFile (c : content) | TDir (es : forest)
with forest := FNil | FCons (n : name) (t : tree) (r : forest).
(* result of os.Stat / os.Open on a path *)
Inductive node := Missing | Found (t : tree).

Definition SLASH : N := 47%N.
Definition DASH : bytes := [45%N].

(* filepath.Join(dir, name) as filepath.Walk computes the path of an entry, for a directory path
   written without "." / ".." / doubled separators: trailing separators of dir are dropped *)
Fixpoint strip_rev (r : bytes) : bytes :=
  match r with
  | b :: r' => if N.eqb b SLASH then strip_rev r' else r
  | [] => []
  end.
Definition strip_slashes (p : path) : path := rev (strip_rev (rev p)).
Definition join (p : path) (n : name) : path := strip_slashes p ++ SLASH :: n.
Definition path_of (p : path) (ch : list name) : path := fold_left join ch p.

(* filepath.Walk(p, fn) with fn emitting every entry that is not a directory: pre-order *)
Fixpoint walk_tree (p : path) (t : tree) : list (path * tree) :=
  match t with
  | TFile _ => [(p, t)]
  | TDir es => walk_forest p es
  end
with walk_forest (p : path) (es : forest) : list (path * tree) :=
  match es with
  | FNil => []
  | FCons n t r => walk_tree (join p n) t ++ walk_forest p r
  end.

(* declarative side: the name chains that lead from a tree to a regular file, with its bytes *)
Fixpoint chains_tree (t : tree) : list (list name * content) :=
  match t with
  | TFile c => [([], c)]
  | TDir es => chains_forest es
  end
with chains_forest (es : forest) : list (list name * content) :=
  match es with
  | FNil => []
  | FCons n t r => map (fun x => (n :: fst x, snd x)) (chains_tree t) ++ chains_forest r
  end.

Fixpoint in_forest (n : name) (t : tree) (es : forest) : Prop :=
  match es with
  | FNil => False
  | FCons n' t' r => (n' = n /\ t' = t) \/ in_forest n t r
  end.
Inductive leads : tree -> list name -> content -> Prop :=
| leads_here : forall c, leads (TFile c) [] c
| leads_in : forall es n t ch c, in_forest n t es -> leads t ch c -> leads (TDir es) (n :: ch) c.

Fixpoint forest_names (es : forest) : list name :=
  match es with FNil => [] | FCons n _ r => n :: forest_names r end.
(* a directory never lists a name twice *)
Fixpoint wf_tree (t : tree) : Prop :=
  match t with
  | TFile _ => True
  | TDir es => NoDup (forest_names es) /\ wf_forest es
  end
with wf_forest (es : forest) : Prop :=
  match es with
  | FNil => True
  | FCons _ t r => wf_tree t /\ wf_forest r
  end.

Definition is_dir (n : node) : bool := match n with Found (TDir _) => true | _ => false end.

Section Input.
Variable fs : path -> node.                            (* os.Stat / os.Open of a path as written *)
Variable glob : path -> option (list path).            (* filepath.Glob; None = ErrBadPattern *)
Variable gunzip : content -> option (content * bool).  (* compress/gzip on a whole file: None = NewReader fails (no gzip
                                                          header); Some (d, e) = the reader delivers d and then ends
                                                          with EOF (e = false) or with an error (e = true) *)
Variable probe : path -> nat.                          (* how many bytes gzip.NewReader consumed before giving up *)

(* ---- GlobExpand: one argument -> the (path, what Open will find there) it sends, and log lines.
   A malformed pattern is logged and then taken literally (repaired behaviour, fixes/C06-bad-pattern.patch;
   the pinned tree drops the argument). *)
Definition expand1 (recursive : bool) (a : path) : list (path * node) * nat :=
  if recursive && is_dir (fs a) then
    match fs a with
    | Found t => (map (fun x => (fst x, Found (snd x))) (walk_tree a t), 0)
    | Missing => ([], 0)
    end
  else
    match glob a with
    | None => ([(a, fs a)], 1)
    | Some [] => ([(a, fs a)], 0)
    | Some l => (map (fun q => (q, fs q)) l, 0)
    end.
Fixpoint expand (recursive : bool) (args : list path) : list (path * node) * nat :=
  match args with
  | [] => ([], 0)
  | a :: r => let x := expand1 recursive a in let y := expand recursive r in (fst x ++ fst y, snd x + snd y)
  end.

(* declarative side: what an argument denotes *)
Definition mention_list (recursive : bool) (a : path) : list (path * node) :=
  match fs a with
  | Found (TDir es) =>
      if recursive then map (fun x => (path_of a (fst x), Found (TFile (snd x)))) (chains_forest es)
      else match glob a with Some (q :: l) => map (fun q => (q, fs q)) (q :: l) | _ => [(a, fs a)] end
  | _ => match glob a with Some (q :: l) => map (fun q => (q, fs q)) (q :: l) | _ => [(a, fs a)] end
  end.

(* ---- openFileToReader with an explicit file offset ----
   A TFile node is any non-directory entry that opens and delivers its bytes: a regular file, but
   also a named pipe, /dev/stdin, a process substitution (the walk of -R emits every non-directory
   entry).  Only regular files can be rewound, so the model does not rewind: the bytes the gzip
   probe consumed are recorded and replayed in front of the rest of the descriptor (repaired
   behaviour, fixes/C06-gunzip-rewind.patch; the pinned tree calls Seek(0), see open_input_seek). *)
Record fd := mkfd { f_data : content; f_off : nat }.
Definition fd_open (c : content) : fd := mkfd c 0.
Definition fd_advance (k : nat) (f : fd) : fd := mkfd (f_data f) (Nat.min (f_off f + k) (length (f_data f))).
Definition fd_seek0 (f : fd) : fd := mkfd (f_data f) 0.
Definition fd_rest (f : fd) : content := skipn (f_off f) (f_data f).   (* what reading to EOF delivers *)
(* reading (up to) k bytes: the bytes read, the descriptor afterwards *)
Definition fd_read (k : nat) (f : fd) : content * fd := (firstn k (fd_rest f), fd_advance k f).
(* io.MultiReader(bytes.NewReader(recorded), baseFile) after a probe that consumed k bytes *)
Definition fd_replay (k : nat) (f : fd) : content := let (recorded, f') := fd_read k f in recorded ++ fd_rest f'.

(* result: None = os.Open failed; Some (d, e, g) = the reader delivers d, ends in an error iff e,
   and g "Gunzip error ... Reading as plain file" lines were logged.
   A directory opens but every Read fails (EISDIR), the gzip probe included. *)
Definition open_input (z : bool) (k : nat) (n : node) : option (content * bool * nat) :=
  match n with
  | Missing => None
  | Found (TDir _) => Some ([], true, if z then 1 else 0)
  | Found (TFile c) =>
      let f := fd_open c in
      if z then
        match gunzip c with
        | Some (d, e) => Some (d, e, 0)
        | None => Some (fd_replay k f, false, 1)
        end
      else Some (fd_rest f, false, 0)
  end.
(* the fallback without any rewind, and the fallback by Seek(0), which only a seekable descriptor
   honours (on a pipe Seek fails with ESPIPE and the error was ignored) *)
Definition open_input_noseek (k : nat) (c : content) : content := fd_rest (fd_advance k (fd_open c)).
Definition open_input_seek (seekable : bool) (k : nat) (c : content) : content :=
  let f := fd_advance k (fd_open c) in fd_rest (if seekable then fd_seek0 f else f).

(* declarative side *)
Definition delivered (z : bool) (n : node) : option (content * bool) :=
  match n with
  | Missing => None
  | Found (TDir _) => Some ([], true)
  | Found (TFile c) =>
      if z then match gunzip c with Some de => Some de | None => Some (c, false) end
      else Some (c, false)
  end.

(* ---- one reader goroutine of OpenFilesToChan as a C01 source ---- *)
Definition source_of (z : bool) (bsz : nat) (pn : path * node) : source :=
  match open_input z (probe (fst pn)) (snd pn) with
  | None => (false, false, [])
  | Some (d, e, _) => (true, e, cut (fst pn) bsz [] (lines_spec d))
  end.
(* "Error opening file" / "Gunzip error" / "Error reading" lines of one input *)
Definition source_logs (z : bool) (pn : path * node) : nat :=
  match open_input z (probe (fst pn)) (snd pn) with
  | None => 1
  | Some (_, e, g) => g + (if e then 1 else 0)
  end.

(* ---- BuildBatcherFromArguments ---- *)
Definition use_stdin (args : list path) : bool :=
  match args with [] => true | a :: _ => bytes_eqb a DASH end.

Variable flush : list bool.   (* OpenReaderToChan: the 250 ms auto-flush decisions *)
(* [e]: the stream of standard input ends in a read error (EISDIR, EIO, ...) after delivering [data];
   syncReaderToBatcherWithTimeFlush counts and logs it like any other input's *)
Definition stdin_source (bsz : nat) (data : content) (e : bool) : source :=
  (true, e, cut StdinName bsz flush (lines_spec data)).

Record cli_in := mkin {
  ci_args : list path; ci_recursive : bool; ci_gunzip : bool; ci_batch : nat;
  ci_stdin : content; ci_stdin_err : bool;   (* what standard input delivers, and whether it then fails *)
  ci_mode : N * N    (* (0,_) filter, every line matches; (1,q) filter, lines containing byte q match;
                                            (2,_) histogram keyed by source with the line as increment *)
}.

(* None = usage error (logger.Fatalln: -z with stdin); Some (sources, log lines of expansion and opening) *)
Definition cli_sources (i : cli_in) : option (list source * nat) :=
  if use_stdin (ci_args i) then
    if ci_gunzip i then None
    else Some ([stdin_source (ci_batch i) (ci_stdin i) (ci_stdin_err i)], if ci_stdin_err i then 1 else 0)
  else
    let ex := expand (ci_recursive i) (ci_args i) in
    Some (map (source_of (ci_gunzip i) (ci_batch i)) (fst ex),
          snd ex + list_sum (map (source_logs (ci_gunzip i)) (fst ex))).

Definition classify (m : N * N) (l : lineid) : cls lineid :=
  match fst m with
  | 1%N => if existsb (N.eqb (snd m)) (snd l) then Mat l else Unm
  | _ => Mat l
  end.
(* aggregation.MatchCounter.Sample: strconv.ParseInt(increment, 10, 64) *)
Definition unparsable (l : lineid) : bool := match atoi (snd l) with Some _ => false | None => true end.
(* mode (2, q): an aggregating command keyed by source with the line as increment; q = command + 8 * csv:
   command 0 histogram (-e {src} -e {0}), 1 table, 3 heatmap, 4 spark (-e c -e {src} -e {0}), 2 bargraph
   (-e {src} -e k -e {0}), 5 reduce (-e {src} -g src={0} -a "n={sumi {.} 1}": counts the matches, its
   aggregator never reports a parse error); csv 0 none, 1 `--csv -`, 2 `-o file` *)
Definition agg_cmd (m : N * N) : N := N.modulo (snd m) 8.
Definition agg_csv (m : N * N) : N := N.div (snd m) 8.
Definition is_reduce (m : N * N) : bool := N.eqb (agg_cmd m) 5.
Definition parse_errors (m : N * N) (keys : list lineid) : nat :=
  match fst m with 2%N => if is_reduce m then 0 else length (filter unparsable keys) | _ => 0 end.

(* what the aggregators hold at the end, per key (= source): the sum of the parsable increments
   (MatchCounter / SubKeyCounter / TableAggregator: SampleValue is only reached for a parsable one),
   or the number of matches (reduce) *)
Fixpoint bump (s : bytes) (z : Z) (l : list (bytes * Z)) : list (bytes * Z) :=
  match l with
  | [] => [(s, z)]
  | (s', v) :: r => if bytes_eqb s s' then (s', (v + z)%Z) :: r else (s', v) :: bump s z r
  end.
Definition agg_rows (count_only : bool) (keys : list lineid) : list (bytes * Z) :=
  fold_left (fun acc (l : lineid) =>
               if count_only then bump (fst (fst l)) 1%Z acc
               else match atoi (snd l) with Some z => bump (fst (fst l)) z acc | None => acc end) keys [].
(* the data rows of the csv export (pkg/csv/aggWriters.go: one row per key, "key,value"), as (key, 0, decimal value) *)
Definition csv_lines (m : N * N) (keys : list lineid) : list lineid :=
  match fst m with
  | 2%N => if N.eqb (agg_csv m) 0 then [] else map (fun r => (fst r, 0%N, itoa (snd r))) (agg_rows (is_reduce m) keys)
  | _ => []
  end.

(* observables: the matches printed (filter) or the rows of the csv export (aggregating commands; their
   drawing is not observed), exit status, number of [Log] lines on stderr *)
Record cli_obs := mkobs { co_lines : list lineid; co_exit : Z; co_nlog : nat }.

Definition shown (m : N * N) (keys : list lineid) : list lineid := match fst m with 2%N => [] | _ => keys end.

(* functional projection of the pipeline (C01_final: the final observables do not depend on the schedule) *)
Definition cli_model (i : cli_in) : cli_obs :=
  match cli_sources i with
  | None => mkobs [] exit_usage 1
  | Some (srcs, lg) =>
      let keys := seq_keys lineid (classify (ci_mode i)) (input_of srcs) in
      let nerr := errors_of srcs in
      let npar := parse_errors (ci_mode i) keys in
      mkobs (shown (ci_mode i) keys ++ csv_lines (ci_mode i) keys) (exit_code nerr npar (length keys)) (lg + exit_logs nerr npar)
  end.

(* ---- the property's boolean form on an observed output ---- *)
Definition spec_mentions (i : cli_in) : list (path * node) := flat_map (mention_list (ci_recursive i)) (ci_args i).
Definition spec_lines_of (z : bool) (pn : path * node) : list lineid :=
  match delivered z (snd pn) with
  | None => []
  | Some (d, _) => numbered (fst pn) 1%N (lines_spec d)
  end.
Definition spec_failed (z : bool) (pn : path * node) : nat :=
  match delivered z (snd pn) with None => 1 | Some (_, true) => 1 | Some (_, false) => 0 end.
Definition matched_b (m : N * N) (l : lineid) : bool := match classify m l with Mat _ => true | _ => false end.

End Input.

(* bytewise order on sources, numeric on line numbers, bytewise on text *)
Fixpoint bytes_leb (a b : bytes) : bool :=
  match a, b with
  | [], _ => true
  | _ :: _, [] => false
  | x :: a', y :: b' => if N.ltb x y then true else if N.ltb y x then false else bytes_leb a' b'
  end.
Definition lineid_leb (a b : lineid) : bool :=
  let '(s1, n1, t1) := a in let '(s2, n2, t2) := b in
  if bytes_eqb s1 s2 then (if N.eqb n1 n2 then bytes_leb t1 t2 else N.ltb n1 n2) else bytes_leb s1 s2.
Fixpoint insert_l (x : lineid) (l : list lineid) : list lineid :=
  match l with
  | [] => [x]
  | y :: r => if lineid_leb x y then x :: l else y :: insert_l x r
  end.
Definition sort_l (l : list lineid) : list lineid := fold_right insert_l [] l.
Definition lineid_eqb (a b : lineid) : bool :=
  bytes_eqb (fst (fst a)) (fst (fst b)) && N.eqb (snd (fst a)) (snd (fst b)) && bytes_eqb (snd a) (snd b).
Definition lines_same (a b : list lineid) : bool := list_eqb lineid_eqb (sort_l a) (sort_l b).

Definition obs_eqb (a b : cli_obs) : bool :=
  lines_same (co_lines a) (co_lines b) && Z.eqb (co_exit a) (co_exit b) && Nat.eqb (co_nlog a) (co_nlog b).

(* the name the property text gives to standard input, written out (the model uses the translator's
   constant; the boolean form insists on the literal) *)
Definition STDIN_LIT : bytes := [60; 115; 116; 100; 105; 110; 62]%N.   (* "<stdin>" *)

Section Check.
Variable fs : path -> node.
Variable glob : path -> option (list path).
Variable gunzip : content -> option (content * bool).

(* (1) the matches shown are, as a multiset, the matching lines of what every mention delivers,
       numbered from 1 under the mention's name;
   (2) the exit status follows the precedence, from the number of failed mentions, the unparsable
       increments and the number of matches;
   (3) every failed input is reported. *)
Definition C06_check (i : cli_in) (o : cli_obs) : bool :=
  if use_stdin (ci_args i) then
    if ci_gunzip i then Z.eqb (co_exit o) exit_usage && match co_lines o with [] => true | _ => false end && (1 <=? co_nlog o)
    else
      let keys := filter (matched_b (ci_mode i)) (numbered STDIN_LIT 1%N (lines_spec (ci_stdin i))) in
      let nerr := if ci_stdin_err i then 1 else 0 in
      lines_same (co_lines o) (shown (ci_mode i) keys ++ csv_lines (ci_mode i) keys) &&
      Z.eqb (co_exit o) (exit_code nerr (parse_errors (ci_mode i) keys) (length keys)) &&
      (nerr <=? co_nlog o)
  else
    let ms := spec_mentions fs glob i in
    let keys := filter (matched_b (ci_mode i)) (flat_map (spec_lines_of gunzip (ci_gunzip i)) ms) in
    let nerr := list_sum (map (spec_failed gunzip (ci_gunzip i)) ms) in
    lines_same (co_lines o) (shown (ci_mode i) keys ++ csv_lines (ci_mode i) keys) &&
    Z.eqb (co_exit o) (exit_code nerr (parse_errors (ci_mode i) keys) (length keys)) &&
    (nerr <=? co_nlog o).
End Check.
