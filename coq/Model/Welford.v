(* C07 — model of pkg/aggregation/numerical.go (MatchNumerical, StatisticalAnalysis) over exact
   rationals Q.  float64 rounding is NOT modelled (DESIGN §3): the theorems are the algebraic
   identities of the running moments and the order-statistic facts; strconv.ParseFloat is trusted
   (a sample enters the model pre-parsed: Some q, or None for a parse error). *)
From Coq Require Import List NArith ZArith QArith Qabs Bool Lia.
From RareV Require Import Base.Res.
Import ListNotations.
Local Open Scope Q_scope.

Definition qn (n : nat) : Q := inject_Z (Z.of_nat n).
Definition Qltb (a b : Q) : bool := negb (Qle_bool b a).

Record num := mkNum {
  n_cnt : nat;            (* samples *)
  n_mean : Q; n_m2 : Q;   (* mean, variance accumulator *)
  n_min : option Q; n_max : option Q;  (* None = still the initial +-MaxFloat64 *)
  n_err : N;
  n_vals : list Q         (* values (KeepValuesForAnalysis) *)
}.
Definition num0 : num := mkNum 0 0 0 None None 0 [].

(* Samplef *)
Definition n_samplef (keep : bool) (s : num) (x : Q) : num :=
  let n' := S (n_cnt s) in
  let mean' := Qred (n_mean s + (x - n_mean s) / qn n') in
  let m2' := Qred (n_m2 s + (x - n_mean s) * (x - mean')) in
  mkNum n' mean' m2'
        (match n_min s with Some m => if Qltb x m then Some x else Some m | None => Some x end)
        (match n_max s with Some m => if Qltb m x then Some x else Some m | None => Some x end)
        (n_err s)
        (if keep then n_vals s ++ [x] else n_vals s).
(* Sample *)
Definition n_sample (keep : bool) (s : num) (x : option Q) : num :=
  match x with
  | Some q => n_samplef keep s q
  | None => mkNum (n_cnt s) (n_mean s) (n_m2 s) (n_min s) (n_max s) (n_err s + 1) (n_vals s)
  end.
Definition n_run (keep : bool) (h : list (option Q)) : num := fold_left (n_sample keep) h num0.

Definition n_variance (s : num) : Q :=
  match n_cnt s with
  | O | S O => 0
  | S n => n_m2 s / qn n
  end.

(* Analyze: sort.Float64s / reversed *)
Fixpoint qinsert (x : Q) (l : list Q) : list Q :=
  match l with
  | [] => [x]
  | y :: r => if Qle_bool x y then x :: l else y :: qinsert x r
  end.
Definition qsort (l : list Q) : list Q := fold_right qinsert [] l.
Definition analyze (reverse : bool) (s : num) : list Q :=
  if reverse then rev (qsort (n_vals s)) else qsort (n_vals s).

Definition median (l : list Q) : Q := nth (length l / 2) l 0.

(* Mode: run-length scan of the ordered values, first longest run wins *)
Fixpoint mode_go (l : list Q) (maxObs : nat) (maxVal : Q) (curObs : nat) (curVal : Q) : Q :=
  match l with
  | [] => maxVal
  | v :: r =>
      let curVal' := if Qeq_bool v curVal then curVal else v in
      let curObs' := S (if Qeq_bool v curVal then curObs else O) in
      if Nat.ltb maxObs curObs' then mode_go r curObs' curVal' curObs' curVal'
      else mode_go r maxObs maxVal curObs' curVal'
  end.
Definition mode (l : list Q) : Q := mode_go l 0 0 0 0.

(* int(x) for a float x: truncation toward zero *)
Definition qtrunc (q : Q) : Z := Z.quot (Qnum q) (Zpos (Qden q)).
(* Quantile(p) with the repair of defect C07-quantile-one (index clamped to n-1).
   A negative index still panics (p < 0 is outside the property). *)
Definition quantile (l : list Q) (p : Q) : result Q :=
  match l with
  | [] => Ok 0
  | _ => let i := qtrunc (qn (length l) * p) in
         if (i <? 0)%Z then Panic
         else Ok (nth (Nat.min (Z.to_nat i) (length l - 1)) l 0)
  end.

(* ---------- specification side ---------- *)
Definition qsum (l : list Q) : Q := fold_right Qplus 0 l.
Definition qsqdev (m : Q) (l : list Q) : Q := fold_right (fun x a => (x - m) * (x - m) + a) 0 l.
Definition oks (h : list (option Q)) : list Q := flat_map (fun o => match o with Some q => [q] | None => [] end) h.
Definition qmin_list (l : list Q) : option Q :=
  fold_left (fun a x => match a with Some m => if Qltb x m then Some x else Some m | None => Some x end) l None.
Definition qmax_list (l : list Q) : option Q :=
  fold_left (fun a x => match a with Some m => if Qltb m x then Some x else Some m | None => Some x end) l None.
Definition qcount (y : Q) (l : list Q) : nat := length (filter (Qeq_bool y) l).

(* ---------- observables ---------- *)
Definition maxfloat : Q := inject_Z ((2 ^ 53 - 1) * 2 ^ 971).
Record nobs := mkNO {
  no_count : N; no_err : N;
  no_mean : Q; no_var : Q; no_sd : Q;   (* StdDev(): compared through its square *)
  no_min : Q; no_max : Q;
  no_median : Q; no_mode : Q; no_quant : list (result Q);
  no_tol : Q;                           (* model side: 1e-9 * (1 + max |x|), for the mean *)
  no_vtol2 : Q                          (* model side: squared tolerance for the variance, var_tol2 *)
}.
(* Tolerance for Variance()/StdDev()^2 against the exact sample variance: RELATIVE to the variance,
     |v_obs - v| <= 1e-9 * v  +  8 * n * u * kappa * v,     u = 2^-53,  kappa = sqrt (sum x^2 / m2)
   (kappa = condition number of the variance, ~ |mean| / stddev when the magnitude dwarfs the spread).
   n*u*kappa is the forward error bound of the updating (Welford/West) algorithm (Chan, Golub, LeVeque
   1983); the textbook form (sum x^2 - n*mean^2)/(n-1) only meets n*u*kappa^2 and fails this test as
   soon as kappa >~ 1e4 (it loses every digit at kappa ~ 1e8).  Kept sqrt-free by squaring:
     (v_obs - v)^2 <= 2 * ((1e-9 v)^2 + (8 n u)^2 * (sum x^2) * m2 / (n-1)^2),   sum x^2 = m2 + n*mean^2. *)
Definition var_tol2 (n : nat) (mean m2 : Q) : Q :=
  match n with
  | O | S O => 0
  | S k => let var := m2 / qn k in
           let cnu := 8 * qn n / inject_Z (2 ^ 53) in
           Qred (2 * ((1 # 1000000000) * (1 # 1000000000) * var * var
                      + cnu * cnu * (m2 + qn n * mean * mean) * m2 / (qn k * qn k)))
  end.
Definition close2 (tol2 a b : Q) : bool := Qle_bool ((a - b) * (a - b)) tol2.

Definition qmaxabs (l : list Q) : Q := fold_left (fun a x => if Qltb a (Qabs x) then Qabs x else a) l 0.
Definition n_obs (reverse : bool) (ps : list Q) (xs : list Q) (s : num) : nobs :=
  let srt := analyze reverse s in
  mkNO (N.of_nat (n_cnt s)) (n_err s) (n_mean s) (Qred (n_variance s)) (Qred (n_variance s))
       (match n_min s with Some m => m | None => maxfloat end)
       (match n_max s with Some m => m | None => - maxfloat end)
       (median srt) (mode srt) (map (quantile srt) ps)
       (Qred ((1 # 1000000000) * (1 + qmaxabs xs)))
       (var_tol2 (n_cnt s) (n_mean s) (n_m2 s)).

Definition rq_eqb (a b : result Q) : bool :=
  match a, b with Ok x, Ok y => Qeq_bool x y | Panic, Panic => true | _, _ => false end.
Fixpoint rql_eqb (a b : list (result Q)) : bool :=
  match a, b with
  | [], [] => true
  | x :: a', y :: b' => rq_eqb x y && rql_eqb a' b'
  | _, _ => false
  end.
Definition close (tol a b : Q) : bool := Qle_bool (Qabs (a - b)) tol.
(* first argument: model/specification side (carries the tolerance) *)
Definition nobs_eqb (a b : nobs) : bool :=
  let tol := no_tol a in
  N.eqb (no_count a) (no_count b) && N.eqb (no_err a) (no_err b) &&
  close tol (no_mean a) (no_mean b) &&
  close2 (no_vtol2 a) (no_var a) (no_var b) &&
  close2 (no_vtol2 a) (no_var a) (no_sd b * no_sd b) &&
  Qeq_bool (no_min a) (no_min b) && Qeq_bool (no_max a) (no_max b) &&
  Qeq_bool (no_median a) (no_median b) && Qeq_bool (no_mode a) (no_mode b) &&
  rql_eqb (no_quant a) (no_quant b).
