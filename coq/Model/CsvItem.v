(* C11: the `{csv ...}` item encoder (pkg/expressions/stdlib/funcsCsv.go csvItemEncode / kfCsv)
   and an RFC 4180 record reader to state the round trip against. *)
From Coq Require Import List NArith Bool.
From RareV Require Import Base.Hex.
Import ListNotations.
Local Open Scope N_scope.

Definition DQ : N := 34.
Definition COMMA : N := 44.
Definition CR : N := 13.
Definition LF : N := 10.

(* strings.ContainsAny(s, DQUOTE CR LF) *)
Definition has_quote_or_newline (s : bytes) : bool :=
  existsb (fun b => (b =? DQ) || (b =? CR) || (b =? LF)) s.
Definition has_comma (s : bytes) : bool := existsb (fun b => b =? COMMA) s.

(* strings.ReplaceAll(s, DQUOTE, DQUOTE DQUOTE) *)
Fixpoint dbl_quotes (s : bytes) : bytes :=
  match s with
  | [] => []
  | b :: r => if b =? DQ then DQ :: DQ :: dbl_quotes r else b :: dbl_quotes r
  end.

Definition csv_item (s : bytes) : bytes :=
  if has_quote_or_newline s then DQ :: dbl_quotes s ++ [DQ]
  else if has_comma s then DQ :: s ++ [DQ]
  else s.

(* kfCsv: items joined by a comma (no trailing separator); zero arguments give the empty string *)
Fixpoint csv_row (args : list bytes) : bytes :=
  match args with
  | [] => []
  | [a] => csv_item a
  | a :: r => csv_item a ++ COMMA :: csv_row r
  end.

(* ---- RFC 4180 reader for one record (no record separator outside quotes) ----
   field = escaped / non-escaped; escaped = DQUOTE *(TEXTDATA / COMMA / CR / LF / 2DQUOTE) DQUOTE;
   non-escaped = *TEXTDATA (no DQUOTE, COMMA, CR, LF). Malformed input is rejected. *)
Inductive rst := SStart | SPlain | SQuoted | SQQ.

Fixpoint rd (s : bytes) (q : rst) (cur : bytes) (done : list bytes) : option (list bytes) :=
  match s with
  | [] => match q with
          | SQuoted => None
          | _ => Some (rev (rev cur :: done))
          end
  | b :: r =>
      match q with
      | SStart =>
          if b =? DQ then rd r SQuoted [] done
          else if b =? COMMA then rd r SStart [] ([] :: done)
          else if (b =? CR) || (b =? LF) then None
          else rd r SPlain [b] done
      | SPlain =>
          if b =? COMMA then rd r SStart [] (rev cur :: done)
          else if (b =? DQ) || (b =? CR) || (b =? LF) then None
          else rd r SPlain (b :: cur) done
      | SQuoted =>
          if b =? DQ then rd r SQQ cur done else rd r SQuoted (b :: cur) done
      | SQQ =>
          if b =? DQ then rd r SQuoted (DQ :: cur) done
          else if b =? COMMA then rd r SStart [] (rev cur :: done)
          else None
      end
  end.

Definition rfc4180_row (s : bytes) : option (list bytes) := rd s SStart [] [].
