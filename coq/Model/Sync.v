(* Abstract synchronisation traces, happens-before and data races (C05, part a).
   Locations, mutexes and threads are numbers.  A mutex can be taken exclusively (sync.Mutex.Lock,
   sync.RWMutex.Lock) or shared (sync.RWMutex.RLock). *)
From Coq Require Import List Arith Lia Bool.
Import ListNotations.

Definition thread := nat. Definition mutex := nat. Definition loc := nat.
Inductive ev :=
| Acq (t : thread) (m : mutex) | Rel (t : thread) (m : mutex)        (* exclusive *)
| RAcq (t : thread) (m : mutex) | RRel (t : thread) (m : mutex)      (* shared *)
| Acc (t : thread) (x : loc) (w atomic : bool)                       (* access: write?, atomic? *)
| Fork (t t' : thread).
Definition thr (e : ev) : thread :=
  match e with Acq t _ | Rel t _ | RAcq t _ | RRel t _ | Acc t _ _ _ | Fork t _ => t end.

(* who holds a mutex: the exclusive owner, and how many shared holds each thread has *)
Record hold := { hw : option thread; hr : thread -> nat }.
Definition hstate := mutex -> hold.
Definition h0 : hstate := fun _ => {| hw := None; hr := fun _ => 0 |}.
Definition upd (h : hstate) (m : mutex) (v : hold) : hstate := fun m' => if m' =? m then v else h m'.
Definition step_h (h : hstate) (e : ev) : hstate :=
  match e with
  | Acq t m => upd h m {| hw := Some t; hr := hr (h m) |}
  | Rel t m => upd h m {| hw := None; hr := hr (h m) |}
  | RAcq t m => upd h m {| hw := hw (h m); hr := fun t' => if t' =? t then S (hr (h m) t') else hr (h m) t' |}
  | RRel t m => upd h m {| hw := hw (h m); hr := fun t' => if t' =? t then pred (hr (h m) t') else hr (h m) t' |}
  | _ => h
  end.
Definition holder (tr : list ev) : hstate := fold_left step_h tr h0.

(* mutual exclusion as the Go runtime provides it *)
Definition wf (tr : list ev) : Prop :=
  forall i e, nth_error tr i = Some e ->
    let h := holder (firstn i tr) in
    match e with
    | Acq t m => hw (h m) = None /\ (forall t', hr (h m) t' = 0)
    | Rel t m => hw (h m) = Some t
    | RAcq t m => hw (h m) = None
    | RRel t m => hr (h m) t > 0
    | _ => True
    end.

Inductive hb (tr : list ev) : nat -> nat -> Prop :=
| hb_po i j e1 e2 : i < j -> nth_error tr i = Some e1 -> nth_error tr j = Some e2 -> thr e1 = thr e2 -> hb tr i j
| hb_sync i j t t' m : i < j -> nth_error tr i = Some (Rel t m) -> nth_error tr j = Some (Acq t' m) -> hb tr i j
| hb_sync_wr i j t t' m : i < j -> nth_error tr i = Some (Rel t m) -> nth_error tr j = Some (RAcq t' m) -> hb tr i j
| hb_sync_rw i j t t' m : i < j -> nth_error tr i = Some (RRel t m) -> nth_error tr j = Some (Acq t' m) -> hb tr i j
| hb_fork i j t t' e : i < j -> nth_error tr i = Some (Fork t t') -> nth_error tr j = Some e -> thr e = t' -> hb tr i j
| hb_trans i j k : hb tr i j -> hb tr j k -> hb tr i k.

Definition conflict (e1 e2 : ev) : Prop :=
  match e1, e2 with
  | Acc t x w a, Acc t' x' w' a' => x = x' /\ t <> t' /\ (w = true \/ w' = true) /\ (a = false \/ a' = false)
  | _, _ => False
  end.
(* a data race: two conflicting accesses not ordered by happens-before *)
Definition race (tr : list ev) : Prop :=
  exists i j e1 e2, i < j /\ nth_error tr i = Some e1 /\ nth_error tr j = Some e2 /\ conflict e1 e2 /\ ~ hb tr i j.

(* ---- disciplines a location can follow ---- *)
(* every write holds m exclusively, every read holds m exclusively or shared *)
Definition guarded (tr : list ev) (x : loc) (m : mutex) : Prop :=
  forall i t w a, nth_error tr i = Some (Acc t x w a) ->
    let h := holder (firstn i tr) m in
    if w then hw h = Some t else (hw h = Some t \/ hr h t > 0).
Definition all_atomic (tr : list ev) (x : loc) : Prop :=
  forall i t w a, nth_error tr i = Some (Acc t x w a) -> a = true.
(* written only by the creating thread t0, and every access by another thread comes later and is
   ordered after it (the object is published - go statement, channel send - only after the
   constructor has returned): the publication assumption of the init-then-read-only class *)
Definition init_then_read (tr : list ev) (x : loc) : Prop :=
  exists t0, forall i t w a, nth_error tr i = Some (Acc t x w a) -> w = true ->
    t = t0 /\ forall j t' w' a', nth_error tr j = Some (Acc t' x w' a') -> t' <> t0 -> i < j /\ hb tr i j.

(* ---- the discipline table the translator extracts from the source ---- *)
Inductive prot := PAtomic | PLock (m : nat) | PRLock (m : nat) | PPlain | PInit.
Record site := { s_loc : nat; s_write : bool; s_prot : prot }.

Definition prot_eqb_lock (p : prot) (m : nat) (w : bool) : bool :=
  match p with
  | PLock m' => m' =? m
  | PRLock m' => (m' =? m) && negb w      (* a shared hold may only read *)
  | _ => false
  end.
Definition sites_of (tbl : list site) (x : nat) : list site :=
  filter (fun s => (s_loc s =? x) && match s_prot s with PInit => false | _ => true end) tbl.
Definition loc_atomic (ss : list site) : bool := forallb (fun s => match s_prot s with PAtomic => true | _ => false end) ss.
Definition loc_guarded (ss : list site) (m : nat) : bool := forallb (fun s => prot_eqb_lock (s_prot s) m (s_write s)) ss.
Definition loc_readonly (ss : list site) : bool := forallb (fun s => negb (s_write s)) ss.
Definition first_lock (ss : list site) : option nat :=
  match ss with
  | s :: _ => match s_prot s with PLock m | PRLock m => Some m | _ => None end
  | [] => None
  end.
Inductive lclass := CAtomic | CGuarded (m : nat) | CReadOnly | CBad.
Definition classify_loc (tbl : list site) (x : nat) : lclass :=
  let ss := sites_of tbl x in
  if loc_readonly ss then CReadOnly
  else if loc_atomic ss then CAtomic
  else match first_lock ss with
       | Some m => if loc_guarded ss m then CGuarded m else CBad
       | None => CBad
       end.
Definition table_ok (tbl : list site) (nlocs : nat) : bool :=
  forallb (fun x => match classify_loc tbl x with CBad => false | _ => true end) (seq 0 nlocs).

(* a trace obeys the table when every location follows the discipline its access sites exhibit *)
Definition obeys (tbl : list site) (tr : list ev) : Prop :=
  forall x, match classify_loc tbl x with
            | CAtomic => all_atomic tr x
            | CGuarded m => guarded tr x m
            | CReadOnly => init_then_read tr x
            | CBad => True
            end.
Definition locs_below (tr : list ev) (n : nat) : Prop :=
  forall i t x w a, nth_error tr i = Some (Acc t x w a) -> x < n.
