(* Go's unicode.IsSpace as a predicate on code points.
   Latin-1: '\t' '\n' '\v' '\f' '\r' ' ' U+0085 U+00A0; beyond: the Unicode White_Space property
   (U+1680, U+2000..U+200A, U+2028, U+2029, U+202F, U+205F, U+3000).
   Tie: harness/c09 compares this definition with unicode.IsSpace on every rune < 0x3100 and on a
   sample of the remaining planes, on every run (case constructor [cspace] of Corr/C09Case.v). *)
From Coq Require Import NArith Bool Lia.
Local Open Scope N_scope.

Definition is_space (r : N) : bool :=
  ((9 <=? r) && (r <=? 13)) || (r =? 32) || (r =? 133) || (r =? 160) || (r =? 5760)
  || ((8192 <=? r) && (r <=? 8202)) || (r =? 8232) || (r =? 8233) || (r =? 8239)
  || (r =? 8287) || (r =? 12288).

(* no white-space rune is one of the four syntax characters: backslash, braces, double quote *)
Lemma is_space_not_syntax r :
  is_space r = true -> r <> 92 /\ r <> 123 /\ r <> 125 /\ r <> 34.
Proof.
  unfold is_space. intros H.
  repeat (apply orb_true_iff in H; destruct H as [H|H]);
    repeat (apply andb_true_iff in H; destruct H as [H H']);
    try apply N.leb_le in H; try apply N.leb_le in H'; try apply N.eqb_eq in H; lia.
Qed.
