(* Model of the template compiler of pkg/expressions:
     keyBuilder.go   Compile (outer scanner: escape look-ahead, brace depth, literal emission,
                     statement dispatch, recursive compilation of every argument), unescape
     argSplitter.go  splitTokenizedArguments (escape, quote, brace depth, unicode.IsSpace)
     stage.go        stageSimpleVariable (strconv.Atoi accepts -> group look-up, else key look-up)
     errors.go       CompilerErrors.add / inherit (kind, offset; nested offsets re-based)
   Strings are lists of code points ([]rune(template); UTF-8 decoding is Go's on both sides of
   the correspondence).  The compiler returns the parse tree and the error list; Go panics are
   explicit ([result]).  Shared by C08 (no crash), C09 (syntax) and C10 (optimisation). *)
From Coq Require Import List NArith ZArith Bool.
From RareV Require Import Base.Res Base.Hex Base.Num Model.IsSpace.
Import ListNotations.
Local Open Scope N_scope.

Definition str := list N.

Definition nonempty {A} (l : list A) : bool := match l with [] => false | _ => true end.

(* ---- parse tree ------------------------------------------------------------------------ *)
(* A compiled template is a sequence of stages; every argument of a call is again a template. *)
Inductive piece :=
| PLit (s : str)                         (* stageLiteral *)
| PMatch (i : Z)                         (* stageSimpleVariable, Atoi succeeded: context.GetMatch i *)
| PKey (k : str)                         (* stageSimpleVariable otherwise: context.GetKey k *)
| PCall (f : str) (args : list (list piece)).   (* s.functions[f](compiled arguments) *)
Definition tmpl := list piece.

(* ---- errors.go ------------------------------------------------------------------------- *)
Inductive ekind :=
| EUnterminated        (* ErrorUnterminated *)
| EEmptyStatement      (* ErrorEmptyStatement *)
| EMissingFunction     (* ErrorMissingFunction *)
| EFunc (code : N).    (* an error returned by the function constructor (opaque code) *)
Definition cerr := (ekind * N)%type.     (* DetailedError: Err, Index (in runes) *)

(* CompilerErrors.inherit: offsets of a nested compilation are shifted by the statement's offset *)
Definition rebase (off : N) (es : list cerr) : list cerr := map (fun e => (fst e, snd e + off)) es.

(* The function table: [None] = not registered; [Some chk] = registered, and [chk args] is the
   error (if any) its constructor returns for the compiled arguments. *)
Definition fenv := str -> option (list tmpl -> option N).

(* ---- stage.go -------------------------------------------------------------------------- *)
Definition simple_var (w : str) : piece :=
  match atoi w with Some i => PMatch i | None => PKey w end.

(* fmt.Sprintf("<Err:%s>", name) *)
Definition err_prefix : str := [60; 69; 114; 114; 58].
Definition err_suffix : str := [62].
Definition err_lit (f : str) : str := err_prefix ++ f ++ err_suffix.

(* ---- argSplitter.go -------------------------------------------------------------------- *)
(* state: args, sb, tokenDepth (a Go int: may go negative), quoted, escaped *)
Fixpoint sp_run (args : list str) (sb : str) (depth : Z) (quoted esc : bool) (s : str) : list str :=
  match s with
  | [] => args ++ (if nonempty sb then [sb] else [])
  | r :: rest =>
      if esc then sp_run args (sb ++ [r]) depth quoted false rest
      else if r =? 92 then sp_run args sb depth quoted true rest
      else if (r =? 34) && negb quoted then
        sp_run args (if (0 <? depth)%Z then sb ++ [34] else sb) depth true false rest
      else if r =? 34 then
        if (0 <? depth)%Z then sp_run args (sb ++ [34]) depth false false rest
        else sp_run (args ++ [sb]) [] depth false false rest       (* always append, even if empty *)
      else if (r =? 123) && negb quoted then sp_run args (sb ++ [r]) (depth + 1)%Z quoted false rest
      else if (r =? 125) && negb quoted then sp_run args (sb ++ [r]) (depth - 1)%Z quoted false rest
      else if is_space r && nonempty sb && (depth =? 0)%Z && negb quoted then
        sp_run (args ++ [sb]) [] depth quoted false rest
      else if negb (is_space r) || quoted || (0 <? depth)%Z then
        sp_run args (sb ++ [r]) depth quoted false rest
      else sp_run args sb depth quoted false rest
  end.
Definition split_args (s : str) : list str := sp_run [] [] 0%Z false false s.

(* ---- keyBuilder.go --------------------------------------------------------------------- *)
Definition unescape (r : N) : N :=
  if r =? 110 then 10 else if r =? 114 then 13 else if r =? 116 then 9 else r.

Definition flush (sb : str) : tmpl := match sb with [] => [] | _ => [PLit sb] end.

Section Compile.
  (* [fixed = false]: the pinned code (a template ending in a backslash indexes past the end);
     [fixed = true]: after fixes/C09-trailing-backslash.patch (the backslash is literal). *)
  Variable fixed : bool.
  Variable fs : fenv.
  Variable rec : str -> result (tmpl * list cerr).      (* s.Compile(arg) *)

  Fixpoint compile_args (start : N) (args : list str) : result (list tmpl * list cerr) :=
    match args with
    | [] => Ok ([], [])
    | a :: r =>
        ta <- rec a ;;
        tr <- compile_args start r ;;
        Ok (fst ta :: fst tr, rebase start (snd ta) ++ snd tr)
    end.

  (* the body of `if inStatement == 0` after a closing brace *)
  Definition statement (start : N) (body : str) : result (tmpl * list cerr) :=
    match split_args body with
    | [] => Ok ([], [(EEmptyStatement, start)])
    | [w] => Ok ([simple_var w], [])
    | f :: args =>
        match fs f with
        | Some chk =>
            r <- compile_args start args ;;
            Ok ([PCall f (fst r)],
                snd r ++ match chk (fst r) with Some c => [(EFunc c, start)] | None => [] end)
        | None => Ok ([PLit (err_lit f)], [(EMissingFunction, start)])
        end
    end.

  (* the loop over runes; state: i, startStatement, inStatement, sb, kb.stages, errs *)
  Fixpoint scan (i start : N) (depth : nat) (sb : str) (stages : tmpl) (errs : list cerr)
                (l : str) : result (tmpl * list cerr) :=
    match l with
    | [] =>
        Ok (stages ++ flush sb,
            match depth with O => errs | S _ => errs ++ [(EUnterminated, start)] end)
    | r :: rest =>
        if r =? 92 then
          match rest with
          | c :: rest' => scan (i + 2) start depth (sb ++ [unescape c]) stages errs rest'
          | [] => if fixed then scan (i + 1) start depth (sb ++ [92]) stages errs rest
                  else Panic                                   (* runes[i] with i = len(runes) *)
          end
        else if r =? 123 then
          match depth with
          | O => scan (i + 1) i 1 [] (stages ++ flush sb) errs rest
          | S _ => scan (i + 1) start (S depth) (sb ++ [r]) stages errs rest
          end
        else if r =? 125 then
          match depth with
          | O => scan (i + 1) start depth (sb ++ [r]) stages errs rest
          | 1%nat =>
              match statement start sb with
              | Ok (ps, es) => scan (i + 1) start 0 [] (stages ++ ps) (errs ++ es) rest
              | Panic => Panic
              end
          | S d => scan (i + 1) start d (sb ++ [r]) stages errs rest
          end
        else scan (i + 1) start depth (sb ++ [r]) stages errs rest
    end.
End Compile.

(* Compile calls itself on every argument; an argument is at least two runes shorter than the
   template it occurs in, so [length s + 1] levels always suffice (Proofs/TmplFuel.v:
   [compile_f_enough], [compile_unfold]); running out of fuel is therefore unreachable. *)
Fixpoint compile_f (fixed : bool) (fs : fenv) (fuel : nat) (s : str) : result (tmpl * list cerr) :=
  match fuel with
  | O => Panic
  | S n => scan fixed fs (compile_f fixed fs n) 0 0 0 [] [] [] s
  end.

Definition compile_gen (fixed : bool) (fs : fenv) (s : str) : result (tmpl * list cerr) :=
  compile_f fixed fs (S (length s)) s.

(* the compiler after the repair of defect #1 *)
Definition compile : fenv -> str -> result (tmpl * list cerr) := compile_gen true.
(* the compiler as pinned *)
Definition compile_pinned : fenv -> str -> result (tmpl * list cerr) := compile_gen false.
