(* C15 — follow mode (pkg/followreader).  Two transition systems, one rule per atomic action, every
   interleaving of writer, kernel/fsnotify watcher and reader is a step sequence:

     nstep  : NotifyFollowReader.Read (notify.go) + the goroutine of startWatcher + the writer
     pstep  : PollingFollowReader.Read (poller.go) + the writer

   Environment: the followed path holds nothing or one file; every file ever created at the path is an
   incarnation (its index = its inode); removed incarnations keep their content (the reader may still
   hold a descriptor).  The only writer operations are the property's alphabet: append to the file at
   the path, remove it, create it again (empty).  No truncate, no rename.

   The D-handler of the notify reader is modelled AFTER the repair fixes/C15-notify-stale-delete.patch
   (flag [repaired] = true): a delete signal is ignored when the open descriptor still is the file at
   the path.  [repaired] = false is the code as found; Proofs/FollowRefute.v shows that it delivers a
   re-created file twice (finding C15-notify-stale-delete). *)
From Coq Require Import List NArith Arith Bool.
From RareV Require Import Base.Hex.
Import ListNotations.
Local Open Scope nat_scope.

(* ------------------------------------------------------------------ environment *)
Record env := mkenv { past : list bytes;      (* removed incarnations, oldest first *)
                      cur : option bytes }.   (* the file at the path *)
Definition curc (e : env) : bytes := match cur e with Some c => c | None => [] end.
Definition present (e : env) : bool := match cur e with Some _ => true | None => false end.
Definition all (e : env) : bytes := concat (past e) ++ curc e.        (* everything ever written, in order *)
Definition ino (e : env) : nat := length (past e).                     (* inode of the file at the path *)
Definition content (e : env) (i : nat) : bytes :=
  if i <? length (past e) then nth i (past e) [] else if i =? length (past e) then curc e else [].
Definition size (e : env) : nat := length (curc e).

(* labels: the writer's operations and the results of Read are visible; the rest is internal *)
Inductive label :=
| LAppend (bs : bytes) | LRemove | LCreate      (* writer *)
| LSibling                                      (* somebody creates / writes / removes / renames ANOTHER entry of the directory *)
| LWatch                                        (* watcher goroutine forwards one event *)
| LTau | LStat                                  (* reader, internal (LStat: the poller's os.Stat) *)
| LData (bs : bytes) | LEof.                    (* Read returned (n > 0, nil) / (0, io.EOF) *)

Inductive estep : env -> label -> env -> Prop :=
| e_append e c bs : cur e = Some c -> estep e (LAppend bs) (mkenv (past e) (Some (c ++ bs)))
| e_remove e c : cur e = Some c -> estep e LRemove (mkenv (past e ++ [c]) None)
| e_create e : cur e = None -> estep e LCreate (mkenv (past e) (Some [])).

Definition fd := option (nat * nat).            (* open descriptor: (inode, offset) *)
Definition fd_current (e : env) (f : fd) : bool :=   (* os.SameFile(f.Stat(), os.Stat(path)) *)
  match f with Some (i, _) => present e && (i =? ino e) | None => false end.
Definition open_cur (e : env) : fd := if present e then Some (ino e, 0) else None.   (* os.Open(path) *)

(* ------------------------------------------------------------------ notify reader *)
Inductive event := EvWrite | EvRemove | EvCreate
  | EvOther.   (* an event of another entry of the watched directory: path.Base(event.Name) differs *)
Definition ev_of (l : label) : list event :=
  match l with LAppend _ => [EvWrite] | LRemove => [EvRemove] | LCreate => [EvCreate] | _ => [] end.
(* program points of Read: about to read the descriptor / in the select / closed (EOF returned) *)
Inductive npc := NRead | NSelect | NEnded.

Record nstate := mkn {
  nenv : env; nfd : fd; npcs : npc;
  sigW : bool; sigD : bool;          (* eventWrite, eventDelete: capacity-1 channels written without blocking *)
  queue : list event;                (* events of the path not yet seen by the watcher goroutine, in order *)
  ndel : bytes                       (* ghost: everything Read has returned *)
}.

Section Notify.
Variable reopen : bool.
Variable repaired : bool.

Inductive nstep : nstate -> label -> nstate -> Prop :=
(* writer; the kernel queues one event *)
| n_env s l e' : estep (nenv s) l e' ->
    nstep s l (mkn e' (nfd s) (npcs s) (sigW s) (sigD s) (queue s ++ ev_of l) (ndel s))
(* ... or merges a write event into an identical event at the tail of the queue (inotify) *)
| n_env_coalesce s bs e' q : estep (nenv s) (LAppend bs) e' -> queue s = q ++ [EvWrite] ->
    nstep s (LAppend bs) (mkn e' (nfd s) (npcs s) (sigW s) (sigD s) (queue s) (ndel s))
(* watcher goroutine: event := <-watcher.Events; writeSignalNonBlock *)
| n_watch s ev q : queue s = ev :: q ->
    nstep s LWatch (mkn (nenv s) (nfd s) (npcs s)
                        (match ev with EvWrite | EvCreate => true | _ => sigW s end)
                        (match ev with EvRemove => true | _ => sigD s end) q (ndel s))
(* n, err := s.f.Read(buf); n > 0: return *)
| n_read_data s i off bs rest : npcs s = NRead -> nfd s = Some (i, off) -> bs <> [] ->
    skipn off (content (nenv s) i) = bs ++ rest ->
    nstep s (LData bs) (mkn (nenv s) (Some (i, off + length bs)) NRead (sigW s) (sigD s) (queue s) (ndel s ++ bs))
(* n = 0 (EOF of the descriptor): fall through to the select *)
| n_read_empty s i off : npcs s = NRead -> nfd s = Some (i, off) -> skipn off (content (nenv s) i) = [] ->
    nstep s LTau (mkn (nenv s) (nfd s) NSelect (sigW s) (sigD s) (queue s) (ndel s))
| n_read_nofd s : npcs s = NRead -> nfd s = None ->
    nstep s LTau (mkn (nenv s) (nfd s) NSelect (sigW s) (sigD s) (queue s) (ndel s))
(* case <-s.eventWrite: re-open if no descriptor and ReOpen *)
| n_sel_write s : npcs s = NSelect -> sigW s = true ->
    nstep s LTau (mkn (nenv s)
                      (match nfd s with None => if reopen then open_cur (nenv s) else None | f => f end)
                      NRead false (sigD s) (queue s) (ndel s))
(* case <-s.eventDelete, ReOpen: closeFile (repaired: unless the descriptor still is the file at the path) *)
| n_sel_delete_reopen s : npcs s = NSelect -> sigD s = true -> reopen = true ->
    nstep s LTau (mkn (nenv s) (if repaired && fd_current (nenv s) (nfd s) then nfd s else None)
                      NRead (sigW s) false (queue s) (ndel s))
(* case <-s.eventDelete, no ReOpen: Close; return 0, io.EOF.  (Close also drops the descriptor; every later
   Read returns EOF because of [closed], so the descriptor is kept here as a ghost.) *)
| n_sel_delete_end s : npcs s = NSelect -> sigD s = true -> reopen = false ->
    nstep s LEof (mkn (nenv s) (nfd s) NEnded (sigW s) false (queue s) (ndel s))
(* another entry of the directory changes: the kernel queues an event that the goroutine filters out *)
| n_sibling s :
    nstep s LSibling (mkn (nenv s) (nfd s) (npcs s) (sigW s) (sigD s) (queue s ++ [EvOther]) (ndel s)).
End Notify.

(* ------------------------------------------------------------------ polling reader *)
(* program points of Read: read attempt / os.Stat / between Stat and os.Open (holding st.Size()) / closed *)
Inductive ppc := PRead | PStat | POpen (sz : nat) | PEnded.
Record pstate := mkp { penv : env; pfd : fd; ppcs : ppc; rb : nat (* readBytes *); pdel : bytes;
                        patt : nat }.   (* read attempts left before the next os.Stat (ReadAttempts - i) *)

(* what the plain-follow branch sees when it looks at the path.  Repaired (fixes/C15-poll-plain-recreate.patch,
   applied): err == nil && isOpenFile(st), i.e. the path exists and still is the open file (os.SameFile; with no
   descriptor only existence counts).  As found: os.Stat succeeds. *)
Definition still_open (e : env) (f : fd) : bool :=
  match f with None => present e | Some _ => fd_current e f end.
Definition plain_sees (repaired : bool) (e : env) (f : fd) : bool :=
  if repaired then still_open e f else present e.

Section Poll.
Variable reopen : bool.
Variable repaired : bool.     (* true: plain-follow Stat rule after the repair; false: as found *)

(* ReadAttempts is an exported field: whenever the attempt counter restarts, the budget [a] is any number. *)
Inductive pstep : pstate -> label -> pstate -> Prop :=
| p_env s l e' : estep (penv s) l e' -> pstep s l (mkp e' (pfd s) (ppcs s) (rb s) (pdel s) (patt s))
(* n, err := s.f.Read(buf); s.readBytes += n; n > 0: return (the next Read starts with i = 0) *)
| p_read_data s i off bs rest a : ppcs s = PRead -> pfd s = Some (i, off) -> bs <> [] ->
    skipn off (content (penv s) i) = bs ++ rest ->
    pstep s (LData bs) (mkp (penv s) (Some (i, off + length bs)) PRead (rb s + length bs) (pdel s ++ bs) a)
(* n = 0: sleep, next attempt (one attempt less is left) ... *)
| p_read_retry s i off k : ppcs s = PRead -> pfd s = Some (i, off) -> skipn off (content (penv s) i) = [] ->
    patt s = S k ->
    pstep s LTau (mkp (penv s) (pfd s) PRead (rb s) (pdel s) k)
(* ... or the attempts are used up (allowed at any time: a superset of the code, harmless for safety) *)
| p_read_giveup s i off : ppcs s = PRead -> pfd s = Some (i, off) -> skipn off (content (penv s) i) = [] ->
    pstep s LTau (mkp (penv s) (pfd s) PStat (rb s) (pdel s) (patt s))
| p_nofd s : ppcs s = PRead -> pfd s = None ->
    pstep s LTau (mkp (penv s) (pfd s) PStat (rb s) (pdel s) (patt s))
(* Reopen: st, _ := os.Stat; st != nil && st.Size() != s.readBytes *)
| p_stat_reopen s a : ppcs s = PStat -> reopen = true ->
    pstep s LStat (mkp (penv s) (pfd s)
                       (if present (penv s) && negb (size (penv s) =? rb s) then POpen (size (penv s)) else PRead)
                       (rb s) (pdel s) a)
(* s.f, _ = os.Open; size >= readBytes: Seek(readBytes) (no effect on a nil file); else readBytes = 0 *)
| p_open s sz a : ppcs s = POpen sz ->
    pstep s LTau (if rb s <=? sz
                  then mkp (penv s) (match open_cur (penv s) with Some (i, _) => Some (i, rb s) | None => None end)
                           PRead (rb s) (pdel s) a
                  else mkp (penv s) (open_cur (penv s)) PRead 0 (pdel s) a)
(* no Reopen: the path is there and is the open file: next round; gone or replaced: Close; return 0, io.EOF *)
| p_stat_present s a : ppcs s = PStat -> reopen = false -> plain_sees repaired (penv s) (pfd s) = true ->
    pstep s LTau (mkp (penv s) (pfd s) PRead (rb s) (pdel s) a)
| p_stat_gone s : ppcs s = PStat -> reopen = false -> plain_sees repaired (penv s) (pfd s) = false ->
    pstep s LEof (mkp (penv s) (pfd s) PEnded (rb s) (pdel s) (patt s))
(* another entry of the directory changes: nothing the poller looks at *)
| p_sibling s : pstep s LSibling s.
End Poll.

(* ------------------------------------------------------------------ initial states *)
(* followreader.New, then Drain for --tail, happen before the history starts.  [c0] = the file at the path
   at that moment (None: missing, possible with re-open only). *)
Definition start_of (tail : bool) (c : bytes) : nat := if tail then length c else 0.
Definition pre_of (c0 : option bytes) (tail : bool) : bytes :=   (* the part --tail skips *)
  match c0 with Some c => firstn (start_of tail c) c | None => [] end.
Definition env0 (c0 : option bytes) : env := mkenv [] c0.
Definition fd0 (c0 : option bytes) (tail : bool) : fd :=
  match c0 with Some c => Some (0, start_of tail c) | None => None end.
Definition ninit (c0 : option bytes) (tail : bool) : nstate :=
  mkn (env0 c0) (fd0 c0 tail) NRead false false [] [].
Definition pinit (c0 : option bytes) (tail : bool) : pstate :=
  mkp (env0 c0) (fd0 c0 tail) PRead (match c0 with Some c => start_of tail c | None => 0 end) [] 0.

(* ------------------------------------------------------------------ the histories the property speaks about *)
(* removal only after everything written so far has been delivered *)
Definition drained (pre : bytes) (e : env) (del : bytes) : Prop := pre ++ del = all e.
Definition nok (pre : bytes) (s : nstate) (l : label) : Prop :=
  match l with LRemove => drained pre (nenv s) (ndel s) | _ => True end.
(* polling: when the poller looks at a file that is not the one it has open, that file is still shorter
   than readBytes (or nothing was read so far, in which case reading from offset 0 is right anyway) *)
Definition pok (pre : bytes) (s : pstate) (l : label) : Prop :=
  match l with
  | LRemove => drained pre (penv s) (pdel s)
  | LStat => present (penv s) = true -> fd_current (penv s) (pfd s) = false -> size (penv s) <= rb s \/ rb s = 0
  | _ => True
  end.

Section Runs.
Context {S : Type}.
Variable step : S -> label -> S -> Prop.
Variable ok : S -> label -> Prop.
Inductive run : S -> list label -> S -> Prop :=
| run0 s : run s [] s
| runS s tr s1 l s2 : run s tr s1 -> ok s1 l -> step s1 l s2 -> run s (tr ++ [l]) s2.
End Runs.
Definition any {S} (_ : S) (_ : label) : Prop := True.

(* ------------------------------------------------------------------ the specification as an acceptor of visible traces *)
(* What an observer of the writer's log and of the Read results may see.  The correspondence feeds the
   trace recorded from the real reader into [spec_run]; Proofs/Follow*.v show that every run of the
   two transition systems is accepted. *)
Record spec := mks {
  sE : bytes;           (* bytes that have to be delivered: after the start position, then every re-created file *)
  sDl : bytes;          (* delivered so far *)
  sPresent : bool; sRemoved : bool; sEnded : bool }.

Definition is_nil (b : bytes) : bool := match b with [] => true | _ => false end.
Definition is_prefix (a b : bytes) : bool := bytes_eqb a (firstn (length a) b).

Definition spec_step (reopen : bool) (s : spec) (l : label) : option spec :=
  match l with
  | LAppend bs => if sPresent s then Some (mks (sE s ++ bs) (sDl s) true (sRemoved s) (sEnded s)) else None
  | LRemove => if sPresent s && bytes_eqb (sDl s) (sE s)
               then Some (mks (sE s) (sDl s) false true (sEnded s)) else None
  | LCreate => if sPresent s then None else Some (mks (sE s) (sDl s) true (sRemoved s) (sEnded s))
  | LData bs => if negb (sEnded s) && negb (is_nil bs) && is_prefix (sDl s ++ bs) (sE s)
                then Some (mks (sE s) (sDl s ++ bs) (sPresent s) (sRemoved s) (sEnded s)) else None
  | LEof => if negb (sEnded s) && negb reopen && sRemoved s
            then Some (mks (sE s) (sDl s) (sPresent s) (sRemoved s) true) else None
  | LWatch | LTau | LStat | LSibling => Some s   (* siblings are invisible to the specification *)
  end.
Fixpoint spec_run (reopen : bool) (s : spec) (tr : list label) : option spec :=
  match tr with
  | [] => Some s
  | l :: r => match spec_step reopen s l with Some s' => spec_run reopen s' r | None => None end
  end.
Definition spec_init (c0 : option bytes) (tail : bool) : spec :=
  mks (match c0 with Some c => skipn (start_of tail c) c | None => [] end) []
      (match c0 with Some _ => true | None => false end) false false.

(* ------------------------------------------------------------------ correspondence: input, observable, boolean form *)
Record cin := mkcin { i_poll : bool; i_reopen : bool; i_tail : bool; i_c0 : option bytes;
                      i_hist : list label }.       (* the writer's operations, in order *)
(* delivered stream, termination (0 = still blocked when the observer stopped, 1 = EOF, 2 = anything else),
   merged log (writer operations logged before they are performed, Read results after Read returned) *)
Definition obs := (bytes * N * list label)%type.

Definition is_env (l : label) : bool :=
  match l with LAppend _ | LRemove | LCreate | LSibling => true | _ => false end.
Definition is_sibling (l : label) : bool := match l with LSibling => true | _ => false end.
Definition is_remove (l : label) : bool := match l with LRemove => true | _ => false end.
Definition label_eqb (a b : label) : bool :=
  match a, b with
  | LAppend x, LAppend y => bytes_eqb x y | LData x, LData y => bytes_eqb x y
  | LRemove, LRemove | LCreate, LCreate | LWatch, LWatch | LTau, LTau | LStat, LStat | LEof, LEof
  | LSibling, LSibling => true
  | _, _ => false
  end.
Definition data_of (tr : list label) : bytes :=
  flat_map (fun l => match l with LData b => b | _ => [] end) tr.

(* the functional projection compared with the implementation: what must have been delivered once the
   reader is quiescent, and how the stream ends *)
(* what has to be delivered in the end.  Re-open: everything written, incarnation after incarnation.  Plain
   follow: only what is written before the first removal - the stream ends there whatever happens to the path
   afterwards, nothing of a re-created file is delivered. *)
Fixpoint wanted (ro rm : bool) (h : list label) : bytes :=
  match h with
  | [] => []
  | LAppend b :: r => (if negb ro && rm then [] else b) ++ wanted ro rm r
  | LRemove :: r => wanted ro true r
  | _ :: r => wanted ro rm r
  end.
Definition want (ro : bool) (e : env) : bytes := if ro then all e else content e 0.
Definition expected (i : cin) : bytes :=
  sE (spec_init (i_c0 i) (i_tail i)) ++ wanted (i_reopen i) false (i_hist i).
Definition expected_term (i : cin) : N :=
  if negb (i_reopen i) && existsb is_remove (i_hist i) then 1%N else 0%N.
Definition model (i : cin) : obs := (expected i, expected_term i, []).
Definition obs_eqb (a b : obs) : bool :=
  let '(d1, t1, _) := a in let '(d2, t2, _) := b in bytes_eqb d1 d2 && N.eqb t1 t2.

(* the property on an observed run: the log is the given history with Read results interleaved; it is
   accepted by the specification (every chunk continues the expected stream exactly where the previous one
   stopped, no chunk arrives before its bytes were written, removal only after drain, EOF only in plain
   follow after a removal); at the end exactly [expected] was delivered; the stream ended iff it had to *)
Definition C15_check (i : cin) (o : obs) : bool :=
  let '(d, t, tr) := o in
  list_eqb label_eqb (filter is_env tr) (i_hist i) &&
  bytes_eqb (data_of tr) d &&
  match spec_run (i_reopen i) (spec_init (i_c0 i) (i_tail i)) tr with
  | Some s => bytes_eqb d (expected i) && N.eqb t (expected_term i) && Bool.eqb (sEnded s) (N.eqb t 1)
  | None => false
  end.
