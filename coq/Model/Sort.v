(* Model of pkg/aggregation/sorting (strings.go, contextual.go, dates.go, namevalue.go, sorter.go)
   and cmd/helpers/sorting.go (parseSort, lookupSorter, BuildSorter).

   A key is its byte string together with oracle values computed by the harness with the
   (trusted) library calls the Go code makes on it: strconv.ParseFloat, dateparse.ParseFormat,
   time.Parse.  Everything else (byte order, lower-casing as far as set membership can see it,
   set lookup in the translator-generated tables, the closure state of ByContextualEx/ByDate,
   value comparison, Reverse, sort-name parsing) is modelled here.

   The model is of /repo after the repairs
     fixes/C13-bynamesmart.patch          (ByNameSmart: numbers, then value, then bytes),
     fixes/C13-contextual-ties.patch      (equal position / equal instant: the fallback breaks the tie),
     fixes/C13-stateful-comparators.patch (ByContextualEx decides by the two keys alone);
   the pinned versions are kept as [by_name_smart_pinned], [by_contextual_pinned] for the
   refutation theorems only.  ByDate still carries closure state (finding C13-stateful-date:
   recorded, not repaired - no state-free order passes the package's own TestDateFallback). *)
From Coq Require Import List NArith ZArith Bool Lia String.
From RareV Require Import Base.Hex Base.Num Gen.GenSortSets.
Import ListNotations.

(* ---------------------------------------------------------------- generic: comparators, reference sort *)
Section Generic.
  Context {A : Type}.
  Variable less : A -> A -> bool.

  Fixpoint insert (x : A) (l : list A) : list A :=
    match l with
    | [] => [x]
    | y :: r => if less x y then x :: y :: r else y :: insert x r
    end.
  Fixpoint isort (l : list A) : list A :=
    match l with [] => [] | x :: r => insert x (isort r) end.

  (* the same sort in O(n log n) (top-down merge sort on explicit fuel), for large key sets;
     Proofs/SortMerge.v: equal to [isort] whenever the comparator is a total order on the keys *)
  Fixpoint merge (l1 l2 : list A) : list A :=
    let fix merge_aux (l2 : list A) : list A :=
      match l1, l2 with
      | [], _ => l2
      | _, [] => l1
      | a1 :: l1', a2 :: l2' =>
          if less a2 a1 then a2 :: merge_aux l2' else a1 :: merge l1' l2
      end in
    merge_aux l2.
  Fixpoint halve (l : list A) : list A * list A :=
    match l with
    | a :: b :: r => let '(x, y) := halve r in (a :: x, b :: y)
    | _ => (l, [])
    end.
  Fixpoint msort_fuel (fuel : nat) (l : list A) : list A :=
    match fuel with
    | O => l
    | S f =>
        match l with
        | [] | [_] => l
        | _ => let '(x, y) := halve l in merge (msort_fuel f x) (msort_fuel f y)
        end
    end.
  Definition msort (l : list A) : list A := msort_fuel (List.length l) l.

  (* sorter.go Reverse: `not` the comparer *)
  Definition reverse : A -> A -> bool := fun a b => negb (less a b).

  Definition lt (a b : A) : Prop := less a b = true.
  (* the order axioms, on the members of a key set *)
  Definition irreflexive_on (l : list A) := forall a, In a l -> less a a = false.
  Definition asymmetric_on (l : list A) :=
    forall a b, In a l -> In b l -> a <> b -> lt a b -> lt b a -> False.
  Definition transitive_on (l : list A) :=
    forall a b c, In a l -> In b l -> In c l -> a <> b -> b <> c -> a <> c -> lt a b -> lt b c -> lt a c.
  Definition total_on (l : list A) := forall a b, In a l -> In b l -> a <> b -> lt a b \/ lt b a.
  (* a total order on distinct keys (what sort.Sort needs when all keys are distinct) *)
  Definition order_on (l : list A) := asymmetric_on l /\ transitive_on l /\ total_on l.
  Definition strict_order_on (l : list A) := irreflexive_on l /\ order_on l.
End Generic.

(* comparators with closure state (Go closures that assign captured variables) *)
Definition scmp (S A : Type) := S -> A -> A -> bool * S.
Definition lift {A} (f : A -> A -> bool) : scmp unit A := fun s a b => (f a b, s).
Definition sreverse {S A} (c : scmp S A) : scmp S A :=
  fun s a b => let '(r, s') := c s a b in (negb r, s').

Section StatefulSort.
  Context {S A : Type}.
  Variable cmp : scmp S A.
  Fixpoint sinsert (st : S) (x : A) (l : list A) : list A * S :=
    match l with
    | [] => ([x], st)
    | y :: r => let '(b, st1) := cmp st x y in
                if b then (x :: y :: r, st1)
                else let '(r', st2) := sinsert st1 x r in (y :: r', st2)
    end.
  Fixpoint sisort (st : S) (l : list A) : list A * S :=
    match l with
    | [] => ([], st)
    | x :: r => let '(r', st1) := sisort st r in sinsert st1 x r'
    end.
  (* a sequence of comparisons on one closure instance *)
  Fixpoint srun (st : S) (ps : list (A * A)) : list bool * S :=
    match ps with
    | [] => ([], st)
    | (a, b) :: r => let '(x, st1) := cmp st a b in
                     let '(xs, st2) := srun st1 r in (x :: xs, st2)
    end.
End StatefulSort.

(* ---------------------------------------------------------------- byte strings *)
(* Go string `<` : byte-lexicographic *)
Fixpoint blt (a b : bytes) : bool :=
  match a, b with
  | _, [] => false
  | [], _ :: _ => true
  | x :: a', y :: b' => if (x <? y)%N then true else if (y <? x)%N then false else blt a' b'
  end.

(* strings.ToLower as far as membership in an all-ASCII table can tell: ASCII letters fold;
   U+0130 (C4 B0) -> 'i' and U+212A (E2 84 AA) -> 'k' are the only non-ASCII runes whose lower
   case is ASCII (checked against unicode.ToLower over all runes); every other non-ASCII byte
   stays non-ASCII (Go would re-encode it; no table entry can match either way). *)
Definition lower_byte (b : N) : N := if ((65 <=? b) && (b <=? 90))%N then (b + 32)%N else b.
Fixpoint lower (s : bytes) : bytes :=
  match s with
  | [] => []
  | 196%N :: r =>
      match r with
      | 176%N :: r' => 105%N :: lower r'
      | _ => 196%N :: lower r
      end
  | 226%N :: r =>
      match r with
      | 132%N :: r1 =>
          match r1 with
          | 170%N :: r2 => 107%N :: lower r2
          | _ => 226%N :: lower r
          end
      | _ => 226%N :: lower r
      end
  | b :: r => lower_byte b :: lower r
  end.

(* ---------------------------------------------------------------- floats as compared *)
(* value of strconv.ParseFloat(s, 64) taken apart with math.Float64bits and given as an integer
   multiple m * 2^e (e >= 0; the harness always gives e = 0) of a power of two that is COMMON to all
   keys of the case (2^-1074 would do for every float64; the harness takes the smallest exponent
   occurring in the case) - comparisons do not depend on the common scale *)
Inductive fval := FNaN | FNegInf | FPosInf | FFin (m e : Z).
(* a non-NaN float as a point of a totally ordered set: (class, m * 2^e) *)
Definition fnum (v : fval) : option (Z * Z) :=
  match v with
  | FNaN => None
  | FNegInf => Some ((-1)%Z, 0%Z)
  | FPosInf => Some (1%Z, 0%Z)
  | FFin m e => Some (0%Z, Z.shiftl m e)   (* = m * 2^e, e >= 0 *)
  end.
Definition plt (x y : Z * Z) : bool :=
  ((fst x <? fst y) || ((fst x =? fst y) && (snd x <? snd y)))%Z.
Definition peq (x y : Z * Z) : bool := ((fst x =? fst y) && (snd x =? snd y))%Z.
(* Go `<` on float64 *)
Definition flt (a b : fval) : bool :=
  match fnum a, fnum b with Some x, Some y => plt x y | _, _ => false end.

(* ---------------------------------------------------------------- keys *)
Inductive fmt_res :=
| FmtErr                      (* dateparse.ParseFormat returned an error (and "") *)
| FmtOk (layout : option nat) (* index into the layouts of the case; None: the empty layout *).

Record key := mkkey {
  kname : bytes;
  kfv : option fval;          (* strconv.ParseFloat(name, 64); None: err != nil *)
  kfmt : fmt_res;             (* dateparse.ParseFormat(name) *)
  kdates : list (option Z)    (* time.Parse(layout_i, name) as an instant in ns; None: error *)
}.
(* sorting.NameValuePair *)
Definition item := (key * Z)%type.

Definition knum (k : key) : option (Z * Z) :=
  match kfv k with Some v => fnum v | None => None end.

(* strings.go *)
Definition by_name (a b : key) : bool := blt (kname a) (kname b).

(* ByNameSmart as pinned: numeric `<` when both parse, else text *)
Definition by_name_smart_pinned (a b : key) : bool :=
  match kfv a, kfv b with
  | Some x, Some y => flt x y
  | _, _ => blt (kname a) (kname b)
  end.

(* ByNameSmart after fixes/C13-bynamesmart.patch: numbers (non-NaN) before text, then by value,
   ties and text by bytes *)
Definition by_name_smart (a b : key) : bool :=
  match knum a, knum b with
  | Some x, Some y => if peq x y then blt (kname a) (kname b) else plt x y
  | Some _, None => true
  | None, Some _ => false
  | None, None => blt (kname a) (kname b)
  end.

(* ---------------------------------------------------------------- contextual.go *)
Definition sortset := list (bytes * Z).
Fixpoint lookup (s : sortset) (n : bytes) : option Z :=
  match s with
  | [] => None
  | (k, v) :: r => if bytes_eqb k n then Some v else lookup r n
  end.
(* lookupSortSet: index of the first set that has the lower-cased value, and its position there *)
Fixpoint set_pos_from (i : nat) (sets : list sortset) (low : bytes) : option (nat * Z) :=
  match sets with
  | [] => None
  | s :: r => match lookup s low with Some v => Some (i, v) | None => set_pos_from (S i) r low end
  end.
Definition set_pos (n : bytes) : option (nat * Z) := set_pos_from 0 sortSets (lower n).
(* the pair (set index, position) the comparer looks at; (-1, 0) outside every set *)
Definition ctx_rank (k : key) : Z * Z :=
  match set_pos (kname k) with Some (i, v) => (Z.of_nat i, v) | None => ((-1)%Z, 0%Z) end.

(* ByContextualEx: no captured variables any more; the only state is the fallback's *)
Definition by_contextual_ex {S} (fb : scmp S key) : scmp S key :=
  fun s a b =>
    let '(s0, v0) := ctx_rank a in
    let '(s1, v1) := ctx_rank b in
    if negb (s0 =? s1)%Z then ((s0 <? s1)%Z, s)
    else if negb (v0 =? v1)%Z then ((v0 <? v1)%Z, s)
    else fb s a b.
Definition by_contextual : scmp unit key := by_contextual_ex (lift by_name_smart).
(* the same as a plain function of two keys *)
Definition ctx_lt (a b : key) : bool :=
  if peq (ctx_rank a) (ctx_rank b) then by_name_smart a b else plt (ctx_rank a) (ctx_rank b).

(* ---- ByContextualEx as pinned (before the two repairs), for the refutation theorems ---- *)
Definition infer (n : bytes) : option nat := option_map fst (set_pos n).
Definition set_at (i : nat) : sortset := nth i sortSets [].
Definition kpos (i : nat) (k : key) : option Z := lookup (set_at i) (lower (kname k)).
Record cst := mkc { c_set : option nat; c_fb : bool }.
Definition c_init := mkc None false.
Definition by_contextual_ex_pinned {S} (fb : scmp S key) : scmp (cst * S) key :=
  fun st a b =>
    let '(c, s) := st in
    let c1 := if negb (c_fb c) && (match c_set c with None => true | Some _ => false end)
              then match infer (kname a) with
                   | Some i => mkc (Some i) false
                   | None => mkc None true
                   end
              else c in
    let fall (c2 : cst) := let '(r, s') := fb s a b in (r, (c2, s')) in
    if c_fb c1 then fall c1
    else match c_set c1 with
         | Some i =>
             match kpos i a, kpos i b with
             | Some v0, Some v1 => ((v0 <? v1)%Z, (c1, s))
             | _, _ => fall (mkc (c_set c1) true)
             end
         | None => fall (mkc None true)
         end.
Definition by_contextual_pinned : scmp (cst * unit) key := by_contextual_ex_pinned (lift by_name_smart).

(* ---------------------------------------------------------------- dates.go *)
Record dst := mkd { d_fmt : option nat; d_fb : bool }.
Definition d_init := mkd None false.
Definition kdate (i : nat) (k : key) : option Z := nth i (kdates k) None.

Definition by_date {S} (fb : scmp S key) : scmp (dst * S) key :=
  fun st a b =>
    let '(d, s) := st in
    let fall (d2 : dst) := let '(r, s') := fb s a b in (r, (d2, s')) in
    if d_fb d then fall d
    else
      let d1 := match d_fmt d with
                | Some _ => d
                | None => match kfmt a with
                          | FmtErr => mkd None true
                          | FmtOk l => mkd l false
                          end
                end in
      match d_fmt d1 with
      | Some i =>
          match kdate i a, kdate i b with
          | Some t0, Some t1 =>
              if negb (t0 =? t1)%Z then ((t0 <? t1)%Z, (d1, s))
              else fall d1                      (* same instant: the fallback breaks the tie *)
          | _, _ => fall (mkd (d_fmt d1) true)
          end
      | None => fall d1
      end.

Definition by_date_with_contextual : scmp (dst * unit) key := by_date by_contextual.

(* ---------------------------------------------------------------- namevalue.go *)
Definition value_sorter_ex {S} (fb : scmp S key) : scmp S item :=
  fun s a b => if (snd a =? snd b)%Z then fb s (fst a) (fst b) else ((snd a <? snd b)%Z, s).
Definition value_nil_sorter {S} (c : scmp S key) : scmp S item :=
  fun s a b => c s (fst a) (fst b).

(* the stateless cores, for the theorems *)
Definition value_asc (a b : item) : bool :=
  if (snd a =? snd b)%Z then by_name (fst a) (fst b) else (snd a <? snd b)%Z.
Definition on_name (f : key -> key -> bool) (a b : item) : bool := f (fst a) (fst b).
(* NVValueSorter = Reverse(ValueSorterEx(Reverse(ByName))) *)
Definition nv_value_sorter (a b : item) : bool :=
  negb (if (snd a =? snd b)%Z then negb (by_name (fst a) (fst b)) else (snd a <? snd b)%Z).

(* ---------------------------------------------------------------- cmd/helpers/sorting.go *)
Inductive mode := MText | MNumeric | MContextual | MDate | MValue.
Definition mode_eqb (a b : mode) : bool :=
  match a, b with
  | MText, MText | MNumeric, MNumeric | MContextual, MContextual | MDate, MDate | MValue, MValue => true
  | _, _ => false
  end.

Definition sstate := (dst * unit)%type.
Definition s_init : sstate := (d_init, tt).

(* lookupSorter: every sorter on the common state type (the unused parts stay untouched) *)
Definition mode_cmp (m : mode) : scmp sstate item :=
  match m with
  | MText => fun s a b => (by_name (fst a) (fst b), s)
  | MNumeric => fun s a b => (by_name_smart (fst a) (fst b), s)
  | MContextual => fun s a b =>
      let '(d, c) := s in let '(r, c') := by_contextual c (fst a) (fst b) in (r, (d, c'))
  | MDate => value_nil_sorter by_date_with_contextual
  | MValue => fun s a b => (value_asc a b, s)
  end.
(* BuildSorter *)
Definition build_cmp (mr : mode * bool) : scmp sstate item :=
  if snd mr then sreverse (mode_cmp (fst mr)) else mode_cmp (fst mr).

(* stringSplitter with Delim ":" : text before the first ':' and, if there is one, the rest *)
Definition COLON : N := 58%N.
Fixpoint split_colon (s : bytes) : bytes * option bytes :=
  match s with
  | [] => ([], None)
  | b :: r => if (b =? COLON)%N then ([], Some r)
              else let '(h, t) := split_colon r in (b :: h, t)
  end.

Local Open Scope string_scope.
Definition s_text := of_str "text".
Definition s_numeric := of_str "numeric".
Definition s_contextual := of_str "contextual".
Definition s_context := of_str "context".
Definition s_date := of_str "date".
Definition s_value := of_str "value".
Definition s_rev := of_str "rev".
Definition s_reverse := of_str "reverse".
Definition s_desc := of_str "desc".
Definition s_asc := of_str "asc".
Local Close Scope string_scope.

Definition lookup_mode (lname : bytes) : option mode :=
  if bytes_eqb lname s_text || bytes_eqb lname [] then Some MText
  else if bytes_eqb lname s_numeric then Some MNumeric
  else if bytes_eqb lname s_contextual || bytes_eqb lname s_context then Some MContextual
  else if bytes_eqb lname s_date then Some MDate
  else if bytes_eqb lname s_value then Some MValue
  else None.

(* modifier applied to the default direction *)
Definition apply_modifier (dflt : bool) (lmod : bytes) : option bool :=
  if bytes_eqb lmod s_rev || bytes_eqb lmod s_reverse then Some (negb dflt)
  else if bytes_eqb lmod s_desc then Some true
  else if bytes_eqb lmod s_asc then Some false
  else None.

(* parseSort followed by lookupSorter: Some (sorter, reversed) or an error *)
Definition parse_sort (full : bytes) : option (mode * bool) :=
  let '(n, rest) := split_colon full in
  let realname := lower n in
  let dflt := bytes_eqb realname s_value in
  let rev := match rest with
             | None => Some dflt
             | Some r => apply_modifier dflt (lower (fst (split_colon r)))
             end in
  match rev with
  | None => None
  | Some rv => match lookup_mode realname with
               | Some m => Some (m, rv)
               | None => None
               end
  end.

(* ---------------------------------------------------------------- the calendar (specification) *)
Definition weekday_names : list bytes :=
  map of_str ["sunday"; "monday"; "tuesday"; "wednesday"; "thursday"; "friday"; "saturday"]%string.
Definition month_names : list bytes :=
  map of_str ["january"; "february"; "march"; "april"; "may"; "june"; "july"; "august";
              "september"; "october"; "november"; "december"]%string.
Fixpoint is_prefix (p s : bytes) : bool :=
  match p, s with
  | [], _ => true
  | x :: p', y :: s' => (x =? y)%N && is_prefix p' s'
  | _, [] => false
  end.
(* every entry (n, p) of the table: n abbreviates the p-th name of the calendar (p-th counted
   from 0), at least 3 letters; every full name is in the table at its calendar index *)
Definition calendar_table_ok (names : list bytes) (tbl : sortset) : bool :=
  forallb (fun e : bytes * Z =>
             let '(n, p) := e in
             (0 <=? p)%Z && (p <? Z.of_nat (List.length names))%Z && (3 <=? List.length n)%nat &&
             is_prefix n (nth (Z.to_nat p) names []) &&
             match lookup tbl n with Some q => (q =? p)%Z | None => false end) tbl &&
  forallb (fun ip : nat * bytes =>
             match lookup tbl (snd ip) with Some q => (q =? Z.of_nat (fst ip))%Z | None => false end)
          (combine (seq 0 (List.length names)) names).

(* ---------------------------------------------------------------- the state-free domains *)
Definition opt_Z_eqb (a b : option Z) : bool :=
  match a, b with Some x, Some y => (x =? y)%Z | None, None => true | _, _ => false end.
Definition opt_nat_eqb (a b : option nat) : bool :=
  match a, b with Some x, Some y => Nat.eqb x y | None, None => true | _, _ => false end.

Fixpoint nodupb {A} (eqb : A -> A -> bool) (l : list A) : bool :=
  match l with
  | [] => true
  | x :: r => negb (existsb (eqb x) r) && nodupb eqb r
  end.

(* all keys have layout i and parse in it *)
Definition date_dom_layout (i : nat) (ks : list key) : bool :=
  forallb (fun k => match kfmt k with FmtOk (Some j) => Nat.eqb j i | _ => false end &&
                    match kdate i k with Some _ => true | None => false end) ks.
(* no key has a date layout *)
Definition date_dom_none (ks : list key) : bool :=
  forallb (fun k => match kfmt k with FmtErr => true | _ => false end) ks.

(* chronological, the contextual order breaking ties (keys without an instant in layout i last) *)
Definition date_rank (i : nat) (k : key) : Z * Z :=
  match kdate i k with Some t => (0%Z, t) | None => (1%Z, 0%Z) end.
Definition date_lt (i : nat) (a b : key) : bool :=
  if peq (date_rank i a) (date_rank i b) then ctx_lt a b else plt (date_rank i a) (date_rank i b).

(* which pure order ByDate is on a key set, if the key set is in a state-free domain *)
Definition date_pure (ks : list key) : option (key -> key -> bool) :=
  match ks with
  | [] => Some ctx_lt
  | k :: _ =>
      match kfmt k with
      | FmtOk (Some i) => if date_dom_layout i ks then Some (date_lt i) else None
      | FmtOk None => None
      | FmtErr => if date_dom_none ks then Some ctx_lt else None
      end
  end.
Definition mode_pure (m : mode) (its : list item) : option (item -> item -> bool) :=
  match m with
  | MText => Some (on_name by_name)
  | MNumeric => Some (on_name by_name_smart)
  | MContextual => Some (on_name ctx_lt)
  | MDate => option_map on_name (date_pure (map fst its))
  | MValue => Some value_asc
  end.
Definition with_rev {A} (rv : bool) (f : A -> A -> bool) : A -> A -> bool :=
  if rv then reverse f else f.

(* ---------------------------------------------------------------- the calendar as an independent check *)
(* index of the calendar name that n abbreviates with at least 3 letters (from the hand-written
   calendar above, NOT from the positions of the generated tables) *)
Fixpoint cal_idx_from (i : nat) (names : list bytes) (n : bytes) : option nat :=
  match names with
  | [] => None
  | x :: r => if (3 <=? List.length n)%nat && is_prefix n x then Some i else cal_idx_from (S i) r n
  end.
(* for a member of the weekday / month set: (set, calendar index of the day / month it abbreviates) *)
Definition cal_of (k : key) : option (Z * nat) :=
  let r := ctx_rank k in
  let names := if (fst r =? 0)%Z then weekday_names
               else if (fst r =? 1)%Z then month_names else [] in
  match cal_idx_from 0 names (lower (kname k)) with Some i => Some (fst r, i) | None => None end.
(* a placed before b by `contextual`: if both are days (both months) of different calendar index,
   the earlier one comes first (last when reversed) *)
Definition cal_ok (m : mode) (rv : bool) (a b : item) : bool :=
  match m with
  | MContextual =>
      match cal_of (fst a), cal_of (fst b) with
      | Some (s, i), Some (t, j) =>
          negb (s =? t)%Z || Nat.eqb i j || Bool.eqb (i <? j)%nat (negb rv)
      | _, _ => true
      end
  | _ => true
  end.

(* ---------------------------------------------------------------- correspondence cases and the boolean form *)
(* events of a collector history: key k sampled with increment inc; the sorted view is read *)
Inductive ev := ESample (k : nat) (inc : Z) | ERead.

(* events of a table history (TableAggregator): a cell sampled, the sorted views read (a rendered
   frame), and Trim with the predicates the commands use *)
Inductive tev :=
| TSample (c r : nat) (inc : Z)      (* SampleItem(col c, row r, inc) *)
| TRead                              (* OrderedRows + OrderedColumns *)
| TTrimKeep (n : nat)                (* cmd/spark.go: keep the last n columns in the column sorter's order *)
| TTrimVal (lo hi : Z)               (* Trim(lo <= val <= hi) *)
| TTrimCols (cs : list nat).         (* Trim(col in cs) *)

Inductive cin :=
| IAx (md : bytes) (its : list item)                          (* every ordered pair, fresh sorter per pair *)
| ISeq (md : bytes) (its : list item) (ps : list (nat * nat)) (* a sequence of comparisons on one sorter *)
| ISort (md : bytes) (its : list item) (perms : list (list nat)) (* Sort of each arrangement, fresh sorter each *)
| ITop (md : bytes) (its : list item) (limit reps : nat)
  (* a large key set handed to an accessor with a row limit (MatchCounter.ItemsSortedBy(limit, ..)),
     from [reps] arrival orders: the first [limit] rows of the full sort, every time *)
| ITable (md mdc : bytes) (byrows : bool) (rkeys ckeys : list key) (h : list tev)
  (* a TableAggregator fed a history of samples, reads and trims; the final OrderedRows (byrows)
     or OrderedColumns with sorter md is observed; mdc is the column sorter TTrimKeep uses *)
| IGroups (md : bytes) (skind : nat) (gs : list (list bytes * key)) (hs : list (list ev))
  (* AccumulatingGroup.Groups (rare reduce) with one or more group columns: group i has the column
     values [fst] (and, for the library calls made on its ordering key, the oracle key [snd]); the
     same samples arrive in each of the orders hs, with reads in between; the final read of each is
     observed.  skind 0: no --sort expression; 1: --sort {sum}; 2: --sort "{1} {0}" *)
| ICollect (md : bytes) (bykey : bool) (keys : list key) (h : list ev).
  (* a collector fed by a history of samples with intermediate reads (rendered frames); the final
     read is observed. bykey = false: items (key, total) through a NameValueSorter (counters,
     table rows / columns); bykey = true: AccumulatingGroup.Groups with sort expression {sum}:
     groups ordered by a NameSorter on the decimal text of their total *)
Inductive cout :=
| OErr                                   (* BuildSorter returned an error *)
| OAx (m : list (list bool))
| OSeq (r : list bool)
| OSort (outs : list (list nat))         (* sorted arrangements as indices into the item list *)
| OTable (present order : list nat)      (* rows (columns) left in the table, and their sorted order, as key indices *)
| OPanic.                                (* the implementation panicked or did not finish (the model never does) *)

Definition dummy_key := mkkey [] None FmtErr [].
Definition dummy_item : item := (dummy_key, 0%Z).
Definition it_at (its : list item) (i : nat) : item := nth i its dummy_item.

Definition model0 (c : cin) : cout :=
  match c with
  | IAx md its =>
      match parse_sort md with
      | None => OErr
      | Some mr => OAx (map (fun a => map (fun b => fst (build_cmp mr s_init a b)) its) its)
      end
  | ISeq md its ps =>
      match parse_sort md with
      | None => OErr
      | Some mr => OSeq (fst (srun (build_cmp mr) s_init
                                   (map (fun p => (it_at its (fst p), it_at its (snd p))) ps)))
      end
  | ISort md its perms =>
      match parse_sort md with
      | None => OErr
      | Some mr =>
          let c : scmp sstate (nat * item) := fun s a b => build_cmp mr s (snd a) (snd b) in
          OSort (map (fun p => map fst (fst (sisort c s_init (map (fun i => (i, it_at its i)) p)))) perms)
      end
  | ITop md its limit reps =>
      match parse_sort md with
      | None => OErr
      | Some (m, rv) =>
          match mode_pure m its with
          | None => OPanic      (* large cases are generated inside the state-free domains only *)
          | Some f =>
              let g := with_rev rv f in
              let sorted := msort (fun a b : nat * item => g (snd a) (snd b))
                                  (combine (seq 0 (List.length its)) its) in
              OSort (repeat (map fst (firstn limit sorted)) reps)
          end
      end
  | ICollect _ _ _ _ | ITable _ _ _ _ _ _ | IGroups _ _ _ _ => OPanic   (* normalised away, see [norm] *)
  end.

Definition list_nat_eqb := list_eqb Nat.eqb.
(* decision matrices are compared off the diagonal: the property speaks about distinct keys only
   (Reverse-as-negation answers `true` for a key against itself, a converse would answer `false`) *)
Fixpoint row_eq_off (i j : nat) (x y : list bool) : bool :=
  match x, y with
  | [], [] => true
  | a :: x', b :: y' => (Nat.eqb i j || Bool.eqb a b) && row_eq_off i (S j) x' y'
  | _, _ => false
  end.
Fixpoint mat_eq_off (i : nat) (x y : list (list bool)) : bool :=
  match x, y with
  | [], [] => true
  | r :: x', r' :: y' => row_eq_off i 0 r r' && mat_eq_off (S i) x' y'
  | _, _ => false
  end.
Definition cout_eqb (a b : cout) : bool :=
  match a, b with
  | OErr, OErr => true
  | OAx x, OAx y => mat_eq_off 0 x y
  | OSeq x, OSeq y => list_eqb Bool.eqb x y
  | OSort x, OSort y => list_eqb list_nat_eqb x y
  | OTable p x, OTable q y => list_nat_eqb p q && list_nat_eqb x y
  | _, _ => false
  end.

Definition key_names_distinct (its : list item) : bool :=
  nodupb bytes_eqb (map (fun it : item => kname (fst it)) its).

(* the order axioms on an observed decision matrix, over all triples of indices *)
Definition mat_at (m : list (list bool)) (i j : nat) : bool := nth j (nth i m []) false.
Definition axioms_ok (n : nat) (m : list (list bool)) : bool :=
  let idx := seq 0 n in
  forallb (fun i =>
    forallb (fun j =>
      Nat.eqb i j ||
      (xorb (mat_at m i j) (mat_at m j i)) &&              (* asymmetric and total on distinct keys *)
      forallb (fun k =>
        Nat.eqb i k || Nat.eqb j k ||
        negb (mat_at m i j && mat_at m j k) || mat_at m i k) idx) idx) idx.
(* the decisions are the ones the documented order makes *)
Definition matrix_is (f : item -> item -> bool) (its : list item) (m : list (list bool)) : bool :=
  mat_eq_off 0 m (map (fun a => map (fun b => f a b) its) its).

(* a sequence of decisions on one sorter is self-consistent: a pair is always decided the same
   way, and of (i,j), (j,i) with i <> j exactly one is true *)
Fixpoint seq_consistent (ps : list (nat * nat)) (rs : list bool) (seen : list (nat * nat * bool)) : bool :=
  match ps, rs with
  | [], [] => true
  | (i, j) :: ps', r :: rs' =>
      forallb (fun e : nat * nat * bool =>
                 let '(i', j', r') := e in
                 (negb (Nat.eqb i i' && Nat.eqb j j') || Bool.eqb r r') &&
                 (negb (Nat.eqb i j' && Nat.eqb j i' && negb (Nat.eqb i j)) || xorb r r')) seen &&
      seq_consistent ps' rs' ((i, j, r) :: seen)
  | _, _ => false
  end.

Fixpoint sortedb {A} (f : A -> A -> bool) (l : list A) : bool :=
  match l with
  | [] => true
  | x :: r => forallb (f x) r && sortedb f r
  end.
Definition is_perm_of_seq (n : nat) (p : list nat) : bool :=
  Nat.eqb (List.length p) n && forallb (fun i => existsb (Nat.eqb i) p) (seq 0 n).

(* "o is the first [limit] rows of the sorted arrangement of its", in one linear pass: the right
   number of rows, all of them items, consecutive rows strictly ordered, and exactly |o|-1 other
   items sort before the last row (so no omitted item does) *)
Fixpoint adjacent_ok {A} (g : A -> A -> bool) (l : list A) : bool :=
  match l with
  | x :: ((y :: _) as r) => g x y && adjacent_ok g r
  | _ => true
  end.
Definition top_ok (g : item -> item -> bool) (its : list item) (limit : nat) (o : list nat) : bool :=
  let n := List.length its in
  Nat.eqb (List.length o) (Nat.min limit n) &&
  forallb (fun i => (i <? n)%nat) o &&
  adjacent_ok g (map (it_at its) o) &&
  match rev o with
  | [] => true
  | li :: _ =>
      let last := it_at its li in
      Nat.eqb (List.length (filter (fun ix : nat * item => negb (Nat.eqb (fst ix) li) && g (snd ix) last)
                                   (combine (seq 0 n) its)))
              (List.length o - 1)
  end.

(* The property in boolean form on an observed output.
   - the sort specification parses (an unknown sort or modifier is an error, nothing else is);
   - IAx : the decisions on distinct keys satisfy the order axioms (asymmetric, total,
           transitive) on all triples and, when the key set lies in a state-free
           domain, they are the documented order's (larger value first, numbers by magnitude,
           calendar position, chronological);
   - ISeq: the decisions are self-consistent;
   - ITop: every arrival order yields the same rows, the first [limit] of the sorted arrangement;
   - ISort: every arrangement sorts to the same sequence, a permutation of the items, and, when
           the key set lies in a state-free domain, ordered by the documented order; for
           `contextual`, days (months) of the sorted sequence follow the hand-written calendar. *)
Definition C13_check0 (c : cin) (o : cout) : bool :=
  match c, o with
  | IAx md its, OAx m =>
      match parse_sort md with
      | None => false
      | Some (md', rv) =>
          key_names_distinct its &&
          axioms_ok (List.length its) m &&
          match mode_pure md' its with
          | Some f => matrix_is (with_rev rv f) its m
          | None => true
          end
      end
  | ISeq md its ps, OSeq r =>
      match parse_sort md with
      | None => false
      | Some _ => key_names_distinct its && seq_consistent ps r []
      end
  | ISort md its perms, OSort outs =>
      match parse_sort md with
      | None => false
      | Some (md', rv) =>
          key_names_distinct its &&
          Nat.eqb (List.length outs) (List.length perms) &&
          match outs with
          | [] => true
          | o1 :: _ =>
              forallb (list_nat_eqb o1) outs &&
              is_perm_of_seq (List.length its) o1 &&
              match mode_pure md' its with
              | Some f => sortedb (with_rev rv f) (map (it_at its) o1)
              | None => true
              end &&
              sortedb (cal_ok md' rv) (map (it_at its) o1)
          end
      end
  | ITop md its limit reps, OSort outs =>
      match parse_sort md with
      | None => false
      | Some (md', rv) =>
          match mode_pure md' its with
          | None => false
          | Some f =>
              Nat.eqb (List.length outs) reps &&
              match outs with
              | [] => true
              | o1 :: _ => forallb (list_nat_eqb o1) outs && top_ok (with_rev rv f) its limit o1
              end
          end
      end
  | IAx md _, OErr | ISeq md _ _, OErr | ISort md _ _, OErr | ITop md _ _ _, OErr =>
      match parse_sort md with None => true | Some _ => false end
  | _, _ => false
  end.

(* the guard of C13_check_sound: the key set of a case lies in a state-free domain *)
Definition in_domain0 (c : cin) : bool :=
  match c with
  | ICollect _ _ _ _ | ITable _ _ _ _ _ _ | IGroups _ _ _ _ => false
  | IAx md its | ISeq md its _ | ISort md its _ | ITop md its _ _ =>
      match parse_sort md with
      | None => true
      | Some (m, _) => match mode_pure m its with Some _ => true | None => false end
      end
  end.

(* well-formed cases: distinct key names, indices in range, arrangements are arrangements *)
Definition case_wf0 (c : cin) : bool :=
  match c with
  | ICollect _ _ _ _ | ITable _ _ _ _ _ _ | IGroups _ _ _ _ => false
  | ITop _ its _ _ => key_names_distinct its
  | IAx _ its => key_names_distinct its
  | ISeq _ its ps =>
      key_names_distinct its &&
      forallb (fun p : nat * nat => (fst p <? List.length its)%nat && (snd p <? List.length its)%nat) ps
  | ISort _ its perms =>
      key_names_distinct its && forallb (is_perm_of_seq (List.length its)) perms
  end.

(* ---------------------------------------------------------------- collectors over histories *)
(* The sorted view of a collector is a function of the FINAL aggregated data: reads in the middle
   of the history (rendered frames) are ignored by the model, only the samples count. *)
Fixpoint total (h : list ev) (i : nat) : Z :=
  match h with
  | [] => 0%Z
  | ESample k inc :: r => ((if Nat.eqb k i then inc else 0) + total r i)%Z
  | ERead :: r => total r i
  end.
Fixpoint sampled (h : list ev) (i : nat) : bool :=
  match h with
  | [] => false
  | ESample k _ :: r => Nat.eqb k i || sampled r i
  | ERead :: r => sampled r i
  end.
(* the sort key `reduce --sort {sum}` evaluates for a group: the decimal text of its total
   (an integer below 2^53 in absolute value parses to itself as a float) *)
Definition numkey (t : Z) : key := mkkey (itoa t) (Some (FFin t 0)) FmtErr [].
Definition final_items (bykey : bool) (keys : list key) (h : list ev) : list item :=
  map (fun ik : nat * key =>
         let t := total h (fst ik) in
         if bykey then (numkey t, 0%Z) else (snd ik, t))
      (combine (seq 0 (List.length keys)) keys).

(* ---------------------------------------------------------------- tables over histories with Trim *)
(* The cells of a TableAggregator: (column, row) -> value, one entry per existing cell. Everything
   the sorted views show is a function of the cells alone (row sum, column total, which rows and
   columns exist) - table.go caches sums and totals, and Trim (as repaired, C07) recomputes them. *)
Definition cells := list (nat * nat * Z).
Fixpoint cget (cs : cells) (c r : nat) : option Z :=
  match cs with
  | [] => None
  | (c', r', v) :: t => if Nat.eqb c c' && Nat.eqb r r' then Some v else cget t c r
  end.
Fixpoint cadd (cs : cells) (c r : nat) (inc : Z) : cells :=
  match cs with
  | [] => [(c, r, inc)]
  | (c', r', v) :: t =>
      if Nat.eqb c c' && Nat.eqb r r' then (c', r', (v + inc)%Z) :: t else (c', r', v) :: cadd t c r inc
  end.
Definition ctrim (p : nat -> nat -> Z -> bool) (cs : cells) : cells :=
  filter (fun e : nat * nat * Z => let '(c, r, v) := e in negb (p c r v)) cs.

(* a line (row or column) of the grid: present iff it has a cell; its total *)
Definition line (get : nat -> option Z) (n : nat) : option Z :=
  let vs := map get (seq 0 n) in
  if existsb (fun v : option Z => match v with Some _ => true | None => false end) vs
  then Some (fold_right (fun (v : option Z) acc => (match v with Some x => x | None => 0 end + acc)%Z) 0%Z vs)
  else None.
Fixpoint present_lines (f : nat -> option Z) (idx : list nat) : list (nat * Z) :=
  match idx with
  | [] => []
  | i :: r => match f i with Some t => (i, t) :: present_lines f r | None => present_lines f r end
  end.
Definition col_view (cs : cells) (ncols nrows : nat) : list (nat * Z) :=
  present_lines (fun c => line (fun r => cget cs c r) nrows) (seq 0 ncols).
Definition row_view (cs : cells) (ncols nrows : nat) : list (nat * Z) :=
  present_lines (fun r => line (fun c => cget cs c r) ncols) (seq 0 nrows).
Definition key_at (ks : list key) (i : nat) : key := nth i ks dummy_key.

(* the columns in the column sorter's order (OrderedColumns), as indices *)
Definition ordered_cols (mdc : bytes) (ckeys : list key) (cv : list (nat * Z)) : list nat :=
  let pairs := map (fun ct : nat * Z => (fst ct, (key_at ckeys (fst ct), snd ct))) cv in
  match parse_sort mdc with
  | Some mr => map fst (fst (sisort (fun s (a b : nat * item) => build_cmp mr s (snd a) (snd b)) s_init pairs))
  | None => map fst pairs
  end.

Definition table_step (mdc : bytes) (ckeys : list key) (ncols nrows : nat) (cs : cells) (e : tev) : cells :=
  match e with
  | TSample c r inc => cadd cs c r inc
  | TRead => cs
  | TTrimKeep n =>
      let order := ordered_cols mdc ckeys (col_view cs ncols nrows) in
      if (n <? List.length order)%nat then
        let keep := skipn (List.length order - n) order in
        ctrim (fun c _ _ => negb (existsb (Nat.eqb c) keep)) cs
      else cs
  | TTrimVal lo hi => ctrim (fun _ _ v => (lo <=? v)%Z && (v <=? hi)%Z) cs
  | TTrimCols l => ctrim (fun c _ _ => existsb (Nat.eqb c) l) cs
  end.
Definition final_cells (mdc : bytes) (ckeys : list key) (ncols nrows : nat) (h : list tev) : cells :=
  fold_left (table_step mdc ckeys ncols nrows) h [].

(* the view that is observed at the end: (key index, total) of the rows (columns) that exist *)
Definition table_view (mdc : bytes) (byrows : bool) (rkeys ckeys : list key) (h : list tev) : list (nat * Z) :=
  let ncols := List.length ckeys in
  let nrows := List.length rkeys in
  let cs := final_cells mdc ckeys ncols nrows h in
  if byrows then row_view cs ncols nrows else col_view cs ncols nrows.
Definition view_items (byrows : bool) (rkeys ckeys : list key) (v : list (nat * Z)) : list item :=
  map (fun it : nat * Z => (key_at (if byrows then rkeys else ckeys) (fst it), snd it)) v.

(* ---------------------------------------------------------------- reduce: groups with several columns *)
(* accumulator.go buildGroupKey: the column values joined by the array separator (0x00) *)
Fixpoint join0 (parts : list bytes) : bytes :=
  match parts with
  | [] => []
  | [p] => p
  | p :: r => p ++ 0%N :: join0 r
  end.
(* the text Groups hands to the NameSorter for a group (HEAD): without a sort expression the whole
   joined key - one piece of text, NOT column by column; with --sort {sum} the decimal total; with
   --sort "{1} {0}" the second column, a space, the first column *)
Definition rekey (k : key) (name : bytes) : key := mkkey name (kfv k) (kfmt k) (kdates k).
Definition group_item (skind : nat) (h : list ev) (ig : nat * (list bytes * key)) : item :=
  let '(i, (parts, k)) := ig in
  match skind with
  | O => (rekey k (join0 parts), 0%Z)
  | S O => (numkey (total h i), 0%Z)
  | _ => (rekey k (nth 1 parts [] ++ 32%N :: nth 0 parts []), 0%Z)
  end.
Definition group_items (skind : nat) (gs : list (list bytes * key)) (h : list ev) : list item :=
  map (group_item skind h) (combine (seq 0 (List.length gs)) gs).

(* a collector case is the sort of its final items from one arrangement *)
Definition norm (c : cin) : cin :=
  match c with
  | ICollect md bk keys h => ISort md (final_items bk keys h) [seq 0 (List.length keys)]
  | ITable md mdc byrows rkeys ckeys h =>
      let v := table_view mdc byrows rkeys ckeys h in
      ISort md (view_items byrows rkeys ckeys v) [seq 0 (List.length v)]
  | IGroups md skind gs hs =>
      (* the same samples in every arrival order (case_wf): one final data set, one arrangement each *)
      ISort md (group_items skind gs (hd [] hs)) (map (fun _ => seq 0 (List.length gs)) hs)
  | _ => c
  end.

(* a table answers with the key indices of what is left and their order (positions of the sorted
   view translated back to key indices) *)
Definition model (c : cin) : cout :=
  match c with
  | ITable md mdc byrows rkeys ckeys h =>
      let idx := map fst (table_view mdc byrows rkeys ckeys h) in
      match model0 (norm c) with
      | OSort [o] => OTable idx (map (fun p => nth p idx 0%nat) o)
      | r => r
      end
  | _ => model0 (norm c)
  end.
Fixpoint pos_of (x : nat) (l : list nat) : nat :=
  match l with
  | [] => O
  | y :: r => if Nat.eqb x y then O else S (pos_of x r)
  end.
Definition C13_check (c : cin) (o : cout) : bool :=
  match c with
  | ITable md mdc byrows rkeys ckeys h =>
      let idx := map fst (table_view mdc byrows rkeys ckeys h) in
      match o with
      | OTable p ord =>
          (* what is left is what the final cells say, and its order is the documented one *)
          list_nat_eqb p idx && forallb (fun x => existsb (Nat.eqb x) idx) ord &&
          C13_check0 (norm c) (OSort [map (fun x => pos_of x idx) ord])
      | OErr => C13_check0 (norm c) OErr
      | _ => false
      end
  | _ => C13_check0 (norm c) o
  end.
Definition in_domain (c : cin) : bool := in_domain0 (norm c).
(* every key of a collector history is sampled at least once (only sampled keys exist in the map) *)
Definition case_wf (c : cin) : bool :=
  case_wf0 (norm c) &&
  match c with
  | ICollect _ _ keys h => forallb (sampled h) (seq 0 (List.length keys))
  | IGroups _ _ gs hs =>
      forallb (fun h => forallb (fun i => sampled h i && (total h i =? total (hd [] hs) i)%Z)
                                (seq 0 (List.length gs))) hs
  | _ => true
  end.

(* ---------------------------------------------------------------- large key sets *)
(* n keys built from a counter, values from a small hash (many ties); the harness builds the
   same strings.  style 0: "k<i>" (text); style 1: the number 37*i mod 10007 (distinct for
   i < 10007), which parses to itself *)
Definition big_key (style : nat) (i : nat) : key :=
  match style with
  | O => mkkey (107%N :: itoa (Z.of_nat i)) None FmtErr []
  | _ => let v := ((Z.of_nat i * 37) mod 10007)%Z in mkkey (itoa v) (Some (FFin v 0)) FmtErr []
  end.
Definition big_items (style n : nat) (a b m : Z) : list item :=
  map (fun i => (big_key style i, ((Z.of_nat i * a + b) mod m)%Z)) (seq 0 n).
