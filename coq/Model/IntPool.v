(* C12 — heap-of-blocks model of pkg/slicepool/intpool.go.

   The Go pool holds one slice [s.pool] into the most recently allocated block; [Get n] carves the
   first n ints off it, and allocates a fresh block of [size] ints (make: all zero) when fewer than
   n remain.  Blocks are never recycled.  A Go []int is modelled as (block, lo, hi) into
   [p_heap : list (list Z)]; s.pool is (p_blk, p_off, p_size).  *)
From Coq Require Import List ZArith Bool Arith.
From RareV Require Import Base.Res.
Import ListNotations.

Record pool := mkPool {
  p_size : nat;               (* s.size *)
  p_heap : list (list Z);     (* every block ever allocated, in allocation order *)
  p_blk : nat;                (* block s.pool points into *)
  p_off : nat                 (* s.pool = heap[p_blk][p_off:] *)
}.

Definition slice := (nat * nat * nat)%type.   (* block, lo, hi *)

Definition new_pool (size : nat) : pool := mkPool size [repeat 0%Z size] 0 0.

(* IntPool.Get *)
Definition get (n : nat) (p : pool) : result (slice * pool) :=
  if p_size p - p_off p <? n then
    if p_size p <? n then Panic                         (* panic("pool not large enough") *)
    else let b := length (p_heap p) in
         Ok ((b, 0, n), mkPool (p_size p) (p_heap p ++ [repeat 0%Z (p_size p)]) b n)
  else Ok ((p_blk p, p_off p, p_off p + n), mkPool (p_size p) (p_heap p) (p_blk p) (p_off p + n)).

Fixpoint upd {A} (l : list A) (i : nat) (v : A) : list A :=
  match l, i with
  | [], _ => []
  | _ :: r, O => v :: r
  | x :: r, S i => x :: upd r i v
  end.

(* ret[i] = v for a slice ret; Panic = index out of range *)
Definition store (heap : list (list Z)) (sl : slice) (i : nat) (v : Z) : result (list (list Z)) :=
  let '(b, lo, hi) := sl in
  if lo + i <? hi then
    match nth_error heap b with
    | Some blk => Ok (upd heap b (upd blk (lo + i) v))
    | None => Panic
    end
  else Panic.

Definition read (heap : list (list Z)) (sl : slice) : list Z :=
  let '(b, lo, hi) := sl in firstn (hi - lo) (skipn lo (nth b heap [])).

Fixpoint stores (heap : list (list Z)) (sl : slice) (ws : list (nat * Z)) : result (list (list Z)) :=
  match ws with
  | [] => Ok heap
  | (i, v) :: r => match store heap sl i v with Ok h => stores h sl r | Panic => Panic end
  end.

(* one use of the pool by a client: Get n, then any writes through the returned slice *)
Definition op := (nat * list (nat * Z))%type.

Definition step (p : pool) (o : op) : result (slice * pool) :=
  match get (fst o) p with
  | Panic => Panic
  | Ok (sl, p') =>
      match stores (p_heap p') sl (snd o) with
      | Panic => Panic
      | Ok h => Ok (sl, mkPool (p_size p') h (p_blk p') (p_off p'))
      end
  end.

Fixpoint run_ops (p : pool) (ops : list op) : result (list slice * pool) :=
  match ops with
  | [] => Ok ([], p)
  | o :: r =>
      match step p o with
      | Panic => Panic
      | Ok (sl, p') =>
          match run_ops p' r with
          | Panic => Panic
          | Ok (sls, p'') => Ok (sl :: sls, p'')
          end
      end
  end.

(* what a fresh slice of n ints holds after the writes ws (fresh memory is zero) *)
Fixpoint apply_writes (l : list Z) (ws : list (nat * Z)) : list Z :=
  match ws with
  | [] => l
  | (i, v) :: r => apply_writes (upd l i v) r
  end.
Definition expected (o : op) : list Z := apply_writes (repeat 0%Z (fst o)) (snd o).

(* ret[0..] = vals *)
Fixpoint enum_from {A} (i : nat) (l : list A) : list (nat * A) :=
  match l with [] => [] | x :: r => (i, x) :: enum_from (S i) r end.
