(* Model of pkg/color/coloring.go WrapIndices (used by `rare filter`) and of removing SGR colour codes. *)
From Coq Require Import List NArith ZArith Bool Arith.
From RareV Require Import Base.Hex Base.Res Model.Ctx.
Import ListNotations.
Local Open Scope Z_scope.

Definition zlen (s : bytes) : Z := Z.of_nat (length s).

Section Color.
Variable colors : list bytes.   (* color.GroupColors *)
Variable reset : bytes.         (* color.Reset *)

(* the loop of WrapIndices: [last] = lastIndex, [i] = pair number *)
Fixpoint wrap_go (s : bytes) (last : Z) (i : nat) (groups : list Z) : result bytes :=
  match groups with
  | start :: end_ :: r =>
      if (0 <=? start) && (0 <=? end_) && (start <? end_) && (last <=? start) then
        pre <- go_slice s last start ;;
        mid <- go_slice s start end_ ;;
        rest <- wrap_go s end_ (S i) r ;;
        Ok (pre ++ nth (i mod length colors)%nat colors [] ++ mid ++ reset ++ rest)
      else wrap_go s last (S i) r
  | _ => if last <? zlen s then go_slice s last (zlen s) else Ok []
  end.

Definition wrap_indices (s : bytes) (groups : list Z) : result bytes :=
  if (length groups =? 0)%nat || Nat.odd (length groups) then Ok s else wrap_go s 0 0 groups.
End Color.

(* removing colour codes: ESC starts a code, 'm' ends it (the state machine of color.StrLen) *)
Fixpoint strip_go (inc : bool) (l : bytes) : bytes :=
  match l with
  | [] => []
  | b :: r =>
      if (b =? 27)%N then strip_go true r
      else if inc then (if (b =? 109)%N then strip_go false r else strip_go true r)
      else b :: strip_go false r
  end.
Definition strip_sgr (l : bytes) : bytes := strip_go false l.

(* a well-formed SGR code: ESC, a body without ESC and without 'm', then 'm' *)
Fixpoint sgr_body (l : bytes) : bool :=
  match l with
  | [] => false
  | [b] => (b =? 109)%N
  | b :: r => negb (b =? 27)%N && negb (b =? 109)%N && sgr_body r
  end.
Definition is_sgr (c : bytes) : bool :=
  match c with b :: r => (b =? 27)%N && sgr_body r | [] => false end.
Definition no_esc (l : bytes) : bool := forallb (fun b => negb (b =? 27)%N) l.
