(* Model of pkg/stringSplitter/splitter.go (Splitter.Next / Done) and of strings.Index, strings.Count
   for the uses in pkg/expressions/stdlib/funcsRange.go.

   Go keeps an integer offset [next] into the immutable string S ([next = -1] once exhausted) and
   always works on the suffix S[next:].  The model keeps that suffix itself: [Some rest] stands for
   next = len S - len rest, [None] for next = -1.

   Repaired behaviour (defect #10, fixes/C17-splitter-delim-length.patch): after a hit at [idx] the
   next element starts at [idx + len(Delim)]; the pinned tree advances by 1 only. *)
From Coq Require Import List NArith Bool Arith.
From RareV Require Import Base.Hex.
Import ListNotations.

(* strings.HasPrefix s d *)
Fixpoint is_prefix (d s : bytes) : bool :=
  match d, s with
  | [], _ => true
  | x :: d', y :: s' => (x =? y)%N && is_prefix d' s'
  | _ :: _, [] => false
  end.

(* strings.Index s d: offset of the first occurrence (0 for the empty d), None for -1 *)
Fixpoint index_of (d s : bytes) : option nat :=
  if is_prefix d s then Some 0
  else match s with
       | [] => None
       | _ :: r => option_map S (index_of d r)
       end.

Record splitter := mkSplitter { sp_delim : bytes; sp_rest : option bytes }.
Definition sp_init (s d : bytes) : splitter := mkSplitter d (Some s).
Definition sp_done (st : splitter) : bool := match sp_rest st with None => true | Some _ => false end.

(* func (s *Splitter) Next() string *)
Definition sp_next (st : splitter) : bytes * splitter :=
  match sp_rest st with
  | None => ([], st)
  | Some rest =>
      match index_of (sp_delim st) rest with
      | None => (rest, mkSplitter (sp_delim st) None)
      | Some idx => (firstn idx rest,
                     mkSplitter (sp_delim st) (Some (skipn (idx + length (sp_delim st)) rest)))
      end
  end.

(* for !splitter.Done() { ... splitter.Next() ... }: the sequence of values handed out *)
Fixpoint sp_collect (fuel : nat) (st : splitter) : list bytes :=
  match fuel with
  | O => []
  | S f => if sp_done st then [] else let '(v, st') := sp_next st in v :: sp_collect f st'
  end.

(* every element a fresh splitter over [s] hands out; for a non-empty delimiter [length s + 1]
   rounds suffice (Proofs/SplitterProof.v: split_fuel_irrelevant) *)
Definition split (d s : bytes) : list bytes := sp_collect (S (length s)) (sp_init s d).

Fixpoint join (d : bytes) (l : list bytes) : bytes :=
  match l with
  | [] => []
  | [x] => x
  | x :: r => x ++ d ++ join d r
  end.

(* strings.Count s (string b) for a one-byte separator *)
Fixpoint count_byte (b : N) (s : bytes) : nat :=
  match s with
  | [] => 0
  | x :: r => (if (x =? b)%N then 1 else 0) + count_byte b r
  end.

(* an element [x] that is followed by a delimiter is found again by a first-occurrence search
   exactly when the first occurrence of [d] in [x ++ d] is the trailing one; the last element
   must not contain [d] at all *)
Definition clean (d x : bytes) : Prop := index_of d (x ++ d) = Some (length x).
Fixpoint clean_list (d : bytes) (l : list bytes) : Prop :=
  match l with
  | [] => False
  | [x] => index_of d x = None
  | x :: r => clean d x /\ clean_list d r
  end.

Definition NUL : N := 0%N.
Definition nul_free (s : bytes) : Prop := ~ In NUL s.
Definition nul_freeb (s : bytes) : bool := negb (existsb (N.eqb NUL) s).
Definition split0 := split [NUL].
Definition join0 := join [NUL].
