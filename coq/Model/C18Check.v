(* C18 — the property's boolean form on an observed output of the implementation. *)
From Coq Require Import List NArith ZArith Bool String.
From RareV Require Import Base.Hex Base.Num Gen.GenTime Model.Calendar Model.TimeFmt Model.Duration.
Import ListNotations.
Local Open Scope Z_scope.

(* ---- ISO week, declaratively: week 1 of ISO year y is the Monday..Sunday week holding the
        first Thursday of y; weeks are numbered consecutively ---- *)
Definition first_thursday (y : Z) : Z := let j := year_start y in j + (4 - weekday j) mod 7.
Definition week1_monday (y : Z) : Z := first_thursday y - 3.
Definition iso_spec_b (day y w : Z) : bool :=
  (1 <=? w) && (week1_monday y + 7 * (w - 1) <=? day) && (day <? week1_monday y + 7 * w)
  && (day <? week1_monday (y + 1)).

Definition quarter_spec_b (month q : Z) : bool :=
  (1 <=? q) && (q <=? 4) && (3 * q - 2 <=? month) && (month <=? 3 * q).

Fixpoint span_nodash (l : bytes) : bytes * bytes :=
  match l with
  | c :: r => if (c =? 45)%N then ([], l) else let '(a, b) := span_nodash r in (c :: a, b)
  | [] => ([], [])
  end.
(* "Y-W" split at the last '-' (the year may carry a sign) *)
Definition split_last_dash (o : bytes) : option (bytes * bytes) :=
  let '(wr, rest) := span_nodash (rev o) in
  match rest with 45%N :: yr => Some (rev yr, rev wr) | _ => None end.

(* instants whose local year is 0..9999: the range in which Go prints a 4-digit year *)
Definition lo_local : Z := -62167219200.
Definition hi_local : Z := 253402300800.
Definition in_range (t off : Z) : bool := (lo_local <=? t + off) && (t + off <? hi_local).

(* ---- timeattr ---- *)
Definition check_attr_key (key : bytes) (day cy cm : Z) (o : bytes) : bool :=
  if bytes_eqb key (s2b "QUARTER") then
    match atoi o with Some q => quarter_spec_b cm q && bytes_eqb o (itoa q) | None => false end
  else if bytes_eqb key (s2b "WEEKDAY") then
    match atoi o with
    | Some w => (0 <=? w) && (w <=? 6) && ((day + 4 - w) mod 7 =? 0) && bytes_eqb o (itoa w)
    | None => false end
  else if bytes_eqb key (s2b "WEEK") then
    match atoi o with
    | Some w => existsb (fun y => iso_spec_b day y w) [cy - 1; cy; cy + 1] && bytes_eqb o (itoa w)
    | None => false end
  else if bytes_eqb key (s2b "YEARWEEK") then
    match split_last_dash o with
    | Some (ys, ws) =>
        match atoi ys, atoi ws with
        | Some y, Some w => iso_spec_b day y w && bytes_eqb o (itoa y ++ [45%N] ++ itoa w)
        | _, _ => false end
    | None => false end
  else false.

Definition C18_check_attr (arg attr : bytes) (off : Z) (o : bytes) : bool :=
  let key := upper attr in
  if negb (existsb (bytes_eqb key) timeAttrKeys) then bytes_eqb o compile_error else
  match atoi arg with
  | None => bytes_eqb o timeErrorNum
  | Some t =>
      let day := local_secs t off / 86400 in
      let '(cy, cm, _) := civil_from_days day in
      check_attr_key key day cy cm o
  end.

(* ---- timeformat: the calendar fields of the instant, and — for the named formats that hold
        date, time and a numeric offset — `time` reads the output back to the same instant ---- *)
Definition rt_names : list bytes :=
  [[]; s2b "RFC3339"; s2b "RFC3339N"; s2b "RFC1123Z"; s2b "RUBY"; s2b "NGINX"].
Definition rt_offset (off : Z) : bool := (off mod 60 =? 0) && (-86400 <? off) && (off <? 86400).

Definition C18_check_format (arg fmt : bytes) (off : Z) (abbr o : bytes) : bool :=
  bytes_eqb (kf_timeformat arg fmt off abbr) o &&
  match atoi arg with
  | Some t =>
      if existsb (bytes_eqb (upper fmt)) rt_names && in_range t off && rt_offset off
      then bytes_eqb (kf_time o fmt [] 0 0) (itoa t) else true
  | None => true
  end.

(* ---- duration / durationformat ---- *)
Definition max_whole_secs : Z := 9223372036.
Definition C18_check_duration (s o : bytes) : bool := bytes_eqb (kf_duration s) o.
Definition C18_check_durationformat (arg o : bytes) : bool :=
  bytes_eqb (kf_durationformat arg) o &&
  match atoi arg with
  | Some secs => if (- max_whole_secs <=? secs) && (secs <=? max_whole_secs)
                 then bytes_eqb (kf_duration o) (itoa secs) else true
  | None => true
  end.

(* ---- buckettime: the documented bucket names (docs/usage/expressions.md: *n*ano, *s*econd, *m*inute,
        *h*our, *d*ay, *mo*nth, *y*ear and the full words) select the layout of that precision ---- *)
Definition doc_buckets : list (bytes * bytes) :=
  map (fun p => (s2b (fst p), s2b (snd p)))
    [("n", "2006-01-02 15:04:05.999999999"); ("nanos", "2006-01-02 15:04:05.999999999");
     ("s", "2006-01-02 15:04:05"); ("seconds", "2006-01-02 15:04:05");
     ("m", "2006-01-02 15:04"); ("minutes", "2006-01-02 15:04");
     ("h", "2006-01-02 15"); ("hours", "2006-01-02 15");
     ("d", "2006-01-02"); ("days", "2006-01-02");
     ("mo", "2006-01"); ("months", "2006-01");
     ("y", "2006"); ("years", "2006")]%string.

Definition C18_check_bucket (str bucket fmt : bytes) (names : list (bytes * Z)) (locoff finoff : Z) (o : bytes) : bool :=
  bytes_eqb (kf_buckettime str bucket fmt names locoff finoff) o &&
  match assoc_b (lower bucket) doc_buckets with
  | Some l => match bucket_layout bucket with Some l' => bytes_eqb l l' | None => false end
  | None => true
  end.
