(* Concurrency skeleton of the reader pool, the worker pool and the aggregation loop: the event type of
   the translator's output (Gen/GenSkel.v) and the structural conditions that the transition systems of
   Model/Pipeline.v and Model/AggLoop.v assume about the source. Each condition names the model rule
   it justifies. The conditions are order / context conditions over the syntactic event sequence of a
   function; they are decided by computation in Props/ on the sequence regenerated from /repo on every run. *)
From Coq Require Import List String Bool Arith.
Import ListNotations.
Local Open Scope string_scope.
Local Open Scope nat_scope.

Inductive evk :=
| ESend (ch v : string)
| ERecv (ch : string)
| ERange (x : string)
| ECall (f args : string)
| EGo
| EAssign (l op r : string)
| EReturn.

Record ev := mkev { ek : evk; in_defer : bool; go_depth : nat; loop_depth : nat; clo : nat; cond : nat }.

Definition evk_eqb (a b : evk) : bool :=
  match a, b with
  | ESend c v, ESend c' v' => String.eqb c c' && String.eqb v v'
  | ERecv c, ERecv c' => String.eqb c c'
  | ERange c, ERange c' => String.eqb c c'
  | ECall f a, ECall f' a' => String.eqb f f' && String.eqb a a'
  | EGo, EGo => true
  | EAssign l o r, EAssign l' o' r' => String.eqb l l' && String.eqb o o' && String.eqb r r'
  | EReturn, EReturn => true
  | _, _ => false
  end.

Definition pred := ev -> bool.

Fixpoint index (p : pred) (l : list ev) : option nat :=
  match l with
  | [] => None
  | e :: r => if p e then Some 0 else option_map S (index p r)
  end.
Definition count (p : pred) (l : list ev) : nat := List.length (filter p l).
(* the last position at which p holds *)
Definition last_index (p : pred) (l : list ev) : option nat :=
  option_map (fun i => List.length l - 1 - i) (index p (rev l)).

(* exactly one event satisfies p, and it also satisfies q *)
Definition unique (p q : pred) (l : list ev) : bool :=
  (count p l =? 1) && forallb (fun e => implb (p e) (q e)) l.
(* the first p comes strictly before the first q (both exist) *)
Definition before (p q : pred) (l : list ev) : bool :=
  match index p l, index q l with Some i, Some j => i <? j | _, _ => false end.
(* every p comes strictly before the first q *)
Definition all_before (p q : pred) (l : list ev) : bool :=
  match last_index p l, index q l with Some i, Some j => i <? j | None, Some _ => true | _, None => false end.
(* the event right after the first p satisfies q *)
Definition next_is (p q : pred) (l : list ev) : bool :=
  match index p l with Some i => match nth_error l (S i) with Some e => q e | None => false end | None => false end.

Definition is_k (k : evk) : pred := fun e => evk_eqb (ek e) k.
Definition is_send (ch : string) : pred := fun e => match ek e with ESend c _ => String.eqb c ch | _ => false end.
Definition is_recv (ch : string) : pred := fun e => match ek e with ERecv c => String.eqb c ch | _ => false end.
Definition is_call (f : string) : pred := fun e => match ek e with ECall g _ => String.eqb g f | _ => false end.
Definition is_assign_to (l : string) : pred := fun e => match ek e with EAssign x _ _ => String.eqb x l | _ => false end.
Definition is_go : pred := fun e => match ek e with EGo => true | _ => false end.
Definition is_return : pred := fun e => match ek e with EReturn => true | _ => false end.
Definition ctx (d : bool) (g lp : nat) : pred := fun e => Bool.eqb (in_defer e) d && (go_depth e =? g) && (loop_depth e =? lp) && (clo e =? 0).
Definition ctx_go (d : bool) (g : nat) : pred := fun e => Bool.eqb (in_defer e) d && (go_depth e =? g) && (clo e =? 0).
Definition pand (p q : pred) : pred := fun e => p e && q e.

(* ---- reader pool: pkg/extractor/batchers/fileBatcher.go OpenFilesToChan --------------------------
   Pipeline.v: a reader is spawned only after the spawning loop itself has taken a semaphore slot
   (rule s_spawn, in-order acquisition `no_new`), every reader releases its slot and signals the wait
   group on every exit path (s_rdone / s_rfail), an open failure counts one error and reads nothing
   (s_rfail), and the batch channel is closed once, after all readers are done (s_close). *)
Definition open_files_ok (l : list ev) : bool :=
  unique (is_send "sema") (ctx false 1 1) l &&
  unique (pand is_go (ctx_go false 1)) (ctx false 1 1) l &&
  before (is_send "sema") (pand is_go (ctx_go false 1)) l &&
  unique (is_call "wg.Add") (ctx false 1 1) l &&
  before (is_call "wg.Add") (pand is_go (ctx_go false 1)) l &&
  unique (is_recv "sema") (ctx_go true 2) l &&
  unique (is_call "wg.Done") (ctx_go true 2) l &&
  unique (is_call "wg.Wait") (ctx false 1 0) l &&
  unique (is_call "out.close") (ctx false 1 0) l &&
  before (is_call "wg.Wait") (is_call "out.close") l &&
  forallb (fun e => implb (is_call "wg.Wait" e || is_call "out.close" e || is_send "sema" e || is_recv "sema" e || is_call "wg.Done" e) (cond e =? 0)) l &&
  all_before (fun e => (go_depth e =? 1) && (1 <=? loop_depth e)) (is_call "wg.Wait") l &&
  all_before (fun e => 2 <=? go_depth e) (is_call "wg.Wait") l &&
  unique (is_k (ECall "out.syncReaderToBatcher" "goFilename, file, batchSize")) (ctx false 2 0) l &&
  (count (is_call "out.syncReaderToBatcher") l =? 1) &&
  unique (is_call "out.incErrors") (ctx false 2 0) l &&
  next_is (is_call "out.incErrors") (pand is_return (ctx false 2 0)) l &&
  before (is_call "out.incErrors") (is_call "out.syncReaderToBatcher") l &&
  (count (is_call "close") l =? 0).

(* the single-reader variant (stdin / follow): closes the channel when its only reader returns *)
Definition open_reader_ok (l : list ev) : bool :=
  unique is_go (ctx false 0 0) l &&
  unique (is_call "out.close") (ctx_go true 1) l &&
  unique (is_call "out.syncReaderToBatcherWithTimeFlush") (ctx false 1 0) l &&
  (count (is_call "close") l =? 0).

Definition batcher_close_ok (l : list ev) : bool :=
  match l with [e] => is_k (ECall "close" "s.c") e | _ => false end.

(* ---- batching: pkg/extractor/batchers/batcher.go syncReaderToBatcher[WithTimeFlush] --------------
   Batch.v `cut`: numbering starts at 1, every batch is sent with the source name and the number of
   its first line, the counter advances by the batch length after a send, every batch gets a FRESH
   slice (the worker still reads the previous one), and the unfinished batch is sent after the loop. *)
Definition batch_payload := "extractor.InputBatch{ Batch: batch, Source: sourceName, BatchStart: batchStart, }".
Definition assigns_to (x : string) (l : list ev) : list (string * string) :=
  flat_map (fun e => match ek e with EAssign y op r => if String.eqb y x then [(op, r)] else [] | _ => [] end) l.
Definition pair_eqb (a b : string * string) : bool := String.eqb (fst a) (fst b) && String.eqb (snd a) (snd b).
Fixpoint list_eqb {A} (eqb : A -> A -> bool) (a b : list A) : bool :=
  match a, b with [] , [] => true | x :: a', y :: b' => eqb x y && list_eqb eqb a' b' | _, _ => false end.

Definition sync_reader_ok (l : list ev) : bool :=
  (count (is_send "s.c") l =? 2) &&
  forallb (fun e => implb (is_send "s.c" e) (is_k (ESend "s.c" batch_payload) e && Bool.eqb (in_defer e) false && (go_depth e =? 0) && (clo e =? 0))) l &&
  (count (pand (is_send "s.c") (ctx false 0 1)) l =? 1) &&
  (count (pand (is_send "s.c") (ctx false 0 0)) l =? 1) &&
  before (pand (is_send "s.c") (ctx false 0 1)) (pand (is_send "s.c") (ctx false 0 0)) l &&
  list_eqb pair_eqb (assigns_to "batchStart" l) [("var", "1"); ("+=", "uint64(len(batch))")] &&
  list_eqb pair_eqb (assigns_to "batch" l)
    [(":=", "make([]extractor.BString, 0, batchSize)"); ("=", "append(batch, readahead.Bytes())"); ("=", "make([]extractor.BString, 0, batchSize)")] &&
  before (pand (is_send "s.c") (ctx false 0 1)) (is_k (EAssign "batchStart" "+=" "uint64(len(batch))")) l &&
  before (is_k (EAssign "batchStart" "+=" "uint64(len(batch))")) (is_k (EAssign "batch" "=" "make([]extractor.BString, 0, batchSize)")) l &&
  before (is_k (EAssign "batch" "=" "make([]extractor.BString, 0, batchSize)")) (pand (is_send "s.c") (ctx false 0 0)) l &&
  forallb (fun e => implb (is_k (EAssign "batchStart" "+=" "uint64(len(batch))") e) (ctx false 0 1 e)) l &&
  unique (is_call "readahead.Scan") (ctx false 0 1) l &&
  (* the scanner is created here, for this source alone, with the package's buffer size, and nothing is handed
     back when the source ends (no deferred action): the slices it gave out stay valid for ever *)
  unique (is_call "readahead.NewImmediate") (pand (ctx false 0 0) (is_k (ECall "readahead.NewImmediate" "readerMetrics, ReadAheadBufferSize"))) l &&
  forallb (fun e => negb (in_defer e)) l &&
  (count (is_call "close") l =? 0).

(* ---- worker pool: pkg/extractor/extractor.go New / asyncWorker ------------------------------------
   Pipeline.v: nw workers are started, each signals the wait group when the batch channel is
   closed and drained, the match channel is closed once, by a separate goroutine, after all workers
   are done (s_wclose); a worker numbers line idx of a batch BatchStart+idx with the batch's source
   (rule s_wline, Extract.v), collects the matches of ONE batch in a fresh slice and sends them
   once, after the batch's last line (s_wsend). *)
Definition extractor_new_ok (l : list ev) : bool :=
  unique (is_call "wg.Add") (ctx false 0 1) l &&
  unique (pand is_go (ctx false 0 1)) (ctx false 0 1) l &&
  before (is_call "wg.Add") (pand is_go (ctx false 0 1)) l &&
  unique (is_call "extractor.asyncWorker") (pand (ctx false 1 0) (is_k (ECall "extractor.asyncWorker" "&wg, inputBatch"))) l &&
  unique (pand is_go (ctx false 0 0)) (ctx false 0 0) l &&
  before (pand is_go (ctx false 0 1)) (pand is_go (ctx false 0 0)) l &&
  unique (is_call "wg.Wait") (ctx false 1 0) l &&
  unique (is_call "close") (pand (ctx false 1 0) (is_k (ECall "close" "extractor.readChan"))) l &&
  before (pand is_go (ctx false 0 0)) (is_call "wg.Wait") l &&
  before (is_call "wg.Wait") (is_call "close") l.

Definition async_worker_ok (l : list ev) : bool :=
  match l with e :: _ => is_k (ECall "wg.Done" "") e && in_defer e | [] => false end &&
  (count (is_call "wg.Done") l =? 1) &&
  unique (is_recv "inputBatch") (ctx false 0 1) l &&
  unique (is_k (ERange "batch.Batch")) (ctx false 0 1) l &&
  unique (is_call "si.processLineSync") (pand (ctx false 0 2) (is_k (ECall "si.processLineSync" "batch.Source, batch.BatchStart + uint64(idx), str"))) l &&
  list_eqb pair_eqb (assigns_to "matchBatch" l) [("var", ""); ("=", "make([]Match, 0, len(batch.Batch))"); ("=", "append(matchBatch, match)")] &&
  forallb (fun e => implb (is_k (EAssign "matchBatch" "var" "") e) (ctx false 0 1 e)) l &&
  unique (is_send "s.readChan") (pand (ctx false 0 1) (is_k (ESend "s.readChan" "matchBatch"))) l &&
  before (is_recv "inputBatch") (is_k (EAssign "matchBatch" "var" "")) l &&
  before (is_k (EAssign "matchBatch" "var" "")) (is_k (ERange "batch.Batch")) l &&
  all_before (fun e => 2 <=? loop_depth e) (is_send "s.readChan") l &&
  (count (is_call "close") l =? 0).

(* ---- aggregation loop: cmd/helpers/updatingAggregator.go RunAggregationLoop ------------------------
   AggLoop.v: the ticker goroutine renders only while holding the mutex and returns when it receives
   on the UNBUFFERED outputDone; the main loop samples a batch only while holding the mutex; after
   the loop it sends on outputDone (so the ticker has returned or is blocked out) and only then
   renders for the last time, exactly once. *)
Definition agg_loop_ok (l : list ev) : bool :=
  list_eqb pair_eqb (assigns_to "outputDone" l) [(":=", "make(chan bool)")] &&
  unique is_go (ctx false 0 0) l &&
  unique (is_recv "outputDone") (ctx false 1 1) l &&
  next_is (is_recv "outputDone") (pand is_return (ctx false 1 1)) l &&
  (* ticker: Lock < writeOutput < Unlock, all in the goroutine *)
  unique (pand (is_call "outputMutex.Lock") (ctx_go false 1)) (ctx false 1 1) l &&
  unique (pand (is_call "writeOutput") (ctx_go false 1)) (ctx false 1 1) l &&
  unique (pand (is_call "outputMutex.Unlock") (ctx_go false 1)) (ctx false 1 1) l &&
  before (pand (is_call "outputMutex.Lock") (ctx_go false 1)) (pand (is_call "writeOutput") (ctx_go false 1)) l &&
  before (pand (is_call "writeOutput") (ctx_go false 1)) (pand (is_call "outputMutex.Unlock") (ctx_go false 1)) l &&
  (* main loop: Lock < Sample < Unlock *)
  unique (pand (is_call "outputMutex.Lock") (ctx_go false 0)) (ctx false 0 1) l &&
  unique (is_call "aggregator.Sample") (ctx false 0 2) l &&
  unique (pand (is_call "outputMutex.Unlock") (ctx_go false 0)) (ctx false 0 1) l &&
  before (pand (is_call "outputMutex.Lock") (ctx_go false 0)) (is_call "aggregator.Sample") l &&
  before (is_call "aggregator.Sample") (pand (is_call "outputMutex.Unlock") (ctx_go false 0)) l &&
  unique (is_recv "reader") (ctx false 0 1) l &&
  list_eqb pair_eqb (assigns_to "reader" l) [(":=", "ext.ReadChan()")] &&
  (* hand-off, then the final render *)
  unique (is_send "outputDone") (ctx false 0 0) l &&
  unique (pand (is_call "writeOutput") (ctx_go false 0)) (ctx false 0 0) l &&
  all_before (fun e => (go_depth e =? 0) && (1 <=? loop_depth e)) (is_send "outputDone") l &&
  before (is_send "outputDone") (pand (is_call "writeOutput") (ctx_go false 0)) l &&
  (* the hand-off and the final render are unconditional *)
  forallb (fun e => implb (is_send "outputDone" e || (is_call "writeOutput" e && (go_depth e =? 0))) (cond e =? 0)) l &&
  (count (is_call "close") l =? 0).
