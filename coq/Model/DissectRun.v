(* C12 — a DissectInstance (compiled pattern + IntPool) matching a sequence of lines; the
   observables of the correspondence and the property's boolean form. *)
From Coq Require Import List NArith ZArith Bool Arith.
From RareV Require Import Base.Hex Base.Res Model.Dissect Model.IntPool.
Import ListNotations.

Definition pool_mult : nat := N.to_nat 1024.
Definition group_slots (d : dissect) : nat := length (d_names d) * 2 + 2.   (* s.groupCount*2 + 2 *)
Definition create_instance (d : dissect) : pool := new_pool (group_slots d * pool_mult).

Definition prefix_found (d : dissect) (line : bytes) : bool :=
  match d_prefix d with
  | [] => true
  | p => match index_of (foldf (d_ic d)) p line with Some _ => true | None => false end
  end.

(* FindSubmatchIndex on an instance.  A miss on the prefix returns before Get; a miss on a later
   delimiter returns after Get (the carved slice is dropped; its partial contents are unobservable
   and not modelled).  On success ret is filled with the offsets. *)
Definition find_inst (d : dissect) (p : pool) (line : bytes) : result (option slice * pool) :=
  if prefix_found d line then
    match find d line with
    | Some r =>
        match step p (group_slots d, enum_from 0 (map Z.of_nat r)) with
        | Ok (sl, p') => Ok (Some sl, p')
        | Panic => Panic
        end
    | None =>
        match step p (group_slots d, []) with
        | Ok (_, p') => Ok (None, p')
        | Panic => Panic
        end
    end
  else Ok (None, p).

(* match every line on one instance; remember each returned slice and what it read at return time *)
Fixpoint run_lines (d : dissect) (p : pool) (lines : list bytes)
  : result (list (option slice * option (list Z)) * pool) :=
  match lines with
  | [] => Ok ([], p)
  | l :: r =>
      match find_inst d p l with
      | Panic => Panic
      | Ok (osl, p') =>
          match run_lines d p' r with
          | Panic => Panic
          | Ok (xs, p'') => Ok ((osl, option_map (read (p_heap p')) osl) :: xs, p'')
          end
      end
  end.

(* observables of one (pattern, mode, lines) run *)
Inductive outcome :=
| OErr (e : N)                                           (* 1 unclosed, 2 sequential, 3 key conflict; 8 panic, 9 fuel *)
| OOk (names : list (bytes * Z))                         (* SubexpNameTable sorted by index *)
      (ret : list (option (list Z)))                     (* results copied when returned *)
      (end_ : list (option (list Z))).                   (* the same slices re-read after the last line *)

Definition err_code (e : cerr) : N := match e with EUnclosed => 1 | ESequential => 2 | EConflict => 3 end%N.

Definition name_table (d : dissect) : list (bytes * Z) :=
  map (fun p => (snd p, Z.of_nat (fst p))) (enum_from 1 (d_names d)).

Definition run_mode (ic : bool) (pat : bytes) (lines : list bytes) : outcome :=
  match compile ic pat with
  | CErr e => OErr (err_code e)
  | CFuel => OErr 9
  | COk d =>
      match run_lines d (create_instance d) lines with
      | Panic => OErr 8
      | Ok (xs, p) =>
          OOk (name_table d) (map snd xs) (map (fun x => option_map (read (p_heap p)) (fst x)) xs)
      end
  end.

(* mode: 0 = case-sensitive only, 1 = ignore-case only, 2 = both *)
Definition inp := (N * bytes * list bytes)%type.
Definition obs := (option outcome * option outcome)%type.

Definition model (i : inp) : obs :=
  let '(mode, pat, lines) := i in
  ((if (mode =? 1)%N then None else Some (run_mode false pat lines)),
   (if (mode =? 0)%N then None else Some (run_mode true pat lines))).

(* the same observables without the pool: every slice reads the offsets of its own line, at return
   and at the end (equal to [model] by C12_model_closed_form; used by the boolean form so that the
   heap is simulated only once per case) *)
Definition run_mode_fast (ic : bool) (pat : bytes) (lines : list bytes) : outcome :=
  match compile ic pat with
  | COk d => let rs := map (fun l => option_map (map Z.of_nat) (find d l)) lines in OOk (name_table d) rs rs
  | CErr e => OErr (err_code e)
  | CFuel => OErr 9
  end.

Definition model_fast (i : inp) : obs :=
  let '(mode, pat, lines) := i in
  ((if (mode =? 1)%N then None else Some (run_mode_fast false pat lines)),
   (if (mode =? 0)%N then None else Some (run_mode_fast true pat lines))).

(* ---------- equality on observables ---------- *)
Definition opt_eqb {A} (e : A -> A -> bool) (a b : option A) : bool :=
  match a, b with Some x, Some y => e x y | None, None => true | _, _ => false end.
Definition res_eqb := opt_eqb (list_eqb Z.eqb).
Definition name_eqb (a b : bytes * Z) : bool := bytes_eqb (fst a) (fst b) && Z.eqb (snd a) (snd b).
Definition outcome_eqb (a b : outcome) : bool :=
  match a, b with
  | OErr x, OErr y => N.eqb x y
  | OOk n1 r1 e1, OOk n2 r2 e2 =>
      list_eqb name_eqb n1 n2 && list_eqb res_eqb r1 r2 && list_eqb res_eqb e1 e2
  | _, _ => false
  end.
Definition obs_eqb (a b : obs) : bool :=
  opt_eqb outcome_eqb (fst a) (fst b) && opt_eqb outcome_eqb (snd a) (snd b).

(* ---------- the property's boolean form on an observed output ---------- *)

Fixpoint chainZ (lo : Z) (l : list Z) (hi : Z) : bool :=
  match l with
  | [] => (lo <=? hi)%Z
  | x :: r => (lo <=? x)%Z && chainZ x r hi
  end.

(* offsets ordered and within the line; one pair per named group *)
Definition resultZ_ok (n g : nat) (r : option (list Z)) : bool :=
  match r with
  | None => true
  | Some (s0 :: e :: caps) =>
      (0 <=? s0)%Z && chainZ s0 caps e && (e <=? Z.of_nat n)%Z && (length caps =? 2 * g)
  | Some _ => false
  end.

Fixpoint all2 {A B} (p : A -> B -> bool) (a : list A) (b : list B) : bool :=
  match a, b with
  | [], [] => true
  | x :: a', y :: b' => p x y && all2 p a' b'
  | _, _ => false
  end.

Definition outcome_ok (lines : list bytes) (o : outcome) : bool :=
  match o with
  | OErr e => (1 <=? e)%N && (e <=? 3)%N
  | OOk names ret end_ =>
      all2 (fun l r => resultZ_ok (length l) (length names) r) lines ret   (* ordered, within the line *)
      && list_eqb res_eqb end_ ret                                          (* earlier results not altered *)
  end.

(* ignore-case only adds matches; compile errors and the name table do not depend on the mode *)
Definition is_some {A} (o : option A) : bool := match o with Some _ => true | None => false end.
Definition monotone_ok (cs ic : outcome) : bool :=
  match cs, ic with
  | OErr a, OErr b => N.eqb a b
  | OOk n1 r1 _, OOk n2 r2 _ =>
      list_eqb name_eqb n1 n2 && all2 (fun a b => implb (is_some a) (is_some b)) r1 r2
  | _, _ => false
  end.

(* "the result equals the specification": by C12_find_spec the specification is decided by the
   model, so this clause is equality with the model's observable (in its pool-free closed form) *)
Definition C12_check (i : inp) (o : obs) : bool :=
  let '(mode, pat, lines) := i in
  obs_eqb (model_fast i) o &&
  match o with
  | (Some cs, None) => (mode =? 0)%N && outcome_ok lines cs
  | (None, Some ic) => (mode =? 1)%N && outcome_ok lines ic
  | (Some cs, Some ic) => outcome_ok lines cs && outcome_ok lines ic && monotone_ok cs ic
  | (None, None) => false
  end.
