(* Model of the array helpers of pkg/expressions/stdlib/funcsRange.go (+ kfJoin of funcsStrings.go,
   truthy.go, the sub-context of funcsRange.go) over NUL-separated byte strings.

   Two layers:
   - [op_*]  : each helper following the Go control flow (loops over the values the Splitter hands
               out, index counters, "need separator" flags, string builders);
   - [spec_*]: what the property says, with List.map / filter / fold_left / firstn / skipn / nth.
   Proofs/ArrayFnsProof.v proves op = spec for every helper and every sub-expression.

   The Splitter loop "for !Done() { v := Next() ... }" is modelled as recursion over [split d s],
   which is by definition the sequence the iterator of Model/Splitter.v hands out.

   Repaired behaviour that is modelled (see known_findings.d/C17.json and fixes/C17-*.patch):
     #10 Splitter.Next advances by len(Delim);      #11 @slice clamps a start below -n to 0;
     #5  subContext.GetMatch of a negative index is "";  #6 @for sub-context has the caller as parent;
     C17-for-leading-empty: @for writes the separator before every element but the first
                            (the pinned tree keys it on "builder non-empty" and drops leading "" elements). *)
From Coq Require Import List NArith ZArith Bool Arith.
From RareV Require Import Base.Hex Base.Num Model.Splitter Gen.GenC17.
Import ListNotations.

(* ------------------------------------------------------------------ truthy.go *)
Definition ascii_space (b : N) : bool :=
  ((9 <=? b) && (b <=? 13) || (b =? 32))%N.

(* the whole string is a sequence of UTF-8 encoded White_Space runes (unicode.IsSpace):
   U+0009-000D, U+0020, U+0085, U+00A0, U+1680, U+2000-200A, U+2028, U+2029, U+202F, U+205F, U+3000.
   strings.TrimSpace(s) = "" exactly then (an invalid byte decodes to U+FFFD, which is no space). *)
Fixpoint all_space (s : bytes) : bool :=
  match s with
  | [] => true
  | b :: r =>
      if ascii_space b then all_space r
      else match r with
           | c :: r1 =>
               if (b =? 194)%N then ((c =? 133) || (c =? 160))%N && all_space r1
               else match r1 with
                    | e :: r2 =>
                        (   ((b =? 225) && (c =? 154) && (e =? 128))
                         || ((b =? 226) && (c =? 128) && (((128 <=? e) && (e <=? 138)) || (e =? 168) || (e =? 169) || (e =? 175)))
                         || ((b =? 226) && (c =? 129) && (e =? 159))
                         || ((b =? 227) && (c =? 128) && (e =? 128)))%N
                        && all_space r2
                    | [] => false
                    end
           | [] => false
           end
  end.

Definition truthy (s : bytes) : bool := negb (all_space s).
Definition truthy_str (b : bool) : bytes := if b then TruthyVal else FalsyVal.

(* ------------------------------------------------------------------ contexts *)
Record ctx := mkctx { c_match : list bytes; c_keys : list (bytes * bytes) }.

(* GetMatch: the harness context and (after repair #5) subContext answer "" outside their range *)
Definition get_match (c : ctx) (i : Z) : bytes :=
  if (i <? 0)%Z then [] else nth (Z.to_nat i) (c_match c) [].
Definition get_key (c : ctx) (k : bytes) : bytes :=
  match find (fun p => bytes_eqb (fst p) k) (c_keys c) with Some p => snd p | None => [] end.
(* subContext{parent: c}.Eval(stage, v0, v1): {0},{1} bound, keys from the parent *)
Definition subctx (c : ctx) (v0 v1 : bytes) : ctx := mkctx [v0; v1] (c_keys c).

(* ------------------------------------------------------------------ helpers, Go control flow *)
Definition sepb (b : bool) : bytes := if b then [NUL] else [].

(* arrayOperator(arr, delim, joiner, mapper) *)
Definition array_operator (arr delim joiner : bytes) (mapper : bytes -> bytes) : bytes :=
  match arr with
  | [] => mapper []
  | _ => match split delim arr with
         | [] => mapper []
         | x :: r => fold_left (fun ret y => ret ++ joiner ++ mapper y) r (mapper x)
         end
  end.

(* kfArraySplit: an empty delimiter is rejected when the expression is compiled; the stage then yields ErrorEmpty *)
Definition op_split (v d : bytes) : bytes :=
  match d with [] => ErrorEmpty | _ => array_operator v d [NUL] (fun x => x) end.
Definition op_join (v d : bytes) : bytes := array_operator v [NUL] d (fun x => x).
Definition op_map (f : bytes -> bytes) (v : bytes) : bytes := array_operator v [NUL] [NUL] f.

(* kfArrayLen *)
Definition op_len (v : bytes) : bytes :=
  match v with
  | [] => [48%N]
  | _ => itoa (Z.of_nat (count_byte NUL v) + 1)
  end.

(* kfArraySelect *)
Fixpoint select_loop (l : list bytes) (i search : Z) : bytes :=
  match l with
  | [] => []
  | v :: r => if (i =? search)%Z then v else select_loop r (i + 1)%Z search
  end.
Definition op_select (v : bytes) (index : Z) : bytes :=
  let search := if (index <? 0)%Z then (index + (Z.of_nat (count_byte NUL v) + 1))%Z else index in
  select_loop (split0 v) 0%Z search.

(* kfArrayReduce: f memo element *)
Fixpoint reduce_loop (f : bytes -> bytes -> bytes) (l : list bytes) (memo : bytes) : bytes :=
  match l with
  | [] => memo
  | x :: r => reduce_loop f r (f memo x)
  end.
Definition op_reduce (f : bytes -> bytes -> bytes) (init v : bytes) : bytes :=
  match init with
  | [] => match split0 v with
          | [] => []
          | x :: r => reduce_loop f r x
          end
  | _ => reduce_loop f (split0 v) init
  end.

(* kfArraySlice (repaired: realStart clamped at 0) *)
Fixpoint slice_loop (l : list bytes) (i realStart sliceLen : Z) (ret : bytes) : bytes :=
  match l with
  | [] => ret
  | val :: r =>
      if (sliceLen <? 0)%Z || (i <? realStart + sliceLen)%Z then
        slice_loop r (i + 1)%Z realStart sliceLen
          (if (i >=? realStart)%Z then ret ++ sepb (i >? realStart)%Z ++ val else ret)
      else ret
  end.
Definition op_slice (v : bytes) (sliceStart sliceLen : Z) : bytes :=
  let realStart :=
    if (sliceStart <? 0)%Z then
      let rs := (sliceStart + (Z.of_nat (count_byte NUL v) + 1))%Z in
      if (rs <? 0)%Z then 0%Z else rs
    else sliceStart in
  slice_loop (split0 v) 0%Z realStart sliceLen [].

(* kfArrayFilter *)
Fixpoint filter_loop (p : bytes -> bool) (l : list bytes) (sb : bytes) (needSep : bool) : bytes :=
  match l with
  | [] => sb
  | item :: r =>
      if p item then filter_loop p r (sb ++ sepb needSep ++ item) true
      else filter_loop p r sb needSep
  end.
Definition op_filter (p : bytes -> bool) (v : bytes) : bytes := filter_loop p (split0 v) [] false.

(* kfArrayIn: the set is split once when the expression is compiled *)
Definition op_in (v : bytes) (matchString : bytes) : bytes :=
  truthy_str (existsb (bytes_eqb v) (split0 matchString)).

(* kfArrayRange.  Go's [i += incr] is int64 addition: [int_add] wraps.  At most [cap] = maxRangeElements
   elements are built; the round that would add one more returns ErrorValue.  The builder is a
   reversed list of chunks, numbers are rendered at the end (itoa never yields "", so "sb.Len() > 0"
   is "a chunk was written").  [fuel] only makes the recursion structural: [None] = fuel exhausted,
   impossible for [range_fuel] (Proofs/ArrayFnsLoops.v: range_loop_guarded, range_fuel_enough). *)
Definition int_add (a b : Z) : Z := let z := (a + b)%Z in if in_int64 z then z else wrap64 z.
Inductive rchunk := RSep | RNum (z : Z).
Definition render_chunk (c : rchunk) : bytes := match c with RSep => [NUL] | RNum z => itoa z end.
Definition render (chunks : list rchunk) : bytes := concat (map render_chunk (rev_append chunks [])).
Definition in_range (i stop incr : Z) : bool := ((incr >? 0) && (i <? stop) || (incr <? 0) && (i >? stop))%Z.

Fixpoint range_loop (fuel : nat) (cap : Z) (i stop incr count : Z) (chunks : list rchunk) : option bytes :=
  match fuel with
  | O => None
  | S f =>
      if in_range i stop incr then
        let count' := (count + 1)%Z in
        if (count' >? cap)%Z then Some ErrorValue
        else range_loop f cap (int_add i incr) stop incr count'
               (RNum i :: match chunks with [] => chunks | _ => RSep :: chunks end)
      else Some (render chunks)
  end.

(* no int64 overflow can happen while the loop runs: the value computed after the last element that is
   in range is at most stop - 1 + incr (at least stop + 1 + incr for a negative increment) *)
Definition range_no_wrap (start stop incr : Z) : bool :=
  in_int64 start && in_int64 stop &&
  (if (incr >? 0)%Z then (stop + incr - 1 <=? max_int64)%Z else (min_int64 <=? stop + incr + 1)%Z).

Definition range_fuel (cap start stop incr : Z) : nat :=
  S (Z.to_nat (if range_no_wrap start stop incr then Z.min cap (Z.abs (stop - start)) else cap)).

Definition range_run (cap start stop incr : Z) : option bytes :=
  range_loop (range_fuel cap start stop incr) cap start stop incr 0%Z [].

Definition op_range_cap (cap : Z) (sStart sStop sIncr : bytes) : bytes :=
  match atoi sStart with
  | None => ErrorNum
  | Some start =>
      match atoi sStop with
      | None => ErrorNum
      | Some stop =>
          match atoi sIncr with
          | None => ErrorNum
          | Some incr =>
              if (incr =? 0)%Z then ErrorValue
              else if ((incr >? 0) && (start >? stop))%Z then ErrorValue
              else if ((incr <? 0) && (start <? stop))%Z then ErrorValue
              else match range_run cap start stop incr with
                   | Some r => r
                   | None => [] (* never: range_fuel_enough *)
                   end
          end
      end
  end.
Definition op_range := op_range_cap MaxRangeElements.

(* strconv.Itoa(idx) for the loop counter idx = 0, 1, 2, ...: the decimal digits are kept least
   significant first and incremented with carry ([dec_str] of the n-th successor of "0" is the
   decimal representation of n; Proofs/ArrayFnsProof.v relates it to Base.Num.itoa). *)
Fixpoint dec_succ (ds : list N) : list N :=
  match ds with
  | [] => [49%N]
  | d :: r => if (d =? 57)%N then 48%N :: dec_succ r else (d + 1)%N :: r
  end.
Definition dec_zero : list N := [48%N].
Definition dec_str (ds : list N) : bytes := rev ds.

(* kfArrayFor: cond and incr see {0} = current value, {1} = index.  The builder is kept as a
   reversed list of chunks (rev_append: List.rev is quadratic) together with its length [len] in bytes.
   [fuel] = MAX_ITERATIONS + 1 rounds: round idx runs for idx <= MAX.  After a round (element written,
   increment evaluated) the loop gives up with the marker when idx > MAX_ITERATIONS (fuel exhausted)
   or the builder is longer than [maxb] = MAX_OUTPUT_BYTES.  [first] is idx = 0 (separator rule "if idx > 0"). *)
Fixpoint for_loop (fuel : nat) (maxb : Z) (cond incr : bytes -> bytes -> bytes) (val : bytes) (idx : list N)
                  (len : Z) (first : bool) (chunks : list bytes) : bytes :=
  match fuel with
  | O => ForInfMarker
  | S f =>
      let sIdx := dec_str idx in
      if truthy (cond val sIdx) then
        let len' := (len + (if first then 0 else 1) + Z.of_nat (length val))%Z in
        let val' := incr val sIdx in
        if (len' >? maxb)%Z then ForInfMarker
        else for_loop f maxb cond incr val' (dec_succ idx) len' false
                      (val :: (if first then chunks else [NUL] :: chunks))
      else concat (rev_append chunks [])
  end.
Definition op_for (cap : nat) (maxb : Z) (cond incr : bytes -> bytes -> bytes) (start : bytes) : bytes :=
  for_loop (S cap) maxb cond incr start dec_zero 0%Z true [].

(* kfJoin(ArraySeparator): {@ a b ...} and {$ a b ...} *)
Definition op_arr (vals : list bytes) : bytes :=
  match vals with
  | [] => []
  | [x] => x
  | x :: r => fold_left (fun sb y => sb ++ [NUL] ++ y) r x
  end.

(* ------------------------------------------------------------------ scalar helpers used in sub-expressions *)
Definition s_eq (a b : bytes) : bytes := truthy_str (bytes_eqb a b).
Definition s_not (a : bytes) : bytes := truthy_str (negb (truthy a)).
Definition s_prefix (a b : bytes) : bytes := if is_prefix b a then a else [].
Definition s_len (a : bytes) : bytes := itoa (Z.of_nat (length a)).
Definition s_sumi (a b : bytes) : bytes :=
  match atoi a, atoi b with
  | Some x, Some y => itoa (wrap64 (x + y))
  | _, _ => ErrorNum
  end.

(* ------------------------------------------------------------------ expressions *)
Inductive expr :=
| Lit (s : bytes)                 (* literal text *)
| Arg (i : Z)                     (* {i}: GetMatch *)
| Key (k : bytes)                 (* {name}: GetKey *)
| Cat (es : list expr)            (* juxtaposition *)
| SEq (a b : expr) | SNot (a : expr) | SIf (c a b : expr) | SPrefix (a b : expr) | SLen (a : expr) | SSumi (a b : expr)
| Arr (dollar : bool) (es : list expr)       (* {@ ...} / {$ ...} *)
| ALen (a : expr)
| ASplit (a : expr) (d : bytes)
| AJoin (a : expr) (d : bytes)
| ASelect (a : expr) (i : Z)
| ASlice (a : expr) (start len : Z)          (* len < 0: to the end (the two-argument form) *)
| AMap (a f : expr)
| AFilter (a f : expr)
| AReduce (a f : expr) (init : bytes)
| AIn (a : expr) (set : list bytes)
| ARange (s e i : expr)
| AFor (s c i : expr).

Definition iter_cap : nat := Z.to_nat MaxIterations.

Fixpoint eval (e : expr) (c : ctx) {struct e} : bytes :=
  match e with
  | Lit s => s
  | Arg i => get_match c i
  | Key k => get_key c k
  | Cat es => concat (map (fun x => eval x c) es)
  | SEq a b => s_eq (eval a c) (eval b c)
  | SNot a => s_not (eval a c)
  | SIf x a b => if truthy (eval x c) then eval a c else eval b c
  | SPrefix a b => s_prefix (eval a c) (eval b c)
  | SLen a => s_len (eval a c)
  | SSumi a b => s_sumi (eval a c) (eval b c)
  | Arr _ es => op_arr (map (fun x => eval x c) es)
  | ALen a => op_len (eval a c)
  | ASplit a d => op_split (eval a c) d
  | AJoin a d => op_join (eval a c) d
  | ASelect a i => op_select (eval a c) i
  | ASlice a st ln => op_slice (eval a c) st ln
  | AMap a f => op_map (fun x => eval f (subctx c x [])) (eval a c)
  | AFilter a f => op_filter (fun x => truthy (eval f (subctx c x []))) (eval a c)
  | AReduce a f init => op_reduce (fun m x => eval f (subctx c m x)) init (eval a c)
  | AIn a set => op_in (eval a c) (op_arr set)
  | ARange s e i => op_range (eval s c) (eval e c) (eval i c)
  | AFor s x i => op_for iter_cap ForMaxOutputBytes (fun v k => eval x (subctx c v k)) (fun v k => eval i (subctx c v k)) (eval s c)
  end.

(* ------------------------------------------------------------------ the property: list semantics *)
Definition spec_len (v : bytes) : bytes :=
  itoa (Z.of_nat (match v with [] => 0 | _ => length (split0 v) end)).
Definition spec_split (v d : bytes) : bytes :=
  match d with [] => ErrorEmpty | _ => join0 (split d v) end.
Definition spec_join (v d : bytes) : bytes := join d (split0 v).
Definition spec_map (f : bytes -> bytes) (v : bytes) : bytes := join0 (map f (split0 v)).
Definition spec_filter (p : bytes -> bool) (v : bytes) : bytes := join0 (filter p (split0 v)).
Definition spec_reduce (f : bytes -> bytes -> bytes) (init v : bytes) : bytes :=
  match init with
  | [] => fold_left f (tl (split0 v)) (hd [] (split0 v))
  | _ => fold_left f (split0 v) init
  end.
(* position meant by an index: negative counts from the end *)
Definition norm_index (n idx : Z) : Z := if (idx <? 0)%Z then (idx + n)%Z else idx.
Definition spec_select (v : bytes) (idx : Z) : bytes :=
  let l := split0 v in
  let j := norm_index (Z.of_nat (length l)) idx in
  if ((0 <=? j) && (j <? Z.of_nat (length l)))%Z then nth (Z.to_nat j) l [] else [].
Definition slice_list {A} (l : list A) (start len : Z) : list A :=
  let st := Z.max 0 (norm_index (Z.of_nat (length l)) start) in
  let r := skipn (Z.to_nat st) l in
  if (len <? 0)%Z then r else firstn (Z.to_nat len) r.
Definition spec_slice (v : bytes) (start len : Z) : bytes := join0 (slice_list (split0 v) start len).
Definition spec_in (v : bytes) (set : list bytes) : bytes :=
  truthy_str (existsb (bytes_eqb v) (split0 (join0 set))).

(* start, start+incr, ... strictly before stop; [n] elements *)
Fixpoint progression (n : nat) (start incr : Z) : list Z :=
  match n with O => [] | S k => start :: progression k (start + incr)%Z incr end.
Definition range_countZ (start stop incr : Z) : Z :=
  if (incr >? 0)%Z then ((stop - start + incr - 1) / incr)%Z
  else ((start - stop + (- incr) - 1) / (- incr))%Z.
Definition range_count (start stop incr : Z) : nat := Z.to_nat (range_countZ start stop incr).
(* where no int64 overflow can occur: ErrorValue above the cap, else the progression; otherwise
   (huge bounds with a huge increment) whatever the wrapping loop of the code yields *)
Definition spec_range_cap (cap : Z) (sStart sStop sIncr : bytes) : bytes :=
  match atoi sStart, atoi sStop, atoi sIncr with
  | Some start, Some stop, Some incr =>
      if (incr =? 0)%Z || ((incr >? 0) && (start >? stop))%Z || ((incr <? 0) && (start <? stop))%Z
      then ErrorValue
      else if range_no_wrap start stop incr then
        if (range_countZ start stop incr >? cap)%Z then ErrorValue
        else join0 (map itoa (progression (range_count start stop incr) start incr))
      else match range_run cap start stop incr with Some r => r | None => [] end
  | _, _, _ => ErrorNum
  end.
Definition spec_range := spec_range_cap MaxRangeElements.

(* the values @for visits: v, incr v 0, incr (incr v 0) 1, ... while cond is truthy;
   None when the cond is still truthy after [fuel] rounds or the joined values are longer than [maxb] *)
Fixpoint for_list (fuel : nat) (maxb : Z) (cond incr : bytes -> bytes -> bytes) (val : bytes) (idx : list N)
                  (len : Z) (first : bool) : option (list bytes) :=
  match fuel with
  | O => None
  | S f => if truthy (cond val (dec_str idx))
           then let len' := (len + (if first then 0 else 1) + Z.of_nat (length val))%Z in
                let val' := incr val (dec_str idx) in
                if (len' >? maxb)%Z then None
                else option_map (cons val) (for_list f maxb cond incr val' (dec_succ idx) len' false)
           else Some []
  end.
Definition spec_for (cap : nat) (maxb : Z) (cond incr : bytes -> bytes -> bytes) (start : bytes) : bytes :=
  match for_list (S cap) maxb cond incr start dec_zero 0%Z true with
  | Some l => join0 l
  | None => ForInfMarker
  end.

Fixpoint spec (e : expr) (c : ctx) {struct e} : bytes :=
  match e with
  | Lit s => s
  | Arg i => get_match c i
  | Key k => get_key c k
  | Cat es => concat (map (fun x => spec x c) es)
  | SEq a b => s_eq (spec a c) (spec b c)
  | SNot a => s_not (spec a c)
  | SIf x a b => if truthy (spec x c) then spec a c else spec b c
  | SPrefix a b => s_prefix (spec a c) (spec b c)
  | SLen a => s_len (spec a c)
  | SSumi a b => s_sumi (spec a c) (spec b c)
  | Arr _ es => join0 (map (fun x => spec x c) es)
  | ALen a => spec_len (spec a c)
  | ASplit a d => spec_split (spec a c) d
  | AJoin a d => spec_join (spec a c) d
  | ASelect a i => spec_select (spec a c) i
  | ASlice a st ln => spec_slice (spec a c) st ln
  | AMap a f => spec_map (fun x => spec f (subctx c x [])) (spec a c)
  | AFilter a f => spec_filter (fun x => truthy (spec f (subctx c x []))) (spec a c)
  | AReduce a f init => spec_reduce (fun m x => spec f (subctx c m x)) init (spec a c)
  | AIn a set => spec_in (spec a c) set
  | ARange s e i => spec_range (spec s c) (spec e c) (spec i c)
  | AFor s x i => spec_for iter_cap ForMaxOutputBytes (fun v k => spec x (subctx c v k)) (fun v k => spec i (subctx c v k)) (spec s c)
  end.

(* observable: the string BuildKey returns; None = the implementation panicked, did not finish,
   or concurrent evaluations disagreed with the sequential one *)
Definition obs := option bytes.
Definition obs_eqb (a b : obs) : bool :=
  match a, b with
  | Some x, Some y => bytes_eqb x y
  | None, None => true
  | _, _ => false
  end.
Definition model (e : expr) (c : ctx) : obs := Some (eval e c).
(* the property's boolean form on an observed output *)
Definition C17_check (e : expr) (c : ctx) (o : obs) : bool :=
  match o with Some s => bytes_eqb s (spec e c) | None => false end.
