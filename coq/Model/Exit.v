(* Exit status of an extraction command: cmd/helpers/exitCodes.go DetermineErrorState followed by
   main.go main (os.Exit(v.ExitCode()) for a cli.ExitCoder, status 0 when the action returns nil).
   The two constants come from the translator (Gen/GenC06.v). *)
From Coq Require Import ZArith Arith Bool.
From RareV Require Import Gen.GenC06.

(* readErr = Batcher.ReadErrors(), parseErr = agg.ParseErrors() (0 when the command has no
   aggregator: `agg != nil &&`), matched = Extractor.MatchedLines() *)
Definition exit_code (readErr parseErr matched : nat) : Z :=
  if 0 <? readErr then ExitCodeInvalidUsage
  else if 0 <? parseErr then ExitCodeInvalidUsage
  else if matched =? 0 then ExitCodeNoData
  else 0%Z.

(* logger.Fatal*(ExitCodeInvalidUsage, ...) in BuildBatcherFromArguments: usage errors end the process at once *)
Definition exit_usage : Z := ExitCodeInvalidUsage.

(* main prints the ExitCoder's message through the logger when it is not empty:
   "Read errors" / "Parse errors" are, the no-data message is "" *)
Definition exit_logs (readErr parseErr : nat) : nat :=
  if 0 <? readErr then 1 else if 0 <? parseErr then 1 else 0.
