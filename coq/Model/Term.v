(* C20 — the in-place terminal writer and a reference terminal.
   Model of pkg/multiterm/multiterm.go (TermWriter: WriteForLine, Close, goTo, writeAtCursor)
   and cursor.go (escape sequences, taken from Gen/GenTerm.v), and a VT100-subset emulator
   that interprets the emitted rune stream (CSI parser; LF, CR, CUU, EL, DECTCEM, SGR). *)
From Coq Require Import List NArith ZArith Bool Arith.
From RareV Require Import Base.Hex Base.Num Base.Res Gen.GenTerm Model.Trim.
Import ListNotations.

(* ---------------------------------------------------------------- commands and their bytes *)
Inductive cmd :=
| Text (s : text)      (* WriteLineNoWrap(os.Stdout, text): the (trimmed) text, verbatim *)
| LF                   (* fmt.Print("\n") *)
| CR                   (* fmt.Print("\r") *)
| Up (n : N)           (* moveUp(n): ESC [ n A *)
| EraseEOL             (* eraseRemainingLine(): ESC [ 0 K *)
| HideCur              (* hideCursor(): ESC [ ? 25 l *)
| ShowCur.             (* showCursor(): ESC [ ? 25 h *)

(* fmt.Sprintf(format, n) for a format whose only verb is %d *)
Fixpoint fmt_d (f : list N) (n : N) : list N :=
  match f with
  | [] => []
  | a :: r =>
      match r with
      | b :: r' => if (N.eqb a 37 && N.eqb b 100)%bool then utoa n ++ fmt_d r' n else a :: fmt_d r n
      | [] => [a]
      end
  end.

Definition render_cmd (c : cmd) : list N :=
  match c with
  | Text s => s
  | LF => [10%N]
  | CR => [13%N]
  | Up n => EscapePrefix ++ fmt_d MoveUpFormat n
  | EraseEOL => EscapePrefix ++ EraseEolBody
  | HideCur => EscapePrefix ++ HideCursorBody
  | ShowCur => EscapePrefix ++ ShowCursorBody
  end.
Definition render (cs : list cmd) : list N := flat_map render_cmd cs.

(* ---------------------------------------------------------------- TermWriter *)
Record cfg := mkcfg { autotrim : bool; cols : Z }.     (* multiterm.AutoTrim, computedCols *)

Record tw := mktw { tw_cursor : nat; tw_hidden : bool; tw_max : nat;
                    tw_clear : bool; tw_hide : bool }.  (* cursor, cursorHidden, maxLine, ClearLine, HideCursor *)
Definition tw_new : tw := mktw 0 false 0 true true.     (* New() *)

(* goTo(line) *)
Definition go_to (s : tw) (line : nat) : tw * list cmd :=
  (mktw line (tw_hidden s) (Nat.max (tw_max s) line) (tw_clear s) (tw_hide s),
   repeat LF (line - tw_cursor s) ++ repeat (Up 1%N) (tw_cursor s - line) ++ [CR]).

(* WriteForLine(line, text); writeAtCursor erases the row from column 0 and then writes the text
   (order as repaired by fixes/C20-dec-margin.patch; the pinned tree wrote first and erased after) *)
Definition tw_write (c : cfg) (s : tw) (line : nat) (t : text) : tw * list cmd :=
  let pre := if (tw_hide s && negb (tw_hidden s))%bool then [HideCur] else [] in
  let s1 := mktw (tw_cursor s) (tw_hidden s || tw_hide s)%bool (tw_max s) (tw_clear s) (tw_hide s) in
  let '(s2, mv) := go_to s1 line in
  (s2, pre ++ mv ++ (if tw_clear s then [EraseEOL] else [])
           ++ [Text (write_line_no_wrap (autotrim c) (cols c) t)]).

(* Close() *)
Definition tw_close (s : tw) : tw * list cmd :=
  let '(s1, mv) := go_to s (tw_max s) in
  (s1, mv ++ [LF] ++ (if tw_hidden s then [ShowCur] else [])).

(* WriteForLinef(line, format, args...) = WriteForLine(line, fmt.Sprintf(format, args...)) for
   TermWriter, VirtualTerm and BufferedTerm alike: an update carries the formatted text (the
   harness drives both entry points and computes the text with Go's fmt). *)

(* a history of updates; one command segment per call *)
Fixpoint tw_run (c : cfg) (s : tw) (ups : list (nat * text)) : tw * list (list cmd) :=
  match ups with
  | [] => (s, [])
  | (l, t) :: r => let '(s1, seg) := tw_write c s l t in
                   let '(s2, segs) := tw_run c s1 r in (s2, seg :: segs)
  end.

(* New(); updates; Close(): the segments (one per call, Close last) *)
Definition tw_session (c : cfg) (ups : list (nat * text)) : list (list cmd) :=
  let '(s, segs) := tw_run c tw_new ups in segs ++ [snd (tw_close s)].
Definition tw_output (c : cfg) (ups : list (nat * text)) : list N :=
  render (concat (tw_session c ups)).

(* ---------------------------------------------------------------- reference terminal *)
(* Rows are counted from the row the cursor was on when the program started and grow downwards
   without bound: the terminal is assumed to have more rows than lines are written (no scrolling
   past the top).  A row is the list of its cells up to the last one ever written or erased to;
   erased tails are dropped, blanks inside are 32.  Every printable rune takes one cell.
   A rune printed at column >= width wraps to the next row (so that "never wraps" is a statement). *)
Record tcfg := mktc { width : nat; onlcr : bool; dec : bool }.
(* onlcr: the tty turns "\n" into "\r\n".
   dec: the right margin behaves as on DEC terminals and xterm (deferred wrap, "last column
   flag"): after a rune is printed in the last column the cursor stays ON that column with the
   flag set, so an erase-in-line issued then starts at the last column and blanks the rune just
   printed; cursor movement clears the flag.  The state "column = width" below stands for
   "last column, flag set".  With dec = false the margin is idealised: the cursor rests beyond
   the last column and an erase there touches nothing. *)

Record scr := mkscr { rows : list (list N); crow : nat; ccol : nat; cvis : bool; hides : nat }.
Inductive pst := Ground | Esc | Csi (ps : list N).

Definition scr0 : scr := mkscr [] 0 0 true 0.

Definition put (row : list N) (col : nat) (x : N) : list N := upd 32%N row col (fun _ => x).

Definition print (tc : tcfg) (s : scr) (x : N) : scr :=
  if ccol s <? width tc
  then mkscr (upd [] (rows s) (crow s) (fun row => put row (ccol s) x)) (crow s) (S (ccol s)) (cvis s) (hides s)
  else mkscr (upd [] (rows s) (S (crow s)) (fun row => put row 0 x)) (S (crow s)) 1 (cvis s) (hides s).

(* the column the cursor is on, as erase and vertical movement see it *)
Definition ecol (tc : tcfg) (s : scr) : nat :=
  if (dec tc && (width tc <=? ccol s))%bool then width tc - 1 else ccol s.

Definition line_feed (tc : tcfg) (s : scr) : scr :=
  mkscr (rows s) (S (crow s)) (if onlcr tc then 0 else ecol tc s) (cvis s) (hides s).
Definition carriage_return (s : scr) : scr := mkscr (rows s) (crow s) 0 (cvis s) (hides s).
Definition cursor_up (tc : tcfg) (n : nat) (s : scr) : scr :=
  mkscr (rows s) (crow s - n) (ecol tc s) (cvis s) (hides s).

(* EL: 0 = cursor to end of line, 1 = start of line to cursor (inclusive), 2 = whole line *)
Definition erase_line (tc : tcfg) (mode : nat) (s : scr) : scr :=
  let col := ecol tc s in
  let f := fun row : list N =>
    match mode with
    | 0 => firstn col row
    | 1 => repeat 32%N (Nat.min (S col) (length row)) ++ skipn (S col) row
    | _ => []
    end in
  mkscr (upd [] (rows s) (crow s) f) (crow s) (ccol s) (cvis s) (hides s).

Definition set_vis (b : bool) (s : scr) : scr :=
  mkscr (rows s) (crow s) (ccol s) b (if b then hides s else S (hides s)).

Definition num_param (ps : list N) (dflt : N) : N :=
  match ps with
  | [] => dflt
  | _ => match udec 0 ps with Some n => n | None => dflt end
  end.

(* CSI dispatch on the final byte *)
Definition dispatch (tc : tcfg) (ps : list N) (fin : N) (s : scr) : scr :=
  if N.eqb fin 65 (* A: cursor up, 0 means 1 *)
  then cursor_up tc (N.to_nat (N.max 1 (num_param ps 1))) s
  else if N.eqb fin 75 (* K *)
  then match num_param ps 0 with
       | 0%N => erase_line tc 0 s | 1%N => erase_line tc 1 s | 2%N => erase_line tc 2 s | _ => s
       end
  else if (N.eqb fin 104 && list_eqb N.eqb ps [63;50;53]%N)%bool (* ?25h *) then set_vis true s
  else if (N.eqb fin 108 && list_eqb N.eqb ps [63;50;53]%N)%bool (* ?25l *) then set_vis false s
  else s.   (* SGR (m) changes no cell; everything else is outside the subset and ignored *)

Definition step (tc : tcfg) (e : scr * pst) (x : N) : scr * pst :=
  let '(s, p) := e in
  match p with
  | Ground =>
      if N.eqb x 27 then (s, Esc)
      else if N.eqb x 10 then (line_feed tc s, Ground)
      else if N.eqb x 13 then (carriage_return s, Ground)
      else if printable x then (print tc s x, Ground)
      else (s, Ground)
  | Esc =>
      if N.eqb x 91 then (s, Csi [])
      else if N.eqb x 27 then (s, Esc)
      else (s, Ground)
  | Csi ps =>
      if (N.leb 48 x && N.leb x 63)%bool then (s, Csi (ps ++ [x]))
      else if (N.leb 64 x && N.leb x 126)%bool then (dispatch tc ps x s, Ground)
      else if N.eqb x 27 then (s, Esc)
      else (s, Ground)
  end.

Definition run (tc : tcfg) (e : scr * pst) (l : list N) : scr * pst := fold_left (step tc) l e.

(* command-level semantics (what each command is meant to do to the screen) *)
Definition interp (tc : tcfg) (s : scr) (c : cmd) : scr :=
  match c with
  | Text t => fold_left (print tc) (visible t) s
  | LF => line_feed tc s
  | CR => carriage_return s
  | Up n => cursor_up tc (N.to_nat (N.max 1 n)) s
  | EraseEOL => erase_line tc 0 s
  | HideCur => set_vis false s
  | ShowCur => set_vis true s
  end.

(* ---------------------------------------------------------------- which writer a command gets *)
(* cmd/helpers/output.go BuildVTerm / BuildVTermFromArguments with
   pkg/multiterm/termstate/term.go IsPipedOutput (os.Stdout.Stat().Mode() & os.ModeCharDevice == 0;
   a failing Stat counts as "not piped" and is not modelled) and pkg/color's init. *)
Inductive outkind :=
| OTerminal      (* a tty *)
| OCharDev       (* a character device that is not a terminal, e.g. /dev/null *)
| OPipe | OSocket | ORegular | OOther.   (* pipe, socket, regular file, anything else *)
Inductive writer := WLive | WBuffered | WNull.

Definition is_terminal (k : outkind) : bool := match k with OTerminal => true | _ => false end.
Definition is_char_device (k : outkind) : bool :=
  match k with OTerminal | OCharDev => true | _ => false end.
Definition is_piped_output (k : outkind) : bool := negb (is_char_device k).      (* IsPipedOutput *)
Definition select_writer (k : outkind) (snapshot : bool) : writer :=              (* BuildVTerm *)
  if (snapshot || is_piped_output k)%bool then WBuffered else WLive.
Definition select_from_args (noout csv_stdout snapshot : bool) (k : outkind) : writer :=
  if (noout || csv_stdout)%bool then WNull else select_writer k snapshot.        (* BuildVTermFromArguments *)
Definition color_default (k : outkind) : bool := negb (is_piped_output k).       (* color.Enabled after init *)

(* pkg/multiterm/linetrim.go init(): AutoTrim and the width a process starts with.  A terminal
   (whose size the tty driver reports: win_cols) trims at that width; everything else does not
   trim and uses the fall-back width.  The environment (COLUMNS, LINES) is not consulted by the
   pinned code anywhere on this path — the parameter is there so that this is a statement.
   (A terminal whose size cannot be read falls back like a non-terminal; not modelled.) *)
Record env := mkenv { e_columns : option text; e_lines : option text }.
Definition default_cfg (k : outkind) (win_cols : Z) (e : env) : cfg :=
  if is_terminal k then mkcfg true win_cols else mkcfg false DefaultCols.

(* what reaches standard output when a command obtains its writer this way, writes the history
   and closes (NullTerm prints nothing) *)
Definition session_output (c : cfg) (w : writer) (ups : list (nat * text)) : Res.result text :=
  match w with
  | WLive => Res.Ok (tw_output c ups)
  | WBuffered => match bt_session (autotrim c) (cols c) ups with
                 | Res.Ok (out, _) => Res.Ok out
                 | Res.Panic => Res.Panic
                 end
  | WNull => Res.Ok []
  end.

(* ---------------------------------------------------------------- boolean forms for the correspondence *)
Definition text_eqb : text -> text -> bool := list_eqb N.eqb.

Definition scr_eqb (a b : scr) : bool :=
  (list_eqb text_eqb (rows a) (rows b) && Nat.eqb (crow a) (crow b) && Nat.eqb (ccol a) (ccol b)
   && Bool.eqb (cvis a) (cvis b))%bool.

Definition is_ground (p : pst) : bool := match p with Ground => true | _ => false end.

(* the screen shows, for every line up to [n], the visible part of what was last written *)
Fixpoint rows_show (c : cfg) (ups : list (nat * text)) (rws : list (list N)) (n : nat) : bool :=
  (text_eqb (nth n rws []) (visible (write_line_no_wrap (autotrim c) (cols c) (last_write n ups)))
   && match n with O => true | S n' => rows_show c ups rws n' end)%bool.

Definition fits (tc : tcfg) (c : cfg) (ups : list (nat * text)) : bool :=
  forallb (fun u => (wf_text (snd u)
                     && (length (visible (write_line_no_wrap (autotrim c) (cols c) (snd u))) <=? width tc))%bool) ups.

(* after every call: ground state, the cursor is on the line just written, every line shows its
   latest text and nothing below the lowest line is touched *)
Fixpoint live_ok (tc : tcfg) (c : cfg) (done todo : list (nat * text)) (e : scr * pst)
                 (segs : list (list N)) : option (scr * pst) :=
  match todo, segs with
  | [], _ => Some e
  | u :: r, seg :: segs' =>
      let e' := run tc e seg in
      let done' := done ++ [u] in
      if (is_ground (snd e') && Nat.eqb (crow (fst e')) (fst u)
          && rows_show c done' (rows (fst e')) (S (max_line done'))
          && (length (rows (fst e')) <=? S (max_line done')))%bool
      then live_ok tc c done' r e' segs' else None
  | _ :: _, [] => None
  end.

(* C20 on an observed sequence of output segments (one per WriteForLine, then Close) *)
Definition C20_check_live (tc : tcfg) (c : cfg) (ups : list (nat * text)) (segs : list (list N)) : bool :=
  if negb (fits tc c ups) then true else
  if negb (Nat.eqb (length segs) (S (length ups))) then false else
  match live_ok tc c [] ups (scr0, Ground) segs with
  | None => false
  | Some e =>
      let e' := run tc e (last segs []) in
      (is_ground (snd e') && rows_show c ups (rows (fst e')) (S (max_line ups))
       && (length (rows (fst e')) <=? S (max_line ups))
       && Nat.eqb (crow (fst e')) (S (max_line ups)) && Nat.eqb (ccol (fst e')) 0 && cvis (fst e'))%bool
  end.

(* C20 on the observed output of BufferedTerm.Close / VirtualTerm.WriteToOutput *)
Definition buffered_spec (c : cfg) (ups : list (nat * text)) : text :=
  match ups with
  | [] => []
  | _ => flat_map (fun l => write_line_no_wrap (autotrim c) (cols c) (last_write l ups) ++ [10%N])
                  (seq 0 (S (max_line ups)))
  end.
Definition C20_check_buffered (c : cfg) (ups : list (nat * text)) (out : text) : bool :=
  text_eqb out (buffered_spec c ups).

(* the trim clauses on one observed (text, cut) pair *)
Fixpoint prefix_b (a b : text) : bool :=
  match a, b with
  | [], _ => true
  | x :: a', y :: b' => (N.eqb x y && prefix_b a' b')%bool
  | _ :: _, [] => false
  end.
Definition C20_check_trim (cols : Z) (s cut : text) : bool :=
  (prefix_b cut s && (length (visible cut) <=? Z.to_nat cols)
   && (negb (ends_inside false cut) || text_eqb cut s)
   && Nat.eqb (length (visible cut)) (Nat.min (Z.to_nat cols) (length (visible s))))%bool.
