(* C20 — width trimming and the line stores.
   Model of pkg/multiterm/linetrim.go (WriteLineNoWrap), virtualterm.go (VirtualTerm) and
   bufferedterm.go (BufferedTerm).  Texts are lists of runes (code points, [N]) — the Go code
   converts the string with []rune(s) and cuts the rune slice; UTF-8 decoding itself is not
   modelled (the correspondence glue decodes both the inputs and the captured output).
   The two runes the trim compares with come from the translator (Gen/GenTerm.v). *)
From Coq Require Import List NArith ZArith Bool Arith.
From RareV Require Import Base.Res Gen.GenTerm.
Import ListNotations.

Definition text := list N.

(* ---------------------------------------------------------------- WriteLineNoWrap *)

Definition is_start (x : N) : bool := N.eqb x TrimSeqStart.   (* runes[i] == '\x1b' *)
Definition is_end (x : N) : bool := N.eqb x TrimSeqEnd.       (* runes[i] == 'm'    *)

(* The Go loop
     for i < len(runes) && visibleRunes < computedCols {
       if runes[i] == '\x1b' { for runes[i] != 'm' && i < len(runes)-1 { i++ } } else { visibleRunes++ }
       i++ }
     out.Write(string(runes[:i]))
   as one structural pass: [inesc] = the inner loop is running (it ignores the width),
   [rem] = computedCols - visibleRunes.  Result = runes[:i]. *)
Fixpoint trim_go (inesc : bool) (rem : nat) (l : text) : text :=
  match l with
  | [] => []
  | x :: r =>
      if inesc then x :: trim_go (negb (is_end x)) rem r
      else match rem with
           | O => []
           | S rem' =>
               if is_start x then x :: trim_go (negb (is_end x)) rem r
               else x :: trim_go false rem' r
           end
  end.

Definition trim (cols : Z) (s : text) : text := trim_go false (Z.to_nat cols) s.

(* AutoTrim off: the bytes are written unchanged *)
Definition write_line_no_wrap (autotrim : bool) (cols : Z) (s : text) : text :=
  if autotrim then trim cols s else s.

(* ---------------------------------------------------------------- specification side *)
(* A colour sequence, as far as the property is concerned, starts with ESC (27) and ends with the
   next 'm' (109).  [visible_go]: the runes that occupy a cell; [ends_inside]: the text stops
   before a started sequence was closed.  These do not mention the Go constants. *)
Fixpoint visible_go (inesc : bool) (l : text) : text :=
  match l with
  | [] => []
  | x :: r =>
      if inesc then visible_go (negb (N.eqb x 109)) r
      else if N.eqb x 27 then visible_go true r
      else x :: visible_go false r
  end.
Definition visible : text -> text := visible_go false.

Fixpoint ends_inside (inesc : bool) (l : text) : bool :=
  match l with
  | [] => inesc
  | x :: r => if inesc then ends_inside (negb (N.eqb x 109)) r else ends_inside (N.eqb x 27) r
  end.
Definition escapes_complete (l : text) : Prop := ends_inside false l = false.

Definition is_prefix (a b : text) : Prop := exists rest, b = a ++ rest.

(* Well-formed text, as a terminal sees it: printable runes (one cell each; no C0/C1 control,
   no DEL) and complete SGR sequences  ESC '[' (digit | ';')* 'm'.  This is the hypothesis
   "texts" of the screen theorem; the emulator of Model/Term.v parses general CSI sequences. *)
Definition printable (x : N) : bool :=
  (N.leb 32 x && negb (N.eqb x 127) && negb (N.leb 128 x && N.ltb x 160))%bool.
Definition sgr_param (x : N) : bool := ((N.leb 48 x && N.leb x 57) || N.eqb x 59)%bool.

Inductive wst := WG | WE | WC.   (* ground / after ESC / inside ESC [ ... *)
Fixpoint wf_go (st : wst) (l : text) : bool :=
  match l with
  | [] => match st with WG => true | _ => false end
  | x :: r =>
      match st with
      | WG => if N.eqb x 27 then wf_go WE r else printable x && wf_go WG r
      | WE => N.eqb x 91 && wf_go WC r
      | WC => if N.eqb x 109 then wf_go WG r else sgr_param x && wf_go WC r
      end
  end.
Definition wf_text : text -> bool := wf_go WG.

(* ---------------------------------------------------------------- VirtualTerm / BufferedTerm *)

(* l[n] = f l[n], growing l with d as `for line >= len(s.lines) { append "" }` does *)
Fixpoint upd {A} (d : A) (l : list A) (n : nat) (f : A -> A) : list A :=
  match n, l with
  | O, [] => [f d]
  | O, x :: r => f x :: r
  | S n', [] => d :: upd d [] n' f
  | S n', x :: r => x :: upd d r n' f
  end.

Record vterm := mkvt { vt_lines : list text; vt_closed : bool }.

Definition vt_new (size : nat) : vterm := mkvt (repeat [] size) false.   (* NewVirtualTermEx(size, _) *)

(* WriteForLine panics on a closed term.  Line indices are natural numbers: a negative index
   (never produced by the renderers) panics in Go with an index error and is outside the model. *)
Definition vt_write (v : vterm) (line : nat) (t : text) : result vterm :=
  if vt_closed v then Panic
  else Ok (mkvt (upd [] (vt_lines v) line (fun _ => t)) false).

Definition vt_close (v : vterm) : vterm := mkvt (vt_lines v) true.
Definition vt_get (v : vterm) (line : Z) : text :=
  if (line <? 0)%Z then [] else nth (Z.to_nat line) (vt_lines v) [].
Definition vt_count (v : vterm) : nat := length (vt_lines v).

(* WriteToOutput: every line through WriteLineNoWrap, then "\n" *)
Definition vt_output (autotrim : bool) (cols : Z) (v : vterm) : text :=
  flat_map (fun l => write_line_no_wrap autotrim cols l ++ [10%N]) (vt_lines v).

Fixpoint vt_run (v : vterm) (ups : list (nat * text)) : result vterm :=
  match ups with
  | [] => Ok v
  | (l, t) :: r => match vt_write v l t with Ok v' => vt_run v' r | Panic => Panic end
  end.

(* BufferedTerm: NewBufferedTerm(); updates; Close() = WriteToOutput(os.Stdout) then close.
   Result: what reaches stdout, and the closed store. *)
Definition bt_session (autotrim : bool) (cols : Z) (ups : list (nat * text)) : result (text * vterm) :=
  match vt_run (vt_new 0) ups with
  | Ok v => Ok (vt_output autotrim cols v, vt_close v)
  | Panic => Panic
  end.

(* ---------------------------------------------------------------- what the property names *)
(* the text most recently written to line l ("" if none) *)
Definition last_write (l : nat) (ups : list (nat * text)) : text :=
  fold_left (fun acc u => if Nat.eqb (fst u) l then snd u else acc) ups [].
Definition max_line (ups : list (nat * text)) : nat :=
  fold_left (fun m u => Nat.max m (fst u)) ups 0.
