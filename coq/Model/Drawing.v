(* C08: the drawing helpers of pkg/expressions/stdlib/drawing.go -- {repeat}, {color}, {bar} -- with
   the library code they reach that can raise a run-time panic:
     strings.Repeat (Go 1.23: negative count, length overflow),
     color.Wrap (pkg/color/coloring.go: the slice s[len(s)-len(Reset):]),
     termunicode.BarWrite (pkg/multiterm/termunicode/bars.go: barUnicode[remainingBlocks]).
   Every such site is a possible [Panic].  Arguments are Model/Funcs.v [arg]s (constant-of-the-
   template flag + run-time value).
   [fixed = false]: the code as pinned; [fixed = true]: after fixes/C08-repeat-count.patch and
   fixes/C08-bar-length.patch (a count / length that is negative or above the cap gives <VALUE>). *)
From Coq Require Import List NArith ZArith Bool.
From RareV Require Import Base.Hex Base.Res Base.Num Gen.GenC11 Gen.GenFuncs Model.Ctx Model.Funcs.
Import ListNotations.
Local Open Scope Z_scope.

Definition blen (s : bytes) : Z := Z.of_nat (length s).

Fixpoint rep_bytes (n : nat) (s : bytes) : bytes :=
  match n with O => [] | S k => s ++ rep_bytes k s end.

(* ---- strings.Repeat(s, count) ---- *)
Definition go_repeat (s : bytes) (count : Z) : result bytes :=
  if count =? 0 then Ok []
  else if count =? 1 then Ok s
  else if count <? 0 then Panic                                 (* "strings: negative Repeat count" *)
  else if max_int64 / count <? blen s then Panic                (* "strings: Repeat output length overflow" *)
  else match s with
       | [] => Ok []                                            (* if len(s) == 0 { return "" } *)
       | _ => Ok (rep_bytes (Z.to_nat count) s)
       end.

(* the cap of the repaired kfRepeat: at most this many output bytes (const maxRepeatOutput) *)
Definition repeat_cap : Z := 1000000.

(* kfRepeat *)
Definition f_repeat (fixed : bool) (args : list arg) : result bytes :=
  match args with
  | [c; n] =>
      if a_const c then
        match atoi (a_val n) with
        | None => Ok ErrorNum
        | Some count =>
            if fixed && ((count <? 0) || (repeat_cap <? count) || (repeat_cap <? blen (a_val c) * count))
            then Ok ErrorValue
            else go_repeat (a_val c) count
        end
      else Ok ErrorConst
  | _ => Ok ErrorArgCount
  end.

(* ---- color.LookupColorByName / color.Wrap ---- *)
Fixpoint assoc_bytes (k : bytes) (t : list (bytes * bytes)) : option bytes :=
  match t with
  | [] => None
  | (k', v) :: r => if bytes_eqb k k' then Some v else assoc_bytes k r
  end.

(* strings.ToLower on ASCII names (names with bytes >= 128 are outside the compared domain) *)
Definition lower_name (s : bytes) : bytes := map low_byte s.

Definition color_wrap (enabled : bool) (code s : bytes) : result bytes :=
  if negb enabled then Ok s
  else
    let ls := blen s in let lr := blen colorReset in
    if ls <? lr then Ok (code ++ s ++ colorReset)
    else
      tl <- go_slice s (ls - lr) ls ;;                           (* s[len(s)-len(Reset):] *)
      Ok (code ++ s ++ (if bytes_eqb tl colorReset then [] else colorReset)).

(* kfColor *)
Definition f_color (enabled : bool) (args : list arg) : result bytes :=
  match args with
  | [n; c] =>
      if a_const n then
        match assoc_bytes (lower_name (a_val n)) colorMap with
        | Some code => color_wrap enabled code (a_val c)
        | None => Ok M_ErrorEnum
        end
      else Ok ErrorConst
  | _ => Ok ErrorArgCount
  end.

(* ---- termunicode.BarWrite(w, unit, maxLen) given blocks = termscaler.LengthVal(..) (float
        arithmetic: supplied by the harness from the exported Go function) ---- *)
Definition bar_write (unicode : bool) (blocks : Z) : result bytes :=
  if unicode then
    let full := if blocks <? barUnicodeLen then 0 else blocks / barUnicodeLen in
    let rem := if blocks <? barUnicodeLen then blocks else blocks mod barUnicodeLen in
    let body := rep_bytes (Z.to_nat full) fullBlock in
    if 0 <? rem then
      match nth_error barUnicode (Z.to_nat rem) with            (* barUnicode[remainingBlocks] *)
      | Some b => Ok (body ++ b)
      | None => Panic
      end
    else Ok body
  else Ok (rep_bytes (Z.to_nat blocks) nonUnicodeBlock).

(* termscaler.ScalerByName(strings.ToLower(name)) succeeds *)
Definition scaler_names : list bytes :=
  [ [108;105;110;101;97;114]%N; [108;105;110]%N; []; [108;111;103;49;48]%N; [108;111;103]%N; [108;111;103;50]%N ].
Definition scaler_ok (name : bytes) : bool := existsb (bytes_eqb (lower_name name)) scaler_names.

(* the cap of the repaired kfBar on its (constant) length argument (const maxBarLen) *)
Definition bar_cap : Z := 10000.

(* kfBar; [blocks]: see above, meaningful when the value argument parses *)
Definition f_bar (fixed unicode : bool) (args : list arg) (blocks : Z) : result bytes :=
  let body (v mx ln : arg) (scal : option arg) :=
    match static_int mx with
    | None => Ok ErrorNum
    | Some _ =>
        match static_int ln with
        | None => Ok ErrorNum
        | Some maxLen =>
            if fixed && ((maxLen <? 0) || (bar_cap <? maxLen)) then Ok ErrorValue
            else
              let run :=
                match atoi (a_val v) with
                | None => Ok ErrorNum
                | Some _ => bar_write unicode blocks
                end in
              match scal with
              | None => run
              | Some s => if a_const s then (if scaler_ok (a_val s) then run else Ok M_ErrorEnum)
                          else Ok ErrorConst
              end
        end
    end in
  match args with
  | [v; mx; ln] => body v mx ln None
  | [v; mx; ln; s] => body v mx ln (Some s)
  | _ => Ok ErrorArgCount
  end.
