(* Model of pkg/slicepool/objpool.go: Get pops the last pooled object or creates a fresh one;
   Return pushes.  Objects are numbered; Get/Return are atomic (they run under the pool's mutex,
   which the synchronisation table of C05 checks). *)
From Coq Require Import List Arith Bool.
Import ListNotations.

Record pool := { free : list nat; next : nat; inuse : list (nat * nat) (* (thread, object) *) }.

Definition pool_init (size : nat) : pool := {| free := seq 0 size; next := size; inuse := [] |}.

Definition get (t : nat) (p : pool) : nat * pool :=
  match rev (free p) with
  | [] => (next p, {| free := []; next := S (next p); inuse := (t, next p) :: inuse p |})
  | o :: r => (o, {| free := rev r; next := next p; inuse := (t, o) :: inuse p |})
  end.

Fixpoint remove_pair (t o : nat) (l : list (nat * nat)) : list (nat * nat) :=
  match l with
  | [] => []
  | (t', o') :: r => if (t' =? t) && (o' =? o) then r else (t', o') :: remove_pair t o r
  end.

(* the code accepts any pointer; every caller returns the object it got (checked by the harness) *)
Definition ret (t o : nat) (p : pool) : pool :=
  {| free := free p ++ [o]; next := next p; inuse := remove_pair t o (inuse p) |}.

Inductive pop := PGet (t : nat) | PRet (t o : nat).
(* a well-behaved client returns only what it holds *)
Definition pstep (p : pool) (op : pop) : option pool :=
  match op with
  | PGet t => Some (snd (get t p))
  | PRet t o => if existsb (fun x => (fst x =? t) && (snd x =? o)) (inuse p) then Some (ret t o p) else None
  end.
