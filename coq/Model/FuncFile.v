(* C10: functions files.
     funcfile/loader.go  LoadDefinitions: bufio.Scanner lines; trimAfter(line, '#'); strings.TrimSpace;
                         blank -> skipped; trailing backslash -> joined with the following lines;
                         strings.SplitN(phrase, " ", 2) -> name, expression; createAndAddFunc compiles
                         the expression with the (optimising) compiler and registers it at once, so
                         that later definitions can call earlier ones.
     funcfile/stage.go   keyBuilderToFunction / lazySubContext  (Optimize.ufun, Eff.with_args)
     funclib/funcs.go    AddFunctions; funclib/builder.go NewKeyBuilderEx: Builtins then Additional
   File content is ASCII (strings.TrimSpace also trims U+0085 and U+00A0; not modelled).
   Also: the documented reading of a call, [subst_tmpl]: the body with {i} replaced by the i-th
   argument, not descending into the binder arguments of @map/@filter/@reduce/@for. *)
From Coq Require Import List NArith ZArith Bool Arith.
From RareV Require Import Base.Hex Base.Res Base.Num Model.Tmpl Model.Funcs Model.Eff Model.Optimize.
Import ListNotations.

Definition HASH : N := 35%N.
Definition BSL : N := 92%N.
Definition SP : N := 32%N.

(* ---- lines: bufio.ScanLines (split at \n, one trailing \r dropped, no empty final line) ---- *)
Definition lines_of (text : bytes) : list bytes := map drop_cr (split_lines text []).

(* ---- loader.go ---- *)
Fixpoint trim_after (c : N) (s : bytes) : bytes :=
  match s with
  | [] => []
  | b :: r => if (b =? c)%N then [] else b :: trim_after c r
  end.
Fixpoint drop_ws (s : bytes) : bytes :=
  match s with
  | [] => []
  | b :: r => if is_ascii_space b then drop_ws r else s
  end.
Definition trim_space (s : bytes) : bytes := rev (drop_ws (rev (drop_ws s))).
Definition clean_line (l : bytes) : bytes := trim_space (trim_after HASH l).
Definition ends_bsl (s : bytes) : bool := match rev s with b :: _ => (b =? BSL)%N | [] => false end.

(* the phrases: one per definition, continuation lines joined *)
Fixpoint phrases (sb : bytes) (ls : list bytes) : list bytes :=
  match ls with
  | [] => match sb with [] => [] | _ => [sb] end
  | l :: r =>
      match clean_line l with
      | [] => phrases sb r
      | line => if ends_bsl line then phrases (sb ++ removelast line) r
                else (sb ++ line) :: phrases [] r
      end
  end.

(* strings.SplitN(phrase, " ", 2) *)
Fixpoint split_first (c : N) (s : bytes) : option (bytes * bytes) :=
  match s with
  | [] => None
  | b :: r => if (b =? c)%N then Some ([], r)
              else match split_first c r with Some (x, y) => Some (b :: x, y) | None => None end
  end.

(* (name, expression) in file order; second component: phrases without an expression
   ("Missing expression for ..": logged and skipped) *)
Fixpoint split_defs (ps : list bytes) : list (bytes * bytes) * nat :=
  match ps with
  | [] => ([], O)
  | p :: r => let '(ds, miss) := split_defs r in
              match split_first SP p with
              | Some d => (d :: ds, miss)
              | None => (ds, S miss)
              end
  end.
Definition load_defs (ls : list bytes) : list (bytes * bytes) * nat := split_defs (phrases [] ls).

(* createAndAddFunc for every definition in order: a body that compiles without error is registered
   (visible to the following definitions and shadowing any earlier function of that name);
   otherwise the error count goes up *)
Fixpoint install (c0 : Z) (E : env) (bodies : list (bytes * tmpl)) (defs : list (bytes * bytes))
  : env * list (bytes * tmpl) * nat :=
  match defs with
  | [] => (E, bodies, O)
  | (name, body) :: r =>
      match compile (fenv_of true c0 E) body with
      | Ok (t, []) => install c0 ((name, FUser (eval_tmpl true c0 E t)) :: E) ((name, t) :: bodies) r
      | _ => let '(E', b', n) := install c0 E bodies r in (E', b', S n)
      end
  end.
(* main.go Before hook: funclib.NewKeyBuilder(); LoadDefinitionsFile; AddFunctions.
   Result: the function table, the parse trees of the registered bodies (newest first), the error count *)
Definition load_file (c0 : Z) (text : bytes) : env * list (bytes * tmpl) * nat :=
  install c0 std_env [] (fst (load_defs (lines_of text))).

(* ---- layouts of a functions file (for C10_loader_layout) ---- *)
Definition hspace (b : N) : bool := (b =? 32)%N || (b =? 9)%N.          (* space, tab *)
Record deco := mkDeco { d_indent : bytes; d_trail : bytes; d_comment : option bytes }.
Definition render_comment (c : option bytes) : bytes :=
  match c with Some t => HASH :: t | None => [] end.
(* a blank or comment-only line *)
Definition junk_line (d : deco) : bytes := d_indent d ++ d_trail d ++ render_comment (d_comment d).
(* one physical line carrying [piece]; [cont]: followed by a backslash *)
Definition piece_line (cont : bool) (piece : bytes) (d : deco) : bytes :=
  d_indent d ++ piece ++ (if cont then [BSL] else []) ++ d_trail d ++ render_comment (d_comment d).
(* a definition laid out: junk lines before every piece, the phrase cut into pieces *)
Record lpiece := mkLP { lp_junk : list deco; lp_text : bytes; lp_deco : deco }.
Fixpoint render_pieces (ps : list lpiece) : list bytes :=
  match ps with
  | [] => []
  | [p] => map junk_line (lp_junk p) ++ [piece_line false (lp_text p) (lp_deco p)]
  | p :: r => map junk_line (lp_junk p) ++ piece_line true (lp_text p) (lp_deco p) :: render_pieces r
  end.
Definition layout := (list (list lpiece) * list deco)%type.     (* per definition; junk at the end *)
Definition render (L : layout) : list bytes :=
  concat (map render_pieces (fst L)) ++ map junk_line (snd L).

Definition deco_ok (d : deco) : bool :=
  forallb hspace (d_indent d) && forallb hspace (d_trail d).
Definition no_hash (s : bytes) : bool := negb (existsb (N.eqb HASH) s).
Definition starts_solid (s : bytes) : bool :=
  match s with [] => true | b :: _ => negb (is_ascii_space b) end.
Definition ends_solid (s : bytes) : bool :=
  match rev s with [] => false | b :: _ => negb (is_ascii_space b) && negb (b =? BSL)%N end.
Definition lpiece_ok (p : lpiece) : bool :=
  forallb deco_ok (lp_junk p) && deco_ok (lp_deco p) && no_hash (lp_text p) && starts_solid (lp_text p).
(* the pieces of one definition: every piece admissible, the last one non-empty and ending in a
   solid character, the first starting the phrase *)
Definition pieces_ok (ps : list lpiece) : bool :=
  forallb lpiece_ok ps && match rev ps with p :: _ => ends_solid (lp_text p) | [] => false end.
Definition phrase_of (ps : list lpiece) : bytes := concat (map lp_text ps).
Definition def_of (d : bytes * bytes) : bytes := fst d ++ SP :: snd d.
Definition name_ok (n : bytes) : bool := negb (existsb (N.eqb SP) n).
(* the layout L is a layout of defs *)
Definition layout_of (L : layout) (defs : list (bytes * bytes)) : Prop :=
  Forall2 (fun ps d => pieces_ok ps = true /\ phrase_of ps = def_of d /\ name_ok (fst d) = true) (fst L) defs
  /\ forallb deco_ok (snd L) = true.

(* ---- a call read as its body with the arguments substituted ---- *)
Definition mask_of (E : env) (f : bytes) : nat -> bool :=
  match lookup E f with Some (FHelper h) => h_mask h | _ => nomask end.

Section Subst.
  Variable E : env.
  Variable args : list tmpl.
  Fixpoint subst_piece (p : piece) : tmpl :=
    match p with
    | PLit s => [PLit s]
    | PMatch i => if (i <? 0)%Z then [] else nth (Z.to_nat i) args []
    | PKey k => [PKey k]
    | PCall f xs =>
        [PCall f ((fix go (j : nat) (l : list tmpl) : list tmpl :=
                     match l with
                     | [] => []
                     | a :: r => (if mask_of E f j then a else flat_map subst_piece a) :: go (S j) r
                     end) O xs)]
    end.
  Definition subst_tmpl (t : tmpl) : tmpl := flat_map subst_piece t.
End Subst.

(* every call of a user function whose body text is in [defs] replaced by the substituted body
   (one level; the bodies of earlier definitions called from a body are inlined by recursion on fuel) *)
Section Inline.
  Variable E : env.
  Variable bodies : list (bytes * tmpl).           (* user functions: name -> parse tree of the body *)
  Definition body_of (f : bytes) : option tmpl :=
    match find (fun p => bytes_eqb (fst p) f) bodies with Some p => Some (snd p) | None => None end.
  Fixpoint inline_piece (p : piece) : tmpl :=
    match p with
    | PCall f xs =>
        let xs' := map (flat_map inline_piece) xs in
        match body_of f with
        | Some b => subst_tmpl E xs' b
        | None => [PCall f xs']
        end
    | _ => [p]
    end.
  Definition inline_tmpl (t : tmpl) : tmpl := flat_map inline_piece t.
End Inline.
