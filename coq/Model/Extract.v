(* Model of processLineSync (pkg/extractor/extractor.go), ExpressionIgnoreSet (ignoreset.go) and
   Truthy (pkg/expressions/truthy.go).  The matcher is an oracle: for each line, the index list
   the selected matcher returns (None = no match).  Key / ignore expressions are restricted to
   concatenations of literals and look-ups, the fragment the pipeline harness uses. *)
From Coq Require Import List NArith ZArith Bool Arith.
From RareV Require Import Base.Hex Base.Res Base.Num Model.Batch Model.Pipeline Model.Ctx.
Import ListNotations.

(* strings.TrimSpace(s) != "": the string is NOT a sequence of UTF-8 encoded White_Space runes
   (unicode.IsSpace: U+0009-000D, U+0020, U+0085, U+00A0, U+1680, U+2000-200A, U+2028, U+2029, U+202F,
   U+205F, U+3000); an invalid byte decodes to U+FFFD, which is no space. (Same definition as
   Model/ArrayFns.v all_space, which C17 uses; repeated here to keep this file's imports small.) *)
Definition is_space (b : N) : bool := ((9 <=? b) && (b <=? 13))%N || (b =? 32)%N.
Fixpoint all_space (s : bytes) : bool :=
  match s with
  | [] => true
  | b :: r =>
      if is_space b then all_space r
      else match r with
           | c :: r1 =>
               if (b =? 194)%N then ((c =? 133) || (c =? 160))%N && all_space r1
               else match r1 with
                    | e :: r2 =>
                        (   ((b =? 225) && (c =? 154) && (e =? 128))
                         || ((b =? 226) && (c =? 128) && (((128 <=? e) && (e <=? 138)) || (e =? 168) || (e =? 169) || (e =? 175)))
                         || ((b =? 226) && (c =? 129) && (e =? 159))
                         || ((b =? 227) && (c =? 128) && (e =? 128)))%N
                        && all_space r2
                    | [] => false
                    end
           | [] => false
           end
  end.
Definition truthy (s : bytes) : bool := negb (all_space s).

Inductive kpiece :=
| KLit (s : bytes)      (* text outside braces *)
| KGroup (i : Z)        (* {i} *)
| KSrc | KLine          (* {src} {line} *)
| KArr                  (* {@} *)
| KName (n : bytes)     (* {name} *)
| KEqLine (n : N).      (* {eq {line} n}: "1" when the line number is n, empty otherwise (an expression whose value
                           depends on the POSITION of the line; used in ignore expressions) *)
Definition ktmpl := list kpiece.

Record mctx := { m_src : bytes; m_no : N; m_line : bytes; m_ix : list Z; m_names : list (bytes * Z) }.

Definition eval_piece (c : mctx) (p : kpiece) : result bytes :=
  match p with
  | KLit s => Ok s
  | KGroup i => get_match (m_line c) (m_ix c) i
  | KSrc => Ok (m_src c)
  | KLine => Ok (itoa (Z.of_N (m_no c)))
  | KArr => ctx_array (m_line c) (m_ix c)
  | KName n => get_key (m_src c) (m_no c) (m_names c) (m_line c) (m_ix c) n
  | KEqLine n => Ok (if (m_no c =? n)%N then [49%N] else [])
  end.
Fixpoint eval_tmpl (c : mctx) (t : ktmpl) : result bytes :=
  match t with
  | [] => Ok []
  | p :: r => a <- eval_piece c p ;; b <- eval_tmpl c r ;; Ok (a ++ b)
  end.

(* IgnoreMatch: some ignore expression is truthy *)
Fixpoint any_truthy (c : mctx) (igs : list ktmpl) : result bool :=
  match igs with
  | [] => Ok false
  | t :: r => v <- eval_tmpl c t ;; if truthy v then Ok true else any_truthy c r
  end.

(* an emitted match: source, line number, line text, index list, extracted key *)
Record mtch := { e_src : bytes; e_no : N; e_line : bytes; e_ix : list Z; e_key : bytes }.

(* processLineSync; a panic of the expression layer is modelled as Panic and excluded by C02_groups
   for valid index lists *)
Definition process (names : list (bytes * Z)) (extract : ktmpl) (igs : list ktmpl)
                   (id : lineid) (orc : option (list Z)) : result (cls mtch) :=
  let '(src, no, line) := id in
  match orc with
  | None => Ok Unm
  | Some ix =>
      match ix with
      | [] => Ok Unm                       (* len(matches) > 0 *)
      | _ =>
        let c := {| m_src := src; m_no := no; m_line := line; m_ix := ix; m_names := names |} in
        ig <- any_truthy c igs ;;
        if ig then Ok Ign
        else k <- eval_tmpl c extract ;;
             match k with
             | [] => Ok Ign                 (* empty key *)
             | _ => Ok (Mat {| e_src := src; e_no := no; e_line := line; e_ix := ix; e_key := k |})
             end
      end
  end.

Definition cls_of (r : result (cls mtch)) : cls mtch := match r with Ok c => c | Panic => Unm end.

(* ---- the sequential reference over a whole input ---- *)
Record summary := { s_read : N; s_matched : N; s_ignored : N; s_matches : list mtch; s_panic : bool }.

Fixpoint reference (names : list (bytes * Z)) (extract : ktmpl) (igs : list ktmpl)
                   (ids : list lineid) (orcs : list (option (list Z))) (acc : summary) : summary :=
  match ids, orcs with
  | id :: ids', o :: orcs' =>
      let acc' :=
        match process names extract igs id o with
        | Ok Unm => {| s_read := N.succ (s_read acc); s_matched := s_matched acc; s_ignored := s_ignored acc; s_matches := s_matches acc; s_panic := s_panic acc |}
        | Ok Ign => {| s_read := N.succ (s_read acc); s_matched := s_matched acc; s_ignored := N.succ (s_ignored acc); s_matches := s_matches acc; s_panic := s_panic acc |}
        | Ok (Mat m) => {| s_read := N.succ (s_read acc); s_matched := N.succ (s_matched acc); s_ignored := s_ignored acc; s_matches := m :: s_matches acc; s_panic := s_panic acc |}
        | Panic => {| s_read := N.succ (s_read acc); s_matched := s_matched acc; s_ignored := s_ignored acc; s_matches := s_matches acc; s_panic := true |}
        end in
      reference names extract igs ids' orcs' acc'
  | _, _ => {| s_read := s_read acc; s_matched := s_matched acc; s_ignored := s_ignored acc; s_matches := rev (s_matches acc); s_panic := s_panic acc |}
  end.
Definition summary0 : summary := {| s_read := 0; s_matched := 0; s_ignored := 0; s_matches := []; s_panic := false |}.

(* ---- the summary line of cmd/helpers/summary.go (colour disabled): "Matched: M / R (Ignored: I)" ---- *)
Fixpoint commas_go (l : bytes) (ci : nat) : bytes :=   (* digits least-significant first *)
  match l with
  | [] => []
  | d :: r => if (ci =? 3)%nat then 44%N :: d :: commas_go r 1 else d :: commas_go r (S ci)
  end.
(* humanize.Hui: decimal digits with a comma between groups of three *)
Definition hui (n : N) : bytes := rev (commas_go (rev (utoa n)) 0).
Definition summary_line (m r i : N) : bytes :=
  [77;97;116;99;104;101;100;58;32]%N ++ hui m ++ [32;47;32]%N ++ hui r ++
  (if (0 <? i)%N then [32;40;73;103;110;111;114;101;100;58;32]%N ++ hui i ++ [41]%N else []).
