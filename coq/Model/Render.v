(* C14 — the terminal renderers of pkg/multiterm/termrenderers, pkg/multiterm/termunicode and the
   string helpers of pkg/color they use, as executable functions on lists of code points.

   Strings are lists of code points (valid UTF-8 keys; decoding is Go's).  A virtual terminal is a
   list of lines.  Everything that can index a table or divide returns [result]; the one loop whose
   termination is not structural (Heatmap.WriteHeader) takes explicit fuel and returns [None] when
   the fuel runs out.  Repaired behaviour is modelled for the three defects of DESIGN §8:
     #15 barWriteRunes: a maximum <= 0 draws nothing (was: division by zero),
     #16 Spark.WriteTable with no displayed column writes empty First/Last cells (was: index out
         of range); HistoWriter.WriteForLine ignores line >= len(items) (was: line > len),
     #26 Heatmap.WriteHeader: an empty column key occupies one cell (was: endless loop). *)
From Coq Require Import List ZArith NArith QArith Bool Lia.
From RareV Require Import Base.Hex Base.Num Base.Res Gen.GenPalette Model.Scale.
Import ListNotations.
Local Open Scope Z_scope.

Definition str := list N.
Definition ESC : N := 27%N.
Definition CH_m : N := 109%N.
Definition SP : N := 32%N.
Definition DOT : N := 46%N.

Definition rep (n : Z) (c : N) : str := repeat c (Z.to_nat n).
Definition lenZ {A} (l : list A) : Z := Z.of_nat (length l).

(* ---------- pkg/color ---------- *)
(* StrLen with colour enabled: everything from ESC up to and including the next 'm' is invisible *)
Fixpoint sl (inc : bool) (s : str) : nat :=
  match s with
  | [] => O
  | r :: t => if (r =? ESC)%N then sl true t
              else if inc && (r =? CH_m)%N then sl false t
              else if inc then sl true t
              else S (sl false t)
  end.
(* the scanner state after a string *)
Fixpoint sl_state (inc : bool) (s : str) : bool :=
  match s with
  | [] => inc
  | r :: t => if (r =? ESC)%N then sl_state true t
              else if inc && (r =? CH_m)%N then sl_state false t
              else sl_state inc t
  end.
(* the visible runes (what the comparison of rendered lines looks at when colour is on) *)
Fixpoint strip (inc : bool) (s : str) : str :=
  match s with
  | [] => []
  | r :: t => if (r =? ESC)%N then strip true t
              else if inc && (r =? CH_m)%N then strip false t
              else if inc then strip true t
              else r :: strip false t
  end.

Definition str_eqb (a b : str) : bool := list_eqb N.eqb a b.
Definition ends_reset (s : str) : bool :=
  let n := length s in let k := length col_Reset in
  (k <=? n)%nat && str_eqb (skipn (n - k) s) col_Reset.

Definition rune_bytes (r : N) : Z :=
  if (r <? 128)%N then 1 else if (r <? 2048)%N then 2 else if (r <? 65536)%N then 3 else 4.
Definition byte_len (s : str) : Z := fold_right (fun r a => rune_bytes r + a) 0 s.

Section Render.
  Variable col uni : bool.          (* color.Enabled, termunicode.UnicodeEnabled *)
  Variable m : Z -> Q.              (* Scaler.mapVal o float64 *)
  Variable rnd : Q -> Q.            (* float64 rounding *)
  Variable keys : Z -> Z -> list Z. (* Scaler.ScaleKeys(6, min, max) *)
  Variable fmt : Z -> Z -> Z -> str. (* Formatter(val, min, max) *)

  Definition str_len (s : str) : Z := Z.of_nat (if col then sl false s else length s).
  Definition vis (s : str) : str := if col then strip false s else s.

  Definition wrap (c s : str) : str :=
    if col then c ++ s ++ (if ends_reset s then [] else col_Reset) else s.
  Definition cwrite (c body : str) : str := if col then c ++ body ++ col_Reset else body.
  (* fmt "%-*s": pads by rune count *)
  Definition pad_right (s : str) (w : Z) : str := s ++ rep (w - lenZ s) SP.

  (* color.HighlightSingleRune (the bound is the byte length, the position counts runes) *)
  Fixpoint hl_runes (word : str) (i idx : Z) (base hl : str) : str :=
    match word with
    | [] => []
    | r :: t => (if i =? idx then hl ++ [r] ++ col_Reset ++ base else [r]) ++ hl_runes t (i + 1) idx base hl
    end.
  Definition highlight (word : str) (idx : Z) (base hl : str) : str :=
    if negb col then word
    else if (0 <=? idx) && (idx <? byte_len word) then base ++ hl_runes word 0 idx base hl ++ col_Reset
    else wrap base word.
  Definition underline_hdr (word : str) (letter : Z) : str :=
    highlight word letter col_BrightBlue (col_Underline ++ col_BrightCyan).

  (* ---------- the virtual terminal ---------- *)
  Definition term := list str.
  Fixpoint set_nth (n : nat) (x : str) (l : term) : term :=
    match n, l with
    | O, [] => [x]
    | O, _ :: t => x :: t
    | S k, [] => [] :: set_nth k x []
    | S k, h :: t => h :: set_nth k x t
    end.

  (* ---------- termunicode ---------- *)
  Definition group_color (i : nat) : result str :=
    match nth_error col_GroupColors (i mod length col_GroupColors) with Some c => Ok c | None => Panic end.

  (* barWriteRunes, repaired (#15): nothing is drawn for a maximum <= 0 *)
  Definition bar_blocks (val maxVal maxLen : Z) : Z :=
    if maxVal <=? 0 then 0 else Z.quot (Z.min val maxVal * maxLen) maxVal.
  (* at most [limit] runes (repair C14-stacked-negative); [bar_written] is the returned count *)
  Definition bar_written (val maxVal maxLen limit : Z) : Z :=
    Z.max 0 (Z.min (bar_blocks val maxVal maxLen) limit).
  Definition bar_runes (c : N) (val maxVal maxLen limit : Z) : result str :=
    Ok (rep (bar_written val maxVal maxLen limit) c).
  (* the code as it is in the pinned tree (used only to state what the repair changes) *)
  Definition bar_runes_unrepaired (c : N) (val maxVal maxLen : Z) : result str :=
    if maxVal =? 0 then Panic else Ok (rep (Z.quot (Z.min val maxVal * maxLen) maxVal) c).

  (* BarWrite *)
  Definition bar_write (u : Q) (len : Z) : result str :=
    if uni then
      let pc := lenZ barUnicode in
      let rb := length_val rnd (len * pc) u in
      let full := if (pc <=? rb) && (0 <? pc) then rb / pc else 0 in
      let rem := rb - full * pc in
      if 0 <? rem then
        match nth_error barUnicode (Z.to_nat rem) with
        | Some r => Ok (rep full fullBlock ++ [r])
        | None => Panic
        end
      else Ok (rep full fullBlock)
    else Ok (rep (length_val rnd len u) nonUnicodeBlock).

  (* BarKey *)
  Definition bar_key (i : nat) : result str :=
    if col then c <- group_color i ;; Ok (wrap c [if uni then fullBlock else nonUnicodeBlock])
    else match nth_error barAscii (i mod length barAscii) with Some r => Ok [r] | None => Panic end.

  (* BarWriteStacked, repaired (C14-stacked-negative): the segments share the width — each one is
     cut to what is left of the bar *)
  Fixpoint bar_stacked_from (i : nat) (maxVal maxLen remaining : Z) (vals : list Z) : result str :=
    match vals with
    | [] => Ok []
    | v :: r =>
        seg <- (if col then
                  c <- group_color i ;;
                  b <- bar_runes (if uni then fullBlock else nonUnicodeBlock) v maxVal maxLen remaining ;;
                  Ok (cwrite c b)
                else match nth_error barAscii (i mod length barAscii) with
                     | Some ch => bar_runes ch v maxVal maxLen remaining
                     | None => Panic
                     end) ;;
        rest <- bar_stacked_from (S i) maxVal maxLen (remaining - bar_written v maxVal maxLen remaining) r ;;
        Ok (seg ++ rest)
    end.
  Definition bar_stacked (maxVal maxLen : Z) (vals : list Z) : result str :=
    bar_stacked_from 0 maxVal maxLen maxLen vals.

  (* HeatWrite / SparkWrite *)
  Definition heat_idx (u : Q) : Z :=
    bucket rnd (if col then lenZ heatmapColors else lenZ heatmapAscii) u.
  Definition heat_write (u : Q) : result str :=
    let i := heat_idx u in
    if i <? 0 then Panic else
    if col then
      match nth_error heatmapColors (Z.to_nat i) with
      | Some hc => Ok (wrap hc [if uni then fullBlock else heatmapNonUnicode])
      | None => Panic
      end
    else match nth_error heatmapAscii (Z.to_nat i) with Some s => Ok s | None => Panic end.
  Definition spark_idx (u : Q) : Z :=
    bucket rnd (if uni then lenZ sparkBlocks else lenZ sparkAscii) u.
  Definition spark_write (u : Q) : result str :=
    let i := spark_idx u in
    if i <? 0 then Panic else
    match nth_error (if uni then sparkBlocks else sparkAscii) (Z.to_nat i) with
    | Some r => Ok [r]
    | None => Panic
    end.

  Fixpoint rconcat {A} (f : A -> result str) (l : list A) : result str :=
    match l with
    | [] => Ok []
    | x :: r => a <- f x ;; b <- rconcat f r ;; Ok (a ++ b)
    end.

  (* ---------- table.go: TableWriter ---------- *)
  Record tw := mkTw { tw_maxc : nat; tw_maxr : nat; tw_active : nat;
                      tw_w : list Z;                       (* colWidth, length maxCols *)
                      tw_rows : list (option (list str)) } (* rows, length maxRows *).
  Definition tw_new (maxc maxr : nat) : tw := mkTw maxc maxr 0 (repeat 0 maxc) (repeat None maxr).

  Fixpoint upd_w (w : list Z) (cells : list str) : list Z :=
    match w, cells with
    | wi :: w', c :: cs => Z.max wi (str_len c) :: upd_w w' cs
    | _, _ => w
    end.
  Definition cell_text (wi : Z) (c : str) : str := c ++ rep (wi - str_len c) SP ++ [SP].
  Fixpoint render_row (w : list Z) (cells : list str) : str :=
    match w, cells with
    | wi :: w', c :: cs => cell_text wi c ++ render_row w' cs
    | _, _ => []
    end.
  Fixpoint set_row {A} (n : nat) (x : A) (l : list A) : list A :=
    match n, l with
    | _, [] => []
    | O, _ :: t => x :: t
    | S k, h :: t => h :: set_row k x t
    end.
  Definition row_cells (rows : list (option (list str))) (i : nat) : list str :=
    match nth_error rows i with Some (Some c) => c | _ => [] end.
  Fixpoint refresh (w : list Z) (rows : list (option (list str))) (n : nat) (tm : term) : term :=
    match n with
    | O => tm
    | S k => set_nth k (render_row w (row_cells rows k)) (refresh w rows k tm)
    end.
  Definition Zl_eqb (a b : list Z) : bool := list_eqb Z.eqb a b.

  Definition tw_write_row (t : tw) (tm : term) (n : nat) (cells : list str) : tw * term :=
    if (tw_maxr t <=? n)%nat then (t, tm) else
    let act := Nat.max (tw_active t) (S n) in
    let rows := set_row n (Some cells) (tw_rows t) in
    let w' := upd_w (tw_w t) cells in
    let t' := mkTw (tw_maxc t) (tw_maxr t) act w' rows in
    if Zl_eqb w' (tw_w t) then (t', set_nth n (render_row w' cells) tm)
    else (t', refresh w' rows act tm).
  Definition tw_footer (t : tw) (tm : term) (idx : nat) (line : str) : term :=
    set_nth (tw_active t + idx) line tm.

  Inductive tw_op := TRow (n : nat) (cells : list str) | TFoot (idx : nat) (line : str).
  Definition tw_step (st : tw * term) (o : tw_op) : tw * term :=
    match o with
    | TRow n cells => tw_write_row (fst st) (snd st) n cells
    | TFoot idx line => (fst st, tw_footer (fst st) (snd st) idx line)
    end.
  Definition tw_run (maxc maxr : nat) (ops : list tw_op) : tw * term :=
    fold_left tw_step ops (tw_new maxc maxr, []).

  (* ---------- aggregator state as the renderers read it ---------- *)
  Record agg := mkAgg {
    a_cols : list str;                    (* OrderedColumns *)
    a_rows : list (str * list Z * Z);     (* OrderedRows: name, Value per a_cols, Sum *)
    a_min : Z; a_max : Z;                 (* ComputeMinMax *)
    a_tot : list Z;                       (* ColTotal per a_cols *)
    a_sum : Z }.
  Definition r_name (r : str * list Z * Z) : str := fst (fst r).
  Definition r_vals (r : str * list Z * Z) : list Z := snd (fst r).
  Definition r_sum (r : str * list Z * Z) : Z := snd r.

  Definition more_note (n : Z) : str :=
    wrap col_BrightBlack ([40%N] ++ itoa n ++ [32; 109; 111; 114; 101; 41]%N).   (* "(n more)" *)
  Definition more_note_sp (n : Z) : str :=
    wrap col_BrightBlack ([32; 40]%N ++ itoa n ++ [32; 109; 111; 114; 101; 41]%N). (* " (n more)" *)

  (* ---------- heatmap.go ---------- *)
  Record hm := mkHm { hm_w : Z; hm_cur : nat }.
  Definition hm_new : hm := mkHm 0 0.

  Definition sp4 : str := [SP; SP; SP; SP].
  Fixpoint legend_items (first : bool) (ks : list Z) (mn mx : Z) : result str :=
    match ks with
    | [] => Ok []
    | k :: r =>
        c <- heat_write (scale m rnd k mn mx) ;;
        rest <- legend_items false r mn mx ;;
        Ok ((if first then [] else sp4) ++ c ++ [SP] ++ fmt k mn mx ++ rest)
    end.
  Definition heat_legend (w mn mx : Z) : result str :=
    l <- legend_items true (keys mn mx) mn mx ;; Ok (rep (w + 1) SP ++ l).

  (* WriteHeader's loop; i = next column, acc = text so far; repaired (#26) *)
  Fixpoint header_loop (fuel : nat) (names : list str) (cc i : Z) (acc : str) : option (result str) :=
    match fuel with
    | O => None
    | S f =>
        if cc <=? i then Some (Ok acc) else
        let count := if i =? 0 then 0 else Z.min (cc - i) 2 in
        let acc1 := acc ++ rep count DOT in
        let i1 := i + count in
        if negb (i =? 0) && (cc <=? i1) then Some (Ok acc1) else
        match nth_error names (Z.to_nat i1) with
        | None => Some Panic
        | Some name =>
            let nl := str_len name in
            if negb (i1 =? 0) && (cc <=? i1 + nl + 2) then
              match nth_error names (Z.to_nat (cc - 1)) with
              | None => Some Panic
              | Some last =>
                  let ll := str_len last in
                  let indent := cc - i1 - ll in
                  let acc2 := if 0 <? indent then acc1 ++ rep indent DOT else acc1 in
                  let i2 := if 0 <? indent then i1 + indent else i1 in
                  Some (Ok (acc2 ++ underline_hdr last (cc - i2 - 1)))
              end
            else if nl =? 0 then header_loop f names cc (i1 + 1) (acc1 ++ underline_hdr name 0 ++ [DOT])
            else header_loop f names cc (i1 + nl) (acc1 ++ underline_hdr name 0)
        end
    end.
  (* colCount shown, header text *)
  Definition heat_header (w : Z) (limit : nat) (names : list str) : option (result (nat * str)) :=
    let cc := Nat.min (length names) limit in
    match header_loop (S cc) names (Z.of_nat cc) 0 (rep (w + 1) SP) with
    | None => None
    | Some Panic => Some Panic
    | Some (Ok h) =>
        Some (Ok (cc, if (cc <? length names)%nat then h ++ more_note_sp (lenZ names - Z.of_nat limit) else h))
    end.

  Definition heat_row (w mn mx : Z) (name : str) (vals : list Z) : result (Z * str) :=
    let rl := str_len name in
    let w' := Z.max w rl in
    cells <- rconcat (fun v => heat_write (scale m rnd v mn mx)) vals ;;
    Ok (w', wrap col_Yellow name ++ rep (w' - rl + 1) SP ++ cells).

  Fixpoint heat_rows (i : nat) (w mn mx : Z) (cc : nat) (rows : list (str * list Z * Z)) (tm : term)
    : result (Z * term) :=
    match rows with
    | [] => Ok (w, tm)
    | r :: rest =>
        x <- heat_row w mn mx (r_name r) (firstn cc (r_vals r)) ;;
        heat_rows (S i) (fst x) mn mx cc rest (set_nth (2 + i) (snd x) tm)
    end.

  (* Heatmap.UpdateMinMax: the legend for the range, with the scaler and formatter in force *)
  Definition heat_update_minmax (h : hm) (tm : term) (mn mx : Z) : result term :=
    leg <- heat_legend (hm_w h) mn mx ;; Ok (set_nth 0 leg tm).

  (* Heatmap.WriteTable for the range [mn, mx] that UpdateMinMaxFromData settles on (the data's
     own min/max, or the fixed bounds) *)
  Definition heat_write_table_rng (mn mx : Z) (rlim clim : nat) (h : hm) (tm : term) (a : agg)
    : option (result (hm * term)) :=
    match heat_legend (hm_w h) mn mx with
    | Panic => Some Panic
    | Ok leg =>
        let tm0 := set_nth 0 leg tm in
        match heat_header (hm_w h) clim (a_cols a) with
        | None => None
        | Some Panic => Some Panic
        | Some (Ok (cc, hdr)) =>
            let tm1 := set_nth 1 hdr tm0 in
            let rc := Nat.min (length (a_rows a)) rlim in
            match heat_rows 0 (hm_w h) mn mx cc (firstn rc (a_rows a)) tm1 with
            | Panic => Some Panic
            | Ok (w', tm2) =>
                if (rc <? length (a_rows a))%nat
                then Some (Ok (mkHm w' (3 + rc), set_nth (2 + rc) (more_note (lenZ (a_rows a) - Z.of_nat rc)) tm2))
                else Some (Ok (mkHm w' (2 + rc), tm2))
            end
        end
    end.
  (* FixedMin / FixedMax off *)
  Definition heat_write_table (rlim clim : nat) (h : hm) (tm : term) (a : agg) : option (result (hm * term)) :=
    heat_write_table_rng (a_min a) (a_max a) rlim clim h tm a.

  (* ---------- spark.go (repaired #16: no displayed column) ---------- *)
  Definition s_First : str := [70; 105; 114; 115; 116]%N.
  Definition s_Last : str := [76; 97; 115; 116]%N.
  Definition s_Total : str := [84; 111; 116; 97; 108]%N.
  Definition last_cols {A} (k : nat) (l : list A) : list A := skipn (length l - k) l.

  Fixpoint spark_rows (i : nat) (mn mx : Z) (k : nat) (rows : list (str * list Z * Z)) (st : tw * term)
    : result (tw * term) :=
    match rows with
    | [] => Ok st
    | r :: rest =>
        let vals := last_cols k (r_vals r) in
        cells <- rconcat (fun v => spark_write (scale m rnd v mn mx)) vals ;;
        let vfirst := match vals with [] => [] | v :: _ => fmt v mn mx end in
        let vlast := match vals with [] => [] | _ => fmt (last vals 0) mn mx end in
        spark_rows (S i) mn mx k rest
          (tw_write_row (fst st) (snd st) (S i)
             [wrap col_Yellow (r_name r); wrap col_BrightBlack vfirst; cells; wrap col_BrightBlack vlast])
    end.

  Definition spark_write_table (rlim clim : nat) (st : tw * term) (a : agg) : result (tw * term * nat) :=
    let names := last_cols (Nat.min clim (length (a_cols a))) (a_cols a) in
    let k := length names in
    let st1 :=
      match names with
      | [] => st
      | first :: _ =>
          let lst := last names [] in
          let dots := Z.max 0 (lenZ names - byte_len first - byte_len lst) in
          tw_write_row (fst st) (snd st) 0
            [[]; wrap col_Underline s_First; first ++ rep dots DOT ++ lst; wrap col_Underline s_Last]
      end in
    let rc := Nat.min (length (a_rows a)) rlim in
    st2 <- spark_rows 0 (a_min a) (a_max a) k (firstn rc (a_rows a)) st1 ;;
    if (rc <? length (a_rows a))%nat
    then Ok (fst st2, tw_footer (fst st2) (snd st2) 0 (more_note (lenZ (a_rows a) - Z.of_nat rc)), 1%nat)
    else Ok (fst st2, snd st2, 0%nat).
  Definition spark_new (rlim : nat) : tw * term := (tw_new 4 (S rlim), []).

  (* ---------- datatable.go ---------- *)
  (* min / max as DataTable.WriteTable passes them after SetFormatter (needsMinMax) *)
  Fixpoint dt_rows (mn mx : Z) (line : nat) (k : nat) (rowtot : bool) (rows : list (str * list Z * Z)) (st : tw * term)
    : tw * term :=
    match rows with
    | [] => st
    | r :: rest =>
        dt_rows mn mx (S line) k rowtot rest
          (tw_write_row (fst st) (snd st) line
             ([wrap col_Yellow (r_name r)] ++ map (fun v => fmt v mn mx) (firstn k (r_vals r)) ++
              [if rowtot then wrap col_BrightBlack (fmt (r_sum r) mn mx) else []]))
    end.
  Definition dt_write_table (ncols nrows : nat) (rowtot coltot : bool) (st : tw * term) (a : agg) : tw * term :=
    let k := Nat.min ncols (length (a_cols a)) in
    let cols := firstn k (a_cols a) in
    let st1 := tw_write_row (fst st) (snd st) 0
                 ([[]] ++ map (wrap (col_Underline ++ col_BrightBlue)) cols ++
                  [if rowtot then wrap (col_Underline ++ col_BrightBlack) s_Total else []]) in
    let shown := firstn nrows (a_rows a) in
    let st2 := dt_rows (a_min a) (a_max a) 1 k rowtot shown st1 in
    if coltot then
      tw_write_row (fst st2) (snd st2) (S (length shown))
        ([wrap (col_BrightBlack ++ col_Underline) s_Total] ++
         map (fun t => wrap col_BrightBlack (fmt t (a_min a) (a_max a))) (firstn k (a_tot a)) ++
         [if rowtot then wrap col_BrightWhite (fmt (a_sum a) (a_min a) (a_max a)) else []])
    else st2.
  Definition dt_new (ncols nrows : nat) : tw * term := (tw_new (ncols + 2) (nrows + 2), []).

  (* ---------- histoWriter.go (ShowPercentage off; repaired #16: line >= len(items) ignored) ---------- *)
  Record histo := mkHisto { h_max : Z; h_ts : Z; h_items : list (str * Z) }.
  Definition histo_new (maxLines : nat) : histo := mkHisto 0 16 (repeat ([], 0) maxLines).

  Definition histo_line (showbar : bool) (h : histo) (key : str) (val : Z) : result str :=
    bar <- (if showbar && (0 <? h_max h) then
              b <- bar_write (scale m rnd val 0 (h_max h)) 50 ;; Ok ([SP] ++ cwrite col_Blue b)
            else Ok []) ;;
    Ok (wrap col_Yellow (pad_right key (h_ts h)) ++ sp4 ++ pad_right (fmt val 0 (h_max h)) 10 ++ bar).
  Fixpoint histo_full (showbar : bool) (h : histo) (i : nat) (items : list (str * Z)) (tm : term) : result term :=
    match items with
    | [] => Ok tm
    | (k, v) :: rest =>
        if 0 <? v then l <- histo_line showbar h k v ;; histo_full showbar h (S i) rest (set_nth i l tm)
        else histo_full showbar h (S i) rest tm
    end.
  Inductive h_op := HLine (line : nat) (key : str) (val : Z) | HTotal (t : Z) | HFoot (idx : nat) (s : str).
  Definition histo_step (showbar : bool) (st : histo * term) (o : h_op) : result (histo * term) :=
    let h := fst st in let tm := snd st in
    match o with
    | HLine line key val =>
        if (length (h_items h) <=? line)%nat then Ok st else
        let kl := str_len key in
        let refresh := (h_ts h <? kl) || (h_max h <? val) in
        let h' := mkHisto (Z.max (h_max h) val) (Z.max (h_ts h) kl) (set_row line (key, val) (h_items h)) in
        if refresh then tm' <- histo_full showbar h' 0 (h_items h') tm ;; Ok (h', tm')
        else l <- histo_line showbar h' key val ;; Ok (h', set_nth line l tm)
    | HTotal _ => tm' <- histo_full showbar h 0 (h_items h) tm ;; Ok (h, tm')
    | HFoot idx s => Ok (h, set_nth (length (h_items h) + idx) s tm)
    end.
  Fixpoint histo_run (showbar : bool) (st : histo * term) (ops : list h_op) : result (histo * term) :=
    match ops with
    | [] => Ok st
    | o :: r => st' <- histo_step showbar st o ;; histo_run showbar st' r
    end.

  (* ---------- bargraph.go ---------- *)
  Record bg := mkBg { b_klen : Z; b_keys : list str; b_rows : list (str * list Z);
                      b_max : Z; b_maxrows : nat; b_prefix : nat }.
  Definition bg_new : bg := mkBg 4 [] [] 0 0 0.

  Fixpoint bg_legend (i : nat) (ks : list str) : result str :=
    match ks with
    | [] => Ok []
    | k :: r => c <- bar_key i ;; rest <- bg_legend (S i) r ;; Ok ([SP; SP] ++ c ++ [SP] ++ k ++ rest)
    end.
  Definition bg_set_keys (b : bg) (tm : term) (ks : list str) : result (bg * term) :=
    let b' := mkBg (b_klen b) ks (b_rows b) (b_max b) (b_maxrows b) (b_prefix b) in
    match ks with
    | [] => Ok (b', tm)
    | [[]] => Ok (b', tm)
    | _ => l <- bg_legend 0 ks ;;
           Ok (mkBg (b_klen b) ks (b_rows b) (b_max b) (b_maxrows b) 1, set_nth 0 (rep (b_klen b + 2) SP ++ l) tm)
    end.

  Definition zsum (l : list Z) : Z := fold_left Z.add l 0.
  Definition zmax0 (l : list Z) : Z := fold_left Z.max l 0.

  Fixpoint bg_grouped_lines (size : Z) (b : bg) (key : str) (i : nat) (line : nat) (vals : list Z) (tm : term)
    : result term :=
    match vals with
    | [] => Ok tm
    | v :: r =>
        c <- group_color i ;;
        bar <- bar_write (scale m rnd v 0 (b_max b)) size ;;
        let pre := match i with O => wrap col_Yellow (pad_right key (b_klen b)) ++ [SP; SP]
                            | _ => rep (b_klen b + 2) SP end in
        bg_grouped_lines size b key (S i) line r
          (set_nth (line + i) (pre ++ cwrite c bar ++ [SP] ++ fmt v 0 (b_max b)) tm)
    end.
  (* writeBar: returns the updated maxRows too *)
  Definition bg_write_bar (size : Z) (stacked : bool) (b : bg) (tm : term) (idx : nat) (key : str) (vals : list Z)
    : result (bg * term) :=
    if stacked then
      let total := zsum vals in
      let b1 := mkBg (b_klen b) (b_keys b) (b_rows b) (Z.max (b_max b) total) (b_maxrows b) (b_prefix b) in
      let line := (idx + b_prefix b)%nat in
      bar <- bar_stacked (b_max b1) size vals ;;
      let text := wrap col_Yellow (pad_right key (b_klen b1)) ++ [SP; SP] ++ bar ++ [SP; SP] ++ fmt total 0 (b_max b1) in
      Ok (mkBg (b_klen b1) (b_keys b1) (b_rows b1) (b_max b1) (Nat.max (b_maxrows b1) (S line)) (b_prefix b1),
          set_nth line text tm)
    else
      let b1 := mkBg (b_klen b) (b_keys b) (b_rows b) (Z.max (b_max b) (zmax0 vals)) (b_maxrows b) (b_prefix b) in
      let line := (b_prefix b + idx * length (b_keys b))%nat in
      tm' <- bg_grouped_lines size b1 key 0 line vals tm ;;
      Ok (mkBg (b_klen b1) (b_keys b1) (b_rows b1) (b_max b1)
               (Nat.max (b_maxrows b1) (line + length (b_keys b))) (b_prefix b1), tm').
  Fixpoint bg_redraw (size : Z) (stacked : bool) (i : nat) (rows : list (str * list Z)) (st : bg * term)
    : result (bg * term) :=
    match rows with
    | [] => Ok st
    | (k, vs) :: r =>
        st' <- bg_write_bar size stacked (fst st) (snd st) i k vs ;;
        bg_redraw size stacked (S i) r st'
    end.
  Fixpoint extend_rows (n : nat) (l : list (str * list Z)) : list (str * list Z) :=
    match n, l with
    | O, [] => [([], [])]
    | O, _ => l
    | S k, [] => ([], []) :: extend_rows k []
    | S k, h :: t => h :: extend_rows k t
    end.
  Definition bg_bar (size : Z) (stacked : bool) (st : bg * term) (idx : nat) (key : str) (vals : list Z)
    : result (bg * term) :=
    let b := fst st in
    let klen := Z.max (b_klen b) (str_len key) in
    let rows := set_row idx (key, vals) (extend_rows idx (b_rows b)) in
    let mx := if stacked then zsum vals else zmax0 vals in
    if b_max b <? mx then
      bg_redraw size stacked 0 rows (mkBg klen (b_keys b) rows mx (b_maxrows b) (b_prefix b), snd st)
    else
      bg_write_bar size stacked (mkBg klen (b_keys b) rows (b_max b) (b_maxrows b) (b_prefix b)) (snd st) idx key vals.
  Inductive b_op := BBar (idx : nat) (key : str) (vals : list Z) | BFoot (idx : nat) (s : str)
                  | BKeys (ks : list str).   (* SetKeys again (every frame of `rare bargraph`) *)
  Fixpoint bg_run (size : Z) (stacked : bool) (st : bg * term) (ops : list b_op) : result (bg * term) :=
    match ops with
    | [] => Ok st
    | BBar i k v :: r => st' <- bg_bar size stacked st i k v ;; bg_run size stacked st' r
    | BFoot i s :: r => bg_run size stacked (fst st, set_nth (b_maxrows (fst st) + i) s (snd st)) r
    | BKeys ks :: r => st' <- bg_set_keys (fst st) (snd st) ks ;; bg_run size stacked st' r
    end.
End Render.
