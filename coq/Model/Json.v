(* C16 — model of the JSON views {.} {#} {.#} of a match.
   Go: pkg/minijson/minijson.go (JsonObjectBuilder, escape, isNumeric, WriteInferred),
       pkg/extractor/sliceSpaceExpressionContext.go (GetMatch, json).
   The model is of the code AFTER the repairs of fixes/C16-json-view.patch (DESIGN §8 #13):
     - escape works on bytes: a byte with an entry in escapeLookup -> that entry; any other byte
       below 0x20 -> \u00XX (lower-case hex); every other byte (including every byte >= 0x80,
       so invalid UTF-8 passes through unchanged) -> itself;
     - isNumeric additionally rejects a leading zero followed by another digit (RFC 8259 int);
     - member names are written through escape as well;
     - named groups are written in the order of (group index, name), not in map order.
   Plus: a strict RFC 8259 reader for one object whose members are strings, numbers, true, false
   (json_parse) — the specification side the theorems and the boolean check are stated with. *)
From Coq Require Import List NArith ZArith Bool.
From RareV Require Import Base.Hex Base.Num Base.Res Gen.GenJson.
Import ListNotations.
Local Open Scope N_scope.

(* ------------------------------------------------------------------ writer: escape *)

Fixpoint assoc (b : N) (t : list (N * bytes)) : option bytes :=
  match t with
  | [] => None
  | (k, v) :: r => if k =? b then Some v else assoc b r
  end.

(* int(c) < len(escapeLookup) && escapeLookup[c] != "" *)
Definition lookup (b : N) : option bytes :=
  if b <? escape_lookup_len then
    match assoc b escape_lookup with
    | Some [] => None
    | o => o
    end
  else None.

Definition hexd (n : N) : N := if n <? 10 then 48 + n else 87 + n.

Definition esc_byte (b : N) : bytes :=
  match lookup b with
  | Some e => e
  | None => if b <? 32 then [92; 117; 48; 48; hexd (b / 16); hexd (b mod 16)] else [b]
  end.

(* escape: the hasMapped fast path of the Go code returns s itself when nothing was mapped,
   which is the same byte string *)
Definition escape (s : bytes) : bytes := flat_map esc_byte s.

(* ------------------------------------------------------------------ writer: inference *)

(* isNumeric (repaired): zero or a nonzero digit followed by digits, then optionally a point and one or more digits *)
Fixpoint num_scan (first : bool) (s : bytes) : bool :=
  match s with
  | [] => negb first
  | b :: r =>
      if b =? 46 then
        if first then false else match r with [] => false | _ => forallb is_digit r end
      else if is_digit b then num_scan false r
      else false
  end.

Definition leading_zero (s : bytes) : bool :=
  match s with
  | b :: c :: _ => (b =? 48) && negb (c =? 46)
  | _ => false
  end.

Definition is_numeric (s : bytes) : bool := negb (leading_zero s) && num_scan true s.

(* equalFoldASCII(val, word) for an ASCII lower-case word (repaired, fixes/C16-bool-long-s.patch):
   same length and every byte equal after mapping A..Z to a..z.  Nothing outside ASCII folds. *)
Definition ascii_lower (b : N) : N := if (65 <=? b) && (b <=? 90) then b + 32 else b.

Fixpoint fold_eq (word s : bytes) : bool :=
  match word, s with
  | [], [] => true
  | c :: w, b :: r => (ascii_lower b =? c) && fold_eq w r
  | _, _ => false
  end.

(* AS FOUND: strings.EqualFold(val, word), Unicode simple case folding.  For the letters of true
   and false the folding orbits are {c, c-32} plus, for s, U+017F LATIN SMALL LETTER LONG S
   (UTF-8 C5 BF): the capture fal<U+017F>e was written as the boolean false. *)
Fixpoint fold_eq_asfound (word s : bytes) : bool :=
  match word with
  | [] => match s with [] => true | _ => false end
  | c :: w =>
      match s with
      | [] => false
      | b :: r =>
          if (b =? c) || (b =? c - 32) then fold_eq_asfound w r
          else if (c =? 115) && (b =? 197) then
            match r with
            | b2 :: r2 => if b2 =? 191 then fold_eq_asfound w r2 else false
            | [] => false
            end
          else false
      end
  end.

Definition w_true : bytes := [116; 114; 117; 101].
Definition w_false : bytes := [102; 97; 108; 115; 101].

Inductive jval := JStr (s : bytes) | JNum (lit : bytes) | JBool (b : bool).

(* what WriteInferred decides for a group text *)
Definition infer (v : bytes) : jval :=
  if is_numeric v then JNum v
  else if fold_eq w_true v then JBool true
  else if fold_eq w_false v then JBool false
  else JStr v.

Definition infer_asfound (v : bytes) : jval :=
  if is_numeric v then JNum v
  else if fold_eq_asfound w_true v then JBool true
  else if fold_eq_asfound w_false v then JBool false
  else JStr v.

Definition write_val (j : jval) : bytes :=
  match j with
  | JNum lit => lit
  | JBool true => w_true
  | JBool false => w_false
  | JStr s => [34] ++ escape s ++ [34]
  end.

(* writeKey + value; [first] <-> keyCount = 0 *)
Definition write_member (first : bool) (k : bytes) (j : jval) : bytes :=
  (if first then [] else [44; 32]) ++ [34] ++ escape k ++ [34; 58; 32] ++ write_val j.

Fixpoint write_members (first : bool) (ms : list (bytes * jval)) : bytes :=
  match ms with
  | [] => []
  | (k, j) :: r => write_member first k j ++ write_members false r
  end.

Definition render (ms : list (bytes * jval)) : bytes := [123] ++ write_members true ms ++ [125].

(* ------------------------------------------------------------------ the match context *)

Local Open Scope Z_scope.

Definition zlen {A} (l : list A) : Z := Z.of_nat (length l).
Definition znth (l : list Z) (i : Z) : Z := nth (Z.to_nat i) l 0.

(* SliceSpaceExpressionContext.GetMatch; slicing panics outside 0 <= start <= end <= len(line) *)
Definition get_match (line : bytes) (indices : list Z) (idx : Z) : result bytes :=
  let si := idx * 2 in
  if (si <? 0) || (zlen indices <=? si + 1) then Ok []
  else
    let st := znth indices si in
    let en := znth indices (si + 1) in
    if (st <? 0) || (en <? 0) then Ok []
    else if (en <? st) || (zlen line <? en) then Panic
    else Ok (firstn (Z.to_nat (en - st)) (skipn (Z.to_nat st) line)).

(* order on name-table entries: by group index, then by name (Go string order = bytewise) *)
Fixpoint bytes_cmp (a b : bytes) : comparison :=
  match a, b with
  | [], [] => Eq
  | [], _ :: _ => Lt
  | _ :: _, [] => Gt
  | x :: a', y :: b' => match (x ?= y)%N with Eq => bytes_cmp a' b' | c => c end
  end.

Definition entry := (bytes * Z)%type.

Definition entry_cmp (x y : entry) : comparison :=
  match snd x ?= snd y with Eq => bytes_cmp (fst x) (fst y) | c => c end.

Definition entry_ltb (x y : entry) : bool := match entry_cmp x y with Lt => true | _ => false end.

Fixpoint insert (x : entry) (l : list entry) : list entry :=
  match l with
  | [] => [x]
  | y :: r => if entry_ltb y x then y :: insert x r else x :: y :: r
  end.

Definition sort_entries (l : list entry) : list entry := fold_right insert [] l.

Fixpoint rmapM {A B} (f : A -> result B) (l : list A) : result (list B) :=
  match l with
  | [] => Ok []
  | a :: r => b <- f a ;; bs <- rmapM f r ;; Ok (b :: bs)
  end.

(* the (name, text) pairs written, in order.  [tbl] is the name table in the order the Go map
   happens to be iterated (any permutation). *)
Definition named_members (tbl : list entry) (line : bytes) (indices : list Z) : result (list (bytes * bytes)) :=
  rmapM (fun e : entry => v <- get_match line indices (snd e) ;; Ok (fst e, v)) (sort_entries tbl).

Definition numbered_members (line : bytes) (indices : list Z) : result (list (bytes * bytes)) :=
  ms <- rmapM (fun i : nat => v <- get_match line indices (Z.of_nat i) ;; Ok (itoa (Z.of_nat i), v))
              (seq 0 (Z.to_nat (Z.quot (zlen indices) 2))) ;;
  Ok (filter (fun m : bytes * bytes => match snd m with [] => false | _ => true end) ms).

Definition expected_members (named numbered : bool) (tbl : list entry) (line : bytes) (indices : list Z)
  : result (list (bytes * bytes)) :=
  a <- (if named then named_members tbl line indices else Ok []) ;;
  b <- (if numbered then numbered_members line indices else Ok []) ;;
  Ok (a ++ b).

Definition infer_members (ms : list (bytes * bytes)) : list (bytes * jval) :=
  map (fun m => (fst m, infer (snd m))) ms.

(* SliceSpaceExpressionContext.json(named, numbered) *)
Definition json_view (named numbered : bool) (tbl : list entry) (line : bytes) (indices : list Z) : result bytes :=
  rmap (fun ms => render (infer_members ms)) (expected_members named numbered tbl line indices).

Local Close Scope Z_scope.

(* ------------------------------------------------------------------ reader: RFC 8259, one object of scalars *)

Definition is_ws (b : N) : bool := (b =? 32) || (b =? 9) || (b =? 10) || (b =? 13).

Fixpoint skip_ws (s : bytes) : bytes :=
  match s with
  | b :: r => if is_ws b then skip_ws r else s
  | [] => []
  end.

Definition hexv (b : N) : option N :=
  if is_digit b then Some (b - 48)
  else if (97 <=? b) && (b <=? 102) then Some (b - 87)
  else if (65 <=? b) && (b <=? 70) then Some (b - 55)
  else None.

Definition hex4 (a b c d : N) : option N :=
  match hexv a, hexv b, hexv c, hexv d with
  | Some x, Some y, Some z, Some w => Some (((x * 16 + y) * 16 + z) * 16 + w)
  | _, _, _, _ => None
  end.

Definition utf8_enc (cp : N) : bytes :=
  if cp <? 128 then [cp]
  else if cp <? 2048 then [192 + cp / 64; 128 + cp mod 64]
  else if cp <? 65536 then [224 + cp / 4096; 128 + (cp / 64) mod 64; 128 + cp mod 64]
  else [240 + cp / 262144; 128 + (cp / 4096) mod 64; 128 + (cp / 64) mod 64; 128 + cp mod 64].

Definition simple_esc (c : N) : option N :=
  if c =? 34 then Some 34 else if c =? 92 then Some 92 else if c =? 47 then Some 47
  else if c =? 98 then Some 8 else if c =? 102 then Some 12 else if c =? 110 then Some 10
  else if c =? 114 then Some 13 else if c =? 116 then Some 9 else None.

Definition is_high (cp : N) : bool := (55296 <=? cp) && (cp <? 56320).   (* D800..DBFF *)
Definition is_low (cp : N) : bool := (56320 <=? cp) && (cp <? 57344).    (* DC00..DFFF *)
Definition repl : bytes := [239; 191; 189].                               (* U+FFFD *)

Definition pre (p : bytes) (o : option (bytes * bytes)) : option (bytes * bytes) :=
  match o with Some (t, rest) => Some (p ++ t, rest) | None => None end.

(* the characters of a string after the opening quote, up to and including the closing quote:
   returns (decoded bytes, rest).  Unescaped: any byte >= 0x20 except the quote 0x22 and the backslash 0x5C (bytes >= 0x80
   are taken as they are: the reader works on bytes and does not validate UTF-8).  \uXXXX is
   decoded to the UTF-8 encoding of the code point; a surrogate pair to the 4-byte encoding; an
   unpaired surrogate to U+FFFD (as encoding/json does). *)
Fixpoint read_chars (s : bytes) : option (bytes * bytes) :=
  match s with
  | [] => None
  | b :: r =>
      if b =? 34 then Some ([], r)
      else if b =? 92 then
        match r with
        | [] => None
        | c :: r1 =>
            if c =? 117 then
              match r1 with
              | h1 :: h2 :: h3 :: h4 :: r2 =>
                  match hex4 h1 h2 h3 h4 with
                  | None => None
                  | Some cp =>
                      if cp <? 55296 then pre (utf8_enc cp) (read_chars r2)
                      else if is_high cp then
                        match r2 with
                        | e1 :: e2 :: l1 :: l2 :: l3 :: l4 :: r3 =>
                            match (if (e1 =? 92) && (e2 =? 117) then hex4 l1 l2 l3 l4 else None) with
                            | Some lo =>
                                if is_low lo
                                then pre (utf8_enc (65536 + (cp - 55296) * 1024 + (lo - 56320))) (read_chars r3)
                                else pre repl (read_chars r2)
                            | None => pre repl (read_chars r2)
                            end
                        | _ => pre repl (read_chars r2)
                        end
                      else if is_low cp then pre repl (read_chars r2)
                      else pre (utf8_enc cp) (read_chars r2)
                  end
              | _ => None
              end
            else
              match simple_esc c with
              | Some x => pre [x] (read_chars r1)
              | None => None
              end
        end
      else if b <? 32 then None
      else pre [b] (read_chars r)
  end.

Fixpoint span_digits (s : bytes) : bytes * bytes :=
  match s with
  | b :: r => if is_digit b then let (d, t) := span_digits r in (b :: d, t) else ([], s)
  | [] => ([], [])
  end.

(* int = zero / ( digit1-9 DIGIT... ) *)
Definition read_int (s : bytes) : option (bytes * bytes) :=
  match s with
  | b :: r =>
      if b =? 48 then Some ([48], r)
      else if is_digit b then let (d, t) := span_digits r in Some (b :: d, t)
      else None
  | [] => None
  end.

(* [ frac ],  frac = decimal-point DIGIT+ *)
Definition read_frac (s : bytes) : option (bytes * bytes) :=
  match s with
  | b :: r =>
      if b =? 46 then
        let (d, t) := span_digits r in
        match d with [] => None | _ => Some (46 :: d, t) end
      else Some ([], s)
  | [] => Some ([], s)
  end.

(* [ exp ],  exp = e [ minus / plus ] DIGIT+ *)
Definition read_exp (s : bytes) : option (bytes * bytes) :=
  match s with
  | b :: r =>
      if (b =? 101) || (b =? 69) then
        let (sg, r1) := match r with
                        | c :: r' => if (c =? 43) || (c =? 45) then ([c], r') else ([], r)
                        | [] => ([], r)
                        end in
        let (d, t) := span_digits r1 in
        match d with [] => None | _ => Some (b :: sg ++ d, t) end
      else Some ([], s)
  | [] => Some ([], s)
  end.

(* number = [ minus ] int [ frac ] [ exp ]; returns (literal, rest) *)
Definition read_number (s : bytes) : option (bytes * bytes) :=
  let (sg, r0) := match s with
                  | b :: r => if b =? 45 then ([45], r) else ([], s)
                  | [] => ([], s)
                  end in
  match read_int r0 with
  | None => None
  | Some (i, r1) =>
      match read_frac r1 with
      | None => None
      | Some (f, r2) =>
          match read_exp r2 with
          | None => None
          | Some (e, r3) => Some (sg ++ i ++ f ++ e, r3)
          end
      end
  end.

Fixpoint strip_prefix (p s : bytes) : option bytes :=
  match p with
  | [] => Some s
  | c :: p' => match s with
               | b :: r => if b =? c then strip_prefix p' r else None
               | [] => None
               end
  end.

Definition read_string (s : bytes) : option (bytes * bytes) :=
  match s with
  | b :: r => if b =? 34 then read_chars r else None
  | [] => None
  end.

Definition read_value (s : bytes) : option (jval * bytes) :=
  match s with
  | [] => None
  | b :: _ =>
      if b =? 34 then
        match read_string s with Some (t, r) => Some (JStr t, r) | None => None end
      else
        match strip_prefix w_true s with
        | Some r => Some (JBool true, r)
        | None =>
            match strip_prefix w_false s with
            | Some r => Some (JBool false, r)
            | None => match read_number s with Some (l, r) => Some (JNum l, r) | None => None end
            end
        end
  end.

Definition expect (c : N) (s : bytes) : option bytes :=
  match s with
  | b :: r => if b =? c then Some r else None
  | [] => None
  end.

(* member = string name-separator value *)
Definition read_member (s : bytes) : option ((bytes * jval) * bytes) :=
  match read_string s with
  | None => None
  | Some (k, r1) =>
      match expect 58 (skip_ws r1) with
      | None => None
      | Some r2 =>
          match read_value (skip_ws r2) with
          | None => None
          | Some (v, r3) => Some ((k, v), r3)
          end
      end
  end.

(* member ( value-separator member )... end-object; [s] starts at a member.  Fuel: every member
   consumes at least one byte, json_parse passes more fuel than there are bytes; exhaustion is a
   failure (None), and the theorems show it does not occur on the writer's output. *)
Fixpoint read_members (fuel : nat) (s : bytes) : option (list (bytes * jval) * bytes) :=
  match fuel with
  | O => None
  | S f =>
      match read_member s with
      | None => None
      | Some (m, r) =>
          match skip_ws r with
          | b :: t =>
              if b =? 44 then
                match read_members f (skip_ws t) with
                | Some (ms, rest) => Some (m :: ms, rest)
                | None => None
                end
              else if b =? 125 then Some ([m], t)
              else None
          | [] => None
          end
      end
  end.

(* JSON-text = ws object ws, the object having only string/number/true/false members *)
Definition json_parse (s : bytes) : option (list (bytes * jval)) :=
  match expect 123 (skip_ws s) with
  | None => None
  | Some r =>
      match skip_ws r with
      | [] => None
      | b :: t =>
          if b =? 125 then match skip_ws t with [] => Some [] | _ => None end
          else
            match read_members (S (length r)) (b :: t) with
            | Some (ms, rest) => match skip_ws rest with [] => Some ms | _ => None end
            | None => None
            end
      end
  end.

(* ------------------------------------------------------------------ decimal value of a numeral *)

Local Open Scope Z_scope.

Fixpoint udecZ (acc : Z) (l : bytes) : Z :=
  match l with
  | [] => acc
  | b :: r => udecZ (acc * 10 + (Z.of_N b - 48)) r
  end.

(* m * 10^e with trailing zeros of m moved into e; 0 is (0, 0) *)
Fixpoint norm_fuel (fuel : nat) (m e : Z) : Z * Z :=
  match fuel with
  | O => (m, e)
  | S f => if m =? 0 then (0, 0)
           else if Z.rem m 10 =? 0 then norm_fuel f (Z.quot m 10) (e + 1) else (m, e)
  end.

(* lenient decimal reading of a text: optional sign, digits, optional point and digits, optional
   e/E with optional sign and one or more digits; with at
   least one mantissa digit.  Result: normalised (mantissa, exponent of 10) — two numerals have
   the same result iff they denote the same rational number. *)
Definition dec_val (s : bytes) : option (Z * Z) :=
  let '(neg, r0) := match s with
                    | b :: r => if (b =? 45)%N then (true, r) else if (b =? 43)%N then (false, r) else (false, s)
                    | [] => (false, s)
                    end in
  let '(ip, r1) := span_digits r0 in
  let '(fp, r2) := match r1 with
                   | b :: r => if (b =? 46)%N then span_digits r else ([], r1)
                   | [] => ([], r1)
                   end in
  match ip ++ fp with
  | [] => None
  | ds =>
      let ex := match r2 with
                | [] => Some 0
                | b :: r =>
                    if ((b =? 101) || (b =? 69))%N then
                      let '(eneg, r3) := match r with
                                         | c :: r' => if (c =? 45)%N then (true, r') else if (c =? 43)%N then (false, r') else (false, r)
                                         | [] => (false, r)
                                         end in
                      match span_digits r3 with
                      | ([], _) => None
                      | (ed, []) => Some (if eneg then - udecZ 0 ed else udecZ 0 ed)
                      | (_, _ :: _) => None
                      end
                    else None
                end in
      match ex with
      | None => None
      | Some e =>
          let m := udecZ 0 ds in
          Some (norm_fuel (S (length ds)) (if neg then - m else m) (e - zlen fp))
      end
  end.

Local Close Scope Z_scope.

(* ------------------------------------------------------------------ the property on an observed output *)

Definition pair_eqb (a b : Z * Z) : bool := (fst a =? fst b)%Z && (snd a =? snd b)%Z.

(* a decoded member agrees with the captured text *)
Definition member_ok_b (text : bytes) (j : jval) : bool :=
  match j with
  | JStr t => bytes_eqb t text
  | JNum lit => match dec_val lit, dec_val text with
                | Some a, Some b => pair_eqb a b
                | _, _ => false
                end
  | JBool b => fold_eq (if b then w_true else w_false) text
  end.

Fixpoint members_ok_b (exp : list (bytes * bytes)) (ms : list (bytes * jval)) : bool :=
  match exp, ms with
  | [], [] => true
  | (k, t) :: e', (k', j) :: m' => bytes_eqb k k' && member_ok_b t j && members_ok_b e' m'
  | _, _ => false
  end.

(* one text is a valid and faithful view *)
Definition view_ok_b (exp : list (bytes * bytes)) (text : bytes) : bool :=
  match json_parse text with
  | Some ms => members_ok_b exp ms
  | None => false
  end.

(* observed: the distinct texts that repeated evaluation of the same match produced *)
Definition C16_check_view (exp : result (list (bytes * bytes))) (texts : list bytes) : bool :=
  match exp, texts with
  | Ok e, [t] => view_ok_b e t
  | _, _ => false
  end.

Definition jval_eqb (a b : jval) : bool :=
  match a, b with
  | JStr x, JStr y => bytes_eqb x y
  | JNum x, JNum y => bytes_eqb x y
  | JBool x, JBool y => Bool.eqb x y
  | _, _ => false
  end.

Definition member_eqb (a b : bytes * jval) : bool := bytes_eqb (fst a) (fst b) && jval_eqb (snd a) (snd b).

(* ------------------------------------------------------------------ vocabulary of the theorem statements *)

(* ------------------------------------------------------------------ specification: decodes to the captured text *)
Definition member_ok (text : bytes) (j : jval) : Prop :=
  match j with
  | JStr t => t = text                                           (* the very bytes *)
  | JNum lit => dec_val lit = dec_val text /\ exists v, dec_val text = Some v   (* the same decimal value *)
  | JBool b => fold_eq (if b then w_true else w_false) text = true  (* true/false up to ASCII case (A..Z = a..z) *)
  end.

(* bytes that may follow a number in an object without being swallowed by the number reader *)
Definition num_follow (c : N) : bool :=
  negb (is_digit c) && negb (c =? 46) && negb (c =? 101) && negb (c =? 69).

(* an entry of escapeLookup is a JSON escape sequence that denotes its own index *)
Definition entry_ok_b (p : N * bytes) : bool :=
  let (k, e) := p in
  match e with
  | [] => true                                   (* "" = no entry *)
  | [bs; c] => (bs =? 92) && match simple_esc c with Some x => x =? k | None => false end
  | [bs; u; h1; h2; h3; h4] =>
      (bs =? 92) && (u =? 117) &&
      match hex4 h1 h2 h3 h4 with Some cp => (cp =? k) && (cp <? 128) | None => false end
  | _ => false
  end.

Definition has_entry (b : N) : bool := match lookup b with Some _ => true | None => false end.

(* what the theorems need from pkg/minijson escapeLookup *)
Definition table_ok_b : bool :=
  forallb entry_ok_b escape_lookup && has_entry 34 && has_entry 92.

(* a member name without any byte that needs escaping is written verbatim *)
Definition plain_byte (b : N) : bool := (32 <=? b) && negb (has_entry b).

Definition is_word (b : N) : bool :=
  is_digit b || ((65 <=? b) && (b <=? 90)) || ((97 <=? b) && (b <=? 122)) || (b =? 95).

Definition entry_le (x y : entry) : Prop := entry_ltb y x = false.

Local Open Scope Z_scope.
(* every (start, end) pair is "unmatched" (a negative entry) or a slice of the line *)
Fixpoint pairs_ok (n : Z) (ix : list Z) : bool :=
  match ix with
  | st :: en :: r => ((st <? 0) || (en <? 0) || ((st <=? en) && (en <=? n))) && pairs_ok n r
  | _ => true
  end.
Local Close Scope Z_scope.

(* well-formed UTF-8 (Unicode Table 3-7): a concatenation of well-formed characters *)
Definition cont (b : N) : bool := (128 <=? b) && (b <=? 191).

Definition utf8_char (ch : bytes) : bool :=
  match ch with
  | [a] => a <? 128
  | [a; b] => (194 <=? a) && (a <=? 223) && cont b
  | [a; b; c] =>
      cont c && (((a =? 224) && (160 <=? b) && (b <=? 191))
                 || ((((225 <=? a) && (a <=? 236)) || (a =? 238) || (a =? 239)) && cont b)
                 || ((a =? 237) && (128 <=? b) && (b <=? 159)))
  | [a; b; c; d] =>
      cont c && cont d && (((a =? 240) && (144 <=? b) && (b <=? 191))
                           || ((241 <=? a) && (a <=? 243) && cont b)
                           || ((a =? 244) && (128 <=? b) && (b <=? 143)))
  | _ => false
  end.

Inductive utf8 : bytes -> Prop :=
| utf8_nil : utf8 []
| utf8_cons ch r : utf8_char ch = true -> utf8 r -> utf8 (ch ++ r).

(* ------------------------------------------------------------------ `rare expression -d ... -k key=value`
   cmd/expressions.go buildSpecialKeyJson(matches, values): every -d datum under its position,
   then (after the repair: in ascending key order) every -k pair; all written with WriteString. *)
Fixpoint lookup_kv (k : bytes) (kvs : list (bytes * bytes)) : bytes :=
  match kvs with
  | [] => []
  | (k', v) :: r => if bytes_eqb k' k then v else lookup_kv k r
  end.

Definition cli_named (keys : list (bytes * bytes)) : list (bytes * bytes) :=
  map (fun e : entry => (fst e, lookup_kv (fst e) keys))
      (sort_entries (map (fun kv : bytes * bytes => (fst kv, 0%Z)) keys)).

Fixpoint cli_numbered (i : nat) (data : list bytes) : list (bytes * bytes) :=
  match data with
  | [] => []
  | v :: r => (itoa (Z.of_nat i), v) :: cli_numbered (S i) r
  end.

Definition cli_expected (numbered named : bool) (data : list bytes) (keys : list (bytes * bytes)) : list (bytes * bytes) :=
  (if numbered then cli_numbered 0 data else []) ++ (if named then cli_named keys else []).

Definition str_members (ms : list (bytes * bytes)) : list (bytes * jval) := map (fun m => (fst m, JStr (snd m))) ms.

Definition cli_view (numbered named : bool) (data : list bytes) (keys : list (bytes * bytes)) : bytes :=
  render (str_members (cli_expected numbered named data keys)).
