(* C10: context effects.  A compiled expression stage (Go: KeyBuilderStage = func(KeyBuilderContext) string)
   is a value of the free monad over the three things a stage can do besides computing:
     GetMatch i   context.GetMatch(i)
     GetKey s     context.GetKey(s)
     Now          time.Now().Unix()  (not a context operation: invisible to the optimiser's probe)
   [run m ctx clk] evaluates a stage and counts the context look-ups; [static] is
   expressions.EvalStaticStage (stageAnalysis.go): evaluate once against the monitoring empty
   context, constant iff nothing was looked up.
   [subst_match] is a sub-context: GetMatch is answered locally (lazily, by another stage evaluated in
   the outer context), GetKey and the clock pass through.  funcfile/stage.go lazySubContext and
   stdlib/funcsRange.go subContext are both instances.
   [prog] is the shape of a helper function's stage body: which argument stages it evaluates, in
   which order, depending on which values; [interp] turns it into a stage. *)
From Coq Require Import List NArith ZArith Bool Arith.
From RareV Require Import Base.Hex.
Import ListNotations.

Inductive M (A : Type) : Type :=
| Ret (a : A)
| GetMatch (i : Z) (k : bytes -> M A)
| GetKey (s : bytes) (k : bytes -> M A)
| Now (k : Z -> M A).
Arguments Ret {A}. Arguments GetMatch {A}. Arguments GetKey {A}. Arguments Now {A}.

Fixpoint bind {A B} (m : M A) (f : A -> M B) : M B :=
  match m with
  | Ret a => f a
  | GetMatch i k => GetMatch i (fun s => bind (k s) f)
  | GetKey s k => GetKey s (fun x => bind (k x) f)
  | Now k => Now (fun t => bind (k t) f)
  end.

Definition stage := M bytes.

(* ---- contexts ---- *)
Record ctx := mkctx { cm : Z -> bytes; ck : bytes -> bytes }.

(* value and number of context look-ups (exprofiler: MatchLookups + KeyLookups) *)
Fixpoint run {A} (m : M A) (c : ctx) (clk : Z) : A * nat :=
  match m with
  | Ret a => (a, O)
  | GetMatch i k => let (a, n) := run (k (cm c i)) c clk in (a, S n)
  | GetKey s k => let (a, n) := run (k (ck c s)) c clk in (a, S n)
  | Now k => run (k clk) c clk
  end.

(* stageAnalysis.go monitorContext: every look-up is counted and answers "" *)
Definition monitor : ctx := mkctx (fun _ => []) (fun _ => []).

(* EvalStaticStage, run when the expression is compiled (clock reading c0) *)
Definition static {A} (c0 : Z) (m : M A) : option A :=
  let (v, n) := run m monitor c0 in if (n =? 0)%nat then Some v else None.

(* an array context (expressions.KeyBuilderContextArray and the harness context):
   GetMatch outside the elements is "", GetKey of an unknown key is "" *)
Definition ctx_of (ms : list bytes) (ks : list (bytes * bytes)) : ctx :=
  mkctx (fun i => if (i <? 0)%Z then [] else nth (Z.to_nat i) ms [])
        (fun k => match find (fun p => bytes_eqb (fst p) k) ks with Some p => snd p | None => [] end).

(* ---- sub-contexts ---- *)
(* evaluate [m] in a context whose GetMatch i is answered by the stage [h i] (evaluated in the
   enclosing context each time it is asked for), GetKey and the clock passing through *)
Fixpoint subst_match {A} (h : Z -> stage) (m : M A) : M A :=
  match m with
  | Ret a => Ret a
  | GetMatch i k => bind (h i) (fun v => subst_match h (k v))
  | GetKey s k => GetKey s (fun x => subst_match h (k x))
  | Now k => Now (fun t => subst_match h (k t))
  end.

(* funcfile/stage.go lazySubContext.GetMatch: idx < 0 || idx >= len(args) -> "" ; else args[idx](sub) *)
Definition lazy_args (args : list stage) (i : Z) : stage :=
  if (i <? 0)%Z then Ret [] else nth (Z.to_nat i) args (Ret []).
Definition with_args {A} (args : list stage) (m : M A) : M A := subst_match (lazy_args args) m.

(* stdlib/funcsRange.go subContext{parent, vals[2]}.Eval(stage, v0, v1)
   (GetMatch of a negative index: "" as after fixes/C17-subctx-negative-index.patch) *)
Definition sub_vals (v0 v1 : bytes) (i : Z) : stage :=
  Ret (if (i <? 0)%Z then [] else nth (Z.to_nat i) [v0; v1] []).
Definition sub_ctx {A} (v0 v1 : bytes) (m : M A) : M A := subst_match (sub_vals v0 v1) m.

(* the context a lazySubContext presents, as a plain context (used to state what with_args computes) *)
Definition lazy_ctx (args : list stage) (c : ctx) (clk : Z) : ctx :=
  mkctx (fun i => fst (run (lazy_args args i) c clk)) (ck c).

(* ---- helper bodies ---- *)
Inductive prog :=
| Done (v : bytes)                                        (* return v *)
| Fail (v : bytes)                                        (* the constructor reported an error; the stage returns the marker v *)
| Err (p : prog)                                          (* the constructor reported an error; the stage runs p all the same *)
| Eval (i : nat) (k : bytes -> prog)                      (* args[i](context) *)
| EvalSub (i : nat) (v0 v1 : bytes) (k : bytes -> prog)   (* sub.Eval(args[i], v0, v1) *)
| Touch (s : bytes) (k : prog)                            (* context.GetKey(s), value ignored *)
| TouchMatch (i : Z) (k : prog)                           (* context.GetMatch(i), value ignored *)
| Clock (k : Z -> prog).                                  (* time.Now().Unix() *)

(* [mask i = true]: argument i is a binder body (evaluated in a sub-context only) *)
Fixpoint interp (mask : nat -> bool) (args : list stage) (p : prog) : stage :=
  match p with
  | Done v => Ret v
  | Fail v => Ret v
  | Err q => interp mask args q
  | Eval i k => if mask i then Ret [] else bind (nth i args (Ret [])) (fun v => interp mask args (k v))
  | EvalSub i v0 v1 k =>
      if mask i then bind (sub_ctx v0 v1 (nth i args (Ret []))) (fun v => interp mask args (k v)) else Ret []
  | Touch s k => GetKey s (fun _ => interp mask args k)
  | TouchMatch i k => GetMatch i (fun _ => interp mask args k)
  | Clock k => Now (fun t => interp mask args (k t))
  end.

(* ---- extensional equality of stages (no functional extensionality needed) ---- *)
Inductive meq {A} : M A -> M A -> Prop :=
| meq_ret a : meq (Ret a) (Ret a)
| meq_gm i k k' : (forall s, meq (k s) (k' s)) -> meq (GetMatch i k) (GetMatch i k')
| meq_gk s k k' : (forall x, meq (k x) (k' x)) -> meq (GetKey s k) (GetKey s k')
| meq_now k k' : (forall t, meq (k t) (k' t)) -> meq (Now k) (Now k').

(* the clock is only read after a key look-up (which no sub-context answers locally) *)
Inductive kg {A} : M A -> Prop :=
| kg_ret a : kg (Ret a)
| kg_gm i k : (forall s, kg (k s)) -> kg (GetMatch i k)
| kg_gk s k : kg (GetKey s k).

(* the same for helper bodies: no Clock before a Touch *)
Inductive pkg : prog -> Prop :=
| pkg_done v : pkg (Done v)
| pkg_fail v : pkg (Fail v)
| pkg_err p : pkg p -> pkg (Err p)
| pkg_eval i k : (forall v, pkg (k v)) -> pkg (Eval i k)
| pkg_evalsub i v0 v1 k : (forall v, pkg (k v)) -> pkg (EvalSub i v0 v1 k)
| pkg_touch s k : pkg (Touch s k).

(* no GetMatch touch (the repaired helpers) *)
Inductive ntm : prog -> Prop :=
| ntm_done v : ntm (Done v)
| ntm_fail v : ntm (Fail v)
| ntm_err p : ntm p -> ntm (Err p)
| ntm_eval i k : (forall v, ntm (k v)) -> ntm (Eval i k)
| ntm_evalsub i v0 v1 k : (forall v, ntm (k v)) -> ntm (EvalSub i v0 v1 k)
| ntm_touch s k : ntm k -> ntm (Touch s k)
| ntm_clock k : (forall t, ntm (k t)) -> ntm (Clock k).
