(* C10: compilation of a parse tree (Model/Tmpl.v) into stages, with and without the optimiser.
     keyBuilder.go   Compile's tail: `if s.autoOptimize { kb = kb.optimize() }`, joinStages, BuildKey
     stageAnalysis.go  EvalStaticStage  (= Eff.static)
     stdlib/stagesStaticEval.go  EvalStageInt / EvalArgInt / EvalStageIndexOrDefault
     stdlib/stagesTypedEval.go   evalTypedStage / mapTypedArgs (constant arguments pre-parsed)
     stdlib/funcs*.go   every modelled helper as a [helper]: what its constructor learns from the
                        static values of its arguments ([view]) and the [prog] its stage runs - which
                        argument it evaluates when.  Values are computed with the C11 definitions
                        (Model/Funcs.v) and the Splitter model.
     stdlib/funcsTime.go  kfTimeParse special words now / live / delta
   A function constructor (Go KeyBuilderFunction) is [ctor := list stage -> stage]. *)
From Coq Require Import List NArith ZArith Bool Arith String.
From RareV Require Import Base.Hex Base.Res Base.Num Gen.GenC11 Gen.GenC17 Model.Humanize Model.CsvItem
                          Model.Splitter Model.Tmpl Model.Funcs Model.Eff.
Import ListNotations.
Local Notation length := List.length.
Local Notation concat := List.concat.

Definition view := list (option bytes).          (* EvalStaticStage of every argument *)
Definition vstat (v : view) (i : nat) : option bytes := nth i v None.
(* EvalStageInt / EvalStageInt64 *)
Definition vint (v : view) (i : nat) : option Z :=
  match vstat v i with Some s => atoi s | None => None end.
(* EvalArgInt(args, idx, dflt) *)
Definition arg_int (v : view) (i : nat) (d : Z) : option Z :=
  if (i <? length v)%nat then vint v i else Some d.
(* EvalStageIndexOrDefault(args, idx, dflt) *)
Definition idx_or_default (v : view) (i : nat) (d : bytes) : bytes :=
  match vstat v i with Some s => s | None => d end.

Definition nonemp (s : bytes) : bool := match s with [] => false | _ => true end.
Definition nm (s : string) : bytes := of_str s.

Record helper := mkH { h_mask : nat -> bool; h_body : Z -> view -> prog }.
Definition nomask : nat -> bool := fun _ => false.

(* ---- combinators ---- *)
(* evaluate the listed arguments in order, then continue with their values *)
Fixpoint eval_all (is : list nat) (k : list bytes -> prog) : prog :=
  match is with
  | [] => k []
  | i :: r => Eval i (fun x => eval_all r (fun xs => k (x :: xs)))
  end.
Definition argc (v : view) (ok : nat -> bool) (p : prog) : prog :=
  if ok (length v) then p else Fail ErrorArgCount.
Definition is n : nat -> bool := Nat.eqb n.
Definition between lo hi (n : nat) : bool := (lo <=? n)%nat && (n <=? hi)%nat.
Definition atleast lo (n : nat) : bool := (lo <=? n)%nat.
Definition eval1 (f : bytes -> bytes) (v : view) : prog :=
  argc v (is 1) (Eval 0 (fun x => Done (f x))).
Definition eval2 (f : bytes -> bytes -> bytes) (v : view) : prog :=
  argc v (is 2) (Eval 0 (fun x => Eval 1 (fun y => Done (f x y)))).

(* ---- funcsCommon.go ---- *)
Fixpoint first_nonempty (is : list nat) : prog :=
  match is with
  | [] => Done []
  | i :: r => Eval i (fun x => if nonemp x then Done x else first_nonempty r)
  end.
Definition p_coalesce (v : view) : prog := first_nonempty (seq 0 (length v)).

Definition with_bucket_size (v : view) (k : Z -> Z -> bytes) : prog :=
  argc v (is 2)
    match vint v 1 with
    | None => Fail ErrorNum
    | Some s => if (s <=? 0)%Z then Fail ErrorValue
                else Eval 0 (fun a => match atoi a with None => Done ErrorNum | Some x => Done (k x s) end)
    end.
Definition p_bucket v := with_bucket_size v (fun x s => itoa (bucket_val x s)).
Definition p_bucketrange v :=
  with_bucket_size v (fun x s => let st := bucket_val x s in itoa st ++ [32; 45; 32]%N ++ itoa (wrap64 (st + (s - 1)))).

Definition p_clamp (v : view) : prog :=
  argc v (is 3)
    match vint v 1, vint v 2 with
    | Some lo, Some hi =>
        Eval 0 (fun a => match atoi a with
                         | None => Done ErrorNum
                         | Some x => Done (if (x <? lo)%Z then nm "min" else if (x >? hi)%Z then nm "max" else a)
                         end)
    | _, _ => Fail ErrorNum
    end.

Definition p_expbucket := eval1 (fun a => match atoi a with None => ErrorNum | Some x => itoa (expbucket_val x) end).

(* ---- funcsType.go ---- *)
Definition p_isint := eval1 (fun a => tstr (is_some (atoi a))).

(* ---- funcsArithmatic.go arithmaticHelperiEx over stagesTypedEval.go ---- *)
(* typedArgs[i](context): a constant argument was parsed when the expression was compiled *)
Definition typed_int (v : view) (i : nat) (k : option Z -> prog) : prog :=
  match vstat v i with
  | Some s => k (atoi s)
  | None => Eval i (fun x => k (atoi x))
  end.
(* mapTypedArgs fails: some constant argument does not parse *)
Definition const_bad (v : view) : bool :=
  existsb (fun o => match o with Some s => negb (is_some (atoi s)) | None => false end) v.
Fixpoint ifold_run (f : fn) (v : view) (is : list nat) (acc : Z) : prog :=
  match is with
  | [] => Done (itoa acc)
  | i :: r => typed_int v i (fun o =>
                match o with
                | None => Done ErrorNum
                | Some x => match iop f acc x with
                            | Some y => ifold_run f v r y
                            | None => Done ErrorValue
                            end
                end)
  end.
(* A constant operand that is not an integer is a compile error, but the stage keeps the left-to-right
   order of the checks (fixes/C10-int-operand-order.patch): the bad constant fails at its own position *)
Definition p_ifold (f : fn) (v : view) : prog :=
  argc v (atleast 2)
    (let q := typed_int v 0 (fun o => match o with
                                      | None => Done ErrorNum
                                      | Some a => ifold_run f v (seq 1 (length v - 1)) a
                                      end) in
     if const_bad v then Err q else q).

(* ---- funcsComparators.go ---- *)
Definition p_if (v : view) : prog :=
  argc v (between 2 3)
    (Eval 0 (fun c => if truthy c then Eval 1 Done
                      else if (3 <=? length v)%nat then Eval 2 Done else Done FalsyVal)).
(* for i := 0; i+1 < n; i += 2 *)
Fixpoint switch_run (pairs : nat) (i : nat) (n : nat) : prog :=
  match pairs with
  | O => if Nat.odd n then Eval (n - 1) Done else Done []
  | S p => Eval i (fun c => if truthy c then Eval (S i) Done else switch_run p (S (S i)) n)
  end.
Definition p_switch (v : view) : prog :=
  argc v (atleast 2) (switch_run (length v / 2) 0 (length v)).
Definition p_unless (v : view) : prog :=
  argc v (is 2) (Eval 0 (fun c => if truthy c then Done [] else Eval 1 Done)).
Fixpoint strcmp_run (neg : bool) (is : list nat) (val : bytes) : prog :=
  match is with
  | [] => Done val
  | i :: r => Eval i (fun x => strcmp_run neg r (tstr (xorb neg (bytes_eqb val x))))
  end.
Definition p_strcmp (neg : bool) (v : view) : prog :=
  argc v (atleast 2) (Eval 0 (fun a => strcmp_run neg (seq 1 (length v - 1)) a)).
Definition p_not := eval1 (fun a => tstr (negb (truthy a))).
(* kfAnd / kfOr: truthy logic (after the repair of C11-andor-emptiness), stopping at the first decisive argument *)
Fixpoint and_run (is : list nat) : prog :=
  match is with
  | [] => Done TruthyVal
  | i :: r => Eval i (fun x => if truthy x then and_run r else Done FalsyVal)
  end.
Fixpoint or_run (is : list nat) : prog :=
  match is with
  | [] => Done FalsyVal
  | i :: r => Eval i (fun x => if truthy x then Done TruthyVal else or_run r)
  end.
Definition p_and (v : view) := and_run (seq 0 (length v)).
Definition p_or (v : view) := or_run (seq 0 (length v)).
Definition p_like := eval2 (fun a b => if contains b a then a else []).

(* ---- funcsStrings.go ---- *)
Definition p_len := eval1 (fun a => itoa (Z.of_nat (length a))).
Definition p_prefix := eval2 (fun a b => if Funcs.is_prefix b a then a else []).
Definition p_suffix := eval2 (fun a b => if is_suffix b a then a else []).
(* strings.ToUpper / ToLower on ASCII text (the correspondence feeds ASCII only) *)
Definition p_upper := eval1 (map up_byte).
Definition p_lower := eval1 (map low_byte).
Definition p_substr (v : view) : prog :=
  argc v (is 3)
    (Eval 0 (fun s =>
       match s with
       | [] => Done []
       | _ => Eval 1 (fun l => Eval 2 (fun n =>
                match atoi l, atoi n with
                | Some lv, Some nv =>
                    let '(lo, hi) := substr_window (Z.of_nat (length s)) lv nv in Done (slice s lo hi)
                | _, _ => Done ErrorNum
                end))
       end)).
Definition p_select :=
  eval2 (fun s i => match atoi i with None => ErrorNum | Some idx => select_field s idx end).
(* kfJoin(delim): tab, $ and @ *)
Definition p_join (sep : N) (v : view) : prog :=
  match length v with
  | O => Done []
  | 1%nat => Eval 0 Done
  | n => eval_all (seq 0 n) (fun xs => Done (Funcs.join sep xs))
  end.
Definition p_hi := eval1 (fun a => match atoi a with None => ErrorNum | Some x => humanize_int x end).
Definition p_csv (v : view) : prog :=
  match length v with
  | O => Done []
  | n => eval_all (seq 0 n) (fun xs => Done (csv_row xs))
  end.

(* ---- funcsRange.go ---- *)
Definition p_alen := eval1 (fun a => match a with [] => [48%N] | _ => itoa (Z.of_nat (count_byte NUL a) + 1) end).
Definition binder1 : nat -> bool := Nat.eqb 1.
Fixpoint map_sub (i : nat) (items : list bytes) (k : list bytes -> prog) : prog :=
  match items with
  | [] => k []
  | x :: r => EvalSub i x [] (fun y => map_sub i r (fun ys => k (y :: ys)))
  end.
(* arrayOperator: the empty array maps the empty string once *)
Definition p_amap (v : view) : prog :=
  argc v (is 2)
    (Eval 0 (fun arr => match arr with
                        | [] => EvalSub 1 [] [] Done
                        | _ => map_sub 1 (split0 arr) (fun ys => Done (join0 ys))
                        end)).
Fixpoint filter_sub (i : nat) (items : list bytes) (kept : list bytes) : prog :=
  match items with
  | [] => Done (join0 (rev kept))
  | x :: r => EvalSub i x [] (fun y => filter_sub i r (if truthy y then x :: kept else kept))
  end.
Definition p_afilter (v : view) : prog :=
  argc v (is 2) (Eval 0 (fun arr => filter_sub 1 (split0 arr) [])).
Fixpoint reduce_sub (i : nat) (items : list bytes) (memo : bytes) : prog :=
  match items with
  | [] => Done memo
  | x :: r => EvalSub i memo x (fun y => reduce_sub i r y)
  end.
Definition p_areduce (v : view) : prog :=
  argc v (between 2 3)
    (let initial := idx_or_default v 2 [] in
     Eval 0 (fun arr =>
       match initial with
       | [] => match split0 arr with
               | [] => Done []
               | x :: r => reduce_sub 1 r x
               end
       | _ => reduce_sub 1 (split0 arr) initial
       end)).
(* kfArrayFor: {0} = current value, {1} = index; cond is args[1], incr is args[2]; the sub-context
   has the caller as parent (fixes/C17-for-parent-context.patch); the separator precedes every element
   but the first (fixes/C17-for-leading-empty.patch).  [fuel] = MAX_ITERATIONS + 1 rounds. *)
Definition dec_succ := fix go (ds : list N) : list N :=
  match ds with
  | [] => [49%N]
  | d :: r => if (d =? 57)%N then 48%N :: go r else (d + 1)%N :: r
  end.
Fixpoint for_run (fuel : nat) (val : bytes) (idx : list N) (first : bool) (chunks : list bytes) : prog :=
  match fuel with
  | O => Done ForInfMarker
  | S f =>
      let sIdx := rev idx in
      EvalSub 1 val sIdx (fun c =>
        if truthy c then
          EvalSub 2 val sIdx (fun nv =>
            for_run f nv (dec_succ idx) false (val :: (if first then chunks else [NUL] :: chunks)))
        else Done (concat (rev chunks)))
  end.
Definition for_cap : nat := S (Z.to_nat MaxIterations).
Definition binder12 (i : nat) : bool := Nat.eqb i 1 || Nat.eqb i 2.
Definition p_afor (v : view) : prog :=
  argc v (is 3) (Eval 0 (fun val => for_run for_cap val [48%N] true [])).
(* kfArrayIn: the set is a constant, split when the expression is compiled *)
Definition p_ain (v : view) : prog :=
  argc v (is 2)
    match vstat v 1 with
    | None => Fail ErrorConst
    | Some set => Eval 0 (fun x => Done (tstr (existsb (bytes_eqb x) (split0 set))))
    end.

(* ---- funcsTime.go kfTimeParse: the special words ----
   [fixed = true]: live / delta touch the context with GetKey("") (fixes/C10-live-touch-key.patch);
   [fixed = false]: the pinned code touches with GetMatch(-1), which a sub-context answers locally. *)
Definition Unmodelled : bytes := nm "<UNMODELLED>".
Definition touch (fixed : bool) (p : prog) : prog := if fixed then Touch [] p else TouchMatch (-1) p.
Definition p_time (fixed : bool) (c0 : Z) (v : view) : prog :=
  argc v (between 1 3)
    match vstat v 0 with
    | Some w =>
        let l := map low_byte w in
        if bytes_eqb l (nm "now") then Done (itoa c0)
        else if bytes_eqb l (nm "live") then touch fixed (Clock (fun t => Done (itoa t)))
        else if bytes_eqb l (nm "delta") then touch fixed (Clock (fun t => Done (itoa (t - c0))))
        else Done Unmodelled
    | None => Done Unmodelled
    end.

(* ---- the modelled part of stdlib.StandardFunctions ---- *)
Definition H (p : view -> prog) : helper := mkH nomask (fun _ => p).
Definition stdlib_gen (fixed : bool) : list (bytes * helper) :=
  [ (nm "coalesce", H p_coalesce); (nm "bucket", H p_bucket); (nm "bucketrange", H p_bucketrange);
    (nm "clamp", H p_clamp); (nm "expbucket", H p_expbucket); (nm "isint", H p_isint);
    (nm "sumi", H (p_ifold Sumi)); (nm "subi", H (p_ifold Subi)); (nm "multi", H (p_ifold Multi));
    (nm "divi", H (p_ifold Divi)); (nm "modi", H (p_ifold Modi)); (nm "maxi", H (p_ifold Maxi));
    (nm "mini", H (p_ifold Mini));
    (nm "if", H p_if); (nm "switch", H p_switch); (nm "unless", H p_unless);
    (nm "eq", H (p_strcmp false)); (nm "neq", H (p_strcmp true)); (nm "not", H p_not);
    (nm "and", H p_and); (nm "or", H p_or);
    (nm "len", H p_len); (nm "like", H p_like); (nm "prefix", H p_prefix); (nm "suffix", H p_suffix);
    (nm "substr", H p_substr); (nm "select", H p_select); (nm "upper", H p_upper); (nm "lower", H p_lower);
    (nm "tab", H (p_join 9)); (nm "$", H (p_join C11_ArraySeparator)); (nm "@", H (p_join C11_ArraySeparator));
    (nm "hi", H p_hi); (nm "csv", H p_csv);
    (nm "@len", H p_alen); (nm "@map", mkH binder1 (fun _ => p_amap));
    (nm "@filter", mkH binder1 (fun _ => p_afilter)); (nm "@reduce", mkH binder1 (fun _ => p_areduce));
    (nm "@for", mkH binder12 (fun _ => p_afor)); (nm "@in", H p_ain);
    (nm "time", mkH nomask (p_time fixed)) ].
Definition stdlib := stdlib_gen true.

(* ---- function tables ---- *)
Definition ctor := list stage -> stage.
Definition ctor_of (c0 : Z) (h : helper) : ctor :=
  fun args => interp (h_mask h) args (h_body h c0 (map (static c0) args)).
(* funcfile/stage.go keyBuilderToFunction: the body runs in a lazy sub-context of the call's arguments *)
Definition ufun (body : stage) : ctor := fun args => with_args args body.

Inductive fdef := FHelper (h : helper) | FUser (body : stage).
Definition env := list (bytes * fdef).            (* later registrations first *)
Definition lookup (E : env) (f : bytes) : option fdef :=
  match find (fun p => bytes_eqb (fst p) f) E with Some p => Some (snd p) | None => None end.
Definition ctor_of_def (c0 : Z) (d : fdef) : ctor :=
  match d with FHelper h => ctor_of c0 h | FUser b => ufun b end.
Definition std_env_gen (fixed : bool) : env := map (fun p => (fst p, FHelper (snd p))) (stdlib_gen fixed).
Definition std_env : env := std_env_gen true.

(* the constructor returned an error (Compile then reports it) *)
Definition ctor_err (c0 : Z) (d : fdef) (args : list stage) : bool :=
  match d with
  | FHelper h => match h_body h c0 (map (static c0) args) with Fail _ => true | Err _ => true | _ => false end
  | FUser _ => false
  end.

(* ---- keyBuilder.go ---- *)
(* joinStages / BuildKey: the stages' outputs concatenated *)
Fixpoint mconcat (l : list stage) : stage :=
  match l with
  | [] => Ret []
  | s :: r => bind s (fun x => bind (mconcat r) (fun y => Ret (x ++ y)))
  end.

Definition flushb (sb : bytes) : list stage := match sb with [] => [] | _ => [Ret sb] end.
(* CompiledKeyBuilder.optimize: constant stages are evaluated, adjacent constants merged *)
Fixpoint opt_loop (c0 : Z) (sb : bytes) (l : list stage) : list stage :=
  match l with
  | [] => flushb sb
  | s :: r => match static c0 s with
              | Some v => opt_loop c0 (sb ++ v) r
              | None => flushb sb ++ s :: opt_loop c0 [] r
              end
  end.
Definition optimize (c0 : Z) (l : list stage) : list stage := opt_loop c0 [] l.

Section Eval.
  Variable opt : bool.            (* KeyBuilder.autoOptimize *)
  Variable c0 : Z.                (* the clock when the expression is compiled *)
  Variable E : env.
  Definition finish (l : list stage) : list stage := if opt then optimize c0 l else l.
  Fixpoint piece_stage (p : piece) : stage :=
    match p with
    | PLit s => Ret s
    | PMatch i => GetMatch i Ret
    | PKey k => GetKey k Ret
    | PCall f args =>
        match lookup E f with
        | Some d => ctor_of_def c0 d (map (fun a => mconcat (finish (map piece_stage a))) args)
        | None => Ret (err_lit f)
        end
    end.
  Definition compiled (t : tmpl) : list stage := finish (map piece_stage t).
  Definition eval_tmpl (t : tmpl) : stage := mconcat (compiled t).
  Definition arg_stage (a : tmpl) : stage := mconcat (finish (map piece_stage a)).
End Eval.

(* the function table as Model/Tmpl.v wants it: which names exist, and whether the constructor
   reports an error for the compiled arguments (optimising compiler: funclib.NewKeyBuilder) *)
Definition fenv_of (opt : bool) (c0 : Z) (E : env) : fenv :=
  fun f => match lookup E f with
           | Some d => Some (fun args => if ctor_err c0 d (map (arg_stage opt c0 E) args) then Some 0%N else None)
           | None => None
           end.

(* source text -> stage; None: Compile panicked (impossible for the repaired compiler) *)
Definition compile_eval (opt : bool) (c0 : Z) (E : env) (s : str) : option (stage * nat) :=
  match compile (fenv_of opt c0 E) s with
  | Ok (t, errs) => Some (eval_tmpl opt c0 E t, length errs)
  | Panic => None
  end.
