(* C07 — models of pkg/aggregation: MatchCounter (counter.go), SubKeyCounter (countersubkey.go),
   TableAggregator (table.go, incl. Trim) and AccumulatingGroup (accumulator.go), and the
   declarative "straightforward fold" specifications the theorems compare them with.
   Go maps are association lists kept in key order (byte-wise, like Go's string <); int64
   additions wrap (add64).  The numerical aggregator is in Model/Welford.v. *)
From Coq Require Import List NArith ZArith Bool Lia Permutation.
From RareV Require Import Base.Hex Base.Num.
Import ListNotations.
Local Open Scope Z_scope.

(* ------------------------------------------------------------------ byte strings, order *)
(* Go's string comparison: byte-wise lexicographic *)
Fixpoint bcmp (a b : bytes) : comparison :=
  match a, b with
  | [], [] => Eq
  | [], _ :: _ => Lt
  | _ :: _, [] => Gt
  | x :: a', y :: b' => match N.compare x y with Eq => bcmp a' b' | c => c end
  end.
Definition blt (a b : bytes) : bool := match bcmp a b with Lt => true | _ => false end.
Definition beq (a b : bytes) : bool := match bcmp a b with Eq => true | _ => false end.
Definition bltP (a b : bytes) : Prop := bcmp a b = Lt.

(* ------------------------------------------------------------------ stringSplitter, 1-byte delimiter *)
(* Splitter{S, Delim} with len(Delim) = 1: the cursor is [Some rest] or [None] (next = -1, Done) *)
Fixpoint cut (d : N) (s : bytes) : bytes * option bytes :=
  match s with
  | [] => ([], None)
  | b :: r => if N.eqb b d then ([], Some r)
              else let '(p, q) := cut d r in (b :: p, q)
  end.
(* Next(): "" when done *)
Definition sp_next (d : N) (st : option bytes) : bytes * option bytes :=
  match st with None => ([], None) | Some s => cut d s end.

(* counter.go Sample: key [NUL increment]; None = parse error *)
Definition parse2 (s : bytes) : option (bytes * Z) :=
  let '(k, st) := cut 0%N s in
  match st with
  | None => Some (k, 1)
  | Some r => let '(v, _) := cut 0%N r in
              match atoi v with Some z => Some (k, z) | None => None end
  end.

(* Splitter{S, Delim} for an arbitrary delimiter (the table's --delim): Next() cuts at the FIRST
   occurrence of the WHOLE delimiter (strings.Index) and advances by its length.
   [is_pre d s] = Some rest iff s = d ++ rest.  (Empty delimiter: Index = 0, the cursor never moves and
   is never done — cutd [] s = ([], Some s), as the code.)  Proofs/AggSplit.v: specification of cutd,
   and cutd [b] = cut b. *)
Fixpoint is_pre (d s : bytes) : option bytes :=
  match d, s with
  | [], _ => Some s
  | x :: d', y :: s' => if N.eqb x y then is_pre d' s' else None
  | _ :: _, [] => None
  end.
Fixpoint cutd (d s : bytes) {struct s} : bytes * option bytes :=
  match s with
  | [] => match d with [] => ([], Some []) | _ :: _ => ([], None) end
  | b :: r => match is_pre d s with
              | Some rest => ([], Some rest)
              | None => let '(p, q) := cutd d r in (b :: p, q)
              end
  end.
Definition spd_next (d : bytes) (st : option bytes) : bytes * option bytes :=
  match st with None => ([], None) | Some s => cutd d s end.

(* countersubkey.go / table.go Sample: a [d b [d increment]]; None = parse error.
   (sub-key counter: a = key, b = sub-key, d = NUL; table: a = column, b = row, d = its delimiter) *)
Definition parse3 (d : bytes) (s : bytes) : option (bytes * bytes * Z) :=
  let '(a, st1) := cutd d s in
  let '(b, st2) := spd_next d st1 in
  match st2 with
  | None => Some (a, b, 1)
  | Some r => let '(v, _) := cutd d r in
              match atoi v with Some z => Some (a, b, z) | None => None end
  end.

(* ------------------------------------------------------------------ maps *)
Definition amap (V : Type) := list (bytes * V).

Fixpoint afind {V} (k : bytes) (m : amap V) : option V :=
  match m with
  | [] => None
  | (k', v) :: r => if beq k k' then Some v else afind k r
  end.

(* m[k] = f(m[k]) keeping the list in key order *)
Fixpoint aupd {V} (k : bytes) (f : option V -> V) (m : amap V) : amap V :=
  match m with
  | [] => [(k, f None)]
  | (k', v) :: r => match bcmp k k' with
                    | Lt => (k, f None) :: m
                    | Eq => (k', f (Some v)) :: r
                    | Gt => (k', v) :: aupd k f r
                    end
  end.

Fixpoint aremove {V} (k : bytes) (m : amap V) : amap V :=
  match m with
  | [] => []
  | (k', v) :: r => if beq k k' then aremove k r else (k', v) :: aremove k r
  end.

Definition dflt (o : option Z) : Z := match o with Some x => x | None => 0 end.
Definition add64 (a b : Z) : Z := wrap64 (a + b).
Definition addo (v : Z) (o : option Z) : Z := add64 (dflt o) v.
Definition zsum (l : list Z) : Z := fold_right Z.add 0 l.

(* sorted list of the distinct elements *)
Fixpoint uins (k : bytes) (l : list bytes) : list bytes :=
  match l with
  | [] => [k]
  | x :: r => match bcmp k x with Lt => k :: l | Eq => l | Gt => x :: uins k r end
  end.
Definition usort (l : list bytes) : list bytes := fold_right uins [] l.

(* ------------------------------------------------------------------ MatchCounter *)
Record counter := mkC { c_items : amap Z; c_errors : N; c_total : Z }.
Definition c0 : counter := mkC [] 0 0.

Definition c_sample_value (c : counter) (k : bytes) (v : Z) : counter :=
  mkC (aupd k (addo v) (c_items c)) (c_errors c) (add64 (c_total c) v).

Definition c_sample (c : counter) (s : bytes) : counter :=
  match parse2 s with
  | Some (k, v) => c_sample_value c k v
  | None => mkC (c_items c) (c_errors c + 1) (c_total c)
  end.
Definition c_run (h : list bytes) : counter := fold_left c_sample h c0.

(* specification: the valid samples of a history, and sums by key *)
Definition valid2 (h : list bytes) : list (bytes * Z) :=
  flat_map (fun s => match parse2 s with Some kv => [kv] | None => [] end) h.
Definition nerr2 (h : list bytes) : N :=
  N.of_nat (length (filter (fun s => match parse2 s with None => true | Some _ => false end) h)).
Definition sum_for (k : bytes) (kv : list (bytes * Z)) : Z :=
  zsum (map snd (filter (fun p => beq k (fst p)) kv)).
Definition spec_counter_items (kv : list (bytes * Z)) : amap Z :=
  map (fun k => (k, wrap64 (sum_for k kv))) (usort (map fst kv)).
Definition spec_counter (h : list bytes) : counter :=
  mkC (spec_counter_items (valid2 h)) (nerr2 h) (wrap64 (zsum (map snd (valid2 h)))).

(* ------------------------------------------------------------------ SubKeyCounter *)
Definition skrow := (Z * list Z)%type.     (* count, submatches *)
Record subkey := mkS { s_matches : amap skrow; s_keys : list bytes; s_idx : amap nat; s_errors : N }.
Definition s0 : subkey := mkS [] [] [] 0.

(* insertAlphanumeric: before the first element that is greater; returns the index *)
Fixpoint insert_alnum (l : list bytes) (e : bytes) : list bytes * nat :=
  match l with
  | [] => ([e], O)
  | v :: r => if blt e v then (e :: l, O)
              else let '(l', i) := insert_alnum r e in (v :: l', S i)
  end.
(* insertAti64(slice, idx, ele).  Go panics for idx > len(slice); C07_subkey_inv (all row vectors
   have the length of subKeys, and the index returned by insert_alnum is <= that length:
   insert_alnum_idx_le) shows that branch is never reached, so it is totalised here. *)
Fixpoint insert_at {A} (l : list A) (i : nat) (x : A) : list A :=
  match i, l with
  | O, _ => x :: l
  | S i', y :: r => y :: insert_at r i' x
  | S _, [] => [x]
  end.
(* submatches[i] += v (Go panics for i >= len; excluded by the same invariant) *)
Fixpoint vec_add (l : list Z) (i : nat) (v : Z) : list Z :=
  match l, i with
  | [], _ => []
  | x :: r, O => add64 x v :: r
  | x :: r, S i' => x :: vec_add r i' v
  end.
(* for i, name := range subKeys { subKeyIdx[name] = i } *)
Fixpoint regen (ks : list bytes) (i : nat) (idx : amap nat) : amap nat :=
  match ks with
  | [] => idx
  | k :: r => regen r (S i) (aupd k (fun _ => i) idx)
  end.

Definition s_sample_value (s : subkey) (k sk : bytes) (v : Z) : subkey :=
  (* getOrCreateKeyItem; item.count += count *)
  let m1 := aupd k (fun o => match o with
                             | Some (c, vec) => (add64 c v, vec)
                             | None => (add64 0 v, repeat 0 (length (s_keys s)))
                             end) (s_matches s) in
  (* getOrCreateSubkeyIndex *)
  match afind sk (s_idx s) with
  | Some i =>
      mkS (aupd k (fun o => match o with Some (c, vec) => (c, vec_add vec i v) | None => (0, []) end) m1)
          (s_keys s) (s_idx s) (s_errors s)
  | None =>
      let '(keys', i) := insert_alnum (s_keys s) sk in
      let m2 := map (fun kr => (fst kr, (fst (snd kr), insert_at (snd (snd kr)) i 0))) m1 in
      mkS (aupd k (fun o => match o with Some (c, vec) => (c, vec_add vec i v) | None => (0, []) end) m2)
          keys' (regen keys' O (s_idx s)) (s_errors s)
  end.

Definition s_sample (s : subkey) (e : bytes) : subkey :=
  match parse3 [0%N] e with
  | Some (k, sk, v) => s_sample_value s k sk v
  | None => mkS (s_matches s) (s_keys s) (s_idx s) (s_errors s + 1)
  end.
Definition s_run (h : list bytes) : subkey := fold_left s_sample h s0.

(* specification *)
Definition valid3 (d : bytes) (h : list bytes) : list (bytes * bytes * Z) :=
  flat_map (fun s => match parse3 d s with Some x => [x] | None => [] end) h.
Definition nerr3 (d : bytes) (h : list bytes) : N :=
  N.of_nat (length (filter (fun s => match parse3 d s with None => true | Some _ => false end) h)).
Definition sum_a (a : bytes) (v : list (bytes * bytes * Z)) : Z :=
  zsum (map snd (filter (fun p => beq a (fst (fst p))) v)).
Definition sum_b (b : bytes) (v : list (bytes * bytes * Z)) : Z :=
  zsum (map snd (filter (fun p => beq b (snd (fst p))) v)).
Definition sum_ab (a b : bytes) (v : list (bytes * bytes * Z)) : Z :=
  zsum (map snd (filter (fun p => beq a (fst (fst p)) && beq b (snd (fst p))) v)).
Definition has_ab (a b : bytes) (v : list (bytes * bytes * Z)) : bool :=
  existsb (fun p => beq a (fst (fst p)) && beq b (snd (fst p))) v.

Fixpoint enum_from {A} (i : nat) (l : list A) : list (A * nat) :=
  match l with [] => [] | x :: r => (x, i) :: enum_from (S i) r end.

Definition spec_subkeys (v : list (bytes * bytes * Z)) : list bytes := usort (map (fun p => snd (fst p)) v).
Definition spec_subkey (h : list bytes) : subkey :=
  let v := valid3 [0%N] h in
  let sks := spec_subkeys v in
  mkS (map (fun k => (k, (wrap64 (sum_a k v), map (fun s => wrap64 (sum_ab k s v)) sks)))
           (usort (map (fun p => fst (fst p)) v)))
      sks (enum_from O sks) (nerr3 [0%N] h).

(* ------------------------------------------------------------------ TableAggregator *)
Definition trow := (amap Z * Z)%type.      (* cells by column, row sum *)
Record table := mkT { t_rows : amap trow; t_cols : amap Z; t_errors : N }.
Definition t0 : table := mkT [] [] 0.

Definition t_sample_item (t : table) (c r : bytes) (v : Z) : table :=
  mkT (aupd r (fun o => let '(cells, sm) := match o with Some x => x | None => ([], 0) end in
                        (aupd c (addo v) cells, add64 sm v)) (t_rows t))
      (aupd c (addo v) (t_cols t)) (t_errors t).

Definition t_sample (d : bytes) (t : table) (e : bytes) : table :=
  match parse3 d e with
  | Some (c, r, v) => t_sample_item t c r v
  | None => mkT (t_rows t) (t_cols t) (t_errors t + 1)
  end.
Definition t_run (d : bytes) (h : list bytes) : table := fold_left (t_sample d) h t0.

Definition t_value (rw : trow) (c : bytes) : Z := dflt (afind c (fst rw)).
Definition t_coltotal (t : table) (c : bytes) : Z := dflt (afind c (t_cols t)).
Definition t_sum (t : table) : Z := fold_left add64 (map snd (t_cols t)) 0.
(* ComputeMinMax: every row x every column, absent = 0 *)
Definition t_cellvals (t : table) : list Z :=
  flat_map (fun rw => map (fun cl => t_value (snd rw) (fst cl)) (t_cols t)) (t_rows t).
Definition t_minmax (t : table) : Z * Z :=
  let vs := t_cellvals t in
  let mn := fold_left Z.min vs max_int64 in
  let mx := fold_left Z.max vs min_int64 in
  ((if mn =? max_int64 then 0 else mn), (if mx =? min_int64 then 0 else mx)).

(* specification *)
Definition spec_table (d : bytes) (h : list bytes) : table :=
  let v := valid3 d h in
  let cols := usort (map (fun p => fst (fst p)) v) in
  let rows := usort (map (fun p => snd (fst p)) v) in
  mkT (map (fun r => (r, (map (fun c => (c, wrap64 (sum_ab c r v))) (filter (fun c => has_ab c r v) cols),
                          wrap64 (sum_b r v)))) rows)
      (map (fun c => (c, wrap64 (sum_a c v))) cols)
      (nerr3 d h).

(* ---- Trim.  The Go code ranges over the column map (unspecified order): [order]. *)
Definition is_nil {A} (l : list A) : bool := match l with [] => true | _ => false end.
Definition trim_col (pred : bytes -> bytes -> Z -> bool) (t : table) (c : bytes) : table :=
  let visit := map (fun rw : bytes * trow =>
                      if pred c (fst rw) (t_value (snd rw) c)
                      then (true, (fst rw, (aremove c (fst (snd rw)), snd (snd rw))))
                      else (false, rw)) (t_rows t) in
  let remove_all := forallb fst visit in
  let rows' := filter (fun rw : bytes * trow => negb (is_nil (fst (snd rw)))) (map snd visit) in
  mkT rows' (if remove_all then aremove c (t_cols t) else t_cols t) (t_errors t).
Definition trim_order (pred : bytes -> bytes -> Z -> bool) (order : list bytes) (t : table) : table :=
  fold_left (trim_col pred) order t.
Definition trim (pred : bytes -> bytes -> Z -> bool) (t : table) : table :=
  trim_order pred (map fst (t_cols t)) t.

(* what the property asks of Trim: exactly the selected cells go, plus rows/columns left empty,
   and the totals are those of the remaining cells *)
Definition spec_trim (pred : bytes -> bytes -> Z -> bool) (t : table) : table :=
  let rows1 := map (fun rw : bytes * trow =>
                      let cells := filter (fun cl : bytes * Z => negb (pred (fst cl) (fst rw) (snd cl))) (fst (snd rw)) in
                      (fst rw, (cells, wrap64 (zsum (map snd cells))))) (t_rows t) in
  let rows' := filter (fun rw : bytes * trow => negb (is_nil (fst (snd rw)))) rows1 in
  let cols' := filter (fun cl : bytes * Z => existsb (fun rw : bytes * trow =>
                          match afind (fst cl) (fst (snd rw)) with Some _ => true | None => false end) rows')
                      (t_cols t) in
  mkT rows' (map (fun cl : bytes * Z => (fst cl, wrap64 (zsum (map (fun rw : bytes * trow => t_value (snd rw) (fst cl)) rows')))) cols')
      (t_errors t).

(* ---- Trim as repaired (fix C07-trim-stale): after the loop above, the cached row sums and the
   column-total map are recomputed from the cells that are left.  [trim_order]/[trim] stay as the
   as-found behaviour (C07_trim_asfound_refuted). *)
Definition recompute_cols (rows : amap trow) : amap Z :=
  fold_left (fun m (rw : bytes * trow) =>
               fold_left (fun m (cl : bytes * Z) => aupd (fst cl) (addo (snd cl)) m) (fst (snd rw)) m)
            rows [].
Definition recompute (t : table) : table :=
  mkT (map (fun rw : bytes * trow => (fst rw, (fst (snd rw), fold_left add64 (map snd (fst (snd rw))) 0))) (t_rows t))
      (recompute_cols (t_rows t)) (t_errors t).
Definition trimf_order (pred : bytes -> bytes -> Z -> bool) (order : list bytes) (t : table) : table :=
  recompute (trim_order pred order t).
Definition trimf (pred : bytes -> bytes -> Z -> bool) (t : table) : table :=
  trimf_order pred (map fst (t_cols t)) t.

(* ---- the law of the table: everything is determined by the cells.  [cellmap]: row -> column -> value *)
Definition cellmap := amap (amap Z).
Definition colsum (c : bytes) (cs : cellmap) : Z := zsum (map (fun rw : bytes * amap Z => dflt (afind c (snd rw))) cs).
Definition allcols (cs : cellmap) : list bytes := flat_map (fun rw : bytes * amap Z => map fst (snd rw)) cs.
(* the table whose row sums, column totals and column set are those of the cells *)
Definition rebuild (cs : cellmap) (errs : N) : table :=
  mkT (map (fun rw : bytes * amap Z => (fst rw, (snd rw, wrap64 (zsum (map snd (snd rw)))))) cs)
      (map (fun c => (c, wrap64 (colsum c cs))) (usort (allcols cs)))
      errs.
(* the cells after one Sample / one Trim, in the straightforward way *)
Definition cs_sample_item (cs : cellmap) (c r : bytes) (v : Z) : cellmap :=
  aupd r (fun o => aupd c (addo v) (match o with Some cells => cells | None => [] end)) cs.
Definition cs_trim (pred : bytes -> bytes -> Z -> bool) (cs : cellmap) : cellmap :=
  filter (fun rw : bytes * amap Z => negb (is_nil (snd rw)))
         (map (fun rw : bytes * amap Z => (fst rw, filter (fun cl : bytes * Z => negb (pred (fst cl) (fst rw) (snd cl))) (snd rw))) cs).

(* histories of Sample and Trim calls; a Trim carries the order in which Go's map range happened to
   visit the columns *)
Inductive top :=
| TSample (e : bytes)
| TTrim (pred : bytes -> bytes -> Z -> bool) (order : list bytes).
Definition t_op (d : bytes) (t : table) (o : top) : table :=
  match o with
  | TSample e => t_sample d t e
  | TTrim pred order => trimf_order pred order t
  end.
Definition t_ops (d : bytes) (ops : list top) : table := fold_left (t_op d) ops t0.
(* the orders are permutations of the column set at the time of the call *)
Fixpoint ops_valid (d : bytes) (t : table) (ops : list top) : Prop :=
  match ops with
  | [] => True
  | o :: r => (match o with
               | TSample _ => True
               | TTrim _ order => Permutation order (map fst (t_cols t))
               end) /\ ops_valid d (t_op d t o) r
  end.
Definition cs_op (d : bytes) (st : cellmap * N) (o : top) : cellmap * N :=
  match o with
  | TSample e => match parse3 d e with
                 | Some (c, r, v) => (cs_sample_item (fst st) c r v, snd st)
                 | None => (fst st, (snd st + 1)%N)
                 end
  | TTrim pred _ => (cs_trim pred (fst st), snd st)
  end.
Definition cs_ops (d : bytes) (ops : list top) : cellmap * N := fold_left (cs_op d) ops ([], 0%N).

(* the executable model of the correspondence visits the columns in key order (C07_table_order_irrelevant) *)
Definition t_opm (d : bytes) (t : table) (o : top) : table :=
  match o with
  | TSample e => t_sample d t e
  | TTrim pred _ => trimf pred t
  end.
(* the states after every prefix *)
Fixpoint scan {S X} (f : S -> X -> S) (h : list X) (s : S) : list S :=
  s :: match h with [] => [] | x :: r => scan f r (f s x) end.

(* trim predicates used by the correspondence *)
Inductive tpred :=
| PCols (cs : list bytes)            (* the column is one of cs (spark's use) *)
| PRows (rs : list bytes)            (* the row is one of rs *)
| PValLt (z : Z)                     (* value < z *)
| PValGt (z : Z)                     (* value > z *)
| PColVal (cs : list bytes) (z : Z). (* column in cs and value < z *)
Definition mem (k : bytes) (l : list bytes) : bool := existsb (beq k) l.
Definition tpred_eval (p : tpred) (c r : bytes) (v : Z) : bool :=
  match p with
  | PCols cs => mem c cs
  | PRows rs => mem r rs
  | PValLt z => v <? z
  | PValGt z => z <? v
  | PColVal cs z => mem c cs && (v <? z)
  end.
(* the resulting column set does not depend on the map iteration order for these *)
Definition tpred_det (p : tpred) : bool :=
  match p with PCols _ | PRows _ => true | _ => false end.

(* ------------------------------------------------------------------ AccumulatingGroup *)
Section Accum.
  Variable E : Type.
  (* BuildKey of a compiled expression in exprAccumulatorContext{match, current, keyLookup} *)
  Variable eval : E -> bytes -> bytes -> (bytes -> bytes) -> bytes.

  Record adef := mkAD { a_groups : list E; a_cols : list (bytes * E * bytes) }. (* name, expr, initial *)

  Fixpoint join0 (l : list bytes) : bytes :=
    match l with [] => [] | [x] => x | x :: r => x ++ 0%N :: join0 r end.
  Definition no_lookup : bytes -> bytes := fun _ => [].
  (* buildGroupKey: current = "", keyLookup = nil *)
  Definition a_group_key (d : adef) (m : bytes) : bytes :=
    join0 (map (fun g => eval g m [] no_lookup) (a_groups d)).

  Fixpoint col_index (name : bytes) (cols : list (bytes * E * bytes)) : option nat :=
    match cols with
    | [] => None
    | (n, _, _) :: r => if beq name n then Some O else option_map S (col_index name r)
    end.
  Definition a_lookup (d : adef) (row : list bytes) (name : bytes) : bytes :=
    match col_index name (a_cols d) with Some j => nth j row [] | None => [] end.
  Fixpoint set_nth {A} (i : nat) (x : A) (l : list A) : list A :=
    match l, i with
    | [], _ => []
    | _ :: r, O => x :: r
    | y :: r, S i' => y :: set_nth i' x r
    end.
  (* for idx, dataExpr := range colDef { current = row[idx]; row[idx] = expr.BuildKey(ctx) } *)
  Fixpoint a_step_cols (d : adef) (m : bytes) (cols : list (bytes * E * bytes)) (i : nat) (row : list bytes) : list bytes :=
    match cols with
    | [] => row
    | (_, e, _) :: r =>
        let v := eval e m (nth i row []) (a_lookup d row) in
        a_step_cols d m r (S i) (set_nth i v row)
    end.
  Definition a_row_step (d : adef) (row : list bytes) (m : bytes) : list bytes :=
    a_step_cols d m (a_cols d) O row.
  Definition a_initial (d : adef) : list bytes := map (fun c => snd c) (a_cols d).

  Definition a_sample (d : adef) (st : amap (list bytes)) (m : bytes) : amap (list bytes) :=
    aupd (a_group_key d m)
         (fun o => a_row_step d (match o with Some row => row | None => a_initial d end) m) st.
  Definition a_run (d : adef) (h : list bytes) : amap (list bytes) := fold_left (a_sample d) h [].

  (* specification: the row of group g is the fold of the row step over g's samples *)
  Definition spec_accum (d : adef) (h : list bytes) : amap (list bytes) :=
    map (fun g => (g, fold_left (a_row_step d) (filter (fun m => beq g (a_group_key d m)) h) (a_initial d)))
        (usort (map (a_group_key d) h)).
End Accum.
Arguments mkAD {E}.
Arguments a_groups {E}.
Arguments a_cols {E}.

(* the expression forms the correspondence uses (compiled by the real KeyBuilder in the harness) *)
Inductive expr :=
| ELit (s : bytes)        (* literal text *)
| EMatch (n : nat)        (* {n}: GetMatch(n) *)
| ECur                    (* {.} *)
| EKey (name : bytes)     (* {name}: GetKey(name) *)
| ECat (a b : expr)       (* juxtaposition *)
| ESumi (a b : expr).     (* {sumi a b} *)

(* exprAccumulatorContext.GetMatch *)
Fixpoint nth_field (n : nat) (st : option bytes) (last : bytes) : bytes :=
  match n with
  | O => last
  | S n' => let '(f, st') := sp_next 0%N st in nth_field n' st' f
  end.
Definition get_match (m : bytes) (n : nat) : bytes :=
  match n with O => m | _ => nth_field n (Some m) [] end.

Section Eval.
  Variable bad : bytes.   (* stdlib.ErrorNum, supplied by the harness *)
  Fixpoint eval_expr (e : expr) (m cur : bytes) (look : bytes -> bytes) : bytes :=
    match e with
    | ELit s => s
    | EMatch n => get_match m n
    | ECur => cur
    | EKey name => look name
    | ECat a b => eval_expr a m cur look ++ eval_expr b m cur look
    | ESumi a b =>
        match atoi (eval_expr a m cur look) with
        | None => bad
        | Some x => match atoi (eval_expr b m cur look) with
                    | None => bad
                    | Some y => itoa (wrap64 (x + y))
                    end
        end
    end.
End Eval.

(* ------------------------------------------------------------------ observables *)
Record tobs := mkTO {
  to_cols : list bytes;                       (* Columns(), sorted *)
  to_rows : list (bytes * (Z * list Z));      (* Rows() by name: Name, Sum, Value(c) for c in the probe columns *)
  to_tot : list Z;                            (* ColTotal(c) for c in the probe columns *)
  to_sum : Z; to_mn : Z; to_mx : Z;           (* Sum(), ComputeMinMax() *)
  to_err : N; to_nr : N; to_nc : N            (* ParseErrors(), RowCount(), ColumnCount() *)
}.
Definition t_obs (probe : list bytes) (t : table) : tobs :=
  mkTO (map fst (t_cols t))
       (map (fun rw : bytes * trow => (fst rw, (snd (snd rw), map (t_value (snd rw)) probe))) (t_rows t))
       (map (t_coltotal t) probe)
       (t_sum t) (fst (t_minmax t)) (snd (t_minmax t))
       (t_errors t) (N.of_nat (length (t_rows t))) (N.of_nat (length (t_cols t))).

Definition Zl_eqb := list_eqb Z.eqb.
Definition bl_eqb := list_eqb bytes_eqb.
Definition tobs_eqb (a b : tobs) : bool :=
  bl_eqb (to_cols a) (to_cols b) &&
  list_eqb (fun x y : bytes * (Z * list Z) => bytes_eqb (fst x) (fst y) && Z.eqb (fst (snd x)) (fst (snd y)) && Zl_eqb (snd (snd x)) (snd (snd y)))
           (to_rows a) (to_rows b) &&
  Zl_eqb (to_tot a) (to_tot b) && Z.eqb (to_sum a) (to_sum b) && Z.eqb (to_mn a) (to_mn b) && Z.eqb (to_mx a) (to_mx b) &&
  N.eqb (to_err a) (to_err b) && N.eqb (to_nr a) (to_nr b) && N.eqb (to_nc a) (to_nc b).
(* the part that does not depend on Go's map iteration order during Trim: rows, their cells and sums *)
Definition tobs_rows_eqb (a b : tobs) : bool :=
  list_eqb (fun x y : bytes * (Z * list Z) => bytes_eqb (fst x) (fst y) && Z.eqb (fst (snd x)) (fst (snd y)) && Zl_eqb (snd (snd x)) (snd (snd y)))
           (to_rows a) (to_rows b) &&
  N.eqb (to_err a) (to_err b) && N.eqb (to_nr a) (to_nr b).

Definition c_obs (c : counter) := (c_items c, c_errors c, c_total c, N.of_nat (length (c_items c))).
Definition s_obs (s : subkey) := (s_keys s, s_matches s, s_errors s).
