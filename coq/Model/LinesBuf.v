(* Model of pkg/readahead/buffered.go (BufferedReadAhead.Scan): every refill allocates a fresh
   buffer, copies the unconsumed tail, fills it completely (or until the reader ends) and only
   then hands out tokens from it. Same reader scripts, tokens and specification as Model/Lines.v. *)
From Coq Require Import List NArith ZArith Lia Bool Arith.
From RareV Require Import Base.Hex Model.Lines.
Import ListNotations.

Record bst := mkbs {
  bheap : list (list byte);      (* every buffer allocated so far, newest last; a buffer is exactly its filled part *)
  boff : nat; beof : bool; bnerr : nat;
  bmax : nat;                    (* maxBufLen (> 1) *)
  bsc : script; bstream : list byte;
  brae : nat;                    (* Read calls issued after the terminating result *)
  bdel : list byte               (* ghost: bytes handed over by the reader *)
}.
Definition bcur (s : bst) : list byte := last (bheap s) [].

(* the fill loop: `for readOffset < len(s.buf) { n, err := Read(buf[readOffset:]) ... }` *)
Fixpoint fill (fuel : nat) (acc : list byte) (newlen : nat) (sc : script) (stream del : list byte)
  : option (list byte * bool * nat * script * list byte * list byte) :=
  if newlen <=? length acc then Some (acc, false, 0, sc, stream, del)
  else match fuel with
  | O => None     (* the reader returns (0, nil) forever *)
  | S fuel =>
      let '(want, e, rest) := match sc with [] => (0, REof, []) | (n, e) :: r => (n, e, r) end in
      let n := Nat.min want (Nat.min (newlen - length acc) (length stream)) in
      let d := firstn n stream in
      match e with
      | RNil => fill fuel (acc ++ d) newlen rest (skipn n stream) (del ++ d)
      | _ => Some (acc ++ d, true, match e with RErr => 1 | _ => 0 end, rest, skipn n stream, del ++ d)
      end
  end.

Definition refill (s : bst) : option bst :=
  let carry := skipn (boff s) (bcur s) in
  let newlen := Nat.max (bmax s) (length carry + bmax s / 2) in
  match fill (S (length (bsc s))) carry newlen (bsc s) (bstream s) (bdel s) with
  | Some (buf, e, ne, sc', st', del') =>
      Some (mkbs (bheap s ++ [buf]) 0 e (bnerr s + ne) (bmax s) sc' st' (brae s) del')
  | None => None
  end.

Definition btok_dropcr (s : bst) (lo hi : nat) : token :=
  let c := bcur s in
  if andb (lo <? hi) (N.eqb (nth (hi - 1) c 0%N) CR) then (length (bheap s) - 1, lo, hi - 1)
  else (length (bheap s) - 1, lo, hi).

Definition bset_off (s : bst) (o : nat) : bst :=
  mkbs (bheap s) o (beof s) (bnerr s) (bmax s) (bsc s) (bstream s) (brae s) (bdel s).

(* one Scan; fuel bounds the number of refills (each consumes at least one script entry) *)
Fixpoint bscan (fuel : nat) (s : bst) : option (option token * bst) :=
  match index_nl (skipn (boff s) (bcur s)) with
  | Some rel => Some (Some (btok_dropcr s (boff s) (boff s + rel)), bset_off s (boff s + rel + 1))
  | None =>
      if beof s then
        if boff s <? length (bcur s)
        then Some (Some (length (bheap s) - 1, boff s, length (bcur s)), bset_off s (length (bcur s)))
        else Some (None, s)
      else match fuel with
           | O => None
           | S fuel => match refill s with Some s' => bscan fuel s' | None => None end
           end
  end.

Definition binit (mx : nat) (scr : script) (str : list byte) : bst :=
  mkbs [[]] 0 false 0 mx scr str 0 [].

Fixpoint bscan_all (fuel : nat) (s : bst) (acc : list (token * list byte)) : option (list (token * list byte) * bst) :=
  match fuel with
  | O => None
  | S fuel =>
      match bscan (S (S (length (bsc s)))) s with
      | None => None
      | Some (None, s') => Some (rev acc, s')
      | Some (Some t, s') => bscan_all fuel s' ((t, read_tok (bheap s') t) :: acc)
      end
  end.

Definition brun mx scr str : option obs :=
  match bscan_all (S (S (length str))) (binit mx scr str) [] with
  | Some (toks, s) =>
      Some (mkobs (map snd toks) (map (fun tc => read_tok (bheap s) (fst tc)) toks)
                  (bnerr s) (brae s) (bdel s))
  | None => None
  end.
