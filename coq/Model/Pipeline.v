(* Transition system of the extraction pipeline:
   pkg/extractor/batchers (OpenFilesToChan: reader goroutines bounded by a semaphore, closer after
   wg.Wait; OpenReaderToChan: one reader) -> channel c (capacity batch-buffer) -> pkg/extractor
   (asyncWorker x W, atomic counters, readChan capacity 5, closer after wg.Wait) -> consumer.
   One rule per atomic action; every interleaving is a step sequence. *)
From Coq Require Import List NArith Arith Bool.
From RareV Require Import Base.Hex Model.Batch.
Import ListNotations.

Section Pipe.
Variable K : Type.                       (* what a worker emits for a matched line *)
Inductive cls := Unm | Ign | Mat (k : K).
Variable classify : lineid -> cls.       (* processLineSync: matcher, ignore set, key builder *)

(* reader goroutine of one source: [ok] = the open succeeds, [rerr] = the stream ends in a read error *)
Inductive rstate :=
| RNew (ok rerr : bool) (bs : list batch)   (* waiting for the semaphore *)
| RSend (rerr : bool) (bs : list batch)     (* holds the semaphore, batches still to send *)
| RDone.
(* worker goroutine: idle (receiving), busy with a batch (source, number of the next line, lines left, matches so far), exited *)
Inductive wstate := WIdle | WBusy (src : bytes) (no : N) (ls : list bytes) (out : list K) | WDone.

Record state := mk {
  rd : list rstate; sema : nat;
  ch : list batch; closed : bool;          (* Batcher.c *)
  wk : list wstate;
  rch : list (list K); rclosed : bool;     (* Extractor.readChan *)
  consumed : list K; cdone : bool;         (* the consumer (aggregation loop) *)
  cR : nat; cM : nat; cI : nat;            (* readLines, matchedLines, ignoredLines (atomic adds) *)
  errs : nat;                              (* Batcher.errorCount *)
  processed : list lineid                  (* ghost: lines classified so far, in order *)
}.

Record cfg := { nreaders : nat; chcap : nat; rcap : nat }.
Variable c : cfg.

Definition key_of (l : lineid) : list K := match classify l with Mat k => [k] | _ => [] end.
Definition isM (l : lineid) : nat := match classify l with Mat _ => 1 | _ => 0 end.
Definition isI (l : lineid) : nat := match classify l with Ign => 1 | _ => 0 end.
Definition b2n (b : bool) : nat := if b then 1 else 0.

Definition all_done_r (r : list rstate) := Forall (fun x => x = RDone) r.
Definition all_done_w (w : list wstate) := Forall (fun x => x = WDone) w.

(* the spawning loop of OpenFilesToChan acquires the semaphore for the inputs in argument order *)
Definition no_new (r : list rstate) := Forall (fun x => match x with RNew _ _ _ => False | _ => True end) r.

Inductive step : state -> state -> Prop :=
(* sema <- struct{}{}; open succeeds *)
| s_racq_ok : forall s r1 r2 e bs, rd s = r1 ++ RNew true e bs :: r2 -> no_new r1 -> sema s < nreaders c ->
    step s (mk (r1 ++ RSend e bs :: r2) (S (sema s)) (ch s) (closed s) (wk s) (rch s) (rclosed s) (consumed s) (cdone s) (cR s) (cM s) (cI s) (errs s) (processed s))
(* open fails: error counted, semaphore acquired and released by the deferred function, nothing read *)
| s_racq_fail : forall s r1 r2 e bs, rd s = r1 ++ RNew false e bs :: r2 -> no_new r1 -> sema s < nreaders c ->
    step s (mk (r1 ++ RDone :: r2) (sema s) (ch s) (closed s) (wk s) (rch s) (rclosed s) (consumed s) (cdone s) (cR s) (cM s) (cI s) (S (errs s)) (processed s))
(* s.c <- batch *)
| s_rsend : forall s r1 r2 e b bs, rd s = r1 ++ RSend e (b :: bs) :: r2 -> length (ch s) < chcap c -> closed s = false ->
    step s (mk (r1 ++ RSend e bs :: r2) (sema s) (ch s ++ [b]) (closed s) (wk s) (rch s) (rclosed s) (consumed s) (cdone s) (cR s) (cM s) (cI s) (errs s) (processed s))
(* end of stream (a read error is counted once): <-sema; wg.Done() *)
| s_rfin : forall s r1 r2 e, rd s = r1 ++ RSend e [] :: r2 ->
    step s (mk (r1 ++ RDone :: r2) (pred (sema s)) (ch s) (closed s) (wk s) (rch s) (rclosed s) (consumed s) (cdone s) (cR s) (cM s) (cI s) (errs s + b2n e) (processed s))
(* wg.Wait(); close(c) *)
| s_close : forall s, all_done_r (rd s) -> closed s = false ->
    step s (mk (rd s) (sema s) (ch s) true (wk s) (rch s) (rclosed s) (consumed s) (cdone s) (cR s) (cM s) (cI s) (errs s) (processed s))
(* batch, more := <-inputBatch *)
| s_wrecv : forall s w1 w2 b rest, wk s = w1 ++ WIdle :: w2 -> ch s = b :: rest ->
    step s (mk (rd s) (sema s) rest (closed s) (w1 ++ WBusy (b_src b) (b_start b) (b_lines b) [] :: w2) (rch s) (rclosed s) (consumed s) (cdone s) (cR s) (cM s) (cI s) (errs s) (processed s))
| s_wexit : forall s w1 w2, wk s = w1 ++ WIdle :: w2 -> ch s = [] -> closed s = true ->
    step s (mk (rd s) (sema s) (ch s) (closed s) (w1 ++ WDone :: w2) (rch s) (rclosed s) (consumed s) (cdone s) (cR s) (cM s) (cI s) (errs s) (processed s))
(* processLineSync(batch.Source, batch.BatchStart+idx, line): readLines++, then matched++ or ignored++ *)
| s_wline : forall s w1 w2 src no l ls out, wk s = w1 ++ WBusy src no (l :: ls) out :: w2 ->
    step s (mk (rd s) (sema s) (ch s) (closed s) (w1 ++ WBusy src (N.succ no) ls (out ++ key_of (src, no, l)) :: w2) (rch s) (rclosed s) (consumed s) (cdone s)
               (S (cR s)) (cM s + isM (src, no, l)) (cI s + isI (src, no, l)) (errs s) (processed s ++ [(src, no, l)]))
(* s.readChan <- matchBatch  (only when non-empty) *)
| s_wsend : forall s w1 w2 src no o out, wk s = w1 ++ WBusy src no [] (o :: out) :: w2 -> length (rch s) < rcap c -> rclosed s = false ->
    step s (mk (rd s) (sema s) (ch s) (closed s) (w1 ++ WIdle :: w2) (rch s ++ [o :: out]) (rclosed s) (consumed s) (cdone s) (cR s) (cM s) (cI s) (errs s) (processed s))
| s_wskip : forall s w1 w2 src no, wk s = w1 ++ WBusy src no [] [] :: w2 ->
    step s (mk (rd s) (sema s) (ch s) (closed s) (w1 ++ WIdle :: w2) (rch s) (rclosed s) (consumed s) (cdone s) (cR s) (cM s) (cI s) (errs s) (processed s))
(* wg.Wait(); close(readChan) *)
| s_rclose : forall s, all_done_w (wk s) -> rclosed s = false ->
    step s (mk (rd s) (sema s) (ch s) (closed s) (wk s) (rch s) true (consumed s) (cdone s) (cR s) (cM s) (cI s) (errs s) (processed s))
(* consumer: for matches := range readChan *)
| s_crecv : forall s m rest, rch s = m :: rest -> cdone s = false ->
    step s (mk (rd s) (sema s) (ch s) (closed s) (wk s) rest (rclosed s) (consumed s ++ m) (cdone s) (cR s) (cM s) (cI s) (errs s) (processed s))
| s_cdone : forall s, rch s = [] -> rclosed s = true -> cdone s = false ->
    step s (mk (rd s) (sema s) (ch s) (closed s) (wk s) (rch s) (rclosed s) (consumed s) true (cR s) (cM s) (cI s) (errs s) (processed s)).

(* a source: does it open, does its stream end in a read error, the batches its reader cuts *)
Definition source := (bool * bool * list batch)%type.

Definition init (srcs : list source) (nw : nat) : state :=
  mk (map (fun x : source => RNew (fst (fst x)) (snd (fst x)) (snd x)) srcs) 0 [] false (repeat WIdle nw)
     [] false [] false 0 0 0 0 [].

(* the lines of all sources that can be opened, with their identities *)
Definition input_of (srcs : list source) : list lineid :=
  flat_map (fun x : source => if fst (fst x) then flat_map b_ids (snd x) else []) srcs.
(* inputs that fail to open or fail while being read *)
Definition errors_of (srcs : list source) : nat :=
  list_sum (map (fun x : source => if fst (fst x) then b2n (snd (fst x)) else 1) srcs).

Inductive reach (s0 : state) : state -> Prop :=
| reach0 : reach s0 s0
| reachS s s' : reach s0 s -> step s s' -> reach s0 s'.

(* sequential one-line-at-a-time reference *)
Definition seq_keys (input : list lineid) : list K := flat_map key_of input.
End Pipe.

Arguments Unm {K}. Arguments Ign {K}. Arguments Mat {K} k.
Arguments WIdle {K}. Arguments WDone {K}. Arguments WBusy {K}.
