(* C10: the observables of the correspondence, the model's prediction, and the property's boolean
   form on an observed output. *)
From Coq Require Import List NArith ZArith Bool Arith.
From RareV Require Import Base.Hex Base.Res Base.Num Model.Tmpl Model.Funcs Model.Eff Model.Optimize Model.FuncFile.
Import ListNotations.

(* input: a functions file (may be empty), a template, contexts (match groups, named keys);
   [timed]: the template uses {time now/live/delta}: only "does the value change with the clock" is observed *)
Record cin := mkIn {
  i_funcs : bytes; i_tmpl : bytes; i_ctxs : list (list bytes * list (bytes * bytes)); i_timed : bool }.

(* per context: output of the optimising builder, of the plain builder, of the template with every
   funcs-file call replaced by its substituted body (optimising builder); and for both builders
   whether any context look-up happened.
   timed cases: the three outputs are empty and the two flags say whether the value changed between
   two evaluations a clock tick apart (optimising, plain) *)
Record row := mkRow { r_opt : bytes; r_plain : bytes; r_inl : bytes; r_lopt : bool; r_lplain : bool }.
(* registered user functions (sorted, distinct), loader error count, rows, concurrent = sequential.
   None: the implementation panicked or did not finish *)
Definition obs := option (list bytes * nat * list row * bool).

Definition c0 : Z := 1000%Z.          (* the clock when everything is compiled *)
Definition clk1 : Z := 1005%Z.        (* first evaluation *)
Definition clk2 : Z := 1007%Z.        (* second evaluation (timed cases) *)

Fixpoint list_ltb (a b : bytes) : bool :=
  match a, b with
  | _, [] => false
  | [], _ :: _ => true
  | x :: a', y :: b' => (x <? y)%N || ((x =? y)%N && list_ltb a' b')
  end.
Fixpoint insert_sorted (x : bytes) (l : list bytes) : list bytes :=
  match l with
  | [] => [x]
  | y :: r => if bytes_eqb x y then l
              else if list_ltb x y then x :: l else y :: insert_sorted x r
  end.
Definition user_names (bodies : list (bytes * tmpl)) : list bytes :=
  fold_right insert_sorted [] (map fst bodies).

Definition looked (n : nat) : bool := negb (n =? 0)%nat.

Definition model (i : cin) : obs :=
  let '(E, bodies, nerr) := load_file c0 (i_funcs i) in
  match compile (fenv_of true c0 E) (i_tmpl i), compile (fenv_of false c0 E) (i_tmpl i) with
  | Ok (t, _), Ok (t', _) =>
      let so := eval_tmpl true c0 E t in
      let sp := eval_tmpl false c0 E t' in
      let si := eval_tmpl true c0 E (inline_tmpl E bodies t) in
      let rows :=
        map (fun cx =>
               let c := ctx_of (fst cx) (snd cx) in
               if i_timed i then
                 mkRow [] [] []
                   (negb (bytes_eqb (fst (run so c clk1)) (fst (run so c clk2))))
                   (negb (bytes_eqb (fst (run sp c clk1)) (fst (run sp c clk2))))
               else
                 let ro := run so c clk1 in
                 let rp := run sp c clk1 in
                 mkRow (fst ro) (fst rp) (fst (run si c clk1)) (looked (snd ro)) (looked (snd rp)))
            (i_ctxs i) in
      Some (user_names bodies, nerr, rows, true)
  | _, _ => None
  end.

Definition row_eqb (a b : row) : bool :=
  bytes_eqb (r_opt a) (r_opt b) && bytes_eqb (r_plain a) (r_plain b) && bytes_eqb (r_inl a) (r_inl b)
  && Bool.eqb (r_lopt a) (r_lopt b) && Bool.eqb (r_lplain a) (r_lplain b).
Definition obs_eqb (a b : obs) : bool :=
  match a, b with
  | Some (n1, e1, r1, c1), Some (n2, e2, r2, c2) =>
      list_eqb bytes_eqb n1 n2 && (e1 =? e2)%nat && list_eqb row_eqb r1 r2 && Bool.eqb c1 c2
  | None, None => true
  | _, _ => false
  end.

(* The property on an observed output: no crash; in every context the optimising and the plain
   builder give the same string (timed: the same "changes with the clock" verdict - a live value is
   not frozen, a constant does not start to move); the call equals its substituted body; concurrent
   evaluation gave what sequential evaluation gave. *)
Definition row_ok (timed : bool) (r : row) : bool :=
  if timed then Bool.eqb (r_lopt r) (r_lplain r)
  else bytes_eqb (r_opt r) (r_plain r) && bytes_eqb (r_inl r) (r_opt r).
Definition C10_check (i : cin) (o : obs) : bool :=
  match o with
  | None => false
  | Some (_, _, rows, conc) =>
      conc && (length rows =? length (i_ctxs i))%nat && forallb (row_ok (i_timed i)) rows
  end.

(* ---- cases without a model prediction ----
   (helpers that are not modelled; the `rare` binary with global switches and --funcs): the observed
   output is a list of groups of strings, each group being the outputs that the property says are equal
   (optimising builder / plain builder [/ inlined body]) for one input.  A crashed or failed run is
   recorded by the harness as a distinguished string, so it breaks the equality. *)
Definition all_eq (g : list bytes) : bool :=
  match g with
  | [] => false
  | x :: r => forallb (bytes_eqb x) r
  end.
Definition C10_eq_check (groups : list (list bytes)) : bool :=
  match groups with [] => false | _ => forallb all_eq groups end.
