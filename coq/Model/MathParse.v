(* C19 — model of pkg/expressions/stdmath/parser.go: compileTokens / getNextExpr / the operator
   loop (precedence climbing against ops.go orderOfOps via opCodeOrder), as three mutually
   recursive functions on one fuel.  Generic in the atom, modifier and operator types and in the
   precedence table; instantiated with Gen/GenMathOps.v at the end.

   Repair modelled (defect C19-unary-no-operand, fixes/C19-unary-no-operand.patch):
   getNextExpr on an empty token list returns ErrUnexpectedEnd; the unrepaired code indexes
   s.next[0] and panics. [next_expr] takes the flag [repaired]; everything is stated for [true],
   the panic of the code as it stands is exhibited with [false].

   Simplification (simplify.go) is applied by compileTokens while it builds the tree; it never
   influences a parsing decision (those look at tokens only), so the model separates the syntax
   tree built here ([ast], which keeps groups and implied multiplications visible) from the
   folding pass in Model/MathEval.v ([to_expr]), which calls [simplify] at the same places. *)
From Coq Require Import List Arith Bool ZArith.
From RareV Require Import Base.Res.
Import ListNotations.

Section Parser.
Variables A M Op : Type.
Variable oeqb : Op -> Op -> bool.
Variable tbl : list (list Op).       (* orderOfOps: tightest level first *)
Variable isop : Op -> bool.          (* key of the map ops *)
Variable mulop : Op.                 (* "*": the operator of an implied multiplication *)
Variable repaired : bool.

Inductive tok := TAtom (a : A) | TOp (o : Op) | TMod (m : M) | TGroup (g : list tok).
Inductive ast := Atom (a : A) | Un (m : M) (e : ast) | Bin (o : Op) (imp : bool) (l r : ast) | Grp (e : ast).

(* POk t rest | PErr: a compile error | PFuel: model fuel exhausted | PPanic: Go panics *)
Inductive pres := POk (t : ast) (r : list tok) | PErr | PFuel | PPanic.

Fixpoint omem (x : Op) (l : list Op) : bool :=
  match l with [] => false | y :: r => oeqb x y || omem x r end.

(* ops.go opCodeOrder(op0, op1): -1 / 0 / 1, panic("op not found") when neither is in the table;
   op0 = "" (no enclosing operator) is [None] *)
Fixpoint order_go (t : list (list Op)) (op0 : option Op) (op1 : Op) : result Z :=
  match t with
  | [] => Panic
  | s :: rest =>
      let has0 := match op0 with Some a => omem a s | None => false end in
      let has1 := omem op1 s in
      if has0 && has1 then Ok 0%Z
      else if has0 then Ok (-1)%Z
      else if has1 then Ok 1%Z
      else order_go rest op0 op1
  end.

(* compileTokens returns ret when opCodeOrder(last, peek) is -1 or 0 *)
Definition stopsR (last : option Op) (o : Op) : result bool :=
  match order_go tbl last o with Ok z => Ok (z <=? 0)%Z | Panic => Panic end.

Fixpoint parse (fuel : nat) (last : option Op) (ts : list tok) {struct fuel} : pres :=
  match fuel with O => PFuel | S f =>
    match ts with
    | [] => PErr                                   (* ErrUnexpectedEnd *)
    | _ => match next_expr f ts with
           | POk e r => loop f last e r
           | x => x
           end
    end
  end
with next_expr (fuel : nat) (ts : list tok) {struct fuel} : pres :=
  match fuel with O => PFuel | S f =>
    match ts with
    | TAtom a :: r => POk (Atom a) r
    | TGroup g :: r =>                             (* compileToken: Compile(group text) *)
        match parse f None g with
        | POk e [] => POk (Grp e) r
        | POk _ (_ :: _) => PErr                   (* unreachable: with last = None the loop only ends at the end *)
        | x => x
        end
    | TMod m :: r => match next_expr f r with POk e r' => POk (Un m e) r' | x => x end
    | TOp _ :: _ => PErr                           (* ErrExpectedExpression *)
    | [] => if repaired then PErr else PPanic      (* s.pop() on an empty list *)
    end
  end
with loop (fuel : nat) (last : option Op) (ret : ast) (ts : list tok) {struct fuel} : pres :=
  match fuel with O => PFuel | S f =>
    match ts with
    | [] => POk ret []
    | TOp o :: rest =>
        if negb (isop o) then PErr                 (* ErrUnknownOperation *)
        else match stopsR last o with
        | Panic => PPanic
        | Ok true => POk ret ts
        | Ok false =>
            match parse f (Some o) rest with
            | POk e r' => loop f last (Bin o false ret e) r'
            | x => x
            end
        end
    | TGroup _ :: _ =>                             (* implied multiplication: the group is not consumed here *)
        match stopsR last mulop with
        | Panic => PPanic
        | Ok true => POk ret ts
        | Ok false =>
            match parse f (Some mulop) ts with
            | POk e r' => loop f last (Bin mulop true ret e) r'
            | x => x
            end
        end
    | _ => PErr                                    (* ErrExpectedOperation *)
    end
  end.

(* the token sequence a tree was read from *)
Fixpoint inorder (t : ast) : list tok :=
  match t with
  | Atom a => [TAtom a] | Un m e => TMod m :: inorder e | Grp e => [TGroup (inorder e)]
  | Bin o imp l r => inorder l ++ (if imp then [] else [TOp o]) ++ inorder r
  end.

(* ---- the order of operations, declaratively ---- *)
(* level of an operator = index of the first level that contains it (length tbl if none) *)
Fixpoint lvl_in (t : list (list Op)) (o : Op) : nat :=
  match t with [] => 0 | s :: rest => if omem o s then 0 else S (lvl_in rest o) end.
Definition lvl (o : Op) : nat := lvl_in tbl o.
Definition in_tbl (o : Op) : Prop := lvl o < length tbl.

Definition le_root (t : ast) (n : nat) := match t with Bin o _ _ _ => lvl o <= n | _ => True end.
Definition lt_root (t : ast) (n : nat) := match t with Bin o _ _ _ => lvl o < n | _ => True end.
Definition primary (t : ast) := match t with Bin _ _ _ _ => False | _ => True end.
Definition starts_group (t : ast) := match inorder t with TGroup _ :: _ => True | _ => False end.

(* well_prec: an ungrouped left operand binds at least as tightly as its parent (equal levels
   associate to the left), an ungrouped right operand strictly tighter (higher levels first);
   a unary modifier applies to the next primary only; groups are opaque (parentheses first);
   an implied multiplication is a "*" whose right operand starts with a group. *)
Fixpoint wp (t : ast) : Prop :=
  match t with
  | Atom _ => True | Grp e => wp e | Un _ e => primary e /\ wp e
  | Bin o imp l r => wp l /\ wp r /\ le_root l (lvl o) /\ lt_root r (lvl o) /\
                     (imp = true -> o = mulop /\ starts_group r)
  end.

(* every operator of the tree is a key of ops and has a level *)
Fixpoint ops_in (t : ast) : Prop :=
  match t with
  | Atom _ => True | Grp e => ops_in e | Un _ e => ops_in e
  | Bin o imp l r => (imp = false -> isop o = true) /\ in_tbl o /\ ops_in l /\ ops_in r
  end.

Fixpoint cost (t : ast) : nat :=
  match t with Atom _ => 2 | Un _ e => S (S (cost e)) | Grp e => S (S (S (cost e))) | Bin _ _ l r => cost l + cost r + 2 end.

(* size of a token list (groups count their content); 4 * size + 3 is always enough fuel
   (Proofs/MathParseProof.v fuel_enough, cost_le) *)
Fixpoint toksize (t : tok) : nat :=
  match t with
  | TGroup g => S ((fix go (l : list tok) : nat := match l with [] => 0 | x :: r => toksize x + go r end) g)
  | _ => 1
  end.
Fixpoint tsize (ts : list tok) : nat :=
  match ts with [] => 0 | t :: r => toksize t + tsize r end.
Lemma toksize_group g : toksize (TGroup g) = S (tsize g).
Proof. reflexivity. Qed.
Definition fuel_for (ts : list tok) : nat := 4 * tsize ts + 3.

(* Compile on a token list: compileTokens("") must consume everything *)
Definition parse_top (ts : list tok) : pres := parse (fuel_for ts) None ts.

End Parser.

Arguments TAtom {A M Op} a.
Arguments TOp {A M Op} o.
Arguments TMod {A M Op} m.
Arguments TGroup {A M Op} g.
Arguments Atom {A M Op} a.
Arguments Un {A M Op} m e.
Arguments Bin {A M Op} o imp l r.
Arguments Grp {A M Op} e.
Arguments POk {A M Op} t r.
Arguments PErr {A M Op}.
Arguments PFuel {A M Op}.
Arguments PPanic {A M Op}.
