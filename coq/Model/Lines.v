(* Model of pkg/readahead/immediate.go (ImmediateReadAhead.Scan) and the line specification. *)
From Coq Require Import List NArith ZArith Lia Bool Arith.
From RareV Require Import Base.Hex.
Import ListNotations.

Definition NL : byte := 10%N.
Definition CR : byte := 13%N.

Inductive rerr := RNil | REof | RErr.
Definition script := list (nat * rerr).

(* first index of NL in l *)
Fixpoint index_nl (l : list byte) : option nat :=
  match l with
  | [] => None
  | b :: r => if N.eqb b NL then Some O else option_map S (index_nl r)
  end.

Definition drop_cr (l : list byte) : list byte :=
  match rev l with
  | b :: r => if N.eqb b CR then rev r else l
  | [] => l
  end.

(* ---------- specification ---------- *)
Fixpoint lines_spec_aux (acc : list byte) (s : list byte) : list (list byte) :=
  match s with
  | [] => match acc with [] => [] | _ => [rev acc] end
  | b :: r => if N.eqb b NL then drop_cr (rev acc) :: lines_spec_aux [] r
              else lines_spec_aux (b :: acc) r
  end.
Definition lines_spec (s : list byte) := lines_spec_aux [] s.

(* ---------- model of ImmediateReadAhead ---------- *)
(* heap: list of blocks, newest LAST; a block is a full-capacity byte list (zeros beyond end) *)
Record st := mk {
  heap : list (list byte);
  offset : nat; end_ : nat; eof : bool; nerr : nat;
  bufSize : nat;
  sc : script; stream : list byte;
  reads_after_err : nat;
  del : list byte          (* ghost: every byte handed over by the reader so far *)
}.

Definition cur (s : st) : list byte := last (heap s) [].
Definition set_cur (h : list (list byte)) (b : list byte) := removelast h ++ [b].
Definition slice (l : list byte) (lo hi : nat) := firstn (hi - lo) (skipn lo l).
Definition write_at (l : list byte) (pos : nat) (d : list byte) :=
  firstn pos l ++ d ++ skipn (pos + length d) l.

Definition token := (nat * nat * nat)%type. (* block index, lo, hi *)
Definition read_tok (h : list (list byte)) (t : token) : list byte :=
  let '(b, lo, hi) := t in slice (nth b h []) lo hi.

Definition tok_dropcr (s : st) (lo hi : nat) : token :=
  let c := cur s in
  if andb (lo <? hi) (N.eqb (nth (hi - 1) c 0%N) CR) then (length (heap s) - 1, lo, hi - 1)
  else (length (heap s) - 1, lo, hi).

(* entry part: returns Some(result) if decided, None => go to read loop *)
Definition entry (s : st) : option (option token * st) :=
  if offset s <? end_ s then
    match index_nl (slice (cur s) (offset s) (end_ s)) with
    | Some eol =>
        Some (Some (tok_dropcr s (offset s) (offset s + eol)),
              mk (heap s) (offset s + eol + 1) (end_ s) (eof s) (nerr s) (bufSize s) (sc s) (stream s) (reads_after_err s) (del s))
    | None =>
        if eof s then
          Some (Some (length (heap s) - 1, offset s, end_ s),
                mk (heap s) (end_ s) (end_ s) (eof s) (nerr s) (bufSize s) (sc s) (stream s) (reads_after_err s) (del s))
        else None
    end
  else if eof s then Some (None, s) else None.

Definition grow (s : st) : st :=
  if length (cur s) <=? end_ s then
    let nb := slice (cur s) (offset s) (end_ s) ++ repeat 0%N (bufSize s) in
    mk (heap s ++ [nb]) 0 (end_ s - offset s) (eof s) (nerr s) (bufSize s) (sc s) (stream s) (reads_after_err s) (del s)
  else s.

(* one Read call: consumes one script entry (or synthesises (0,EOF) when script is empty) *)
Definition do_read (s : st) : (nat * rerr * st) :=
  let cap := length (cur s) - end_ s in
  let '(want, e, rest) := match sc s with [] => (0, REof, []) | (n, e) :: r => (n, e, r) end in
  let n := Nat.min want (Nat.min cap (length (stream s))) in
  let d := firstn n (stream s) in
  (n, e, mk (set_cur (heap s) (write_at (cur s) (end_ s) d)) (offset s) (end_ s + n) (eof s) (nerr s)
            (bufSize s) rest (skipn n (stream s))
            (reads_after_err s + (if eof s then 1 else 0)) (del s ++ d)).

(* read loop, structurally recursive on fuel (= length of script + 1 suffices) *)
Fixpoint read_loop (fuel : nat) (s : st) : option (option token * st) :=
  match fuel with
  | O => None  (* out of fuel: reader returns (0,nil) forever; excluded by theorem *)
  | S fuel =>
    let s := grow s in
    let '(n, e, s) := do_read s in
    match e with
    | RNil =>
        match index_nl (slice (cur s) (end_ s - n) (end_ s)) with
        | Some eol =>
            let e_ := end_ s - n + eol in
            Some (Some (tok_dropcr s (offset s) e_),
                  mk (heap s) (e_ + 1) (end_ s) (eof s) (nerr s) (bufSize s) (sc s) (stream s) (reads_after_err s) (del s))
        | None => read_loop fuel s
        end
    | _ =>
        let s' := mk (heap s) (offset s) (end_ s) true (nerr s + match e with RErr => 1 | _ => 0 end)
                     (bufSize s) (sc s) (stream s) (reads_after_err s) (del s) in
        entry s'   (* goto RESTART: with eof set, entry always decides *)
    end
  end.

Definition scan (s : st) : option (option token * st) :=
  match entry s with
  | Some r => Some r
  | None => read_loop (S (length (sc s))) s
  end.

Definition init (bs : nat) (scr : script) (str : list byte) : st :=
  mk [repeat 0%N bs] 0 0 false 0 bs scr str 0 [].

(* scan everything; returns tokens' contents AT RETURN TIME, the tokens, final state *)
Fixpoint scan_all (fuel : nat) (s : st) (acc : list (token * list byte)) : option (list (token * list byte) * st) :=
  match fuel with
  | O => None
  | S fuel =>
    match scan s with
    | None => None
    | Some (None, s') => Some (rev acc, s')
    | Some (Some t, s') => scan_all fuel s' ((t, read_tok (heap s') t) :: acc)
    end
  end.

(* observables of one complete scan of a scripted reader *)
Record obs := mkobs {
  o_ret : list (list byte);   (* token contents when handed out *)
  o_end : list (list byte);   (* the same slices re-read after the scan finished *)
  o_nerr : nat;               (* OnError callbacks *)
  o_rae : nat;                (* Read calls issued after the terminating error/EOF *)
  o_del : list byte           (* bytes the reader handed over (up to and including the terminating read) *)
}.

Definition run bs scr str : option obs :=
  match scan_all (S (S (length str))) (init bs scr str) [] with
  | Some (toks, s) =>
      Some (mkobs (map snd toks) (map (fun tc => read_tok (heap s) (fst tc)) toks)
                  (nerr s) (reads_after_err s) (del s))
  | None => None
  end.

(* what the reader's script announces: the kind of the first non-nil result (EOF when the script runs out) *)
Fixpoint first_term (scr : script) : rerr :=
  match scr with
  | [] => REof
  | (_, RNil) :: r => first_term r
  | (_, e) :: _ => e
  end.
Definition expected_nerr (scr : script) : nat := match first_term scr with RErr => 1 | _ => 0 end.

(* The property in boolean form, evaluated on an observed output. *)
Definition lines_eqb := list_eqb bytes_eqb.
Definition C04_check (bs : nat) (scr : script) (o : obs) : bool :=
  lines_eqb (o_ret o) (lines_spec (o_del o)) && lines_eqb (o_end o) (o_ret o) &&
  Nat.eqb (o_nerr o) (expected_nerr scr) && Nat.eqb (o_rae o) 0.
Definition obs_eqb (a b : obs) : bool :=
  lines_eqb (o_ret a) (o_ret b) && lines_eqb (o_end a) (o_end b) &&
  Nat.eqb (o_nerr a) (o_nerr b) && Nat.eqb (o_rae a) (o_rae b) && bytes_eqb (o_del a) (o_del b).

(* linear-time versions used when evaluating long streams (List.rev is quadratic) *)
Definition drop_cr_fast (racc : list byte) : list byte :=   (* takes the REVERSED line *)
  match racc with
  | b :: r => if N.eqb b CR then rev_append r [] else rev_append racc []
  | [] => []
  end.
Fixpoint lines_fast_aux (acc : list byte) (s : list byte) : list (list byte) :=
  match s with
  | [] => match acc with [] => [] | _ => [rev_append acc []] end
  | b :: r => if N.eqb b NL then drop_cr_fast acc :: lines_fast_aux [] r
              else lines_fast_aux (b :: acc) r
  end.
Definition lines_fast (s : list byte) := lines_fast_aux [] s.
