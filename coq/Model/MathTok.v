(* C19 — character-level model of pkg/expressions/stdmath/tokenizer.go (tokenizeExpr) and of the
   literal compiler parser.go compileToken (strconv.Atoi / ParseInt(s,0,64) / ParseFloat(s,64)
   grammars, variable names).  Byte strings are [list N]; the operator tables come from the
   translator (Gen/GenMathOps.v).

   Groups: the Go tokenizer keeps the text of a parenthesised group (blanks removed) and
   compileToken re-enters Compile on it.  The model tokenizes groups eagerly ([tokenize]), so a
   token list is a finite tree ([TGroup (list tok)]).  The only observable difference is WHICH
   compile error is reported when there are several; the correspondence compares error/no error. *)
From Coq Require Import List NArith ZArith Bool.
From RareV Require Import Base.Hex Base.Num Gen.GenMathOps Model.MathParse.
Import ListNotations.
Local Open Scope N_scope.

(* ---------------------------------------------------------------- outcomes *)
(* OErr: a Go compile error; OFuel: the model ran out of fuel (never a Go behaviour; excluded by
   theorems); OPanic: a Go run-time panic. *)
Inductive out (A : Type) := OOk (a : A) | OErr | OFuel | OPanic.
Arguments OOk {A} a.
Arguments OErr {A}.
Arguments OFuel {A}.
Arguments OPanic {A}.

Definition obind {A B} (r : out A) (f : A -> out B) : out B :=
  match r with OOk a => f a | OErr => OErr | OFuel => OFuel | OPanic => OPanic end.

(* ---------------------------------------------------------------- tables *)
Fixpoint bmem (x : bytes) (l : list bytes) : bool :=
  match l with [] => false | y :: r => bytes_eqb x y || bmem x r end.

Definition is_binop (o : bytes) : bool := bmem o binOpKeys.   (* _, ok := ops[OpCode(o)] *)
Definition is_uniop (m : bytes) : bool := bmem m uniOpKeys.   (* _, ok := uniOps[OpCode(m)] *)

(* ops.go prefixInOps: longest prefix of at most maxLen = 2 bytes that is a key of ops *)
Definition prefix_op (s : bytes) : option bytes :=
  match s with
  | a :: b :: _ => if is_binop [a; b] then Some [a; b] else if is_binop [a] then Some [a] else None
  | [a] => if is_binop [a] then Some [a] else None
  | [] => None
  end.

(* ---------------------------------------------------------------- flat tokenizer *)
Inductive rtok := RLit (s : bytes) | RGroup (s : bytes) | ROp (o : bytes) | RMod (m : bytes).

Definition LP : N := 40.
Definition RP : N := 41.
Definition SPC : N := 32.

(* state: tokens so far (reversed), builder (reversed), open parentheses, bytes still to skip
   (the `i += len(opCode) - 1` of a two-byte operator) *)
Record tstate := mkT { t_ret : list rtok; t_sb : bytes; t_par : nat; t_skip : nat }.

Definition last_is_op (ret : list rtok) : bool :=
  match ret with ROp _ :: _ => true | _ => false end.
Definition is_nil {A} (l : list A) : bool := match l with [] => true | _ => false end.

(* one iteration of the for loop at byte r, where s = r :: rest is s[i:]; None = ErrTokenizerOverclosed *)
Definition tok_step (st : tstate) (r : N) (s : bytes) : option tstate :=
  let '(mkT ret sb par skip) := st in
  match skip with
  | S k => Some (mkT ret sb par k)
  | O =>
    if (r =? LP) && negb (Nat.eqb par 0) then Some (mkT ret (LP :: sb) (S par) 0)
    else if (r =? LP) && negb (is_nil sb) then
      let prev := rev sb in
      Some (mkT ((if is_uniop prev then RMod prev else RLit prev) :: ret) [] (S par) 0)
    else if r =? LP then Some (mkT ret sb (S par) 0)
    else if r =? RP then
      match par with
      | O => None
      | S O => Some (mkT (RGroup (rev sb) :: ret) [] 0 0)
      | S p => Some (mkT ret (RP :: sb) p 0)
      end
    else if r =? SPC then Some st
    else if Nat.eqb par 0 && is_nil sb && (is_nil ret || last_is_op ret) && is_uniop [r] then
      Some (mkT (RMod [r] :: ret) sb par 0)
    else match (if Nat.eqb par 0 then prefix_op s else None) with
         | Some op =>
             let ret1 := if is_nil sb then ret else RLit (rev sb) :: ret in
             Some (mkT (ROp op :: ret1) [] par (length op - 1))
         | None => Some (mkT ret (r :: sb) par 0)
         end
  end.

Fixpoint tok_loop (s : bytes) (st : tstate) : option tstate :=
  match s with
  | [] => Some st
  | r :: rest => match tok_step st r s with Some st' => tok_loop rest st' | None => None end
  end.

(* tokenizeExpr; None = ErrTokenizerOverclosed / ErrTokenizerUnclosed *)
Definition tokenize_flat (s : bytes) : option (list rtok) :=
  match tok_loop s (mkT [] [] 0 0) with
  | None => None
  | Some (mkT ret sb par _) =>
      match par with
      | S _ => None
      | O => Some (rev (if is_nil sb then ret else RLit (rev sb) :: ret))
      end
  end.

(* ---------------------------------------------------------------- literals *)
(* a numeric constant, exactly: CInt z | m * 10^e | m * 2^e | +Inf | NaN; the conversion to float64
   is Go's (strconv, correctly rounded) and enters the evaluation model as a parameter *)
Inductive const := CInt (z : Z) | CDec (m e : Z) | CBin (m e : Z) | CInf | CNaN.
Inductive atom := AVal (c : const) | AIdx (i : Z) | ANamed (n : bytes).

Definition lower (c : N) : N := N.lor c 32.
Definition is_letter (c : N) : bool := (97 <=? lower c) && (lower c <=? 122).
Definition US : N := 95. (* '_' *)

(* digit value as in ParseUint: 0-9, a-z / A-Z -> 10.. ; None = not a digit/letter *)
Definition digit_val (c : N) : option N :=
  if is_digit c then Some (c - 48)
  else if is_letter c then Some (lower c - 97 + 10)
  else None.

(* strconv underscoreOK *)
Inductive saw := SawStart | SawDigit | SawUnder | SawOther.
Fixpoint uok_loop (hex : bool) (sw : saw) (s : bytes) : bool :=
  match s with
  | [] => match sw with SawUnder => false | _ => true end
  | c :: r =>
      if is_digit c || (hex && (97 <=? lower c) && (lower c <=? 102)) then uok_loop hex SawDigit r
      else if c =? US then
        match sw with SawDigit => uok_loop hex SawUnder r | _ => false end
      else match sw with SawUnder => false | _ => uok_loop hex SawOther r end
  end.
Definition underscore_ok (s : bytes) : bool :=
  let s := match s with c :: r => if (c =? 45) || (c =? 43) then r else s | [] => s end in
  match s with
  | 48 :: p :: r =>
      if (lower p =? 98) || (lower p =? 111) || (lower p =? 120)
      then uok_loop (lower p =? 120) SawDigit r
      else uok_loop false SawStart s
  | _ => uok_loop false SawStart s
  end.

(* digit loop of ParseUint with base0 = true: value (unbounded), whether an underscore was seen *)
Fixpoint uint_loop (base : N) (acc : N) (und : bool) (s : bytes) : option (N * bool) :=
  match s with
  | [] => Some (acc, und)
  | c :: r =>
      if c =? US then uint_loop base acc true r
      else match digit_val c with
           | Some d => if d <? base then uint_loop base (acc * base + d) und r else None
           | None => None
           end
  end.

(* strconv.ParseInt(s, 0, 64) for s without a sign (a literal token never contains + or -:
   both are operators); None = any error (syntax or range) *)
Definition parse_int0 (s : bytes) : option Z :=
  match s with
  | [] => None
  | c0 :: r0 =>
      let '(base, body) :=
        if c0 =? 48 then
          match r0 with
          | p :: (_ :: _) as body =>
              if lower p =? 98 then (2, body)
              else if lower p =? 111 then (8, body)
              else if lower p =? 120 then (16, body)
              else (8, r0)
          | _ => (8, r0)
          end
        else (10, s) in
      match uint_loop base 0 false body with
      | None => None
      | Some (n, und) =>
          if und && negb (underscore_ok s) then None
          else if (Z.of_N n <=? max_int64)%Z then Some (Z.of_N n) else None
      end
  end.

(* strconv readFloat without sign. mantissa loop: digits (and a-f when hex), '_' and one '.' *)
Definition is_hexletter (c : N) : bool := (97 <=? lower c) && (lower c <=? 102).

(* returns (mantissa, digits after the dot, sawdigits, sawdot, underscores, rest) *)
Fixpoint mant_loop (hex : bool) (m : N) (nfrac : N) (sawdig sawdot und : bool) (s : bytes)
  : (N * N * bool * bool * bool * bytes) :=
  match s with
  | [] => (m, nfrac, sawdig, sawdot, und, [])
  | c :: r =>
      if c =? US then mant_loop hex m nfrac sawdig sawdot true r
      else if c =? 46 then
        if sawdot then (m, nfrac, sawdig, sawdot, und, s)
        else mant_loop hex m nfrac sawdig true und r
      else if is_digit c then
        mant_loop hex (m * (if hex then 16 else 10) + (c - 48)) (if sawdot then nfrac + 1 else nfrac) true sawdot und r
      else if hex && is_hexletter c then
        mant_loop hex (m * 16 + (lower c - 97 + 10)) (if sawdot then nfrac + 1 else nfrac) true sawdot und r
      else (m, nfrac, sawdig, sawdot, und, s)
  end.

(* exponent digits: [0-9_]*, value, underscores seen, rest *)
Fixpoint exp_loop (e : N) (und : bool) (s : bytes) : (N * bool * bytes) :=
  match s with
  | c :: r =>
      if c =? US then exp_loop e true r
      else if is_digit c then exp_loop (e * 10 + (c - 48)) und r
      else (e, und, s)
  | [] => (e, und, [])
  end.

Definition max_float_threshold : Z := (2 ^ 1024 - 2 ^ 970)%Z.  (* values >= this round to +Inf: ErrRange *)

(* is num/den (den > 0) below the overflow threshold? *)
Definition fin_ok (num den : Z) : bool := (num <? den * max_float_threshold)%Z.

Definition take_len (s rest : bytes) : bytes := firstn (length s - length rest) s.

(* strconv.ParseFloat(s, 64) for s without sign; None = any error (syntax or range) *)
Definition parse_float (s : bytes) : option const :=
  let ls := map lower s in
  if bytes_eqb ls [105;110;102] || bytes_eqb ls [105;110;102;105;110;105;116;121] then Some CInf
  else if bytes_eqb ls [110;97;110] then Some CNaN
  else
    let '(hex, body) :=
      match s with
      | 48 :: p :: (_ :: _) as b => if lower p =? 120 then (true, b) else (false, s)
      | _ => (false, s)
      end in
    let '(m, nfrac, sawdig, _, und, rest) := mant_loop hex 0 0 false false false body in
    if negb sawdig then None
    else
      let expchar := if hex then 112 else 101 in
      let after :=   (* Some (exponent, underscores, rest) | None = malformed *)
        match rest with
        | c :: r =>
            if lower c =? expchar then
              match r with
              | d :: _ => if is_digit d then let '(e, u, r') := exp_loop 0 false r in Some (Some e, u, r') else None
              | [] => None
              end
            else if hex then None else Some (None, false, rest)
        | [] => if hex then None else Some (None, false, rest)
        end in
      match after with
      | None => None
      | Some (eo, und2, rest2) =>
          if (und || und2) && negb (underscore_ok (take_len s rest2)) then None
          else if negb (is_nil rest2) then None
          else
            let e := match eo with Some e => e | None => 0 end in
            if m =? 0 then Some (CDec 0 0)
            else if hex then
              if 1100 <? e then None
              else
                let ex := (Z.of_N e - 4 * Z.of_N nfrac)%Z in
                let ok := if (0 <=? ex)%Z then fin_ok (Z.of_N m * 2 ^ ex) 1
                          else fin_ok (Z.of_N m) (2 ^ (- ex)) in
                if ok then Some (CBin (Z.of_N m) ex) else None
            else
              if 400 <? e then None
              else
                let ex := (Z.of_N e - Z.of_N nfrac)%Z in
                let ok := if (0 <=? ex)%Z then fin_ok (Z.of_N m * 10 ^ ex) 1
                          else fin_ok (Z.of_N m) (10 ^ (- ex)) in
                if ok then Some (CDec (Z.of_N m) ex) else None
      end.

(* parser.go isBoxed / validVariableName ((?i)^[a-z][a-z0-9]*$) *)
Definition is_boxed (s : bytes) : option bytes :=
  match s with
  | 91 :: r => match rev r with 93 :: ri => Some (rev ri) | _ => None end
  | _ => None
  end.
Definition valid_var (s : bytes) : bool :=
  match s with
  | c :: r => is_letter c && forallb (fun x => is_letter x || is_digit x) r
  | [] => false
  end.

(* parser.go compileToken on a typeLiteral token; None = ErrTokenizerNumeric *)
Definition compile_lit (s : bytes) : option atom :=
  match is_boxed s with
  | Some inner => match atoi inner with Some i => Some (AIdx i) | None => Some (ANamed inner) end
  | None =>
      match parse_int0 s with
      | Some z => Some (AVal (CInt z))
      | None =>
          match parse_float s with
          | Some c => Some (AVal c)
          | None => if valid_var s then Some (ANamed s) else None
          end
      end
  end.

(* ---------------------------------------------------------------- deep tokenizer *)
(* tokens: atoms are compiled literals, modifiers and operators are their source text *)
Definition mtok := tok atom bytes bytes.

Fixpoint omap {A B} (f : A -> out B) (l : list A) : out (list B) :=
  match l with
  | [] => OOk []
  | x :: r => obind (f x) (fun y => obind (omap f r) (fun ys => OOk (y :: ys)))
  end.

(* fuel bounds the nesting depth of groups; length s + 1 always suffices (an inner text is
   shorter than the text that contains it) *)
Fixpoint tokenize_f (fuel : nat) (s : bytes) : out (list mtok) :=
  match fuel with
  | O => OFuel
  | S f =>
      match tokenize_flat s with
      | None => OErr
      | Some rts =>
          omap (fun rt => match rt with
                          | RLit l => match compile_lit l with Some a => OOk (TAtom a) | None => OErr end
                          | RGroup g => obind (tokenize_f f g) (fun ts => OOk (TGroup ts))
                          | ROp o => OOk (TOp o)
                          | RMod m => OOk (TMod m)
                          end) rts
      end
  end.
Definition tokenize (s : bytes) : out (list mtok) := tokenize_f (S (length s)) s.

(* every unary-operator token, at any nesting depth, is a key of uniOps (premise of C19_total;
   evaluated on every generated formula by the correspondence) *)
Fixpoint tok_mods_ok (t : mtok) : bool :=
  match t with
  | TMod m => is_uniop m
  | TGroup g => (fix go (l : list mtok) : bool := match l with [] => true | x :: r => tok_mods_ok x && go r end) g
  | _ => true
  end.
Fixpoint toks_mods_ok (ts : list mtok) : bool :=
  match ts with [] => true | x :: r => tok_mods_ok x && toks_mods_ok r end.

