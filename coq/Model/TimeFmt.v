(* C18 — Go layout strings: tokeniser (time.nextStdChunk), Time.Format (appendFormat) and time.Parse
   (parse) as used by pkg/expressions/stdlib/funcsTime.go through the named-format table and the
   bucket layouts (coq/Gen/GenTime.v). Formatting covers every std token; parsing covers the
   tokens of the tables (and a few more) — [parse_supported]; the rest makes [parse_toks] fail.
   Zone rules are not modelled: offsets / abbreviations / name look-ups are inputs. *)
From Coq Require Import List ZArith NArith Bool String.
From RareV Require Import Base.Hex Base.Num Model.Calendar Gen.GenTime.
Import ListNotations.
Local Open Scope Z_scope.

Definition s2b (s : string) : bytes := of_str s.

(* ------------------------------------------------------------------ tokens *)
Inductive tzstyle := ZHHMM | ZColon | ZShort | ZSecs | ZColonSecs.
Inductive tok :=
| TLit (l : bytes)
| TLongYear | TYear | TMonth | TLongMonth | TNumMonth | TZeroMonth
| TWeekDay | TLongWeekDay | TDay | TUnderDay | TZeroDay | TUnderYearDay | TZeroYearDay
| THour | THour12 | TZeroHour12 | TMinute | TZeroMinute | TSecond | TZeroSecond
| TPM | Tpm | TTZ
| TNumTZ (iso : bool) (s : tzstyle)        (* iso = the "Z07:00" family: prints/accepts Z for UTC *)
| TFrac (nine : bool) (n : N) (comma : bool)
| TBad.

Fixpoint strip_prefix (pat l : bytes) : option bytes :=
  match pat, l with
  | [], _ => Some l
  | p :: pr, c :: r => if (p =? c)%N then strip_prefix pr r else None
  | _ :: _, [] => None
  end.

Definition lower_first (l : bytes) : bool :=
  match l with c :: _ => (97 <=? c)%N && (c <=? 122)%N | [] => false end.
Definition digit_first (l : bytes) : bool :=
  match l with c :: _ => is_digit c | [] => false end.

Definition first_match (l : bytes) (cands : list (bytes * tok)) : option (bytes * tok * bytes) :=
  fold_right (fun c acc => match strip_prefix (fst c) l with
                           | Some r => Some ([], snd c, r)
                           | None => acc end) None cands.

Fixpoint span_eq (ch : N) (l : bytes) : N * bytes :=
  match l with
  | c :: r => if (c =? ch)%N then let '(n, r') := span_eq ch r in (N.succ n, r') else (0%N, l)
  | [] => (0%N, [])
  end.

(* a std token starting exactly at the head of l: (extra literal prefix, token, rest) *)
Definition std_at (l : bytes) : option (bytes * tok * bytes) :=
  match l with
  | [] => None
  | c :: r =>
    if (c =? 74)%N then (* J *)
      match strip_prefix (s2b "January") l with
      | Some s => Some ([], TLongMonth, s)
      | None => match strip_prefix (s2b "Jan") l with
                | Some s => if lower_first s then None else Some ([], TMonth, s)
                | None => None end
      end
    else if (c =? 77)%N then (* M *)
      match strip_prefix (s2b "Mon") l with
      | Some s => match strip_prefix (s2b "Monday") l with
                  | Some s' => Some ([], TLongWeekDay, s')
                  | None => if lower_first s then None else Some ([], TWeekDay, s)
                  end
      | None => first_match l [(s2b "MST", TTZ)]
      end
    else if (c =? 48)%N then (* 0 *)
      match r with
      | c2 :: r2 =>
          if (49 <=? c2)%N && (c2 <=? 54)%N then
            Some ([], nth (N.to_nat (c2 - 49)) [TZeroMonth; TZeroDay; TZeroHour12; TZeroMinute; TZeroSecond; TYear] TBad, r2)
          else first_match l [(s2b "002", TZeroYearDay)]
      | [] => None
      end
    else if (c =? 49)%N then (* 1 *)
      match first_match l [(s2b "15", THour)] with Some x => Some x | None => Some ([], TNumMonth, r) end
    else if (c =? 50)%N then (* 2 *)
      match first_match l [(s2b "2006", TLongYear)] with Some x => Some x | None => Some ([], TDay, r) end
    else if (c =? 95)%N then (* _ *)
      match r with
      | 50%N :: r2 => match strip_prefix (s2b "2006") r with
                      | Some s => Some ([95%N], TLongYear, s)
                      | None => Some ([], TUnderDay, r2) end
      | 95%N :: 50%N :: r3 => Some ([], TUnderYearDay, r3)
      | _ => None
      end
    else if (c =? 51)%N then Some ([], THour12, r)
    else if (c =? 52)%N then Some ([], TMinute, r)
    else if (c =? 53)%N then Some ([], TSecond, r)
    else if (c =? 80)%N then first_match l [(s2b "PM", TPM)]
    else if (c =? 112)%N then first_match l [(s2b "pm", Tpm)]
    else if (c =? 45)%N then
      first_match l [(s2b "-070000", TNumTZ false ZSecs); (s2b "-07:00:00", TNumTZ false ZColonSecs);
                     (s2b "-0700", TNumTZ false ZHHMM); (s2b "-07:00", TNumTZ false ZColon);
                     (s2b "-07", TNumTZ false ZShort)]
    else if (c =? 90)%N then
      first_match l [(s2b "Z070000", TNumTZ true ZSecs); (s2b "Z07:00:00", TNumTZ true ZColonSecs);
                     (s2b "Z0700", TNumTZ true ZHHMM); (s2b "Z07:00", TNumTZ true ZColon);
                     (s2b "Z07", TNumTZ true ZShort)]
    else if (c =? 46)%N || (c =? 44)%N then (* . , *)
      match r with
      | ch :: _ =>
          if (ch =? 48)%N || (ch =? 57)%N then
            let '(n, rest) := span_eq ch r in
            if digit_first rest then None else Some ([], TFrac (ch =? 57)%N n (c =? 44)%N, rest)
          else None
      | [] => None
      end
    else None
  end.

(* time.nextStdChunk: literal prefix, first std token (if any), suffix *)
Fixpoint next_chunk (acc l : bytes) : bytes * option tok * bytes :=
  match l with
  | [] => (rev acc, None, [])
  | c :: r => match std_at l with
              | Some (ex, tk, rest) => (rev acc ++ ex, Some tk, rest)
              | None => next_chunk (c :: acc) r
              end
  end.

(* the chunk loop shared by appendFormat and parse; every std token consumes at least one byte,
   so the fuel never runs out (TBad would make [parse_supported] false) *)
Fixpoint tokenize_fuel (fuel : nat) (l : bytes) : list tok :=
  match fuel with
  | O => [TBad]
  | S f => let '(pre, std, suf) := next_chunk [] l in
           let lit := match pre with [] => [] | _ => [TLit pre] end in
           match std with
           | None => lit
           | Some tk => lit ++ tk :: tokenize_fuel f suf
           end
  end.
Definition tokenize (l : bytes) : list tok := tokenize_fuel (S (List.length l)) l.

(* ------------------------------------------------------------------ formatting *)
(* time.appendInt: sign, zero padding to width, decimal digits *)
Definition append_int (x : Z) (w : nat) : bytes :=
  let ds := utoa (Z.abs_N x) in
  (if x <? 0 then [45%N] else []) ++ repeat 48%N (w - List.length ds) ++ ds.

Definition month_name (m : Z) : bytes := nth (Z.to_nat (m - 1)) go_longMonthNames [].
Definition day_name (w : Z) : bytes := nth (Z.to_nat w) go_longDayNames [].

Definition fmt_numtz (iso : bool) (s : tzstyle) (off : Z) : bytes :=
  if iso && (off =? 0) then [90%N] else
  let zone0 := Z.quot off 60 in
  let neg := zone0 <? 0 in
  let zone := if neg then - zone0 else zone0 in
  let absoff := if neg then - off else off in
  let colon := match s with ZColon | ZColonSecs => true | _ => false end in
  [if neg then 45%N else 43%N] ++ append_int (Z.quot zone 60) 2 ++
  (if colon then [58%N] else []) ++
  (match s with ZShort => [] | _ => append_int (Z.rem zone 60) 2 end) ++
  (match s with
   | ZSecs => append_int (Z.rem absoff 60) 2
   | ZColonSecs => 58%N :: append_int (Z.rem absoff 60) 2
   | _ => [] end).

Fixpoint strip_trailing_zeros (l : bytes) : bytes :=
  match l with
  | [] => []
  | c :: r => match strip_trailing_zeros r with
              | [] => if (c =? 48)%N then [] else [c]
              | r' => c :: r'
              end
  end.

(* time.appendNano *)
Definition fmt_frac (nine : bool) (n : N) (comma : bool) (nsec : Z) : bytes :=
  if nine && ((n =? 0)%N || (nsec =? 0)) then [] else
  let dot := if comma then 44%N else 46%N in
  let ds := firstn (N.to_nat n) (append_int nsec 9) in
  if nine then match strip_trailing_zeros ds with [] => [] | ds' => dot :: ds' end
  else dot :: ds.

Definition hour12 (h : Z) : Z := let r := Z.rem h 12 in if r =? 0 then 12 else r.

Definition fmt_tok (c : civil) (tk : tok) : bytes :=
  match tk with
  | TLit l => l
  | TLongYear => append_int (c_year c) 4
  | TYear => append_int (Z.rem (Z.abs (c_year c)) 100) 2
  | TMonth => firstn 3 (month_name (c_month c))
  | TLongMonth => month_name (c_month c)
  | TNumMonth => append_int (c_month c) 0
  | TZeroMonth => append_int (c_month c) 2
  | TWeekDay => firstn 3 (day_name (c_wday c))
  | TLongWeekDay => day_name (c_wday c)
  | TDay => append_int (c_day c) 0
  | TUnderDay => (if c_day c <? 10 then [32%N] else []) ++ append_int (c_day c) 0
  | TZeroDay => append_int (c_day c) 2
  | TUnderYearDay => (if c_yday c <? 100 then 32%N :: (if c_yday c <? 10 then [32%N] else []) else [])
                     ++ append_int (c_yday c) 0
  | TZeroYearDay => append_int (c_yday c) 3
  | THour => append_int (c_hour c) 2
  | THour12 => append_int (hour12 (c_hour c)) 0
  | TZeroHour12 => append_int (hour12 (c_hour c)) 2
  | TMinute => append_int (c_min c) 0
  | TZeroMinute => append_int (c_min c) 2
  | TSecond => append_int (c_sec c) 0
  | TZeroSecond => append_int (c_sec c) 2
  | TPM => if 12 <=? c_hour c then s2b "PM" else s2b "AM"
  | Tpm => if 12 <=? c_hour c then s2b "pm" else s2b "am"
  | TTZ => match c_abbr c with
           | [] => fmt_numtz false ZHHMM (c_off c)
           | a => a end
  | TNumTZ iso s => fmt_numtz iso s (c_off c)
  | TFrac nine n comma => fmt_frac nine n comma (c_nsec c)
  | TBad => []
  end.

Definition format_toks (c : civil) (toks : list tok) : bytes := flat_map (fmt_tok c) toks.
Definition format_layout (layout : bytes) (c : civil) : bytes := format_toks c (tokenize layout).

(* ------------------------------------------------------------------ parsing *)
Record pst := mkpst {
  p_year : Z; p_month : Z; p_day : Z; p_hour : Z; p_min : Z; p_sec : Z; p_nsec : Z;
  p_z : bool;            (* z = UTC ("Z" or "UTC" seen) *)
  p_zoff : Z;            (* Go's zoneOffset, -1 = none *)
  p_zname : bytes
}.
Definition pst0 : pst := mkpst 0 (-1) (-1) 0 0 0 0 false (-1) [].

Definition dval (c : N) : Z := Z.of_N (c - 48).

(* time.getnum *)
Definition getnum (s : bytes) (fixed : bool) : option (Z * bytes) :=
  match s with
  | c1 :: r1 =>
      if is_digit c1 then
        match r1 with
        | c2 :: r2 => if is_digit c2 then Some (dval c1 * 10 + dval c2, r2)
                      else if fixed then None else Some (dval c1, r1)
        | [] => if fixed then None else Some (dval c1, [])
        end
      else None
  | [] => None
  end.

(* time.atoi on short strings (no overflow possible for the lengths used here): [+-]?[0-9]* *)
Definition udecZ (s : bytes) : option Z := option_map Z.of_N (udec 0 s).
Definition go_atoi (s : bytes) : option Z :=
  match s with
  | 45%N :: r => option_map Z.opp (udecZ r)
  | 43%N :: r => udecZ r
  | _ => udecZ s
  end.

Fixpoint cutspace (s : bytes) : bytes :=
  match s with c :: r => if (c =? 32)%N then cutspace r else s | [] => [] end.

(* time.skip: insp = the previous prefix byte was a space (value already cut) *)
Fixpoint skip_aux (insp : bool) (value prefix : bytes) : option bytes :=
  match prefix with
  | [] => Some value
  | p :: pr =>
      if (p =? 32)%N then
        if insp then skip_aux true value pr
        else match value with
             | v :: _ => if (v =? 32)%N then skip_aux true (cutspace value) pr else None
             | [] => skip_aux true [] pr
             end
      else match value with
           | v :: vr => if (v =? p)%N then skip_aux false vr pr else None
           | [] => None
           end
  end.
Definition skip (value prefix : bytes) : option bytes := skip_aux false value prefix.

(* time.match / time.lookup *)
Definition ci_eq (c1 c2 : N) : bool :=
  (c1 =? c2)%N ||
  (let a := N.lor c1 32 in let b := N.lor c2 32 in (a =? b)%N && (97 <=? a)%N && (a <=? 122)%N).
Fixpoint strip_prefix_ci (name val : bytes) : option bytes :=
  match name, val with
  | [], _ => Some val
  | n :: nr, v :: vr => if ci_eq v n then strip_prefix_ci nr vr else None
  | _ :: _, [] => None
  end.
Fixpoint lookup (i : Z) (tab : list bytes) (val : bytes) : option (Z * bytes) :=
  match tab with
  | [] => None
  | n :: t => match strip_prefix_ci n val with
              | Some r => Some (i, r)
              | None => lookup (i + 1) t val
              end
  end.

Fixpoint span_digits (l : bytes) : bytes * bytes :=
  match l with
  | c :: r => if is_digit c then let '(d, r') := span_digits r in (c :: d, r') else ([], l)
  | [] => ([], [])
  end.

Definition comma_or_period (c : N) : bool := (c =? 46)%N || (c =? 44)%N.

(* time.parseNanoseconds on value = sep :: body, body = value[1:nbytes] *)
Definition parse_nanos (sep : N) (body : bytes) : option Z :=
  if comma_or_period sep then
    let body := firstn 9 body in
    match go_atoi body with
    | Some ns => if ns <? 0 then None else Some (ns * 10 ^ (Z.of_nat (9 - List.length body)))
    | None => None
    end
  else None.

(* the numeric zone forms; result: Go's zoneOffset *)
Definition zone_of (sg : N) (h m s : bytes) : option Z :=
  match getnum h true, getnum m true, getnum s true with
  | Some (hr, _), Some (mm, _), Some (ss, _) =>
      if (24 <? hr) || (60 <? mm) || (60 <? ss) then None
      else let z := (hr * 60 + mm) * 60 + ss in
           if (sg =? 43)%N then Some z else if (sg =? 45)%N then Some (- z) else None
  | _, _, _ => None
  end.

Definition z00 : bytes := [48%N; 48%N].
Definition parse_numtz (s : tzstyle) (v : bytes) : option (Z * bytes) :=
  match s, v with
  | ZColon, sg :: h1 :: h2 :: c :: m1 :: m2 :: rest =>
      if (c =? 58)%N then option_map (fun z => (z, rest)) (zone_of sg [h1; h2] [m1; m2] z00) else None
  | ZShort, sg :: h1 :: h2 :: rest =>
      option_map (fun z => (z, rest)) (zone_of sg [h1; h2] z00 z00)
  | ZColonSecs, sg :: h1 :: h2 :: c :: m1 :: m2 :: c' :: s1 :: s2 :: rest =>
      if (c =? 58)%N && (c' =? 58)%N then option_map (fun z => (z, rest)) (zone_of sg [h1; h2] [m1; m2] [s1; s2]) else None
  | ZSecs, sg :: h1 :: h2 :: m1 :: m2 :: s1 :: s2 :: rest =>
      option_map (fun z => (z, rest)) (zone_of sg [h1; h2] [m1; m2] [s1; s2])
  | ZHHMM, sg :: h1 :: h2 :: m1 :: m2 :: rest =>
      option_map (fun z => (z, rest)) (zone_of sg [h1; h2] [m1; m2] z00)
  | _, _ => None
  end.

(* time.parseSignedOffset: List.length of [+-][0-9]+ with value <= 23, else 0 *)
Definition signed_offset_len (v : bytes) : nat :=
  match v with
  | sg :: r =>
      if (sg =? 45)%N || (sg =? 43)%N then
        let '(ds, _) := span_digits r in
        match ds with
        | [] => O
        | _ => match udec 0 ds with
               | Some x => if (x <=? 23)%N then S (List.length ds) else O
               | None => O end
        end
      else O
  | [] => O
  end.

Definition is_upper (c : N) : bool := (65 <=? c)%N && (c <=? 90)%N.
Fixpoint count_upper (fuel : nat) (v : bytes) : nat :=
  match fuel, v with
  | S f, c :: r => if is_upper c then S (count_upper f r) else O
  | _, _ => O
  end.

(* time.parseTimeZone: List.length of the zone abbreviation at the head of value *)
Definition parse_time_zone (v : bytes) : option nat :=
  if (List.length v <? 3)%nat then None
  else if bytes_eqb (firstn 4 v) (s2b "ChST") || bytes_eqb (firstn 4 v) (s2b "MeST") then Some 4%nat
  else if bytes_eqb (firstn 3 v) (s2b "GMT") then Some (3 + signed_offset_len (skipn 3 v))%nat
  else match v with
       | c :: _ =>
           if (c =? 43)%N || (c =? 45)%N then
             match signed_offset_len v with O => None | n => Some n end
           else
             match count_upper 6 v with
             | 5%nat => if (nth 4 v 0 =? 84)%N then Some 5%nat else None
             | 4%nat => if (nth 3 v 0 =? 84)%N || bytes_eqb (firstn 4 v) (s2b "WITA") then Some 4%nat else None
             | 3%nat => Some 3%nat
             | _ => None
             end
       | [] => None
       end.

Definition is_frac (tk : tok) : bool := match tk with TFrac _ _ _ => true | _ => false end.
Fixpoint next_std (toks : list tok) : option tok :=
  match toks with
  | TLit _ :: r => next_std r
  | tk :: _ => Some tk
  | [] => None
  end.

Definition set_year st v := mkpst v (p_month st) (p_day st) (p_hour st) (p_min st) (p_sec st) (p_nsec st) (p_z st) (p_zoff st) (p_zname st).
Definition set_month st v := mkpst (p_year st) v (p_day st) (p_hour st) (p_min st) (p_sec st) (p_nsec st) (p_z st) (p_zoff st) (p_zname st).
Definition set_day st v := mkpst (p_year st) (p_month st) v (p_hour st) (p_min st) (p_sec st) (p_nsec st) (p_z st) (p_zoff st) (p_zname st).
Definition set_hour st v := mkpst (p_year st) (p_month st) (p_day st) v (p_min st) (p_sec st) (p_nsec st) (p_z st) (p_zoff st) (p_zname st).
Definition set_min st v := mkpst (p_year st) (p_month st) (p_day st) (p_hour st) v (p_sec st) (p_nsec st) (p_z st) (p_zoff st) (p_zname st).
Definition set_sec st v := mkpst (p_year st) (p_month st) (p_day st) (p_hour st) (p_min st) v (p_nsec st) (p_z st) (p_zoff st) (p_zname st).
Definition set_nsec st v := mkpst (p_year st) (p_month st) (p_day st) (p_hour st) (p_min st) (p_sec st) v (p_z st) (p_zoff st) (p_zname st).
Definition set_z st := mkpst (p_year st) (p_month st) (p_day st) (p_hour st) (p_min st) (p_sec st) (p_nsec st) true (p_zoff st) (p_zname st).
Definition set_zoff st v := mkpst (p_year st) (p_month st) (p_day st) (p_hour st) (p_min st) (p_sec st) (p_nsec st) (p_z st) v (p_zname st).
Definition set_zname st v := mkpst (p_year st) (p_month st) (p_day st) (p_hour st) (p_min st) (p_sec st) (p_nsec st) (p_z st) (p_zoff st) v.

(* one std token of time.parse; [rest] = the tokens after it (the seconds case peeks at them) *)
Definition parse_tok (tk : tok) (rest : list tok) (v : bytes) (st : pst) : option (bytes * pst) :=
  match tk with
  | TLit l => option_map (fun v' => (v', st)) (skip v l)
  | TYear =>
      match v with
      | a :: b :: r => match go_atoi [a; b] with
                       | Some y => Some (r, set_year st (if 69 <=? y then y + 1900 else y + 2000))
                       | None => None end
      | _ => None
      end
  | TLongYear =>
      match v with
      | a :: b :: c :: d :: r =>
          if is_digit a then match go_atoi [a; b; c; d] with
                             | Some y => Some (r, set_year st y)
                             | None => None end
          else None
      | _ => None
      end
  | TMonth => option_map (fun x => (snd x, set_month st (fst x + 1))) (lookup 0 go_shortMonthNames v)
  | TLongMonth => option_map (fun x => (snd x, set_month st (fst x + 1))) (lookup 0 go_longMonthNames v)
  | TNumMonth | TZeroMonth =>
      match getnum v (match tk with TZeroMonth => true | _ => false end) with
      | Some (m, r) => if (m <=? 0) || (12 <? m) then None else Some (r, set_month st m)
      | None => None
      end
  | TWeekDay => option_map (fun x => (snd x, st)) (lookup 0 go_shortDayNames v)
  | TLongWeekDay => option_map (fun x => (snd x, st)) (lookup 0 go_longDayNames v)
  | TDay | TUnderDay | TZeroDay =>
      let v' := match tk, v with TUnderDay, 32%N :: r => r | _, _ => v end in
      option_map (fun x => (snd x, set_day st (fst x)))
                 (getnum v' (match tk with TZeroDay => true | _ => false end))
  | THour =>
      match getnum v false with
      | Some (h, r) => if 24 <=? h then None else Some (r, set_hour st h)
      | None => None
      end
  | TMinute | TZeroMinute =>
      match getnum v (match tk with TZeroMinute => true | _ => false end) with
      | Some (m, r) => if 60 <=? m then None else Some (r, set_min st m)
      | None => None
      end
  | TSecond | TZeroSecond =>
      match getnum v (match tk with TZeroSecond => true | _ => false end) with
      | Some (s, r) =>
          if 60 <=? s then None else
          let st := set_sec st s in
          match r with
          | sep :: d1 :: _ =>
              if comma_or_period sep && is_digit d1 then
                match next_std rest with
                | Some (TFrac _ _ _) => Some (r, st)
                | _ => let '(ds, r') := span_digits (tl r) in
                       match parse_nanos sep ds with
                       | Some ns => Some (r', set_nsec st ns)
                       | None => None end
                end
              else Some (r, st)
          | _ => Some (r, st)
          end
      | None => None
      end
  | TNumTZ iso s =>
      match iso, v with
      | true, 90%N :: r => Some (r, set_z st)
      | _, _ => option_map (fun x => (snd x, set_zoff st (fst x))) (parse_numtz s v)
      end
  | TTZ =>
      match strip_prefix (s2b "UTC") v with
      | Some r => Some (r, set_z st)
      | None => match parse_time_zone v with
                | Some n => Some (skipn n v, set_zname st (firstn n v))
                | None => None end
      end
  | TFrac true _ _ =>
      match v with
      | sep :: d1 :: _ =>
          if comma_or_period sep && is_digit d1 then
            let '(ds, r') := span_digits (tl v) in
            match parse_nanos sep ds with
            | Some ns => Some (r', set_nsec st ns)
            | None => None end
          else Some (v, st)
      | _ => Some (v, st)
      end
  | TFrac false n _ =>
      let nd := S (N.to_nat n) in
      if (List.length v <? nd)%nat then None else
      match v with
      | sep :: body => match parse_nanos sep (firstn (N.to_nat n) body) with
                       | Some ns => Some (skipn nd v, set_nsec st ns)
                       | None => None end
      | [] => None
      end
  | TUnderYearDay | TZeroYearDay | THour12 | TZeroHour12 | TPM | Tpm | TBad => None
  end.

Definition parse_supported (tk : tok) : bool :=
  match tk with
  | TUnderYearDay | TZeroYearDay | THour12 | TZeroHour12 | TPM | Tpm | TBad => false
  | _ => true
  end.

Fixpoint parse_toks (toks : list tok) (v : bytes) (st : pst) : option pst :=
  match toks with
  | [] => match v with [] => Some st | _ => None end     (* ": extra text" *)
  | tk :: rest => match parse_tok tk rest v st with
                  | Some (v', st') => parse_toks rest v' st'
                  | None => None
                  end
  end.

(* what time.parse knows before zone resolution *)
Inductive pzone := PZutc | PZoff (o : Z) | PZname (n : bytes) | PZdefault.
Record parsed := mkparsed { r_wall : Z; r_nsec : Z; r_zone : pzone }.

Definition finish (st : pst) : option parsed :=
  let month := if p_month st <? 0 then 1 else p_month st in
  let day := if p_day st <? 0 then 1 else p_day st in
  if (day <? 1) || (days_in_month (p_year st) month <? day) then None else
  Some (mkparsed (wall_secs (p_year st) month day (p_hour st) (p_min st) (p_sec st)) (p_nsec st)
         (if p_z st then PZutc
          else if negb (p_zoff st =? -1) then PZoff (p_zoff st)
          else match p_zname st with [] => PZdefault | n => PZname n end)).

Definition parse_layout (layout v : bytes) : option parsed :=
  match parse_toks (tokenize layout) v pst0 with
  | Some st => finish st
  | None => None
  end.

(* zone resolution. [names]: the abbreviation look-up of the location (Location.lookupName),
   [locoff]: the offset the location's rules give to this wall clock (Date(..., loc)),
   [finoff]: the offset of the location at the resulting instant.  result: (unix, offset shown) *)
Fixpoint assoc (n : bytes) (l : list (bytes * Z)) : option Z :=
  match l with
  | [] => None
  | (k, v) :: r => if bytes_eqb k n then Some v else assoc n r
  end.

Definition resolve (names : list (bytes * Z)) (locoff finoff : Z) (p : parsed) : Z * Z :=
  match r_zone p with
  | PZutc => (r_wall p, 0)
  | PZoff o => (r_wall p - o, o)
  | PZname n =>
      match assoc n names with
      | Some o => (r_wall p - o, finoff)
      | None =>
          let o := if (3 <? List.length n)%nat && bytes_eqb (firstn 3 n) (s2b "GMT")
                   then match go_atoi (skipn 3 n) with Some h => h * 3600 | None => 0 end
                   else 0 in
          (r_wall p - o, o)
      end
  | PZdefault => (r_wall p - locoff, finoff)
  end.

(* ------------------------------------------------------------------ funcsTime.go *)
Definition upper (s : bytes) : bytes :=
  map (fun c => if (97 <=? c)%N && (c <=? 122)%N then (c - 32)%N else c) s.
Definition lower (s : bytes) : bytes :=
  map (fun c => if (65 <=? c)%N && (c <=? 90)%N then (c + 32)%N else c) s.

Fixpoint assoc_b (n : bytes) (l : list (bytes * bytes)) : option bytes :=
  match l with
  | [] => None
  | (k, v) :: r => if bytes_eqb k n then Some v else assoc_b n r
  end.

(* namedTimeFormatToFormat *)
Definition named_format (f : bytes) : bytes :=
  match assoc_b (upper f) timeFormats with Some l => l | None => f end.

(* isPartialString(s, word): s is a prefix of word *)
Definition is_partial (s word : bytes) : bool :=
  match strip_prefix s word with Some _ => true | None => false end.

(* timeBucketToFormat *)
Definition bucket_layout (name : bytes) : option bytes :=
  option_map snd (find (fun p => is_partial (lower name) (fst p)) timeBuckets).

Definition compile_error : bytes := s2b "<<COMPILE-ERROR>>".

(* {timeformat <unixtime> <format> <tz>}; off/abbr: what the zone says at that instant *)
Definition kf_timeformat (arg fmt : bytes) (off : Z) (abbr : bytes) : bytes :=
  match atoi arg with
  | None => timeErrorNum
  | Some t => format_layout (named_format fmt) (civil_of t 0 off abbr)
  end.

(* {time <str> <format> <tz>} with an explicit format *)
Definition kf_time (str fmt : bytes) (names : list (bytes * Z)) (locoff finoff : Z) : bytes :=
  match parse_layout (named_format fmt) str with
  | None => timeErrorParsing
  | Some p => itoa (fst (resolve names locoff finoff p))
  end.

(* {buckettime <str> <bucket> <format> <tz>} with an explicit format *)
Definition kf_buckettime (str bucket fmt : bytes) (names : list (bytes * Z)) (locoff finoff : Z) : bytes :=
  match bucket_layout bucket with
  | None => compile_error
  | Some bl =>
      match parse_layout (named_format fmt) str with
      | None => timeErrorParsing
      | Some p => let '(t, off) := resolve names locoff finoff p in
                  format_layout bl (civil_of t (r_nsec p) off [])
      end
  end.

(* {timeattr <unixtime> <attr> <tz>}; quarter as repaired (fixes/C18-quarter.patch) *)
Definition attr_value (key : bytes) (c : civil) (day : Z) : option bytes :=
  if bytes_eqb key (s2b "WEEKDAY") then Some (itoa (c_wday c))
  else if bytes_eqb key (s2b "WEEK") then Some (itoa (snd (isoweek day)))
  else if bytes_eqb key (s2b "YEARWEEK") then
    Some (itoa (fst (isoweek day)) ++ [45%N] ++ itoa (snd (isoweek day)))
  else if bytes_eqb key (s2b "QUARTER") then Some (itoa (quarter (c_month c)))
  else None.

Definition kf_timeattr (arg attr : bytes) (off : Z) : bytes :=
  let key := upper attr in
  if existsb (bytes_eqb key) timeAttrKeys then
    match atoi arg with
    | None => timeErrorNum
    | Some t => match attr_value key (civil_of t 0 off []) (local_secs t off / 86400) with
                | Some v => v
                | None => compile_error
                end
    end
  else compile_error.
