(* C06: structural condition on where inputs are opened and closed (table Gen/GenC06Skel.v, regenerated
   from pkg/extractor/batchers on every run).  The model (Model/Input.v, Model/Pipeline.v) treats the
   inputs as independent: reading one never makes opening another fail.  That needs every input to be
   closed when IT has been read, so that the number of inputs is not bounded by the descriptor limit:
   a `defer x.Close()` runs when its FUNCTION returns, hence it must not sit inside a loop of that
   function (loop depth counted from the innermost enclosing function literal; the reader goroutine of
   OpenFilesToChan is such a literal, one per input). *)
From Coq Require Import List String Bool Arith.
Import ListNotations.

Definition closes_per_input (opens deferred plain : list (string * nat)) : bool :=
  negb (match opens with [] => true | _ => false end) &&
  forallb (fun d => snd d =? 0) deferred &&
  forallb (fun o => existsb (fun c => String.eqb (fst c) (fst o)) (deferred ++ plain)) opens.
