(* C05 (b): the aggregation loop of cmd/helpers/updatingAggregator.go on top of the pipeline of
   Model/Pipeline.v.  The pipeline's consumer is the loop's `<-reader`; the ticker goroutine renders
   every 100 ms under outputMutex; `outputDone <- true` is an unbuffered rendez-vous; the final
   writeOutput() runs without the mutex after the ticker goroutine has returned. *)
From Coq Require Import List NArith Arith Bool.
From RareV Require Import Base.Hex Model.Batch Model.Pipeline.
Import ListNotations.

Section AggLoop.
Variable K : Type.
Variable classify : lineid -> cls K.
Variable c : cfg.

(* the aggregation goroutine (main) *)
Inductive astate :=
| AIdle                 (* in the select on reader *)
| ARecv (m : list K)    (* has a batch, about to outputMutex.Lock() *)
| AHold (m : list K)    (* holds the mutex, sampling the remaining matches *)
| ASend                 (* reader closed: blocked on outputDone <- true *)
| AFinal                (* about to run the final writeOutput() *)
| ADone.
(* the ticker goroutine *)
Inductive tstate := TWait (* in the select *) | TLock (* timer fired, at outputMutex.Lock() *) | TRender (* holds the mutex *) | TDone.
Inductive owner := OAgg | OTick.

(* a render observes the aggregator (the keys sampled so far, in order) and the matched counter *)
Definition snapshot := (list K * nat)%type.

Record loop := mkl {
  ag : astate; tk : tstate; mtx : option owner;
  sampled : list K;
  renders : list snapshot;           (* periodic renders so far *)
  final_render : option snapshot
}.

Definition cstate := (state K * loop)%type.
Definition loop0 : loop := mkl AIdle TWait None [] [] None.

Definition set_consumer (s : state K) (rch' : list (list K)) (consumed' : list K) (cdone' : bool) : state K :=
  mk K (rd K s) (sema K s) (ch K s) (closed K s) (wk K s) rch' (rclosed K s) consumed' cdone'
       (cR K s) (cM K s) (cI K s) (errs K s) (processed K s).

Inductive cstep : cstate -> cstate -> Prop :=
(* any step of readers, workers and closers *)
| c_pipe : forall s s' l, step K classify c s s' ->
    consumed K s' = consumed K s -> cdone K s' = cdone K s ->
    (rch K s' = rch K s \/ exists b, rch K s' = rch K s ++ [b]) ->
    cstep (s, l) (s', l)
(* matchBatch, more := <-reader *)
| c_recv : forall s l m rest, ag l = AIdle -> rch K s = m :: rest -> cdone K s = false ->
    cstep (s, l) (set_consumer s rest (consumed K s ++ m) false,
                  mkl (ARecv m) (tk l) (mtx l) (sampled l) (renders l) (final_render l))
| c_lock : forall s l m, ag l = ARecv m -> mtx l = None ->
    cstep (s, l) (s, mkl (AHold m) (tk l) (Some OAgg) (sampled l) (renders l) (final_render l))
(* aggregator.Sample(match.Extracted) *)
| c_sample : forall s l k m, ag l = AHold (k :: m) ->
    cstep (s, l) (s, mkl (AHold m) (tk l) (mtx l) (sampled l ++ [k]) (renders l) (final_render l))
| c_unlock : forall s l, ag l = AHold [] ->
    cstep (s, l) (s, mkl AIdle (tk l) None (sampled l) (renders l) (final_render l))
(* !more: break PROCESSING_LOOP *)
| c_closed : forall s l, ag l = AIdle -> rch K s = [] -> rclosed K s = true -> cdone K s = false ->
    cstep (s, l) (set_consumer s [] (consumed K s) true,
                  mkl ASend (tk l) (mtx l) (sampled l) (renders l) (final_render l))
(* outputDone <- true  meets  case <-outputDone: return *)
| c_handoff : forall s l, ag l = ASend -> tk l = TWait ->
    cstep (s, l) (s, mkl AFinal TDone (mtx l) (sampled l) (renders l) (final_render l))
(* the final writeOutput() *)
| c_final : forall s l, ag l = AFinal ->
    cstep (s, l) (s, mkl ADone (tk l) (mtx l) (sampled l) (renders l) (Some (sampled l, cM K s)))
(* case <-time.After(100ms) *)
| t_tick : forall s l, tk l = TWait ->
    cstep (s, l) (s, mkl (ag l) TLock (mtx l) (sampled l) (renders l) (final_render l))
| t_lock : forall s l, tk l = TLock -> mtx l = None ->
    cstep (s, l) (s, mkl (ag l) TRender (Some OTick) (sampled l) (renders l) (final_render l))
(* writeOutput(); outputMutex.Unlock() *)
| t_render : forall s l, tk l = TRender ->
    cstep (s, l) (s, mkl (ag l) TWait None (sampled l) (renders l ++ [(sampled l, cM K s)]) (final_render l)).

Definition is_tick (x y : cstate) : Prop := fst x = fst y /\ tk (snd x) = TWait /\ tk (snd y) = TLock.

Inductive creach (x0 : cstate) : cstate -> Prop :=
| creach0 : creach x0 x0
| creachS x y : creach x0 x -> cstep x y -> creach x0 y.
End AggLoop.

Arguments AIdle {K}. Arguments ASend {K}. Arguments AFinal {K}. Arguments ADone {K}.
Arguments ARecv {K}. Arguments AHold {K}.
