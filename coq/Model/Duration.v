(* C18 — time.ParseDuration, Duration.String and the whole-second conversions of
   pkg/expressions/stdlib/funcsTime.go kfDuration / kfDurationFormat. Durations are int64
   nanoseconds (Z). Two float64 steps of the Go code are modelled exactly-rationally:
   the fraction of a component (float64(f) * (float64(unit)/scale), exact whenever the fraction
   has no more digits than the unit has decimal places) and Duration.Seconds() truncated to int64
   (exact for whole seconds and below 2^23 s). *)
From Coq Require Import List ZArith NArith Bool String.
From RareV Require Import Base.Hex Base.Num Gen.GenTime.
Import ListNotations.
Local Open Scope N_scope.

Definition two63 : N := 2 ^ 63.
Definition ns_second : N := 1000000000.

(* time.leadingInt: None = overflow error *)
Fixpoint leading_int (x : N) (s : bytes) : option (N * bytes) :=
  match s with
  | c :: r =>
      if is_digit c then
        if two63 / 10 <? x then None
        else let x' := x * 10 + (c - 48) in
             if two63 <? x' then None else leading_int x' r
      else Some (x, s)
  | [] => Some (x, [])
  end.

(* time.leadingFraction: digits beyond the capacity are skipped *)
Fixpoint leading_fraction (x scale : N) (ovf : bool) (s : bytes) : N * N * bytes :=
  match s with
  | c :: r =>
      if is_digit c then
        if ovf then leading_fraction x scale true r
        else if (two63 - 1) / 10 <? x then leading_fraction x scale true r
        else let y := x * 10 + (c - 48) in
             if two63 <? y then leading_fraction x scale true r
             else leading_fraction y (scale * 10) false r
      else (x, scale, s)
  | [] => (x, scale, [])
  end.

Definition unit_char (c : N) : bool := negb ((c =? 46) || is_digit c).
Fixpoint span_unit (s : bytes) : bytes * bytes :=
  match s with
  | c :: r => if unit_char c then let '(u, r') := span_unit r in (c :: u, r') else ([], s)
  | [] => ([], [])
  end.

(* time.unitMap *)
Definition unit_ns (u : bytes) : option N :=
  if bytes_eqb u [110; 115] then Some 1                       (* ns *)
  else if bytes_eqb u [117; 115] then Some 1000               (* us *)
  else if bytes_eqb u [194; 181; 115] then Some 1000          (* U+00B5 s *)
  else if bytes_eqb u [206; 188; 115] then Some 1000          (* U+03BC s *)
  else if bytes_eqb u [109; 115] then Some 1000000            (* ms *)
  else if bytes_eqb u [115] then Some ns_second               (* s *)
  else if bytes_eqb u [109] then Some (60 * ns_second)        (* m *)
  else if bytes_eqb u [104] then Some (3600 * ns_second)      (* h *)
  else None.

(* the component loop of time.ParseDuration; every component consumes at least its unit *)
Fixpoint dur_loop (fuel : nat) (d : N) (s : bytes) : option N :=
  match s with
  | [] => Some d
  | c0 :: _ =>
    match fuel with
    | O => None
    | S fuel' =>
      if negb ((c0 =? 46) || is_digit c0) then None else
      match leading_int 0 s with
      | None => None
      | Some (v, s1) =>
          let pre := negb (Nat.eqb (List.length s1) (List.length s)) in
          let '(f, scale, post, s2) :=
            match s1 with
            | c1 :: s1' => if c1 =? 46 then
                             let '(f, scale, s2) := leading_fraction 0 1 false s1' in
                             (f, scale, negb (Nat.eqb (List.length s2) (List.length s1')), s2)
                           else (0, 1, false, s1)
            | [] => (0, 1, false, s1)
            end in
          if negb pre && negb post then None else
          let '(u, s3) := span_unit s2 in
          match u with
          | [] => None
          | _ => match unit_ns u with
                 | None => None
                 | Some unit =>
                     if two63 / unit <? v then None else
                     let v1 := v * unit in
                     let v2 := if 0 <? f then v1 + f * unit / scale else v1 in
                     if two63 <? v2 then None else
                     let d' := d + v2 in
                     if two63 <? d' then None else dur_loop fuel' d' s3
                 end
          end
      end
    end
  end.

(* time.ParseDuration: int64 nanoseconds *)
Definition parse_duration (s : bytes) : option Z :=
  let '(neg, s') := match s with
                    | c :: r => if c =? 45 then (true, r) else if c =? 43 then (false, r) else (false, s)
                    | [] => (false, s)
                    end in
  if bytes_eqb s' [48] then Some 0%Z else
  match s' with
  | [] => None
  | _ => match dur_loop (S (List.length s')) 0 s' with
         | None => None
         | Some d => if neg then Some (- Z.of_N d)%Z
                     else if two63 - 1 <? d then None else Some (Z.of_N d)
         end
  end.

(* int64(d.Seconds()) *)
Definition dur_seconds (d : Z) : Z := Z.quot d 1000000000.

(* {duration <str>} *)
Definition kf_duration (s : bytes) : bytes :=
  match parse_duration s with
  | None => timeErrorParsing
  | Some d => itoa (dur_seconds d)
  end.

(* ---- Duration.String ---- *)
Fixpoint strip_tz (l : bytes) : bytes :=
  match l with
  | [] => []
  | c :: r => match strip_tz r with
              | [] => if c =? 48 then [] else [c]
              | r' => c :: r'
              end
  end.
Definition pad_digits (w : nat) (n : N) : bytes :=
  let ds := utoa n in repeat 48 (w - List.length ds) ++ ds.

(* time.fmtFrac: the low prec digits of v without trailing zeros, preceded by '.' if any *)
Definition fmt_frac_digits (v : N) (prec : nat) : bytes :=
  match strip_tz (pad_digits prec (v mod 10 ^ N.of_nat prec)) with
  | [] => []
  | ds => 46 :: ds
  end.

Definition format_duration (d : Z) : bytes :=
  let u := Z.abs_N d in
  let body :=
    if u <? ns_second then
      if u =? 0 then [48; 115]
      else if u <? 1000 then utoa u ++ [110; 115]
      else if u <? 1000000 then utoa (u / 1000) ++ fmt_frac_digits u 3 ++ [194; 181; 115]
      else utoa (u / 1000000) ++ fmt_frac_digits u 6 ++ [109; 115]
    else
      let secs := u / ns_second in
      let mins := secs / 60 in
      let hours := mins / 60 in
      (if 0 <? mins then
         (if 0 <? hours then utoa hours ++ [104] else []) ++ utoa (mins mod 60) ++ [109]
       else []) ++ utoa (secs mod 60) ++ fmt_frac_digits u 9 ++ [115] in
  if (d <? 0)%Z then 45 :: body else body.

(* {durationformat <secs>}: (time.Duration(secs) * time.Second).String(), int64 wrap-around *)
Definition kf_durationformat (arg : bytes) : bytes :=
  match atoi arg with
  | None => timeErrorNum
  | Some secs => format_duration (wrap64 (secs * 1000000000))
  end.
