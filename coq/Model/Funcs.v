(* C11: the scalar helper functions of pkg/expressions/stdlib (funcs.go and funcs*.go) as one
   evaluator [eval f args orc].  An argument carries (a) whether it is a constant of the template
   (EvalStaticStage succeeds) or comes from the context (match group), (b) its run-time value,
   (c) for helpers that call strconv.ParseFloat, the pre-parsed exact value (None = ParseFloat
   fails; supplied by the harness, strconv trusted).  [orc] is the text Go's float arithmetic /
   strconv / fmt / path/filepath / unicode case mapping produces for the forwarding helpers
   (computed by the harness by a direct call); the model decides only the structure around it
   (arity, which marker, which argument is parsed when).
   Repaired behaviour is modelled for all nine findings of known_findings.d/C11.json:
   C11-bucket-negative-multiple, C11-divi-zero, C11-substr-overflow, C11-hi-minint64,
   C11-expbucket-float, C11-hf-rounding, C11-bytesize-uint64-wrap, C11-ceil-overflow,
   C11-andor-emptiness, C11-precision-unbounded. *)
From Coq Require Import List NArith ZArith Bool.
From RareV Require Import Base.Hex Base.Res Base.Num Gen.GenC11 Model.Humanize Model.CsvItem.
Import ListNotations.
Local Open Scope N_scope.

Record arg := A { a_const : bool; a_val : bytes; a_f : option fval }.

Inductive fn :=
  | Coalesce | Bucket | BucketRange | Clamp | ExpBucket | IsInt | IsNum
  | Sumi | Subi | Multi | Divi | Modi | Maxi | Mini
  | FFold            (* sumf subf multf divf pow: value by oracle *)
  | FUn              (* log10 log2 ln sqrt: value by oracle *)
  | Ceil | Floor | Round
  | If | Switch | Unless | Eq | Neq | Not | Lt | Gt | Lte | Gte | And | Or
  | Len | Like | Prefix | Suffix | Format | Substr | Select | Upper | Lower
  | Tab | Dollar | PathFn (* basename dirname extname: oracle *)
  | Lookup | HasKey
  | Hi | Hf | Bytesize | BytesizeSi | Downscale | Percent | Csv.

Definition case := (fn * list arg * bytes)%type.

(* ---- expressions.Truthy: strings.TrimSpace(s) is not empty ----
   all_space: the string is a sequence of UTF-8 encodings of unicode.IsSpace runes
   (\t \n \v \f \r space, U+0085, U+00A0, U+1680, U+2000..U+200A, U+2028, U+2029, U+202F, U+205F, U+3000). *)
Definition is_ascii_space (b : N) : bool := ((9 <=? b) && (b <=? 13)) || (b =? 32).

Fixpoint all_space (s : bytes) : bool :=
  match s with
  | [] => true
  | b :: r =>
      if is_ascii_space b then all_space r
      else if b =? 194 then
        match r with
        | b2 :: r2 => ((b2 =? 133) || (b2 =? 160)) && all_space r2
        | [] => false
        end
      else if b =? 225 then
        match r with
        | b2 :: b3 :: r3 => (b2 =? 154) && (b3 =? 128) && all_space r3
        | _ => false
        end
      else if b =? 226 then
        match r with
        | b2 :: b3 :: r3 =>
            (((b2 =? 128) && (((128 <=? b3) && (b3 <=? 138)) || (b3 =? 168) || (b3 =? 169) || (b3 =? 175)))
             || ((b2 =? 129) && (b3 =? 159))) && all_space r3
        | _ => false
        end
      else if b =? 227 then
        match r with
        | b2 :: b3 :: r3 => (b2 =? 128) && (b3 =? 128) && all_space r3
        | _ => false
        end
      else false
  end.

Definition truthy (s : bytes) : bool := negb (all_space s).
Definition tstr (b : bool) : bytes := if b then TruthyVal else FalsyVal.
Definition nonempty (s : bytes) : bool := match s with [] => false | _ => true end.

(* ---- argument access ---- *)
Definition is_some {T} (o : option T) : bool := match o with Some _ => true | None => false end.
(* EvalStageInt / EvalStageInt64: constant and parses *)
Definition static_int (a : arg) : option Z := if a_const a then atoi (a_val a) else None.
(* mapTypedArgs: a constant argument that does not parse fails the compilation of the call *)
Definition const_bad_int (a : arg) : bool := a_const a && negb (is_some (atoi (a_val a))).
Definition const_bad_float (a : arg) : bool := a_const a && negb (is_some (a_f a)).

Definition ok (s : bytes) : result bytes := Ok s.

(* ---- bucketing (funcsCommon.go) ---- *)
Definition bucket_val (v s : Z) : Z :=
  let b := (Z.quot v s * s)%Z in
  if (v <? 0)%Z && negb (Z.rem v s =? 0)%Z then wrap64 (b - s) else b.

Definition with_bucket (args : list arg) (k : Z -> Z -> bytes) : result bytes :=
  match args with
  | [a; b] =>
      match static_int b with
      | None => ok ErrorNum
      | Some s => if (s <=? 0)%Z then ok ErrorValue
                  else match atoi (a_val a) with
                       | None => ok ErrorNum
                       | Some v => ok (k v s)
                       end
      end
  | _ => ok ErrorArgCount
  end.

Definition f_bucket args := with_bucket args (fun v s => itoa (bucket_val v s)).
Definition f_bucketrange args :=
  with_bucket args (fun v s =>
    let start := bucket_val v s in
    itoa start ++ [32; 45; 32] ++ itoa (wrap64 (start + (s - 1)))).

Definition f_clamp args : result bytes :=
  match args with
  | [a; lo; hi] =>
      match static_int lo, static_int hi with
      | Some l, Some h =>
          match atoi (a_val a) with
          | None => ok ErrorNum
          | Some v => if (v <? l)%Z then ok [109; 105; 110]
                      else if (v >? h)%Z then ok [109; 97; 120]
                      else ok (a_val a)
          end
      | _, _ => ok ErrorNum
      end
  | _ => ok ErrorArgCount
  end.

(* largest power of ten not above v (v >= 1); int64: p*10 <= v never overflows *)
Fixpoint pow10_le (fuel : nat) (v p : Z) : Z :=
  match fuel with
  | O => p
  | S f => if (10 <=? v / p)%Z then pow10_le f v (p * 10)%Z else p
  end.
Definition expbucket_val (v : Z) : Z := if (v <=? 0)%Z then 0%Z else pow10_le 19 v 1.

Definition f_expbucket args : result bytes :=
  match args with
  | [a] => match atoi (a_val a) with
           | None => ok ErrorNum
           | Some v => ok (itoa (expbucket_val v))
           end
  | _ => ok ErrorArgCount
  end.

(* ---- integer folds (funcsArithmatic.go arithmaticHelperi; funcs.go) ---- *)
Definition iop (f : fn) (a b : Z) : option Z :=        (* None: zero divisor *)
  match f with
  | Sumi => Some (wrap64 (a + b))
  | Subi => Some (wrap64 (a - b))
  | Multi => Some (wrap64 (a * b))
  | Divi => if (b =? 0)%Z then None else Some (wrap64 (Z.quot a b))
  | Modi => if (b =? 0)%Z then None else Some (Z.rem a b)
  | Maxi => Some (if (a >? b)%Z then a else b)
  | _ => Some (if (a <? b)%Z then a else b)
  end.

Fixpoint ifold_loop (f : fn) (acc : Z) (rest : list arg) : result bytes :=
  match rest with
  | [] => ok (itoa acc)
  | a :: r => match atoi (a_val a) with
              | None => ok ErrorNum
              | Some v => match iop f acc v with
                          | Some x => ifold_loop f x r
                          | None => ok ErrorValue           (* repaired: was a divide-by-zero panic *)
                          end
              end
  end.

(* arithmaticHelperiEx (after fix 2e0440e): the operands are checked strictly left to right, whether
   they are constants or groups: the first operand that is not an integer gives <BAD-TYPE>, a zero
   divisor met before it gives <VALUE>.  (A non-integer constant additionally makes Compile report an
   error; the stage, hence the output, is the same.) *)
Definition f_ifold (f : fn) (args : list arg) : result bytes :=
  match args with
  | a0 :: ((_ :: _) as rest) =>
      match atoi (a_val a0) with
      | None => ok ErrorNum
      | Some v0 => ifold_loop f v0 rest
      end
  | _ => ok ErrorArgCount
  end.

(* ---- float helpers: structure only ---- *)
Definition all_float (args : list arg) : bool := forallb (fun a => is_some (a_f a)) args.

Definition f_ffold (args : list arg) (orc : bytes) : result bytes :=
  match args with
  | _ :: _ :: _ => if all_float args then ok orc else ok ErrorNum
  | _ => ok ErrorArgCount
  end.

Definition f_fun (args : list arg) (orc : bytes) : result bytes :=
  match args with
  | [a] => if is_some (a_f a) then ok orc else ok ErrorNum
  | _ => ok ErrorArgCount
  end.

(* ceil / floor after repair C11-ceil-overflow: a result outside int64 (and NaN, Inf) gives <VALUE> *)
Definition f_to_int (up : bool) (v : fval) : option Z :=
  match v with
  | FFin m e => let r := if up then fceil m e else ffloor m e in
                if in_int64 r then Some r else None
  | _ => None
  end.
Definition f_ceilfloor (up : bool) (args : list arg) : result bytes :=
  match args with
  | [a] => match a_f a with
           | None => ok ErrorNum
           | Some v => match f_to_int up v with
                       | Some r => ok (itoa r)
                       | None => ok ErrorValue
                       end
           end
  | _ => ok ErrorArgCount
  end.

(* a constant precision beyond maxPrecision gives <VALUE> (repair C11-precision-unbounded) *)
Definition precision_ok (p : Z) : bool := (p <=? maxPrecision)%Z.

Definition f_round (args : list arg) (orc : bytes) : result bytes :=
  let body a := if is_some (a_f a) then ok orc else ok ErrorNum in
  match args with
  | [a] => body a
  | [a; p] => match static_int p with
              | None => ok ErrorConst
              | Some pv => if precision_ok pv then body a else ok ErrorValue
              end
  | _ => ok ErrorArgCount
  end.

(* ---- comparison and logic (funcsComparators.go) ---- *)
Definition f_if args : result bytes :=
  match args with
  | [c; t] => ok (if truthy (a_val c) then a_val t else FalsyVal)
  | [c; t; e] => ok (if truthy (a_val c) then a_val t else a_val e)
  | _ => ok ErrorArgCount
  end.

Fixpoint switch_loop (args : list arg) : bytes :=
  match args with
  | c :: v :: r => if truthy (a_val c) then a_val v else switch_loop r
  | [d] => a_val d
  | [] => []
  end.
Definition f_switch args : result bytes :=
  match args with
  | _ :: _ :: _ => ok (switch_loop args)
  | _ => ok ErrorArgCount
  end.

Definition f_unless args : result bytes :=
  match args with
  | [c; v] => ok (if truthy (a_val c) then [] else a_val v)
  | _ => ok ErrorArgCount
  end.

Definition f_strcmp (neg : bool) args : result bytes :=
  match args with
  | a0 :: ((_ :: _) as rest) =>
      ok (fold_left (fun val a => tstr (xorb neg (bytes_eqb val (a_val a)))) rest (a_val a0))
  | _ => ok ErrorArgCount
  end.

Definition f_not args : result bytes :=
  match args with
  | [a] => ok (tstr (negb (truthy (a_val a))))
  | _ => ok ErrorArgCount
  end.

(* kfAnd / kfOr after repair C11-andor-emptiness: truthy logic, as documented *)
Definition f_and args : result bytes := ok (tstr (forallb (fun a => truthy (a_val a)) args)).
Definition f_or args : result bytes := ok (tstr (existsb (fun a => truthy (a_val a)) args)).

Definition f_numcmp (test : fval -> fval -> bool) args : result bytes :=
  match args with
  | [a; b] => match a_f a, a_f b with
              | Some x, Some y => ok (tstr (test x y))
              | _, _ => ok ErrorNum
              end
  | _ => ok ErrorArgCount
  end.

(* ---- strings (funcsStrings.go) ---- *)
Fixpoint is_prefix (p s : bytes) : bool :=
  match p, s with
  | [], _ => true
  | x :: p', y :: s' => (x =? y) && is_prefix p' s'
  | _, [] => false
  end.
Fixpoint contains (needle hay : bytes) : bool :=
  is_prefix needle hay || match hay with [] => false | _ :: r => contains needle r end.
Definition is_suffix (p s : bytes) : bool := is_prefix (rev p) (rev s).

Definition f_str2 (test : bytes -> bytes -> bool) args : result bytes :=
  match args with
  | [a; b] => ok (if test (a_val b) (a_val a) then a_val a else [])
  | _ => ok ErrorArgCount
  end.

Definition f_len args : result bytes :=
  match args with
  | [a] => ok (itoa (Z.of_nat (length (a_val a))))
  | _ => ok ErrorArgCount
  end.

Definition slice (s : bytes) (lo hi : Z) : bytes :=
  firstn (Z.to_nat (hi - lo)) (skipn (Z.to_nat lo) s).

(* kfSubstr after repair C11-substr-overflow: the window end is computed without adding
   `left + length` when that exceeds the string *)
Definition substr_window (lenS l n : Z) : Z * Z :=
  let length := Z.max n 0 in
  let left := if (l <? 0)%Z then Z.max (l + lenS) 0 else Z.min l lenS in
  let right := if (length <? lenS - left)%Z then (left + length)%Z else lenS in
  (left, right).

Definition f_substr args : result bytes :=
  match args with
  | [s; l; n] =>
      match a_val s with
      | [] => ok []
      | _ => match atoi (a_val l), atoi (a_val n) with
             | Some lv, Some nv =>
                 let '(lo, hi) := substr_window (Z.of_nat (length (a_val s))) lv nv in
                 ok (slice (a_val s) lo hi)
             | _, _ => ok ErrorNum
             end
      end
  | _ => ok ErrorArgCount
  end.

(* selectField: byte-wise (all delimiters are ASCII, so the rune loop visits the same boundaries) *)
Definition is_sel_delim (c : N) : bool := (c =? 32) || (c =? 9) || (c =? 10) || (c =? C11_ArraySeparator).

Fixpoint sel_loop (rest : bytes) (i : nat) (idx cur : Z) (ws : nat) (inDelim quoted : bool)
  : nat * option nat :=                          (* (wordStart, Some end) | (wordStart, None) = to the end *)
  match rest with
  | [] => if (cur =? idx)%Z then (ws, None) else (O, Some O)
  | c :: r =>
      if (quoted && (c =? 34)) || (negb quoted && is_sel_delim c) then
        if (cur =? idx)%Z then (ws, Some i)
        else sel_loop r (S i) idx cur ws true false
      else if c =? 34 then sel_loop r (S i) idx cur ws inDelim (negb quoted)
      else if inDelim then sel_loop r (S i) idx (cur + 1)%Z i false quoted
      else sel_loop r (S i) idx cur ws inDelim quoted
  end.

Definition select_field (s : bytes) (idx : Z) : bytes :=
  match sel_loop s 0 idx 0 0 false false with
  | (ws, Some e) => firstn (e - ws) (skipn ws s)
  | (ws, None) => skipn ws s
  end.

Definition f_select args : result bytes :=
  match args with
  | [s; i] => match atoi (a_val i) with
              | None => ok ErrorNum
              | Some idx => ok (select_field (a_val s) idx)
              end
  | _ => ok ErrorArgCount
  end.

Definition is_ascii (s : bytes) : bool := forallb (fun b => b <? 128) s.
Definition up_byte (b : N) : N := if (97 <=? b) && (b <=? 122) then b - 32 else b.
Definition low_byte (b : N) : N := if (65 <=? b) && (b <=? 90) then b + 32 else b.
Definition f_case (f : N -> N) args (orc : bytes) : result bytes :=
  match args with
  | [a] => ok (if is_ascii (a_val a) then map f (a_val a) else orc)
  | _ => ok ErrorArgCount
  end.

Fixpoint join (sep : N) (l : list bytes) : bytes :=
  match l with
  | [] => []
  | [a] => a
  | a :: r => a ++ sep :: join sep r
  end.
Definition f_join (sep : N) args : result bytes := ok (join sep (map a_val args)).

Definition f_fwd1 (args : list arg) (orc : bytes) : result bytes :=
  match args with
  | [_] => ok orc
  | _ => ok ErrorArgCount
  end.
Definition f_format (args : list arg) (orc : bytes) : result bytes :=
  match args with
  | _ :: _ => ok orc
  | [] => ok ErrorArgCount
  end.

(* ---- lookup tables (funcsLookups.go); content restricted to ASCII, lines < 64 KiB ---- *)
Definition is_fields_space (b : N) : bool := is_ascii_space b.

(* bufio.ScanLines: split at \n, drop one trailing \r of each line *)
Fixpoint split_lines (s cur : bytes) : list bytes :=          (* cur reversed *)
  match s with
  | [] => match cur with [] => [] | _ => [rev cur] end
  | b :: r => if b =? 10 then rev cur :: split_lines r [] else split_lines r (b :: cur)
  end.
Definition drop_cr (l : bytes) : bytes :=
  match rev l with 13 :: r => rev r | _ => l end.

(* strings.Fields over ASCII *)
Fixpoint fields (s cur : bytes) : list bytes :=               (* cur reversed *)
  match s with
  | [] => match cur with [] => [] | _ => [rev cur] end
  | b :: r => if is_fields_space b
              then match cur with [] => fields r [] | _ => rev cur :: fields r [] end
              else fields r (b :: cur)
  end.

Definition table_entry (prefix line : bytes) : option (bytes * bytes) :=
  if nonempty prefix && is_prefix prefix line then None
  else match fields line [] with
       | [k] => Some (k, [])
       | [k; v] => Some (k, v)
       | _ => None
       end.

Fixpoint filter_some {T} (l : list (option T)) : list T :=
  match l with [] => [] | Some x :: r => x :: filter_some r | None :: r => filter_some r end.

Definition build_table (content prefix : bytes) : list (bytes * bytes) :=
  filter_some (map (fun l => table_entry prefix (drop_cr l)) (split_lines content [])).

(* map semantics: the last binding of a key wins *)
Fixpoint assoc_last (k : bytes) (t : list (bytes * bytes)) (found : option bytes) : option bytes :=
  match t with
  | [] => found
  | (k', v) :: r => assoc_last k r (if bytes_eqb k k' then Some v else found)
  end.

Definition f_table (has : bool) args : result bytes :=
  let go (key content : arg) (prefix : bytes) :=
    if a_const content then
      let r := assoc_last (a_val key) (build_table (a_val content) prefix) None in
      ok (if has then tstr (is_some r) else match r with Some v => v | None => [] end)
    else ok ErrorConst in
  match args with
  | [k; c] => go k c []
  | [k; c; p] => go k c (if a_const p then a_val p else [])
  | _ => ok ErrorArgCount
  end.

(* ---- number formatting (funcsStrings.go -> pkg/humanize) ---- *)
Definition f_hi args : result bytes :=
  match args with
  | [a] => match atoi (a_val a) with
           | None => ok ErrorNum
           | Some v => ok (humanize_int v)
           end
  | _ => ok ErrorArgCount
  end.

Definition f_hf args (orc : bytes) : result bytes :=
  match args with
  | [a] => match a_f a with
           | None => ok ErrorNum
           | Some v => humanize_float v orc
           end
  | _ => ok ErrorArgCount
  end.

(* bytesize / bytesizesi (ParseUint) and downscale (ParseInt) *)
Definition f_unitize (unsigned : bool) (step : Z) (delim : bytes) (units : list bytes)
                     args (orc : bytes) : result bytes :=
  let body (a : arg) :=
    (* after repair C11-bytesize-uint64-wrap values >= 2^63 are scaled as they are *)
    let n := if unsigned then option_map Z.of_N (atou (a_val a))
             else atoi (a_val a) in
    match n with
    | None => ok ErrorNum
    | Some n => ok (unitize n step delim units orc)
    end in
  match args with
  | [a] => body a
  | [a; p] => match static_int p with
              | None => ok ErrorNum
              | Some pv => if precision_ok pv then body a else ok ErrorValue
              end
  | _ => ok ErrorArgCount
  end.

Definition f_percent args (orc : bytes) : result bytes :=
  let run (v : arg) (bounds : list arg) :=
    if existsb const_bad_float bounds then ok ErrorNum
    else if all_float bounds && is_some (a_f v) then ok orc else ok ErrorNum in
  let dec (d : arg) (k : result bytes) :=
    match static_int d with
    | None => ok ErrorConst
    | Some pv => if precision_ok pv then k else ok ErrorValue
    end in
  match args with
  | [v] => run v []
  | [v; d] => dec d (run v [])
  | [v; d; mx] => dec d (run v [mx])
  | [v; d; mn; mx] => dec d (run v [mn; mx])
  | _ => ok ErrorArgCount
  end.

Definition f_csv args : result bytes := ok (csv_row (map a_val args)).

Definition f_coalesce args : result bytes :=
  ok (match find (fun a => nonempty (a_val a)) args with Some a => a_val a | None => [] end).

Definition f_isint args : result bytes :=
  match args with
  | [a] => ok (tstr (is_some (atoi (a_val a))))
  | _ => ok ErrorArgCount
  end.
Definition f_isnum args : result bytes :=
  match args with
  | [a] => ok (tstr (is_some (a_f a)))
  | _ => ok ErrorArgCount
  end.

Definition eval (c : case) : result bytes :=
  let '(f, args, orc) := c in
  match f with
  | Coalesce => f_coalesce args
  | Bucket => f_bucket args
  | BucketRange => f_bucketrange args
  | Clamp => f_clamp args
  | ExpBucket => f_expbucket args
  | IsInt => f_isint args
  | IsNum => f_isnum args
  | Sumi | Subi | Multi | Divi | Modi | Maxi | Mini => f_ifold f args
  | FFold => f_ffold args orc
  | FUn => f_fun args orc
  | Ceil => f_ceilfloor true args
  | Floor => f_ceilfloor false args
  | Round => f_round args orc
  | If => f_if args
  | Switch => f_switch args
  | Unless => f_unless args
  | Eq => f_strcmp false args
  | Neq => f_strcmp true args
  | Not => f_not args
  | Lt => f_numcmp f_lt args
  | Gt => f_numcmp f_gt args
  | Lte => f_numcmp f_le args
  | Gte => f_numcmp f_ge args
  | And => f_and args
  | Or => f_or args
  | Len => f_len args
  | Like => f_str2 contains args
  | Prefix => f_str2 is_prefix args
  | Suffix => f_str2 is_suffix args
  | Format => f_format args orc
  | Substr => f_substr args
  | Select => f_select args
  | Upper => f_case up_byte args orc
  | Lower => f_case low_byte args orc
  | Tab => f_join 9 args
  | Dollar => f_join C11_ArraySeparator args
  | PathFn => f_fwd1 args orc
  | Lookup => f_table false args
  | HasKey => f_table true args
  | Hi => f_hi args
  | Hf => f_hf args orc
  | Bytesize => f_unitize true bytesize_step bytesize_delim bytesize_units args orc
  | BytesizeSi => f_unitize true bytesizesi_step bytesizesi_delim bytesizesi_units args orc
  | Downscale => f_unitize false downscale_step downscale_delim downscale_units args orc
  | Percent => f_percent args orc
  | Csv => f_csv args
  end.

(* ===================== documented semantics and the property's boolean form ===================== *)

(* and / or as documented: truthy logic *)
Definition spec_and args : bytes := tstr (forallb (fun a => truthy (a_val a)) args).
Definition spec_or args : bytes := tstr (existsb (fun a => truthy (a_val a)) args).

(* bucket as documented: the multiple b of s with b <= v < b + s (floor division) *)
Definition spec_bucket (v s : Z) : Z := (s * (v / s))%Z.

Definition is_number_text (s : bytes) : bool := is_some (atoi s).

(* is p a power of ten? (p >= 1) *)
Fixpoint is_pow10 (fuel : nat) (p : Z) : bool :=
  match fuel with
  | O => false
  | S f => (p =? 1)%Z || ((Z.rem p 10 =? 0)%Z && is_pow10 f (Z.quot p 10))
  end.

Definition res_eqb (a b : result bytes) : bool :=
  match a, b with
  | Ok x, Ok y => bytes_eqb x y
  | Panic, Panic => true
  | _, _ => false
  end.

(* The property's boolean form on an observed output.  For the helpers with an arithmetic law the
   law itself is tested on the output; for the others what the documentation defines is the
   model's value (their laws are theorems about that value).  Where a law is tested, a panic
   never satisfies it. *)
Definition on_ok (o : result bytes) (k : bytes -> bool) : bool :=
  match o with Ok out => k out | Panic => false end.

Definition C11_check (c : case) (o : result bytes) : bool :=
  let '(f, args, orc) := c in
  let dflt := res_eqb (eval c) o in
  match f, args with
  | Bucket, [a; b] =>
      match static_int b, atoi (a_val a) with
      | Some s, Some v =>
          if (0 <? s)%Z && (min_int64 + s <=? v)%Z
          then on_ok o (fun out =>
                 match atoi out with
                 | Some r => (Z.rem r s =? 0)%Z && (r <=? v)%Z && (v <? r + s)%Z
                 | None => false
                 end)
          else dflt
      | _, _ => dflt
      end
  | BucketRange, [a; b] =>
      match static_int b, atoi (a_val a) with
      | Some s, Some v =>
          if (0 <? s)%Z && (min_int64 + s <=? v)%Z && (spec_bucket v s + s - 1 <=? max_int64)%Z
          then on_ok o (fun out =>
                 bytes_eqb out (itoa (spec_bucket v s) ++ [32; 45; 32] ++ itoa (spec_bucket v s + s - 1)))
          else dflt
      | _, _ => dflt
      end
  | Clamp, [a; lo; hi] =>
      match static_int lo, static_int hi, atoi (a_val a) with
      | Some l, Some h, Some v =>
          on_ok o (fun out =>
            if (v <? l)%Z then bytes_eqb out [109; 105; 110]
            else if (h <? v)%Z then bytes_eqb out [109; 97; 120]
            else bytes_eqb out (a_val a))
      | _, _, _ => dflt
      end
  | ExpBucket, [a] =>
      match atoi (a_val a) with
      | Some v => if (1 <=? v)%Z
                  then on_ok o (fun out =>
                         match atoi out with
                         | Some p => is_pow10 20 p && (p <=? v)%Z && (v <? 10 * p)%Z
                         | None => false
                         end)
                  else dflt
      | None => on_ok o (fun out => bytes_eqb out ErrorNum)
      end
  | Ceil, [a] | Floor, [a] =>
      on_ok o (fun out =>
        match a_f a with
        | Some (FFin m e) =>
            let r := match f with Ceil => fceil m e | _ => ffloor m e end in
            if in_int64 r then bytes_eqb out (itoa r) else negb (is_number_text out)
        | Some _ => negb (is_number_text out)
        | None => bytes_eqb out ErrorNum
        end)
  | And, _ => on_ok o (fun out => bytes_eqb out (spec_and args))
  | Or, _ => on_ok o (fun out => bytes_eqb out (spec_or args))
  | Hi, [a] =>
      on_ok o (fun out =>
        match atoi (a_val a) with
        | Some v => bytes_eqb (strip_sep out) (itoa v) && well_grouped out
        | None => bytes_eqb out ErrorNum
        end)
  | Hf, [a] =>
      match a_f a with
      | Some (FFin _ _) =>
          on_ok o (fun out =>
            bytes_eqb (strip_sep out) orc
            && well_grouped (firstn (match index_of decimalSeparator out with Some i => i | None => length out end) out))
      | Some _ => dflt
      | None => on_ok o (fun out => bytes_eqb out ErrorNum)
      end
  | Bytesize, _ :: _ | BytesizeSi, _ :: _ =>
      dflt && on_ok o (fun out => negb (is_prefix [45] out))       (* a size is never negative *)
  | Csv, _ :: _ =>
      on_ok o (fun out =>
        match rfc4180_row out with
        | Some fs => list_eqb bytes_eqb fs (map a_val args)
        | None => false
        end)
  | _, _ => dflt
  end.
