(* C08 -- No template and no input line can crash expression compilation or evaluation.
   This file puts the models other properties own under one roof, in [result]:
     - [classify]: every key of stdlib.StandardFunctions (Gen/GenFuncs.v, regenerated) is assigned the
       model that covers it, or is declared a library forwarder (trusted base);
     - [eval_name]: one evaluator "helper name x argument values x oracle -> result bytes" for the
       helpers with an output model (Model/Funcs.v scalar helpers, Model/Drawing.v);
     - [teval]: evaluation of an expression tree (literals, groups, keys, nested calls) on top of it,
       for an arbitrary assignment of constant flags / pre-parsed floats / oracle texts;
     - run-time panic sites in [result] that the total models of C11/C17 do not show: Go's integer
       division, string slicing, the sub-context's GetMatch;
     - [covered]: the hand-written map "syntactic panic site of /repo -> why it cannot fire", checked
       against the regenerated inventory Gen/GenPanicSites.v in Props/C08.v;
     - the observable of the correspondence ([outcome]) and the property's boolean form. *)
From Coq Require Import List NArith ZArith Bool String.
From RareV Require Import Base.Hex Base.Res Base.Num Gen.GenC11 Gen.GenC17 Gen.GenFuncs Gen.GenPanicSites
  Model.Ctx Model.Humanize Model.CsvItem Model.Funcs Model.Drawing Model.Splitter.
Import ListNotations.
Local Open Scope Z_scope.

(* ------------------------------------------------------------------ the registry, classified *)
Inductive mclass :=
| KScalar (f : fn)      (* Model/Funcs.v (C11): arity, markers, integer and string semantics; float text by oracle *)
| KRepeat | KColor | KBar   (* Model/Drawing.v (this property) *)
| KArray                (* Model/ArrayFns.v + Splitter.v (C17): total Gallina; sub-context look-up below *)
| KMath                 (* Model/MathTok.v, MathParse.v, MathEval.v (C19) *)
| KTime                 (* Model/Calendar.v, TimeFmt.v, Duration.v (C18): total Gallina *)
| KForward.             (* forwards to a library: NOT modelled (trusted base), fuzzed by the harness *)

(* key of StandardFunctions, identifier of the Go function that builds it, class *)
Definition registry : list (string * string * mclass) := [
  ("coalesce", "kfCoalesce", KScalar Coalesce); ("bucket", "kfBucket", KScalar Bucket);
  ("bucketrange", "kfBucketRange", KScalar BucketRange); ("clamp", "kfClamp", KScalar Clamp);
  ("expbucket", "kfExpBucket", KScalar ExpBucket); ("isint", "kfIsInt", KScalar IsInt); ("isnum", "kfIsNum", KScalar IsNum);
  ("sumi", "arithmaticHelperi", KScalar Sumi); ("subi", "arithmaticHelperi", KScalar Subi);
  ("multi", "arithmaticHelperi", KScalar Multi); ("divi", "arithmaticHelperiEx", KScalar Divi);
  ("modi", "arithmaticHelperiEx", KScalar Modi); ("maxi", "arithmaticHelperi", KScalar Maxi);
  ("mini", "arithmaticHelperi", KScalar Mini);
  ("sumf", "arithmaticHelperf", KScalar FFold); ("subf", "arithmaticHelperf", KScalar FFold);
  ("multf", "arithmaticHelperf", KScalar FFold); ("divf", "arithmaticHelperf", KScalar FFold);
  ("ceil", "unaryArithmaticHelperfi", KScalar Ceil); ("floor", "unaryArithmaticHelperfi", KScalar Floor);
  ("log10", "unaryArithmaticHelperf", KScalar FUn); ("log2", "unaryArithmaticHelperf", KScalar FUn);
  ("ln", "unaryArithmaticHelperf", KScalar FUn); ("pow", "arithmaticHelperf", KScalar FFold);
  ("sqrt", "unaryArithmaticHelperf", KScalar FUn); ("round", "kfRound", KScalar Round);
  ("!", "kfMath", KMath);
  ("if", "kfIf", KScalar If); ("switch", "kfSwitch", KScalar Switch); ("unless", "kfUnless", KScalar Unless);
  ("eq", "stringComparator", KScalar Eq); ("neq", "stringComparator", KScalar Neq); ("not", "kfNot", KScalar Not);
  ("lt", "arithmaticEqualityHelper", KScalar Lt); ("gt", "arithmaticEqualityHelper", KScalar Gt);
  ("lte", "arithmaticEqualityHelper", KScalar Lte); ("gte", "arithmaticEqualityHelper", KScalar Gte);
  ("and", "kfAnd", KScalar And); ("or", "kfOr", KScalar Or);
  ("len", "kfLen", KScalar Len); ("like", "kfLike", KScalar Like); ("prefix", "kfPrefix", KScalar Prefix);
  ("suffix", "kfSuffix", KScalar Suffix); ("format", "kfFormat", KForward); ("substr", "kfSubstr", KScalar Substr);
  ("select", "kfSelect", KScalar Select); ("upper", "kfUpper", KScalar Upper); ("lower", "kfLower", KScalar Lower);
  ("tab", "kfJoin", KScalar Tab); ("$", "kfJoin", KScalar Dollar); ("@", "kfJoin", KScalar Dollar);
  ("@len", "kfArrayLen", KArray); ("@map", "kfArrayMap", KArray); ("@split", "kfArraySplit", KArray);
  ("@select", "kfArraySelect", KArray); ("@join", "kfArrayJoin", KArray); ("@reduce", "kfArrayReduce", KArray);
  ("@filter", "kfArrayFilter", KArray); ("@slice", "kfArraySlice", KArray); ("@in", "kfArrayIn", KArray);
  ("@range", "kfArrayRange", KArray); ("@for", "kfArrayFor", KArray);
  ("basename", "kfPathBase", KForward); ("dirname", "kfPathDir", KForward); ("extname", "kfPathExt", KForward);
  ("load", "kfLoadFile", KForward); ("lookup", "kfLookupKey", KScalar Lookup); ("haskey", "kfHasKey", KScalar HasKey);
  ("hi", "kfHumanizeInt", KScalar Hi); ("hf", "kfHumanizeFloat", KScalar Hf);
  ("bytesize", "kfBytesize", KScalar Bytesize); ("bytesizesi", "kfBytesizeSi", KScalar BytesizeSi);
  ("downscale", "kfDownscale", KScalar Downscale); ("percent", "kfPercent", KScalar Percent);
  ("json", "kfJsonQuery", KForward); ("csv", "kfCsv", KScalar Csv);
  ("time", "kfTimeParse", KForward); ("timeformat", "kfTimeFormat", KTime); ("timeattr", "kfTimeAttr", KTime);
  ("buckettime", "kfBucketTime", KTime); ("duration", "kfDuration", KTime); ("durationformat", "kfDurationFormat", KTime);
  ("color", "kfColor", KColor); ("repeat", "kfRepeat", KRepeat); ("bar", "kfBar", KBar)
]%string.

Fixpoint reg_find (n : string) (t : list (string * string * mclass)) : option (string * mclass) :=
  match t with
  | [] => None
  | (k, impl, c) :: r => if String.eqb n k then Some (impl, c) else reg_find n r
  end.
Definition classify (n : string) : option mclass := option_map snd (reg_find n registry).
Definition impl_of (n : string) : option string := option_map fst (reg_find n registry).

Definition opt_str_eqb (a : option string) (b : string) : bool :=
  match a with Some x => String.eqb x b | None => false end.

(* the registry above and the regenerated one have the same keys, bound to the same Go builders *)
Definition registry_matches : bool :=
  forallb (fun p => opt_str_eqb (impl_of (fst p)) (snd p)) StandardFunctionImpl
  && forallb (fun e => existsb (String.eqb (fst (fst e))) StandardFunctions) registry
  && Nat.eqb (List.length StandardFunctions) (List.length StandardFunctionImpl).

(* ------------------------------------------------------------------ one evaluator for flat calls *)
Record oracle := mkOrc {
  o_text : bytes;       (* text the forwarded part produces (Model/Funcs.v [orc]) *)
  o_color : bool;       (* color.Enabled *)
  o_unicode : bool;     (* termunicode.UnicodeEnabled *)
  o_blocks : Z          (* termscaler.LengthVal(..) of the bar *)
}.

(* The integer folds sumi / subi / multi / divi / modi / maxi / mini (funcsArithmatic.go arithmaticHelperiEx as of
   /repo 2e0440e): the operands are checked LEFT TO RIGHT and the first failing check decides -- <BAD-TYPE> for an
   operand that is not an integer, <VALUE> for a zero divisor of divi / modi.  A constant operand that is not an
   integer additionally makes Compile report an error, but the stage (hence the marker) is the same as for a
   run-time value.  (Model/Funcs.v f_ifold still answers <BAD-TYPE> as soon as ANY constant operand is not an
   integer, the order before 2e0440e; it agrees with this one whenever no constant operand is bad and for the
   folds without division: Proofs/NoCrashProof.v ifold_ltr_agrees, ifold_ltr_nodiv.) *)
Definition f_ifold_ltr (f : fn) (args : list arg) : result bytes :=
  match args with
  | a0 :: ((_ :: _) as rest) =>
      match atoi (a_val a0) with
      | None => Ok ErrorNum
      | Some v0 => ifold_loop f v0 rest
      end
  | _ => Ok ErrorArgCount
  end.
Definition is_ifold (f : fn) : bool :=
  match f with Sumi | Subi | Multi | Divi | Modi | Maxi | Mini => true | _ => false end.
Definition scalar_eval (f : fn) (args : list arg) (orc : bytes) : result bytes :=
  if is_ifold f then f_ifold_ltr f args else Funcs.eval (f, args, orc).

Definition eval_class (k : mclass) (args : list arg) (o : oracle) : option (result bytes) :=
  match k with
  | KScalar f => Some (scalar_eval f args (o_text o))
  | KRepeat => Some (f_repeat true args)
  | KColor => Some (f_color (o_color o) args)
  | KBar => Some (f_bar true (o_unicode o) args (o_blocks o))
  | KArray | KMath | KTime | KForward => None
  end.

(* None: the name is not registered, or has no flat output model *)
Definition eval_name (n : string) (args : list arg) (o : oracle) : option (result bytes) :=
  match classify n with Some k => eval_class k args o | None => None end.

(* names with an output model *)
Definition has_model (n : string) : bool :=
  match classify n with
  | Some (KScalar _) | Some KRepeat | Some KColor | Some KBar => true
  | _ => false
  end.
(* names covered by some model (this file, C17, C18 or C19) *)
Definition modelled (n : string) : bool :=
  match classify n with Some KForward | None => false | Some _ => true end.

(* the precondition under which Model/Funcs.v itself can say Panic: humanizeFloat reads s[0] of the
   text strconv.AppendFloat produced, which is never empty (strconv is trusted) *)
Definition oracle_ok (n : string) (o : oracle) : Prop :=
  classify n = Some (KScalar Hf) -> o_text o <> [].

(* ------------------------------------------------------------------ expression trees *)
Inductive sx :=
| SLit (s : bytes)
| SGroup (i : Z)                     (* {i}: context.GetMatch(i) *)
| SKey (k : bytes)                   (* {name}: context.GetKey(name) *)
| SCat (parts : list sx)             (* juxtaposition (joinStages) *)
| SCall (n : string) (args : list sx).

Record tctx := mkTctx { cm : Z -> result bytes; ck : bytes -> bytes }.
Definition tctx_ok (c : tctx) : Prop := forall i, cm c i <> Panic.
(* expressions.monitorContext: every look-up answers "" *)
Definition monitor_ctx : tctx := mkTctx (fun _ => Ok []) (fun _ => []).

Section Tree.
  (* whatever EvalStaticStage, strconv.ParseFloat and the forwarded libraries answer: the theorems
     quantify over all of them *)
  Variable cflag : sx -> bool.
  Variable fparse : bytes -> option fval.
  Variable orc : string -> list bytes -> oracle.
  (* value of a helper without an output model (arrays, math, time, forwarders): any function *)
  Variable other : string -> list bytes -> bytes.

  Variable c : tctx.

  Fixpoint mk_args (es : list sx) (vs : list bytes) : list arg :=
    match es, vs with
    | e :: es', v :: vs' => A (cflag e) v (fparse v) :: mk_args es' vs'
    | _, _ => []
    end.

  Fixpoint teval (e : sx) {struct e} : result bytes :=
    match e with
    | SLit s => Ok s
    | SGroup i => cm c i
    | SKey k => Ok (ck c k)
    | SCat ps => rmap (@List.concat N) ((fix go (l : list sx) : result (list bytes) := match l with [] => Ok [] | x :: r => y <- teval x ;; ys <- go r ;; Ok (y :: ys) end) ps)
    | SCall n args =>
        vs <- ((fix go (l : list sx) : result (list bytes) := match l with [] => Ok [] | x :: r => y <- teval x ;; ys <- go r ;; Ok (y :: ys) end) args) ;;
        match eval_name n (mk_args args vs) (orc n vs) with
        | Some r => r
        | None => Ok (other n vs)
        end
    end.
End Tree.

(* every SCall of the tree names a helper whose text oracle is admissible (see [oracle_ok]) *)
Fixpoint tree_oracle_ok (orc : string -> list bytes -> oracle) (e : sx) : Prop :=
  match e with
  | SCat ps => (fix all (l : list sx) : Prop := match l with [] => True | x :: r => tree_oracle_ok orc x /\ all r end) ps
  | SCall n args =>
      (forall vs, oracle_ok n (orc n vs)) /\
      (fix all (l : list sx) : Prop := match l with [] => True | x :: r => tree_oracle_ok orc x /\ all r end) args
  | _ => True
  end.

(* ------------------------------------------------------------------ Go partial operations *)
(* a / b and a % b on int: run-time panic "integer divide by zero" *)
Definition go_quot (a b : Z) : result Z := if b =? 0 then Panic else Ok (wrap64 (Z.quot a b)).
Definition go_rem (a b : Z) : result Z := if b =? 0 then Panic else Ok (Z.rem a b).

(* the operation arithmaticHelperiEx applies after its zero test (divi / modi) *)
Definition iop_r (f : fn) (a b : Z) : result Z :=
  match f with
  | Divi => go_quot a b
  | Modi => go_rem a b
  | _ => match iop f a b with Some x => Ok x | None => Panic end
  end.

(* subContext.GetMatch (funcsRange.go): vals is a [2]string.
   fixed = false: `if idx < len(s.vals)`; fixed = true: `if idx >= 0 && idx < len(s.vals)`
   (fixes/C17-subctx-negative-index.patch) *)
Definition subctx_get (fixed : bool) (v0 v1 : bytes) (idx : Z) : result bytes :=
  if (if fixed then (0 <=? idx) && (idx <? 2) else idx <? 2) then
    if idx <? 0 then Panic                                       (* s.vals[idx], idx < 0 *)
    else match nth_error [v0; v1] (Z.to_nat idx) with Some v => Ok v | None => Panic end
  else Ok [].

(* selectField (funcsStrings.go) with its two slices as Go slices *)
Definition select_field_r (s : bytes) (idx : Z) : result bytes :=
  match sel_loop s 0 idx 0 0 false false with
  | (ws, Some e) => go_slice s (Z.of_nat ws) (Z.of_nat e)              (* s[wordStart:i] *)
  | (ws, None) => go_slice s (Z.of_nat ws) (blen s)                    (* s[wordStart:] *)
  end.

(* ------------------------------------------------------------------ @range with its cap (repair 454a143) *)
(* the loop of kfArrayRange: i is an int64 (i += incr wraps around), at most maxRangeElements elements.
   None: the cap was exceeded, the helper returns <VALUE>.  [fuel] = cap + 1 rounds always suffice. *)
Fixpoint range_c (fuel : nat) (i stop incr count : Z) (acc : list Z) : option (list Z) :=
  match fuel with
  | O => None
  | S f =>
      if ((incr >? 0) && (i <? stop)) || ((incr <? 0) && (i >? stop)) then
        if maxRangeElements <? count + 1 then None
        else range_c f (wrap64 (i + incr)) stop incr (count + 1) (i :: acc)
      else Some (rev acc)
  end.
Definition range_capped (start stop incr : Z) : option (list Z) :=
  range_c (S (Z.to_nat maxRangeElements)) start stop incr 0 [].

(* number of elements of the mathematical progression, in Z (no unary numbers) *)
Definition range_count_z (start stop incr : Z) : Z :=
  if incr >? 0 then (stop - start + incr - 1) / incr else (start - stop + (- incr) - 1) / (- incr).

(* {@range [start] stop [incr]} on argument values: Some <VALUE> when the progression has more elements
   than the cap (prediction of the correspondence; smaller ranges are C17's subject) *)
(* 0 = no prediction, 1 = more elements than the cap: <VALUE>, 2 = a valid progression within the cap whose
   last step does not leave int64: anything but <VALUE> *)
Definition range_class (vs : list bytes) : N :=
  let go (s e i : bytes) :=
    match atoi s, atoi e, atoi i with
    | Some start, Some stop, Some incr =>
        if negb (incr =? 0) && negb ((incr >? 0) && (start >? stop)) && negb ((incr <? 0) && (start <? stop)) then
          let c := range_count_z start stop incr in
          if maxRangeElements <? c then 1%N
          else if in_int64 (start + c * incr) then 2%N else 0%N
        else 0%N
    | _, _, _ => 0%N
    end in
  match vs with
  | [e] => go [48%N] e [49%N]
  | [s; e] => go s e [49%N]
  | [s; e; i] => go s e i
  | _ => 0%N
  end.

Definition range_overflow (vs : list bytes) : bool :=
  let go (s e i : bytes) :=
    match atoi s, atoi e, atoi i with
    | Some start, Some stop, Some incr =>
        negb (incr =? 0) && negb ((incr >? 0) && (start >? stop)) && negb ((incr <? 0) && (start <? stop))
        && (maxRangeElements <? range_count_z start stop incr)
    | _, _, _ => false
    end in
  match vs with
  | [e] => go [48%N] e [49%N]
  | [s; e] => go s e [49%N]
  | [s; e; i] => go s e i
  | _ => false
  end.

(* ------------------------------------------------------------------ accumulator contexts (pkg/aggregation/accumulator.go) *)
(* exprAccumulatorContext.GetMatch (rare reduce -a / -g): {0} is the whole match, {i} its i-th NUL-separated
   field, "" past the last field and for negative i.  accumulatorGroupSortContext.GetMatch (--sort): {i} is
   part i (from 0) of the group key.  After repair C08-accumulator-index the loop stops at the last field;
   the value is the same (Model/Agg.v get_match, C07), so only the number of rounds is bounded:
   [acc_rounds] = how often Splitter.Next is called. *)
Definition acc_fields (m : bytes) : list bytes := Splitter.split [0%N] m.
Definition field_at (fs : list bytes) (k : Z) : bytes :=          (* k from 0 *)
  if (k <? 0) || (Z.of_nat (List.length fs) <=? k) then [] else nth (Z.to_nat k) fs [].
Definition acc_get_match (m : bytes) (idx : Z) : bytes :=
  if idx =? 0 then m else field_at (acc_fields m) (idx - 1).
Definition sort_get_match (key : bytes) (idx : Z) : bytes := field_at (acc_fields key) idx.
Definition acc_rounds (m : bytes) (idx : Z) : Z := Z.max 0 (Z.min idx (Z.of_nat (List.length (acc_fields m)))).

(* ------------------------------------------------------------------ panic-site coverage *)
Inductive guard :=
| G_compile       (* Tmpl.compile never panics (C09_compile_total) *)
| G_divi          (* the divisor of divi / modi is non-zero where the division happens *)
| G_bucket        (* the divisor of bucket / bucketrange is positive *)
| G_expbucket     (* the divisor in expbucket's loop is positive *)
| G_substr        (* substr's window is a valid slice *)
| G_select        (* select's word boundaries are valid slices *)
| G_repeat        (* the repaired repeat never reaches strings.Repeat with a panicking count *)
| G_bar           (* 0 < remainingBlocks < len(barUnicode) at the index *)
| G_wrap          (* color.Wrap slices only when len(s) >= len(Reset) *)
| G_subctx        (* repaired subContext.GetMatch indexes vals only with 0 or 1 *)
| G_math_ops      (* repaired % << >> (C19) *)
| G_math_parse    (* stdmath parser: pop/peek on non-empty input, opCodeOrder finds the operator (C19) *)
| G_unitize       (* the unit rank is below len(units) (C11) *)
| G_splitter.     (* idx + len(Delim) <= len(rest) (C17) *)

Inductive cover :=
| Inert (why : string)      (* cannot panic by the semantics of Go *)
| Inspect (why : string)    (* guarded by a test visible at the site; exercised by the correspondence, not a theorem *)
| Lemma (g : guard).        (* guarded by a proved statement about the model: [guard_stmt g] *)

(* Go functions of the inventoried files whose sites are NOT claimed: library forwarders and code
   outside the expression evaluation path *)
Definition unclaimed_funcs : list string := [
  "kfFormat"; "kfJsonQuery"; "kfLoadFile"; "kfPathManip"; "kfTimeParse"; "smartDateParseWrapper"; "kfPercent";
  "humanizeFloat";
  "CompilerErrors.Error"; "CompilerErrors.Unwrap";
  "BarKey"; "BarWriteStacked"; "barWriteRunes"; "Scaler.ScaleKeys"; "WrapIndices"; "SimpleContext.GetKey"
]%string.

Definition covered : list (string * string * string * string * cover) := [
  ("pkg/expressions/contextArray.go", "KeyBuilderContextArray.GetMatch", "index", "s.Elements[idx]", Inspect "idx >= 0 && idx < len(s.Elements)");
  ("pkg/expressions/contextArray.go", "KeyBuilderContextArray.GetKey", "index", "s.Keys[key]", Inert "map access (a missing key reads the zero value; the map is made before it is written)");
  ("pkg/expressions/keyBuilder.go", "KeyBuilder.Func", "index", "s.functions[name]", Inert "map access (a missing key reads the zero value; the map is made before it is written)");
  ("pkg/expressions/keyBuilder.go", "KeyBuilder.HasFunc", "index", "s.functions[name]", Inert "map access (a missing key reads the zero value; the map is made before it is written)");
  ("pkg/expressions/keyBuilder.go", "KeyBuilder.Compile", "index", "runes[i]", Lemma G_compile);
  ("pkg/expressions/keyBuilder.go", "KeyBuilder.Compile", "slice", "runes[startStatement : i+1]", Inspect "0 <= startStatement <= i < len(runes): startStatement is a former value of i (error text only)");
  ("pkg/expressions/keyBuilder.go", "KeyBuilder.Compile", "index", "args[0]", Inspect "index below a length / arity test made just before (len(args) pattern of the model)");
  ("pkg/expressions/keyBuilder.go", "KeyBuilder.Compile", "index", "s.functions[args[0]]", Inert "map access (a missing key reads the zero value; the map is made before it is written)");
  ("pkg/expressions/keyBuilder.go", "KeyBuilder.Compile", "slice", "args[1:]", Inspect "index below a length / arity test made just before (len(args) pattern of the model)");
  ("pkg/expressions/keyBuilder.go", "KeyBuilder.Compile", "slice", "runes[startStatement:]", Inspect "0 <= startStatement <= i < len(runes): startStatement is a former value of i (error text only)");
  ("pkg/expressions/keyBuilder.go", "CompiledKeyBuilder.BuildKey", "index", "s.stages[0]", Inspect "index below a length / arity test made just before (len(args) pattern of the model)");
  ("pkg/expressions/keyBuilder.go", "CompiledKeyBuilder.joinStages", "index", "s.stages[0]", Inspect "index below a length / arity test made just before (len(args) pattern of the model)");
  ("pkg/expressions/stage.go", "MakeArray", "index", "args[i]", Inspect "index below a length / arity test made just before (len(args) pattern of the model)");
  ("pkg/expressions/stdlib/drawing.go", "kfColor", "index", "args[0]", Inspect "index below a length / arity test made just before (len(args) pattern of the model)");
  ("pkg/expressions/stdlib/drawing.go", "kfColor", "index", "args[1]", Inspect "index below a length / arity test made just before (len(args) pattern of the model)");
  ("pkg/expressions/stdlib/drawing.go", "kfRepeat", "index", "args[0]", Inspect "index below a length / arity test made just before (len(args) pattern of the model)");
  ("pkg/expressions/stdlib/drawing.go", "kfRepeat", "index", "args[1]", Inspect "index below a length / arity test made just before (len(args) pattern of the model)");
  ("pkg/expressions/stdlib/drawing.go", "kfRepeat", "repeat", "strings.Repeat(char, count)", Lemma G_repeat);
  ("pkg/expressions/stdlib/drawing.go", "kfBar", "index", "args[1]", Inspect "index below a length / arity test made just before (len(args) pattern of the model)");
  ("pkg/expressions/stdlib/drawing.go", "kfBar", "index", "args[2]", Inspect "index below a length / arity test made just before (len(args) pattern of the model)");
  ("pkg/expressions/stdlib/drawing.go", "kfBar", "index", "args[3]", Inspect "index below a length / arity test made just before (len(args) pattern of the model)");
  ("pkg/expressions/stdlib/drawing.go", "kfBar", "index", "args[0]", Inspect "index below a length / arity test made just before (len(args) pattern of the model)");
  ("pkg/expressions/stdlib/funcs.go", "var StandardFunctions", "quo", "a / b", Lemma G_divi);
  ("pkg/expressions/stdlib/funcs.go", "var StandardFunctions", "rem", "a % b", Lemma G_divi);
  ("pkg/expressions/stdlib/funcsArithmatic.go", "arithmaticHelperiEx", "index", "typedArgs[0]", Inspect "index below a length / arity test made just before (len(args) pattern of the model)");
  ("pkg/expressions/stdlib/funcsArithmatic.go", "arithmaticHelperiEx", "index", "typedArgs[i]", Inspect "index below a length / arity test made just before (len(args) pattern of the model)");
  ("pkg/expressions/stdlib/funcsArithmatic.go", "arithmaticHelperf", "index", "typedArgs[0]", Inspect "index below a length / arity test made just before (len(args) pattern of the model)");
  ("pkg/expressions/stdlib/funcsArithmatic.go", "arithmaticHelperf", "index", "typedArgs[i]", Inspect "index below a length / arity test made just before (len(args) pattern of the model)");
  ("pkg/expressions/stdlib/funcsArithmatic.go", "unaryArithmaticHelperf", "index", "args[0]", Inspect "index below a length / arity test made just before (len(args) pattern of the model)");
  ("pkg/expressions/stdlib/funcsArithmatic.go", "unaryArithmaticHelperfi", "index", "args[0]", Inspect "index below a length / arity test made just before (len(args) pattern of the model)");
  ("pkg/expressions/stdlib/funcsArithmatic.go", "kfRound", "index", "args[0]", Inspect "index below a length / arity test made just before (len(args) pattern of the model)");
  ("pkg/expressions/stdlib/funcsCommon.go", "kfBucket", "index", "args[1]", Inspect "index below a length / arity test made just before (len(args) pattern of the model)");
  ("pkg/expressions/stdlib/funcsCommon.go", "kfBucket", "index", "args[0]", Inspect "index below a length / arity test made just before (len(args) pattern of the model)");
  ("pkg/expressions/stdlib/funcsCommon.go", "kfBucket", "quo", "val / bucketSize", Lemma G_bucket);
  ("pkg/expressions/stdlib/funcsCommon.go", "kfBucket", "rem", "val % bucketSize", Lemma G_bucket);
  ("pkg/expressions/stdlib/funcsCommon.go", "kfBucketRange", "index", "args[1]", Inspect "index below a length / arity test made just before (len(args) pattern of the model)");
  ("pkg/expressions/stdlib/funcsCommon.go", "kfBucketRange", "index", "args[0]", Inspect "index below a length / arity test made just before (len(args) pattern of the model)");
  ("pkg/expressions/stdlib/funcsCommon.go", "kfBucketRange", "quo", "val / bucketSize", Lemma G_bucket);
  ("pkg/expressions/stdlib/funcsCommon.go", "kfBucketRange", "rem", "val % bucketSize", Lemma G_bucket);
  ("pkg/expressions/stdlib/funcsCommon.go", "kfClamp", "index", "args[1]", Inspect "index below a length / arity test made just before (len(args) pattern of the model)");
  ("pkg/expressions/stdlib/funcsCommon.go", "kfClamp", "index", "args[2]", Inspect "index below a length / arity test made just before (len(args) pattern of the model)");
  ("pkg/expressions/stdlib/funcsCommon.go", "kfClamp", "index", "args[0]", Inspect "index below a length / arity test made just before (len(args) pattern of the model)");
  ("pkg/expressions/stdlib/funcsCommon.go", "kfExpBucket", "index", "args[0]", Inspect "index below a length / arity test made just before (len(args) pattern of the model)");
  ("pkg/expressions/stdlib/funcsCommon.go", "kfExpBucket", "quo", "val / bucket", Lemma G_expbucket);
  ("pkg/expressions/stdlib/funcsComparators.go", "stringComparator", "index", "args[0]", Inspect "index below a length / arity test made just before (len(args) pattern of the model)");
  ("pkg/expressions/stdlib/funcsComparators.go", "stringComparator", "index", "args[i]", Inspect "index below a length / arity test made just before (len(args) pattern of the model)");
  ("pkg/expressions/stdlib/funcsComparators.go", "arithmaticEqualityHelper", "index", "args[0]", Inspect "index below a length / arity test made just before (len(args) pattern of the model)");
  ("pkg/expressions/stdlib/funcsComparators.go", "arithmaticEqualityHelper", "index", "args[1]", Inspect "index below a length / arity test made just before (len(args) pattern of the model)");
  ("pkg/expressions/stdlib/funcsComparators.go", "kfNot", "index", "args[0]", Inspect "index below a length / arity test made just before (len(args) pattern of the model)");
  ("pkg/expressions/stdlib/funcsComparators.go", "kfLike", "index", "args[0]", Inspect "index below a length / arity test made just before (len(args) pattern of the model)");
  ("pkg/expressions/stdlib/funcsComparators.go", "kfLike", "index", "args[1]", Inspect "index below a length / arity test made just before (len(args) pattern of the model)");
  ("pkg/expressions/stdlib/funcsComparators.go", "kfIf", "index", "args[0]", Inspect "index below a length / arity test made just before (len(args) pattern of the model)");
  ("pkg/expressions/stdlib/funcsComparators.go", "kfIf", "index", "args[1]", Inspect "index below a length / arity test made just before (len(args) pattern of the model)");
  ("pkg/expressions/stdlib/funcsComparators.go", "kfIf", "index", "args[2]", Inspect "index below a length / arity test made just before (len(args) pattern of the model)");
  ("pkg/expressions/stdlib/funcsComparators.go", "kfSwitch", "index", "args[i]", Inspect "index below a length / arity test made just before (len(args) pattern of the model)");
  ("pkg/expressions/stdlib/funcsComparators.go", "kfSwitch", "index", "args[i+1]", Inspect "index below a length / arity test made just before (len(args) pattern of the model)");
  ("pkg/expressions/stdlib/funcsComparators.go", "kfSwitch", "rem", "len(args) % 2", Inert "constant non-zero divisor");
  ("pkg/expressions/stdlib/funcsComparators.go", "kfSwitch", "index", "args[len(args)-1]", Inspect "index below a length / arity test made just before (len(args) pattern of the model)");
  ("pkg/expressions/stdlib/funcsComparators.go", "kfUnless", "index", "args[0]", Inspect "index below a length / arity test made just before (len(args) pattern of the model)");
  ("pkg/expressions/stdlib/funcsComparators.go", "kfUnless", "index", "args[1]", Inspect "index below a length / arity test made just before (len(args) pattern of the model)");
  ("pkg/expressions/stdlib/funcsCsv.go", "kfCsv", "index", "args[i]", Inspect "index below a length / arity test made just before (len(args) pattern of the model)");
  ("pkg/expressions/stdlib/funcsLookups.go", "buildLookupTable", "index", "lookup[parts[0]]", Inert "map access (a missing key reads the zero value; the map is made before it is written)");
  ("pkg/expressions/stdlib/funcsLookups.go", "buildLookupTable", "index", "parts[0]", Inspect "index below a length / arity test made just before (len(args) pattern of the model)");
  ("pkg/expressions/stdlib/funcsLookups.go", "buildLookupTable", "index", "parts[1]", Inspect "index below a length / arity test made just before (len(args) pattern of the model)");
  ("pkg/expressions/stdlib/funcsLookups.go", "kfLookupKey", "index", "args[1]", Inspect "index below a length / arity test made just before (len(args) pattern of the model)");
  ("pkg/expressions/stdlib/funcsLookups.go", "kfLookupKey", "index", "args[0]", Inspect "index below a length / arity test made just before (len(args) pattern of the model)");
  ("pkg/expressions/stdlib/funcsLookups.go", "kfLookupKey", "index", "lookup[key]", Inert "map access (a missing key reads the zero value; the map is made before it is written)");
  ("pkg/expressions/stdlib/funcsLookups.go", "kfHasKey", "index", "args[1]", Inspect "index below a length / arity test made just before (len(args) pattern of the model)");
  ("pkg/expressions/stdlib/funcsLookups.go", "kfHasKey", "index", "args[0]", Inspect "index below a length / arity test made just before (len(args) pattern of the model)");
  ("pkg/expressions/stdlib/funcsLookups.go", "kfHasKey", "index", "lookup[key]", Inert "map access (a missing key reads the zero value; the map is made before it is written)");
  ("pkg/expressions/stdlib/funcsMath.go", "kfMath", "index", "slicepool.NewObjectPool[keyBuilderContextWrapper]", Inert "generic type instantiation, not an index");
  ("pkg/expressions/stdlib/funcsRange.go", "var subContextPool", "index", "slicepool.NewObjectPool[subContext]", Inert "generic type instantiation, not an index");
  ("pkg/expressions/stdlib/funcsRange.go", "subContext.GetMatch", "index", "s.vals[idx]", Lemma G_subctx);
  ("pkg/expressions/stdlib/funcsRange.go", "subContext.Eval", "index", "s.vals[0]", Inert "constant index 0 / 1 into [2]string");
  ("pkg/expressions/stdlib/funcsRange.go", "subContext.Eval", "index", "s.vals[1]", Inert "constant index 0 / 1 into [2]string");
  ("pkg/expressions/stdlib/funcsRange.go", "kfArrayLen", "index", "args[0]", Inspect "index below a length / arity test made just before (len(args) pattern of the model)");
  ("pkg/expressions/stdlib/funcsRange.go", "kfArraySplit", "index", "args[0]", Inspect "index below a length / arity test made just before (len(args) pattern of the model)");
  ("pkg/expressions/stdlib/funcsRange.go", "kfArrayJoin", "index", "args[0]", Inspect "index below a length / arity test made just before (len(args) pattern of the model)");
  ("pkg/expressions/stdlib/funcsRange.go", "kfArraySelect", "index", "args[1]", Inspect "index below a length / arity test made just before (len(args) pattern of the model)");
  ("pkg/expressions/stdlib/funcsRange.go", "kfArraySelect", "index", "args[0]", Inspect "index below a length / arity test made just before (len(args) pattern of the model)");
  ("pkg/expressions/stdlib/funcsRange.go", "kfArrayMap", "index", "args[0]", Inspect "index below a length / arity test made just before (len(args) pattern of the model)");
  ("pkg/expressions/stdlib/funcsRange.go", "kfArrayMap", "index", "args[1]", Inspect "index below a length / arity test made just before (len(args) pattern of the model)");
  ("pkg/expressions/stdlib/funcsRange.go", "kfArrayReduce", "index", "args[0]", Inspect "index below a length / arity test made just before (len(args) pattern of the model)");
  ("pkg/expressions/stdlib/funcsRange.go", "kfArrayReduce", "index", "args[1]", Inspect "index below a length / arity test made just before (len(args) pattern of the model)");
  ("pkg/expressions/stdlib/funcsRange.go", "kfArraySlice", "index", "args[1]", Inspect "index below a length / arity test made just before (len(args) pattern of the model)");
  ("pkg/expressions/stdlib/funcsRange.go", "kfArraySlice", "index", "args[0]", Inspect "index below a length / arity test made just before (len(args) pattern of the model)");
  ("pkg/expressions/stdlib/funcsRange.go", "kfArrayRange", "index", "args[0]", Inspect "index below a length / arity test made just before (len(args) pattern of the model)");
  ("pkg/expressions/stdlib/funcsRange.go", "kfArrayRange", "index", "args[1]", Inspect "index below a length / arity test made just before (len(args) pattern of the model)");
  ("pkg/expressions/stdlib/funcsRange.go", "kfArrayRange", "index", "args[2]", Inspect "index below a length / arity test made just before (len(args) pattern of the model)");
  ("pkg/expressions/stdlib/funcsRange.go", "kfArrayFor", "index", "args[0]", Inspect "index below a length / arity test made just before (len(args) pattern of the model)");
  ("pkg/expressions/stdlib/funcsRange.go", "kfArrayFor", "index", "args[1]", Inspect "index below a length / arity test made just before (len(args) pattern of the model)");
  ("pkg/expressions/stdlib/funcsRange.go", "kfArrayFor", "index", "args[2]", Inspect "index below a length / arity test made just before (len(args) pattern of the model)");
  ("pkg/expressions/stdlib/funcsRange.go", "kfArrayFilter", "index", "args[0]", Inspect "index below a length / arity test made just before (len(args) pattern of the model)");
  ("pkg/expressions/stdlib/funcsRange.go", "kfArrayFilter", "index", "args[1]", Inspect "index below a length / arity test made just before (len(args) pattern of the model)");
  ("pkg/expressions/stdlib/funcsRange.go", "kfArrayIn", "index", "args[1]", Inspect "index below a length / arity test made just before (len(args) pattern of the model)");
  ("pkg/expressions/stdlib/funcsRange.go", "kfArrayIn", "index", "matchSet[val]", Inert "map access (a missing key reads the zero value; the map is made before it is written)");
  ("pkg/expressions/stdlib/funcsRange.go", "kfArrayIn", "index", "args[0]", Inspect "index below a length / arity test made just before (len(args) pattern of the model)");
  ("pkg/expressions/stdlib/funcsStrings.go", "kfLen", "index", "args[0]", Inspect "index below a length / arity test made just before (len(args) pattern of the model)");
  ("pkg/expressions/stdlib/funcsStrings.go", "kfPrefix", "index", "args[0]", Inspect "index below a length / arity test made just before (len(args) pattern of the model)");
  ("pkg/expressions/stdlib/funcsStrings.go", "kfPrefix", "index", "args[1]", Inspect "index below a length / arity test made just before (len(args) pattern of the model)");
  ("pkg/expressions/stdlib/funcsStrings.go", "kfSuffix", "index", "args[0]", Inspect "index below a length / arity test made just before (len(args) pattern of the model)");
  ("pkg/expressions/stdlib/funcsStrings.go", "kfSuffix", "index", "args[1]", Inspect "index below a length / arity test made just before (len(args) pattern of the model)");
  ("pkg/expressions/stdlib/funcsStrings.go", "kfUpper", "index", "args[0]", Inspect "index below a length / arity test made just before (len(args) pattern of the model)");
  ("pkg/expressions/stdlib/funcsStrings.go", "kfLower", "index", "args[0]", Inspect "index below a length / arity test made just before (len(args) pattern of the model)");
  ("pkg/expressions/stdlib/funcsStrings.go", "kfSubstr", "index", "args[0]", Inspect "index below a length / arity test made just before (len(args) pattern of the model)");
  ("pkg/expressions/stdlib/funcsStrings.go", "kfSubstr", "index", "args[1]", Inspect "index below a length / arity test made just before (len(args) pattern of the model)");
  ("pkg/expressions/stdlib/funcsStrings.go", "kfSubstr", "index", "args[2]", Inspect "index below a length / arity test made just before (len(args) pattern of the model)");
  ("pkg/expressions/stdlib/funcsStrings.go", "kfSubstr", "slice", "s[left:right]", Lemma G_substr);
  ("pkg/expressions/stdlib/funcsStrings.go", "kfSelect", "index", "args[0]", Inspect "index below a length / arity test made just before (len(args) pattern of the model)");
  ("pkg/expressions/stdlib/funcsStrings.go", "kfSelect", "index", "args[1]", Inspect "index below a length / arity test made just before (len(args) pattern of the model)");
  ("pkg/expressions/stdlib/funcsStrings.go", "selectField", "slice", "s[wordStart:i]", Lemma G_select);
  ("pkg/expressions/stdlib/funcsStrings.go", "selectField", "slice", "s[wordStart:]", Lemma G_select);
  ("pkg/expressions/stdlib/funcsStrings.go", "kfHumanizeInt", "index", "args[0]", Inspect "index below a length / arity test made just before (len(args) pattern of the model)");
  ("pkg/expressions/stdlib/funcsStrings.go", "kfHumanizeFloat", "index", "args[0]", Inspect "index below a length / arity test made just before (len(args) pattern of the model)");
  ("pkg/expressions/stdlib/funcsStrings.go", "kfBytesize", "index", "args[0]", Inspect "index below a length / arity test made just before (len(args) pattern of the model)");
  ("pkg/expressions/stdlib/funcsStrings.go", "kfBytesizeSi", "index", "args[0]", Inspect "index below a length / arity test made just before (len(args) pattern of the model)");
  ("pkg/expressions/stdlib/funcsStrings.go", "kfDownscale", "index", "args[0]", Inspect "index below a length / arity test made just before (len(args) pattern of the model)");
  ("pkg/expressions/stdlib/funcsStrings.go", "kfJoin", "index", "args[0]", Inspect "index below a length / arity test made just before (len(args) pattern of the model)");
  ("pkg/expressions/stdlib/funcsStrings.go", "kfJoin", "slice", "args[1:]", Inspect "index below a length / arity test made just before (len(args) pattern of the model)");
  ("pkg/expressions/stdlib/funcsTime.go", "namedTimeFormatToFormat", "index", "timeFormats[strings.ToUpper(f)]", Inert "map access (a missing key reads the zero value; the map is made before it is written)");
  ("pkg/expressions/stdlib/funcsTime.go", "kfTimeFormat", "index", "args[0]", Inspect "index below a length / arity test made just before (len(args) pattern of the model)");
  ("pkg/expressions/stdlib/funcsTime.go", "kfDuration", "index", "args[0]", Inspect "index below a length / arity test made just before (len(args) pattern of the model)");
  ("pkg/expressions/stdlib/funcsTime.go", "kfDurationFormat", "index", "args[0]", Inspect "index below a length / arity test made just before (len(args) pattern of the model)");
  ("pkg/expressions/stdlib/funcsTime.go", "kfBucketTime", "index", "args[1]", Inspect "index below a length / arity test made just before (len(args) pattern of the model)");
  ("pkg/expressions/stdlib/funcsTime.go", "kfBucketTime", "index", "args[0]", Inspect "index below a length / arity test made just before (len(args) pattern of the model)");
  ("pkg/expressions/stdlib/funcsTime.go", "var attrType", "quo", "(month - 1) / 3", Inert "constant non-zero divisor");
  ("pkg/expressions/stdlib/funcsTime.go", "kfDuration", "quo", "duration / time.Second", Inert "constant non-zero divisor");
  ("pkg/expressions/stdlib/funcsTime.go", "kfTimeAttr", "index", "args[1]", Inspect "index below a length / arity test made just before (len(args) pattern of the model)");
  ("pkg/expressions/stdlib/funcsTime.go", "kfTimeAttr", "index", "attrType[strings.ToUpper(attrName)]", Inert "map access (a missing key reads the zero value; the map is made before it is written)");
  ("pkg/expressions/stdlib/funcsTime.go", "kfTimeAttr", "index", "args[0]", Inspect "index below a length / arity test made just before (len(args) pattern of the model)");
  ("pkg/expressions/stdlib/funcsType.go", "kfIsInt", "index", "args[0]", Inspect "index below a length / arity test made just before (len(args) pattern of the model)");
  ("pkg/expressions/stdlib/funcsType.go", "kfIsNum", "index", "args[0]", Inspect "index below a length / arity test made just before (len(args) pattern of the model)");
  ("pkg/expressions/stdlib/stagesStaticEval.go", "EvalStageIndexOrDefault", "index", "stages[idx]", Inspect "index below a length / arity test made just before (len(args) pattern of the model)");
  ("pkg/expressions/stdlib/stagesStaticEval.go", "EvalArgInt", "index", "stages[idx]", Inspect "index below a length / arity test made just before (len(args) pattern of the model)");
  ("pkg/expressions/stdlib/stagesTypedEval.go", "mapTypedArgs", "make", "make([]typedStage[T], len(args))", Inert "length is a len(..) expression");
  ("pkg/expressions/stdlib/stagesTypedEval.go", "mapTypedArgs", "index", "ret[i]", Inspect "index below a length / arity test made just before (len(args) pattern of the model)");
  ("pkg/expressions/stdlib/util.go", "isPartialString", "index", "s[i]", Inspect "i < len(s) <= len(word) (length test at entry)");
  ("pkg/expressions/stdlib/util.go", "isPartialString", "index", "word[i]", Inspect "i < len(s) <= len(word) (length test at entry)");
  ("pkg/expressions/stdmath/ops.go", "var ops", "quo", "left / right", Inert "float64 division");
  ("pkg/expressions/stdmath/ops.go", "var ops", "rem", "int64(left) % int64(right)", Lemma G_math_ops);
  ("pkg/expressions/stdmath/ops.go", "var ops", "shift", "int64(left) << int64(right)", Lemma G_math_ops);
  ("pkg/expressions/stdmath/ops.go", "var ops", "shift", "int64(left) >> int64(right)", Lemma G_math_ops);
  ("pkg/expressions/stdmath/ops.go", "opCodeOrder", "panic", "panic(""op not found"")", Lemma G_math_parse);
  ("pkg/expressions/stdmath/ops.go", "prefixInOps", "slice", "s[:min(len(s), maxLen)]", Inspect "min(len(s), maxLen) and i <= len(code)");
  ("pkg/expressions/stdmath/ops.go", "prefixInOps", "slice", "code[:i]", Inspect "min(len(s), maxLen) and i <= len(code)");
  ("pkg/expressions/stdmath/ops.go", "prefixInOps", "index", "ops[sub]", Inert "map access (a missing key reads the zero value; the map is made before it is written)");
  ("pkg/expressions/stdmath/ops.go", "hasUnaryOp", "index", "uniOps[OpCode(r)]", Inert "map access (a missing key reads the zero value; the map is made before it is written)");
  ("pkg/expressions/stdmath/parser.go", "tokenScanner.getNextExpr", "index", "uniOps[OpCode(token.val)]", Inert "map access (a missing key reads the zero value; the map is made before it is written)");
  ("pkg/expressions/stdmath/parser.go", "tokenScanner.getNextOp", "index", "ops[OpCode(token.val)]", Inert "map access (a missing key reads the zero value; the map is made before it is written)");
  ("pkg/expressions/stdmath/parser.go", "tokenScanner.getNextOp", "index", "ops[""*""]", Inert "map access (a missing key reads the zero value; the map is made before it is written)");
  ("pkg/expressions/stdmath/parser.go", "tokenScanner.pop", "index", "s.next[0]", Lemma G_math_parse);
  ("pkg/expressions/stdmath/parser.go", "tokenScanner.pop", "slice", "s.next[1:]", Lemma G_math_parse);
  ("pkg/expressions/stdmath/parser.go", "tokenScanner.peek", "index", "s.next[0]", Lemma G_math_parse);
  ("pkg/expressions/stdmath/parser.go", "compileToken", "slice", "t.val[1 : len(t.val)-1]", Inspect "len(s) >= 2 tested by isBoxed first");
  ("pkg/expressions/stdmath/parser.go", "isBoxed", "index", "s[0]", Inspect "len(s) >= 2 tested by isBoxed first");
  ("pkg/expressions/stdmath/parser.go", "isBoxed", "index", "s[len(s)-1]", Inspect "len(s) >= 2 tested by isBoxed first");
  ("pkg/expressions/stdmath/tokenizer.go", "tokenizeExpr", "index", "s[i]", Inspect "i < len(s) loop bound; len(ret) > 0 tested in the same condition");
  ("pkg/expressions/stdmath/tokenizer.go", "tokenizeExpr", "index", "uniOps[OpCode(prev)]", Inert "map access (a missing key reads the zero value; the map is made before it is written)");
  ("pkg/expressions/stdmath/tokenizer.go", "tokenizeExpr", "index", "ret[len(ret)-1]", Inspect "index below a length / arity test made just before (len(args) pattern of the model)");
  ("pkg/expressions/stdmath/tokenizer.go", "tokenizeExpr", "slice", "s[i:]", Inspect "i < len(s) loop bound; len(ret) > 0 tested in the same condition");
  ("pkg/stringSplitter/splitter.go", "Splitter.Next", "slice", "s.S[s.next:]", Lemma G_splitter);
  ("pkg/stringSplitter/splitter.go", "Splitter.Next", "slice", "s.S[s.next:idx]", Lemma G_splitter);
  ("pkg/multiterm/termunicode/bars.go", "BarWrite", "index", "barUnicode[remainingBlocks]", Lemma G_bar);
  ("pkg/multiterm/termscaler/scale.go", "Scaler.Scale", "quo", "(s.mapVal(float64(val)) - minf10) / (maxf10 - minf10)", Inert "float64 division");
  ("pkg/color/coloring.go", "Wrap", "slice", "s[len(s)-len(Reset):]", Lemma G_wrap);
  ("pkg/color/coloring.go", "LookupColorByName", "index", "colorMap[strings.ToLower(s)]", Inert "map access (a missing key reads the zero value; the map is made before it is written)");
  ("pkg/humanize/numeric.go", "humanizeInt", "index", "buf[idx]", Inspect "at most 20 digits + 6 separators + 1 sign = 27 bytes are written, from the end of a 32-byte buffer");
  ("pkg/humanize/numeric.go", "humanizeInt", "rem", "u % 10", Inert "constant non-zero divisor");
  ("pkg/humanize/numeric.go", "humanizeInt", "quo", "u /= 10", Inert "constant non-zero divisor");
  ("pkg/humanize/numeric.go", "humanizeInt", "slice", "buf[idx+1:]", Inspect "at most 20 digits + 6 separators + 1 sign = 27 bytes are written, from the end of a 32-byte buffer");
  ("pkg/humanize/units.go", "AlwaysByteSize", "slice", "iecSizes[:]", Inert "full / empty slice of an array or buffer");
  ("pkg/humanize/units.go", "AlwaysByteSizeSi", "slice", "siSizes[:]", Inert "full / empty slice of an array or buffer");
  ("pkg/humanize/units.go", "AlwaysDownscale", "slice", "unitSize[:]", Inert "full / empty slice of an array or buffer");
  ("pkg/humanize/units.go", "unitize", "index", "units[0]", Lemma G_unitize);
  ("pkg/expressions/stdlib/funcsArithmatic.go", "arithmaticHelperiEx", "make", "make([]typedStage[int], len(args))", Inert "length is a len(..) expression");
  ("pkg/expressions/stageAnalysis.go", "IsStaticProbe", "typeassert", "context.(StaticProbe)", Inert "comma-ok type assertion");
  ("pkg/expressions/stdlib/funcsArithmatic.go", "unaryArithmaticHelperfi", "shift", "1 << 63", Inert "constant shift count");
  ("pkg/humanize/units.go", "unitizeFloat", "quo", "nf /= sf", Inert "float64 division");
  ("pkg/humanize/units.go", "unitizeFloat", "index", "units[rank]", Lemma G_unitize)

]%string.

Definition site_eqb (a b : string * string * string * string) : bool :=
  let '(f1, n1, k1, e1) := a in let '(f2, n2, k2, e2) := b in
  String.eqb f1 f2 && String.eqb n1 n2 && String.eqb k1 k2 && String.eqb e1 e2.
Definition site_fn (s : string * string * string * string) : string := snd (fst (fst s)).
Definition is_covered (s : string * string * string * string) : bool :=
  existsb (fun c => site_eqb (fst c) s) covered.
(* every site of the regenerated inventory lies in an unclaimed function or is on the list; and the
   list has no stale entry *)
Definition sites_all_covered : bool :=
  forallb (fun s => existsb (String.eqb (site_fn s)) unclaimed_funcs || is_covered s) panic_sites
  && forallb (fun c => existsb (site_eqb (fst c)) panic_sites) covered.

(* ------------------------------------------------------------------ correspondence observable *)
Inductive outcome :=
| RetOk (s : bytes)       (* Compile + BuildKey returned this string *)
| RetPanic                (* a Go panic was recovered, or the process died with a fatal error *)
| RetHang                 (* no answer within the watchdog's time / memory limit *)
| RetAny                  (* model side only: "returns some string" (no output model for this input) *)
| RetNot (s : bytes).     (* model side only: "returns a string other than s" *)

Definition outcome_eqb (m o : outcome) : bool :=
  match m, o with
  | RetOk a, RetOk b => bytes_eqb a b
  | RetAny, RetOk _ => true
  | RetNot s, RetOk b => negb (bytes_eqb s b)
  | RetPanic, RetPanic => true
  | RetHang, RetHang => true
  | _, _ => false
  end.

Inductive ccase :=
| CFlat (n : string) (args : list arg) (o : oracle)   (* one call of a helper with an output model, value arguments *)
| CRange (vs : list bytes)                            (* {@range ..} on these argument values *)
| CInf                                                (* an @for whose condition never turns false *)
| CAcc (m : bytes) (idx : Z)                          (* the expression {idx} as accumulator / group of one sample m *)
| CAny.                                               (* any other template *)

Definition of_result (r : result bytes) : outcome := match r with Ok s => RetOk s | Panic => RetPanic end.
Definition predict (c : ccase) : outcome :=
  match c with
  | CFlat n args o => match eval_name n args o with Some r => of_result r | None => RetAny end
  | CRange vs => match range_class vs with 1%N => RetOk M_ErrorValue | 2%N => RetNot M_ErrorValue | _ => RetAny end
  | CInf => RetOk ForInfMarker
  | CAcc m idx => RetOk (acc_get_match m idx)
  | CAny => RetAny
  end.

(* the property's boolean form on an observed outcome: the implementation returned a string *)
Definition C08_check (c : ccase) (o : outcome) : bool :=
  match o with RetOk _ | RetAny | RetNot _ => true | RetPanic | RetHang => false end.
