(* C12 — executable model of pkg/matchers/dissect (dissect.go CompileEx / FindSubmatchIndex,
   case.go indexIgnoreCase), after the repairs of defects #14 (ignore-case folds ASCII only, on
   both the pattern literals and the line bytes) and #24 (a token's trailing literal ends at the
   next "%{", not at the next '%').

   Byte strings are [list N]; offsets are [nat] (converted to Z at the observable).
   Case folding is a parameter [f : N -> N] of the generic definitions: case-sensitive is
   [f = fold_id], ignore-case is [f = lower].  Pattern literals are stored already folded
   (Go: strings lowered at compile time), line bytes are folded during the comparison
   (Go: indexIgnoreCase lowers s[i+j] and compares with the pre-lowered needle). *)
From Coq Require Import List NArith Bool Arith.
From RareV Require Import Base.Hex.
Import ListNotations.

Definition fold_id (b : N) : N := b.
(* ASCII-only lower-casing of one byte *)
Definition lower (b : N) : N := if (N.leb 65 b && N.leb b 90)%bool then (b + 32)%N else b.
Definition foldf (ic : bool) : N -> N := if ic then lower else fold_id.

(* ---------- substring search (strings.Index / indexIgnoreCase) ---------- *)

(* [needle] (already folded) matches at the head of [hay] when each hay byte is folded by [f] *)
Fixpoint prefix_at (f : N -> N) (needle hay : bytes) : bool :=
  match needle, hay with
  | [], _ => true
  | n :: ns, h :: hs => (f h =? n)%N && prefix_at f ns hs
  | _ :: _, [] => false
  end.

(* first index at which [needle] matches, scanning left to right; empty needle => 0 *)
Fixpoint index_of (f : N -> N) (needle hay : bytes) : option nat :=
  if prefix_at f needle hay then Some 0
  else match hay with
       | [] => None
       | _ :: hs => option_map S (index_of f needle hs)
       end.

(* ---------- compiled pattern ---------- *)

Record token := mkTok { t_name : bytes; t_until : bytes; t_skip : bool }.

Record dissect := mkD {
  d_ic : bool;               (* which indexOf function the instance uses *)
  d_prefix : bytes;          (* leading literal (folded) *)
  d_tokens : list token;     (* until-literals folded *)
  d_names : list bytes       (* groupNames: k-th entry (from 0) has index k+1; groupCount = length *)
}.

Inductive cerr := EUnclosed | ESequential | EConflict.
Inductive cres := COk (d : dissect) | CErr (e : cerr) | CFuel.

Definition PB : bytes := [37; 123]%N.   (* "%{" *)
Definition CB : bytes := [125]%N.       (* "}" *)
Definition QM : N := 63%N.              (* '?' *)

Definition name_in (n : bytes) (names : list bytes) : bool := existsb (bytes_eqb n) names.

(* special flags: empty key = skip, leading '?' = named skip *)
Definition key_flags (key : bytes) : bytes * bool :=
  match key with
  | [] => ([], true)
  | c :: r => if (c =? QM)%N then (r, true) else (key, false)
  end.

(* end of a token's trailing literal: the next "%{" or the end of the pattern; None = "%{" follows
   immediately (sequential tokens) *)
Definition until_end (expr : bytes) : option nat :=
  match index_of fold_id PB expr with
  | None => Some (length expr)
  | Some 0 => None
  | Some e => Some e
  end.

(* the loop of CompileEx; [prefix] is the raw leading literal, [parts]/[names] grow at the end.
   Every iteration consumes at least "%{" and "}", so fuel = S (length expr) is enough
   (Proofs/DissectCompile.v: compile never returns CFuel). *)
Fixpoint cloop (f : N -> N) (fuel : nat) (expr prefix : bytes) (parts : list token) (names : list bytes)
  : cerr + option (bytes * list token * list bytes) :=
  match fuel with
  | O => inr None
  | S fuel =>
    match index_of fold_id PB expr with
    | None =>
        inr (Some (match parts with [] => expr | _ => prefix end, parts, names))
    | Some start =>
        let prefix := match parts with [] => firstn start expr | _ => prefix end in
        let expr := skipn (start + 2) expr in
        match index_of fold_id CB expr with
        | None => inl EUnclosed
        | Some stop =>
            let key := firstn stop expr in
            let expr := skipn (stop + 1) expr in
            match until_end expr with
            | None => inl ESequential
            | Some e =>
                let until := map f (firstn e expr) in
                let expr := skipn e expr in
                let '(name, skip) := key_flags key in
                let parts := parts ++ [mkTok name until skip] in
                if skip then cloop f fuel expr prefix parts names
                else if name_in name names then inl EConflict
                else cloop f fuel expr prefix parts (names ++ [name])
            end
        end
    end
  end.

Definition compile_f (ic : bool) (f : N -> N) (pat : bytes) : cres :=
  match cloop f (S (length pat)) pat [] [] [] with
  | inl e => CErr e
  | inr None => CFuel
  | inr (Some (prefix, parts, names)) => COk (mkD ic (map f prefix) parts names)
  end.

Definition compile (ic : bool) (pat : bytes) : cres := compile_f ic (foldf ic) pat.

(* ---------- matching (FindSubmatchIndex) ---------- *)

(* the token loop: returns the captured (start, end) offsets in order and the final [start] *)
Fixpoint scan (f : N -> N) (toks : list token) (line : bytes) (start : nat) : option (list nat * nat) :=
  match toks with
  | [] => Some ([], start)
  | t :: ts =>
      match (match t_until t with
             | [] => Some (length line - start)                    (* len(str[start:]) *)
             | u => index_of f u (skipn start line)
             end) with
      | None => None
      | Some off =>
          match scan f ts line (start + off + length (t_until t)) with
          | None => None
          | Some (caps, stop) =>
              Some ((if t_skip t then [] else [start; start + off]) ++ caps, stop)
          end
      end
  end.

Definition find_f (f : N -> N) (d : dissect) (line : bytes) : option (list nat) :=
  match (match d_prefix d with [] => Some 0 | p => index_of f p line end) with
  | None => None
  | Some s0 =>
      match scan f (d_tokens d) line (s0 + length (d_prefix d)) with
      | None => None
      | Some (caps, stop) => Some (s0 :: stop :: caps)
      end
  end.

Definition find (d : dissect) (line : bytes) : option (list nat) := find_f (foldf (d_ic d)) d line.

(* ---------- declarative specification ---------- *)

(* [needle] occurs in [hay] at offset [i] (hay bytes folded by [f]) *)
Definition occurs (f : N -> N) (needle hay : bytes) (i : nat) : Prop :=
  exists a m b, hay = a ++ m ++ b /\ length a = i /\ map f m = needle.

Definition first_occ (f : N -> N) (needle hay : bytes) (i : nat) : Prop :=
  occurs f needle hay i /\ forall j, j < i -> ~ occurs f needle hay j.

Definition capture (t : token) (s e : nat) : list nat := if t_skip t then [] else [s; e].

(* tokens matched from offset [s]: captured offsets and the offset after the last delimiter *)
Inductive scan_spec (f : N -> N) (line : bytes) : list token -> nat -> list nat -> nat -> Prop :=
| ss_nil : forall s, scan_spec f line [] s [] s
| ss_rest : forall t ts s caps e,          (* no trailing literal: to the end of the line *)
    t_until t = [] ->
    scan_spec f line ts (length line) caps e ->
    scan_spec f line (t :: ts) s (capture t s (length line) ++ caps) e
| ss_delim : forall t ts s off caps e,     (* up to the first following occurrence of the literal *)
    t_until t <> [] ->
    first_occ f (t_until t) (skipn s line) off ->
    scan_spec f line ts (s + off + length (t_until t)) caps e ->
    scan_spec f line (t :: ts) s (capture t s (s + off) ++ caps) e.

Definition match_spec (f : N -> N) (d : dissect) (line : bytes) (r : list nat) : Prop :=
  exists s0 caps e, r = s0 :: e :: caps /\
    first_occ f (d_prefix d) line s0 /\
    scan_spec f line (d_tokens d) (s0 + length (d_prefix d)) caps e.

Definition dissect_spec (f : N -> N) (d : dissect) (line : bytes) (r : option (list nat)) : Prop :=
  match r with
  | Some r => match_spec f d line r
  | None => forall r, ~ match_spec f d line r
  end.

(* ---------- boolean forms used on observed outputs ---------- *)

(* lo <= x1 <= x2 <= ... <= hi *)
Fixpoint chainb (lo : nat) (l : list nat) (hi : nat) : bool :=
  match l with
  | [] => lo <=? hi
  | x :: r => (lo <=? x) && chainb x r hi
  end.

(* a result [s0; e; caps...] for a line of length n with g groups *)
Definition result_okb (n g : nat) (r : list nat) : bool :=
  match r with
  | s0 :: e :: caps => chainb s0 caps e && (e <=? n) && (length caps =? 2 * g)
  | _ => false
  end.

Definition nonskip (toks : list token) : list token := filter (fun t => negb (t_skip t)) toks.
