(* C18 — proleptic Gregorian calendar on Z: the calendar facts Go's `time` package computes for
   pkg/expressions/stdlib/funcsTime.go (Time.Date/Clock/Weekday/ISOWeek/YearDay), the quarter
   attribute of funcsTime.go attrType, and truncation to the bucket units of timeBucketToFormat.
   Days are counted from 1970-01-01 (day 0); instants are unix seconds; a zone is an offset in
   seconds supplied from outside (zone rules are an oracle). Floor division (Z.div / Z.modulo)
   throughout, Go's truncated division (Z.quot / Z.rem) only where the Go code divides ints. *)
From Coq Require Import List ZArith Bool.
From RareV Require Import Base.Hex.
Import ListNotations.
Local Open Scope Z_scope.

(* ---- days <-> civil date (400-year-era algorithm) ---- *)
Definition days_from_civil (y m d : Z) : Z :=
  let y := if m <=? 2 then y - 1 else y in
  let era := y / 400 in
  let yoe := y - era * 400 in
  let doy := (153 * (if m >? 2 then m - 3 else m + 9) + 2) / 5 + d - 1 in
  let doe := yoe * 365 + yoe / 4 - yoe / 100 + doy in
  era * 146097 + doe - 719468.

(* the date of era 0 for a day-of-era in [0, 146097) *)
Definition civil_of_doe (doe : Z) : Z * Z * Z :=
  let yoe := (doe - doe / 1460 + doe / 36524 - doe / 146096) / 365 in
  let doy := doe - (365 * yoe + yoe / 4 - yoe / 100) in
  let mp := (5 * doy + 2) / 153 in
  let d := doy - (153 * mp + 2) / 5 + 1 in
  let m := if mp <? 10 then mp + 3 else mp - 9 in
  (if m <=? 2 then yoe + 1 else yoe, m, d).

Definition civil_from_days (z : Z) : Z * Z * Z :=
  let z := z + 719468 in
  let era := z / 146097 in
  let doe := z - era * 146097 in
  let '(y, m, d) := civil_of_doe doe in
  (y + era * 400, m, d).

Definition is_leap (y : Z) : bool :=
  (y mod 4 =? 0) && (negb (y mod 100 =? 0) || (y mod 400 =? 0)).

Definition days_in_month (y m : Z) : Z :=
  if m =? 2 then (if is_leap y then 29 else 28)
  else if (m =? 4) || (m =? 6) || (m =? 9) || (m =? 11) then 30 else 31.

Definition year_start (y : Z) : Z := days_from_civil y 1 1.

(* ---- weekday: 0 = Sunday … 6 = Saturday (Go time.Weekday); 1970-01-01 was a Thursday ---- *)
Definition weekday (day : Z) : Z := (day + 4) mod 7.

(* ---- ISO 8601 week (Go Time.ISOWeek): the Thursday of the Monday..Sunday week of the day
        decides the ISO year; the week number is that Thursday's 0-based year day / 7 + 1 ---- *)
Definition iso_thursday (day : Z) : Z := day + (3 - (weekday day + 6) mod 7).
Definition isoweek (day : Z) : Z * Z :=
  let th := iso_thursday day in
  let '(y, _, _) := civil_from_days th in
  (y, (th - year_start y) / 7 + 1).

(* ---- quarter ---- *)
(* funcsTime.go attrType "QUARTER" as written: month/3 + 1 (Go int division) — defect C18-quarter *)
Definition quarter_go (month : Z) : Z := Z.quot month 3 + 1.
(* repaired: (month-1)/3 + 1 *)
Definition quarter (month : Z) : Z := Z.quot (month - 1) 3 + 1.

(* ---- an instant seen in a zone ---- *)
Record civil := mkcivil {
  c_year : Z; c_month : Z; c_day : Z;       (* month 1..12, day 1..31 *)
  c_hour : Z; c_min : Z; c_sec : Z; c_nsec : Z;
  c_wday : Z;                               (* 0 = Sunday *)
  c_yday : Z;                               (* 1-based day of the year *)
  c_off : Z;                                (* zone offset, seconds east of UTC *)
  c_abbr : bytes                            (* zone abbreviation; [] = none known *)
}.

Definition local_secs (t off : Z) : Z := t + off.

Definition civil_of (t nsec off : Z) (abbr : bytes) : civil :=
  let l := local_secs t off in
  let day := l / 86400 in
  let sod := l mod 86400 in
  let '(y, m, d) := civil_from_days day in
  mkcivil y m d (sod / 3600) (sod mod 3600 / 60) (sod mod 60) nsec
          (weekday day) (day - year_start y + 1) off abbr.

(* wall-clock fields -> seconds since the epoch, reading the fields as UTC (Go Date(..., UTC).Unix()
   for in-range fields) *)
Definition wall_secs (y m d hh mm ss : Z) : Z :=
  days_from_civil y m d * 86400 + hh * 3600 + mm * 60 + ss.

(* ---- truncation of a local time to the bucket units (buckettime) ---- *)
Inductive unit_ := UNanos | USeconds | UMinutes | UHours | UDays | UMonths | UYears.

(* greatest local second <= l that starts a unit *)
Definition trunc_local (u : unit_) (l : Z) : Z :=
  match u with
  | UNanos | USeconds => l
  | UMinutes => l - l mod 60
  | UHours => l - l mod 3600
  | UDays => l - l mod 86400
  | UMonths => let '(y, m, _) := civil_from_days (l / 86400) in days_from_civil y m 1 * 86400
  | UYears => let '(y, _, _) := civil_from_days (l / 86400) in year_start y * 86400
  end.
