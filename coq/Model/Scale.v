(* C14 — pkg/multiterm/termscaler/scale.go over exact rationals.

   A float64 value is the rational it denotes.  Every arithmetic result of the Go code is
   [rnd (exact result)] for a rounding function [rnd] that is a parameter of the model, as is the
   mapper [m x = mapVal(float64(x))] (identity, log2, log10 composed with the int64->float64
   conversion).  The theorems (Proofs/ScaleProof.v) hold for every monotone mapper and every
   monotone rounding that fixes 0, 1 and small integers — exact arithmetic (rnd = id) and IEEE
   round-to-nearest are instances.  The correspondence instantiates [rnd] with [round53]
   (round-to-nearest-even to 53 significant bits, below) and compares bit-exactly with Go. *)
From Coq Require Import List ZArith QArith Qround Qabs Bool.
From RareV Require Import Base.Num.
Import ListNotations.
Local Open Scope Q_scope.

(* Go int(f) / int64(f) for an in-range float: truncation toward zero *)
Definition qtrunc (q : Q) : Z := Z.quot (Qnum q) (Zpos (Qden q)).

Section Scale.
  Variable m : Z -> Q.      (* s.mapVal(float64(x)) *)
  Variable rnd : Q -> Q.    (* float64 rounding of an exact result *)

  (* remapMinMax, repaired (C14-scale-maxint): `max = min + 1` only when it does not wrap *)
  Definition remap (mn mx : Z) : Q * Q :=
    let mx' := if (mx <=? mn)%Z then (if (mn <? max_int64)%Z then mn + 1 else mn)%Z else mx in
    (inject_Z (Qfloor (m mn)), inject_Z (Qceiling (m mx'))).

  (* Scaler.Scale *)
  Definition scale (v mn mx : Z) : Q :=
    if (mx <? mn)%Z then 0
    else if (v <? mn)%Z then 0
    else if (mx <? v)%Z then 1
    else let '(lo, hi) := remap mn mx in
         if Qeq_bool lo hi then 0
         else rnd (rnd (m v - lo) / rnd (hi - lo)).

  (* termscaler.Bucket / LengthVal: int(unitVal * float64(n)) *)
  Definition bucket (n : Z) (u : Q) : Z := qtrunc (rnd (u * inject_Z (n - 1))).
  Definition length_val (len : Z) (u : Q) : Z := qtrunc (rnd (u * inject_Z len)).

  (* Scaler.ScaleKeys for buckets >= 2: the bucket values before int64() and de-duplication;
     [un] is unmapVal *)
  Variable un : Q -> Q.
  Definition key_at (lo hi : Q) (buckets i : Z) : Z :=
    qtrunc (un (rnd (rnd (rnd (rnd (hi - lo) * inject_Z i) / inject_Z (buckets - 1)) + lo))).
  Fixpoint dedup_adj (l : list Z) : list Z :=
    match l with
    | a :: (b :: _) as r => if (a =? b)%Z then dedup_adj r else a :: dedup_adj r
    | _ => l
    end.
  Definition scale_keys (buckets : nat) (mn mx : Z) : list Z :=
    let '(lo, hi) := remap mn mx in
    dedup_adj (map (fun i => key_at lo hi (Z.of_nat buckets) (Z.of_nat i)) (seq 0 buckets)).
End Scale.

(* ---- the rounding used by the correspondence: nearest-even to 53 significant bits ----
   (binary64 without overflow/underflow: |q| within the normal range, which holds for every
   value the renderers compute from int64 data) *)
Definition rne (q : Q) : Z :=          (* round half to even, q >= 0 *)
  let f := Qfloor q in
  let r := q - inject_Z f in
  match Qcompare r (1 # 2) with
  | Lt => f
  | Gt => (f + 1)%Z
  | Eq => if Z.even f then f else (f + 1)%Z
  end.
Definition qpow2 (e : Z) : Q := if (0 <=? e)%Z then inject_Z (2 ^ e) else 1 / inject_Z (2 ^ (- e)).
Definition round53 (q : Q) : Q :=
  if Qeq_bool q 0 then 0 else
  let a := Qabs q in
  let e0 := (Z.log2 (Qnum a) - Z.log2 (Zpos (Qden a)) - 53)%Z in
  (* a / 2^e0 lies in (2^52, 2^54) *)
  let e := if Qle_bool (inject_Z (2 ^ 53)) (a / qpow2 e0) then (e0 + 1)%Z else e0 in
  let e := if Qle_bool (inject_Z (2 ^ 52)) (a / qpow2 e) then e else (e - 1)%Z in
  let r := Qred (inject_Z (rne (a / qpow2 e)) * qpow2 e) in
  if Qle_bool 0 q then r else - r.

(* the mappers: linear is int64 -> float64 conversion; the logarithms enter pre-evaluated
   (math.Log2 / math.Log10 / math.Pow are trusted) as a finite table *)
Fixpoint zlookup (x : Z) (t : list (Z * Q)) : Q :=
  match t with [] => 0 | (k, v) :: r => if (k =? x)%Z then v else zlookup x r end.
