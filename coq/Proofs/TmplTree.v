(* Tree-level facts: the printed form of an admissible concrete tree is copied verbatim by both
   tokenisers where it is nested, and is split into exactly its items where it is a statement. *)
From Coq Require Import List NArith ZArith Bool Lia Arith.
From RareV Require Import Base.Res Base.Hex Base.Num Model.IsSpace Model.Tmpl Model.TmplPrint
  Proofs.TmplFuel Proofs.TmplEsc Proofs.TmplCopy.
Import ListNotations.
Local Open Scope N_scope.

(* ---- induction principle for the nested mutual type ---- *)
Section CInd.
  Variable P : cpiece -> Prop.
  Variable Q : carg -> Prop.
  Hypothesis HLit : forall s, P (CLit s).
  Hypothesis HVar : forall pre q w post, P (CVar pre q w post).
  Hypothesis HCall : forall pre qf f args post, Forall Q args -> P (CCall pre qf f args post).
  Hypothesis HArg : forall sep q body, Forall P body -> Q (CArg sep q body).
  Fixpoint cpiece_ind2 (c : cpiece) : P c :=
    match c with
    | CLit s => HLit s
    | CVar pre q w post => HVar pre q w post
    | CCall pre qf f args post =>
        HCall pre qf f args post
          ((fix go (l : list carg) : Forall Q l :=
              match l with [] => Forall_nil Q | a :: r => Forall_cons a (carg_ind2 a) (go r) end) args)
    end
  with carg_ind2 (a : carg) : Q a :=
    match a with
    | CArg sep q body =>
        HArg sep q body
          ((fix go (l : list cpiece) : Forall P l :=
              match l with [] => Forall_nil P | c :: r => Forall_cons c (cpiece_ind2 c) (go r) end) body)
    end.
End CInd.

(* ---- the text between the braces of a statement; the text of an argument ---- *)
Definition stmt_body (c : cpiece) : str :=
  match c with
  | CLit _ => []
  | CVar pre q w post => pre ++ quote q w ++ post
  | CCall pre qf f args post => pre ++ quote qf f ++ concat (map print_arg args) ++ post
  end.
Definition is_stmt (c : cpiece) : bool := match c with CLit _ => false | _ => true end.
Definition argstr (a : carg) : str := match a with CArg _ _ body => print body end.

Lemma print_stmt c : is_stmt c = true -> print_piece c = 123 :: stmt_body c ++ [125].
Proof.
  destruct c; cbn [is_stmt print_piece stmt_body]; intros H; try discriminate.
  - rewrite <- !app_assoc. reflexivity.
  - rewrite <- !app_assoc. reflexivity.
Qed.

Lemma item_ok_inv q w : item_ok q w = true ->
  safe_str w = true /\ (q = false -> w <> [] /\ nospace w = true).
Proof.
  unfold item_ok. intros H. apply andb_true_iff in H as [H1 H2]. split; auto.
  intros ->. cbn [orb] in H2. apply andb_true_iff in H2 as [H2 H3]. split; auto.
  destruct w; [discriminate|congruence].
Qed.

(* ---- verbatim copying of nested text ---- *)
(* item (word, function name) inside a nested statement *)
Lemma okO_item q w k y : safe_str w = true -> okO k (quote q w ++ y) = okO k y.
Proof.
  intros H. destruct q; cbn [quote app].
  - rewrite okO_quote. rewrite <- app_assoc. rewrite okO_safe by assumption. reflexivity.
  - apply okO_safe; assumption.
Qed.

Lemma okS_item q w k y : safe_str w = true -> okS (S k) false (quote q w ++ y) = okS (S k) false y.
Proof.
  intros H. destruct q; cbn [quote].
  - rewrite <- app_comm_cons, <- app_assoc. cbn [app].
    apply okS_quoted_item; [apply safe_noquote|apply safe_nobsl]; assumption.
  - apply okS_deep_safe; assumption.
Qed.

Definition good_str (x : str) : Prop := okO 0 x = true.

Definition GoodP (c : cpiece) : Prop :=
  wf_piece c = true ->
  okO 0 (print_piece c) = true /\ okO 0 (stmt_body c) = true /\
  (is_stmt c = true -> okS 0 false (print_piece c) = true /\ okS 1 false (stmt_body c ++ [125]) = true).
(* the printed argument (with its separator), nested one level down *)
Definition GoodA (a : carg) : Prop :=
  wf_arg a = true ->
  okO 0 (argstr a) = true /\
  (forall k y, okO k (print_arg a ++ y) = okO k y) /\
  (forall k y, okS (S k) false (print_arg a ++ y) = okS (S k) false y) /\
  (match a with CArg _ q _ => if q then noquote (argstr a) = true /\ nobsl (argstr a) = true
                               else okS 0 false (argstr a) = true /\ argstr a <> [] end).

Lemma okO_app0 x k y : okO 0 x = true -> okO k (x ++ y) = okO k y.
Proof. intros H. apply (okO_app x 0 k y H). Qed.
Lemma okS_app0 x k y : okS 0 false x = true -> okS k false (x ++ y) = okS k false y.
Proof. intros H. apply (okS_app x 0 false k y H). Qed.

(* bodies: sequences of pieces *)
Lemma body_okO body : Forall GoodP body -> forallb wf_piece body = true ->
  forall k y, okO k (print body ++ y) = okO k y.
Proof.
  induction 1 as [|c r Hc Hr IH]; intros Hwf k y; cbn [print map concat app]; auto.
  cbn [forallb] in Hwf. apply andb_true_iff in Hwf as [H1 H2].
  rewrite <- app_assoc. destruct (Hc H1) as (Ho & _). rewrite okO_app0 by assumption. apply IH; auto.
Qed.

Lemma body_okS_deep body : Forall GoodP body -> forallb wf_piece body = true ->
  forall k y, okS (S k) false (print body ++ y) = okS (S k) false y.
Proof.
  induction 1 as [|c r Hc Hr IH]; intros Hwf k y; cbn [print map concat app]; auto.
  cbn [forallb] in Hwf. apply andb_true_iff in Hwf as [H1 H2].
  rewrite <- app_assoc. fold (print r).
  destruct (Hc H1) as (_ & _ & Hs).
  destruct c as [s|pre q w post|pre qf f args post].
  - cbn [print_piece]. cbn [wf_piece] in H1. rewrite okS_deep_safe by assumption. apply IH; auto.
  - destruct (Hs eq_refl) as [Hs1 _]. rewrite okS_app0 by assumption. apply IH; auto.
  - destruct (Hs eq_refl) as [Hs1 _]. rewrite okS_app0 by assumption. apply IH; auto.
Qed.

Lemma body_okS_bare body : Forall GoodP body -> forallb wf_piece body = true -> forallb bare_lit body = true ->
  forall y, okS 0 false (print body ++ y) = okS 0 false y.
Proof.
  induction 1 as [|c r Hc Hr IH]; intros Hwf Hb y; cbn [print map concat app]; auto.
  cbn [forallb] in Hwf, Hb. apply andb_true_iff in Hwf as [H1 H2]. apply andb_true_iff in Hb as [Hb1 Hb2].
  rewrite <- app_assoc. fold (print r).
  destruct (Hc H1) as (_ & _ & Hs).
  destruct c as [s|pre q w post|pre qf f args post].
  - cbn [print_piece]. cbn [wf_piece] in H1. cbn [bare_lit] in Hb1. rewrite okS_word by assumption. apply IH; auto.
  - destruct (Hs eq_refl) as [Hs1 _]. rewrite okS_app0 by assumption. apply IH; auto.
  - destruct (Hs eq_refl) as [Hs1 _]. rewrite okS_app0 by assumption. apply IH; auto.
Qed.

Lemma body_nobsl body : Forall GoodP body -> forallb wf_piece body = true -> nobsl (print body) = true.
Proof.
  intros HF Hwf. apply (okO_nobsl _ 0). rewrite <- (app_nil_r (print body)).
  rewrite body_okO by assumption. reflexivity.
Qed.

Lemma args_okO args : Forall GoodA args -> forallb wf_arg args = true ->
  forall k y, okO k (concat (map print_arg args) ++ y) = okO k y.
Proof.
  induction 1 as [|a r Ha Hr IH]; intros Hwf k y; cbn [map concat app]; auto.
  cbn [forallb] in Hwf. apply andb_true_iff in Hwf as [H1 H2].
  rewrite <- app_assoc. destruct (Ha H1) as (_ & Ho & _). rewrite Ho. apply IH; auto.
Qed.

Lemma args_okS args : Forall GoodA args -> forallb wf_arg args = true ->
  forall k y, okS (S k) false (concat (map print_arg args) ++ y) = okS (S k) false y.
Proof.
  induction 1 as [|a r Ha Hr IH]; intros Hwf k y; cbn [map concat app]; auto.
  cbn [forallb] in Hwf. apply andb_true_iff in Hwf as [H1 H2].
  rewrite <- app_assoc. destruct (Ha H1) as (_ & _ & Hs & _). rewrite Hs. apply IH; auto.
Qed.

Lemma good_arg_case sep q body : Forall GoodP body -> GoodA (CArg sep q body).
Proof.
  intros HF Hwf. cbn [wf_arg] in Hwf.
    apply andb_true_iff in Hwf as [Hwf Hq]. apply andb_true_iff in Hwf as [Hwf Hbody].
    apply andb_true_iff in Hwf as [Hsep Hsepne].
    pose proof (ws_safe _ Hsep) as Ssep. fold (print body) in Hq.
    pose proof (body_nobsl body HF Hbody) as Hnb.
    cbn [argstr print_arg].
    split; [|split; [|split]].
    + rewrite <- (app_nil_r (print body)). rewrite body_okO by assumption. reflexivity.
    + intros k y. rewrite <- app_assoc. rewrite okO_safe by assumption. fold (print body).
      destruct q; cbn [quote].
      * cbn [app]. rewrite okO_quote. rewrite <- app_assoc. rewrite body_okO by assumption. reflexivity.
      * apply body_okO; assumption.
    + intros k y. rewrite <- app_assoc. rewrite okS_deep_safe by assumption. fold (print body).
      destruct q; cbn [quote].
      * rewrite <- app_comm_cons, <- app_assoc. cbn [app]. apply okS_quoted_item; assumption.
      * apply body_okS_deep; assumption.
    + destruct q.
      * split; assumption.
      * apply andb_true_iff in Hq as [Hne Hbare]. split.
        -- rewrite <- (app_nil_r (print body)). rewrite body_okS_bare by assumption. reflexivity.
        -- destruct (print body); [discriminate|congruence].
Qed.

Lemma good_all : forall c, GoodP c.
Proof.
  apply (cpiece_ind2 GoodP GoodA).
  - (* CLit *) intros s Hwf. cbn [wf_piece] in Hwf. cbn [print_piece stmt_body is_stmt].
    split; [|split; [reflexivity|discriminate]].
    rewrite <- (app_nil_r s). rewrite okO_safe by assumption. reflexivity.
  - (* CVar *) intros pre q w post Hwf. cbn [wf_piece] in Hwf.
    apply andb_true_iff in Hwf as [Hwf Hi]. apply andb_true_iff in Hwf as [Hpre Hpost].
    destruct (item_ok_inv _ _ Hi) as [Hw _].
    pose proof (ws_safe _ Hpre) as Spre. pose proof (ws_safe _ Hpost) as Spost.
    assert (HbO : okO 0 (stmt_body (CVar pre q w post)) = true).
    { cbn [stmt_body]. rewrite okO_safe, okO_item by assumption.
      rewrite <- (app_nil_r post). rewrite okO_safe by assumption. reflexivity. }
    assert (HbS : okS 1 false (stmt_body (CVar pre q w post) ++ [125]) = true).
    { cbn [stmt_body]. rewrite <- !app_assoc. rewrite okS_deep_safe, okS_item, okS_deep_safe by assumption. reflexivity. }
    rewrite print_stmt by reflexivity. split; [|split; [assumption|intros _; split; [|assumption]]].
    + cbn [okO]. change (123 =? 92) with false. change (123 =? 123) with true. cbn iota.
      rewrite (okO_app _ 0 1) by assumption. reflexivity.
    + cbn [okS]. change (123 =? 92) with false. change (123 =? 34) with false. change (123 =? 123) with true. cbn iota.
      assumption.
  - (* CCall *) intros pre qf f args post HF Hwf. cbn [wf_piece] in Hwf.
    apply andb_true_iff in Hwf as [Hwf Hargs]. apply andb_true_iff in Hwf as [Hwf Hne].
    apply andb_true_iff in Hwf as [Hwf Hi]. apply andb_true_iff in Hwf as [Hpre Hpost].
    destruct (item_ok_inv _ _ Hi) as [Hw _].
    pose proof (ws_safe _ Hpre) as Spre. pose proof (ws_safe _ Hpost) as Spost.
    assert (HbO : okO 0 (stmt_body (CCall pre qf f args post)) = true).
    { cbn [stmt_body]. rewrite okO_safe, okO_item by assumption. rewrite args_okO by assumption.
      rewrite <- (app_nil_r post). rewrite okO_safe by assumption. reflexivity. }
    assert (HbS : okS 1 false (stmt_body (CCall pre qf f args post) ++ [125]) = true).
    { cbn [stmt_body]. rewrite <- !app_assoc. rewrite okS_deep_safe, okS_item by assumption.
      rewrite args_okS by assumption. rewrite okS_deep_safe by assumption. reflexivity. }
    rewrite print_stmt by reflexivity. split; [|split; [assumption|intros _; split; [|assumption]]].
    + cbn [okO]. change (123 =? 92) with false. change (123 =? 123) with true. cbn iota.
      rewrite (okO_app _ 0 1) by assumption. reflexivity.
    + cbn [okS]. change (123 =? 92) with false. change (123 =? 34) with false. change (123 =? 123) with true. cbn iota.
      assumption.
  - exact good_arg_case.
Qed.

Lemma good_arg a : GoodA a.
Proof.
  destruct a as [sep q body]. apply good_arg_case. apply Forall_forall. intros; apply good_all.
Qed.

(* ---- splitting a statement into its items ---- *)
Lemma tail_ok_ws s : ws s = true -> tail_ok s = true.
Proof. destruct s; cbn; auto. intros H. apply andb_true_iff in H as [H _]. exact H. Qed.

Lemma tail_ok_args args post : forallb wf_arg args = true -> ws post = true ->
  tail_ok (concat (map print_arg args) ++ post) = true.
Proof.
  destruct args as [|[sep q body] r]; cbn [map concat app]; intros Hwf Hpost.
  - apply tail_ok_ws; assumption.
  - cbn [forallb wf_arg] in Hwf. apply andb_true_iff in Hwf as [Hwf _].
    apply andb_true_iff in Hwf as [Hwf _]. apply andb_true_iff in Hwf as [Hwf _].
    apply andb_true_iff in Hwf as [Hsep Hne].
    cbn [print_arg]. destruct sep as [|c sep']; [discriminate|].
    cbn [app tail_ok]. cbn [ws forallb] in Hsep. apply andb_true_iff in Hsep as [Hc _]. exact Hc.
Qed.

(* a word or function name as an item *)
Lemma sp_word_item q w acc t : item_ok q w = true -> tail_ok t = true ->
  sp_run acc [] 0%Z false false (quote q w ++ t) = sp_run (acc ++ [w]) [] 0%Z false false t.
Proof.
  intros Hi Ht. destruct (item_ok_inv _ _ Hi) as [Hs Hb]. destruct q; cbn [quote].
  - rewrite <- app_comm_cons, <- app_assoc. cbn [app].
    apply sp_quoted_item; [apply safe_noquote|apply safe_nobsl]; assumption.
  - destruct (Hb eq_refl) as [Hne Hns]. apply sp_bare_item; auto.
    rewrite <- (app_nil_r w). rewrite okS_word by assumption. reflexivity.
Qed.

Lemma sp_args : forall args acc post, forallb wf_arg args = true -> ws post = true ->
  sp_run acc [] 0%Z false false (concat (map print_arg args) ++ post) = acc ++ map argstr args.
Proof.
  induction args as [|a r IH]; intros acc post Hwf Hpost; cbn [map concat app].
  - rewrite <- (app_nil_r post). rewrite sp_skip_spaces by assumption. rewrite sp_end, app_nil_r. reflexivity.
  - cbn [forallb] in Hwf. apply andb_true_iff in Hwf as [Ha Hr].
    pose proof (good_arg a Ha) as (_ & _ & _ & Hitem).
    pose proof (tail_ok_args r post Hr Hpost) as Ht.
    destruct a as [sep q body]. cbn [wf_arg] in Ha.
    apply andb_true_iff in Ha as [Ha _]. apply andb_true_iff in Ha as [Ha _]. apply andb_true_iff in Ha as [Hsep _].
    cbn [print_arg]. rewrite <- !app_assoc. rewrite sp_skip_spaces by assumption.
    fold (print body). cbn [argstr] in *.
    destruct q; cbn [quote].
    + destruct Hitem as [Hq Hb]. rewrite <- app_comm_cons, <- app_assoc. cbn [app].
      rewrite sp_quoted_item by assumption. rewrite IH by assumption. rewrite <- app_assoc. reflexivity.
    + destruct Hitem as [Hs Hne]. rewrite sp_bare_item by assumption.
      rewrite IH by assumption. rewrite <- app_assoc. reflexivity.
Qed.

Lemma split_var pre q w post : wf_piece (CVar pre q w post) = true ->
  split_args (stmt_body (CVar pre q w post)) = [w].
Proof.
  intros Hwf. cbn [wf_piece] in Hwf.
  apply andb_true_iff in Hwf as [Hwf Hi]. apply andb_true_iff in Hwf as [Hpre Hpost].
  unfold split_args. cbn [stmt_body]. rewrite sp_skip_spaces by assumption.
  rewrite sp_word_item; [|assumption|apply tail_ok_ws; assumption].
  rewrite <- (app_nil_r post). rewrite sp_skip_spaces by assumption. rewrite sp_end. reflexivity.
Qed.

Lemma split_call pre qf f args post : wf_piece (CCall pre qf f args post) = true ->
  split_args (stmt_body (CCall pre qf f args post)) = f :: map argstr args.
Proof.
  intros Hwf. cbn [wf_piece] in Hwf.
  apply andb_true_iff in Hwf as [Hwf Hargs]. apply andb_true_iff in Hwf as [Hwf Hne].
  apply andb_true_iff in Hwf as [Hwf Hi]. apply andb_true_iff in Hwf as [Hpre Hpost].
  unfold split_args. cbn [stmt_body]. rewrite sp_skip_spaces by assumption.
  rewrite sp_word_item; [|assumption|apply tail_ok_args; assumption].
  rewrite sp_args by assumption. reflexivity.
Qed.
