From Coq Require Import List Arith Lia Bool Permutation.
From RareV Require Import Model.ObjPool.
Import ListNotations.

(* all objects that exist are distinct: nobody shares an object with another holder or with the free list *)
Definition PI (p : pool) : Prop :=
  NoDup (free p ++ map snd (inuse p)) /\ (forall o, In o (free p ++ map snd (inuse p)) -> o < next p).

Lemma pool_init_ok n : PI (pool_init n).
Proof.
  unfold PI, pool_init; cbn. rewrite app_nil_r. split; [apply seq_NoDup|]. intros o H. apply in_seq in H. lia.
Qed.

Lemma get_ok t p : PI p -> PI (snd (get t p)).
Proof.
  intros (Hn & Hb). unfold get. destruct (rev (free p)) as [|o r] eqn:Er.
  - assert (free p = []) as Hf by (rewrite <- (rev_involutive (free p)), Er; reflexivity).
    rewrite Hf in *. unfold PI; cbn in *. split.
    + constructor; [|exact Hn]. intros Hin. apply Hb in Hin. lia.
    + intros o [<-|Hin]; [lia|]. apply Hb in Hin. lia.
  - assert (free p = rev r ++ [o]) as Hf by (rewrite <- (rev_involutive (free p)), Er; reflexivity).
    rewrite Hf in *. unfold PI; cbn [snd free inuse next map].
    assert (Permutation ((rev r ++ [o]) ++ map snd (inuse p)) (rev r ++ o :: map snd (inuse p))) as P
      by (rewrite <- app_assoc; reflexivity).
    split.
    + eapply Permutation_NoDup; [exact P|exact Hn].
    + intros x Hx. apply Hb. eapply Permutation_in; [symmetry; exact P|exact Hx].
Qed.

Lemma remove_pair_perm t o l : existsb (fun x => (fst x =? t) && (snd x =? o)) l = true ->
  Permutation (map snd l) (o :: map snd (remove_pair t o l)).
Proof.
  induction l as [|[t' o'] l IH]; [discriminate|]. cbn [existsb remove_pair map fst snd].
  destruct ((t' =? t) && (o' =? o)) eqn:E.
  - intros _. apply andb_true_iff in E as [_ E]. apply Nat.eqb_eq in E. subst. reflexivity.
  - cbn [orb]. intros H. cbn [map snd]. rewrite (IH H). apply perm_swap.
Qed.

Lemma ret_ok t o p : PI p -> existsb (fun x => (fst x =? t) && (snd x =? o)) (inuse p) = true -> PI (ret t o p).
Proof.
  intros (Hn & Hb) He. pose proof (remove_pair_perm _ _ _ He) as P.
  assert (Permutation (free p ++ map snd (inuse p)) ((free p ++ [o]) ++ map snd (remove_pair t o (inuse p)))) as Q.
  { rewrite P, <- app_assoc. reflexivity. }
  unfold PI, ret; cbn [free inuse next]. split.
  - eapply Permutation_NoDup; [exact Q|exact Hn].
  - intros x Hx. apply Hb. eapply Permutation_in; [symmetry; exact Q|exact Hx].
Qed.

Theorem pool_exclusive ops : forall p p', PI p ->
  fold_left (fun st op => match st with Some q => pstep q op | None => None end) ops (Some p) = Some p' -> PI p'.
Proof.
  induction ops as [|op ops IH]; intros p p' Hp H; cbn [fold_left] in H.
  - inversion H; subst. exact Hp.
  - destruct (pstep p op) as [q|] eqn:E.
    + apply (IH q p'); [|exact H]. destruct op as [t|t o]; cbn in E.
      * inversion E; subst. apply get_ok. exact Hp.
      * destruct (existsb _ _) eqn:Ex; [|discriminate]. inversion E; subst. apply ret_ok; assumption.
    + exfalso. clear -H. induction ops; cbn in H; [discriminate|auto].
Qed.

Lemma nodup_app_r {A} (a b : list A) : NoDup (a ++ b) -> NoDup b.
Proof. induction a as [|x a IH]; [auto|]. cbn. intros H. inversion H; subst. auto. Qed.

(* two holders never hold the same object; an object in use is not on the free list *)
Corollary holders_distinct p : PI p -> forall t1 o1 t2 o2 l1 l2 l3,
  inuse p = l1 ++ (t1, o1) :: l2 ++ (t2, o2) :: l3 -> o1 <> o2.
Proof.
  intros (Hn & _) t1 o1 t2 o2 l1 l2 l3 E. apply nodup_app_r in Hn. rewrite E in Hn.
  rewrite map_app in Hn. apply nodup_app_r in Hn. cbn [map snd] in Hn.
  inversion Hn as [|x l Hnin _]; subst. intros ->. apply Hnin. rewrite map_app. apply in_or_app. right. left. reflexivity.
Qed.

Corollary inuse_not_free p : PI p -> forall t o, In (t, o) (inuse p) -> ~ In o (free p).
Proof.
  intros (Hn & _) t o Hin Hf. apply (in_map snd) in Hin. cbn in Hin.
  apply in_split in Hf as (f1 & f2 & Ef). rewrite Ef, <- app_assoc in Hn. apply nodup_app_r in Hn.
  cbn in Hn. inversion Hn as [|x l Hnin _]; subst. apply Hnin. apply in_or_app. right. exact Hin.
Qed.
